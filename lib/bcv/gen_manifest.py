#!/usr/bin/env python3
"""Regenerate /verif/MANIFEST.json from the plan and the per-property texts below."""
import json, os, sys
HERE = os.path.dirname(os.path.abspath(__file__))
sys.path.insert(0, os.path.dirname(HERE))
from bcv import plan

ALL = ["C%02d" % i for i in range(1, 21)]
TEXT = plan.MANIFEST_TEXT
BASELINE_CMD = "cd /repo && (cargo nextest run --workspace --no-fail-fast --offline || cargo test --workspace --no-fail-fast --offline)"

m = {
    "version": 1,
    "setup_cmd": "/verif/bin/setup",
    "hooks": {
        "guard": "kani",
        "enable": "none in /repo: checks compile shadow copies of /repo's working tree (generated under $VERIF_SCRATCH, default /var/tmp) into which a `#[cfg(any(kani, verif_native))] pub mod verif_kani;` line and harness modules from /verif/harness are injected; cfg(kani) is set by Kani itself, cfg(verif_native) by the native replay driver",
        "baseline_off_cmd": BASELINE_CMD,
        "source_commits": [],
        "add_only": True,
    },
    "engines": [
        {"name": "kani-shadow", "path": "/verif/lib/bcv", "serves_properties": sorted(p for p in plan.PLAN.keys() if p in set(plan.CLAIMED)),
         "kind_free_text": "bounded symbolic execution of the compiled MIR of the real functions (Kani 0.68 / CBMC 6.11 / CaDiCaL SAT); inputs, lengths, states symbolic; counterexamples replayed natively against a copy of the real crate"},
    ],
    "checks": [],
    "not_applicable": [],
    "notes": "exit 2 = inconclusive (timeout, memory, engine error, non-reproducing counterexample); never reported as a pass. No hook or instrumentation commit exists in /repo (hooks.source_commits is empty); the only commits made to /repo are the 'fix:' repairs of genuine defects " + ", ".join(plan.FIX_COMMITS) + " (see /verif/known_findings.json and DESIGN.md 10.3).",
}
CLAIMED = set(plan.CLAIMED)
for pid in ALL:
    if pid in plan.PLAN and pid in TEXT and pid in CLAIMED:
        t = TEXT[pid]
        m["checks"].append({
            "property_id": pid,
            "quick_cmd": f"/verif/bin/check {pid} --tier quick",
            "thorough_cmd": f"/verif/bin/check {pid} --tier thorough",
            "evidence_file": f"/verif/evidence/{pid}.json",
            "replay_cmd_template": "/verif/bin/replay {path}",
            "engine": "kani-shadow",
            "level_claimed": {"category": "model_checking", "text": t["level"], "design_ref": t.get("design_ref", "DESIGN.md section 4 " + pid)},
            "level_note": t["note"],
            "technique": t["technique"],
        })
    else:
        m["not_applicable"].append({"property_id": pid, "reason": plan.NOT_APPLICABLE.get(pid, "check under construction in this session (no harness registered yet); not claimed until it runs green on the unchanged tree")})
json.dump(m, open(os.path.join(os.path.dirname(os.path.dirname(HERE)), "MANIFEST.json"), "w"), indent=1)
print("MANIFEST.json: %d checks, %d not_applicable" % (len(m["checks"]), len(m["not_applicable"])))

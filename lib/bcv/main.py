#!/usr/bin/env python3
"""check <PROPERTY> [--tier quick|thorough] [--only SUBSTR] [--jobs N] [--keep]

Decides one property by bounded symbolic execution (Kani/CBMC/CaDiCaL) of shadow copies of /repo's current
working tree.  Exit 0: every planned harness proved (and reachability cover satisfied) or only listed known
findings; exit 1: a counterexample that reproduces natively (VIOLATION line); exit 2: inconclusive."""
import argparse, concurrent.futures as cf, hashlib, json, os, re, shutil, signal, sys, threading, time

HERE = os.path.dirname(os.path.abspath(__file__))
sys.path.insert(0, os.path.dirname(HERE))
from bcv import shadow, kani, plan  # noqa: E402

VERIF = shadow.VERIF
REPO = shadow.REPO
META_RE = re.compile(r"^//@ harness (.*)$", re.M)


def parse_meta(path):
    out = []
    for m in META_RE.finditer(open(path).read()):
        line = m.group(1)
        d = {}
        dm = re.search(r'desc="(.*)"\s*$', line)
        if dm:
            d["desc"] = dm.group(1)
            line = line[:dm.start()]
        for kv in line.split():
            k, _, v = kv.partition("=")
            d[k] = v
        d.setdefault("tier", "quick")
        d["bits"] = int(d.get("bits", "0"))
        out.append(d)
    return out


class Ctx:
    def __init__(self, prop, tier, scratch, jobs, seed):
        self.prop, self.tier, self.scratch, self.jobs, self.seed = prop, tier, scratch, jobs, seed
        self.lock = threading.Lock()
        self.t0, self.measure = time.time(), False
        self.driver_locks = {}
        self.drivers = {}


def native_replay(ctx, grp, full_name, hexinp):
    """Build (once per shadow) the native driver and run the harness' prop on the counterexample bytes.
    Returns dict(dev=..., release=...) of REPLAY-RESULT strings."""
    key = grp["id"]
    with ctx.lock:
        lk = ctx.driver_locks.setdefault(key, threading.Lock())
    out = {}
    with lk:
        ddir = os.path.join(ctx.scratch, "driver_" + key)
        if key not in ctx.drivers:
            shadow.make_driver(ddir, grp["dir"], grp["variant"].get("pkg_name") or grp["variant"]["crate"], grp["variant"].get("features", []))
            ctx.drivers[key] = ddir
        hexfile = os.path.join(ddir, "input.hex")
        open(hexfile, "w").write(hexinp)
        for prof in ("dev", "release"):
            cmd = ["cargo", "run", "--offline", "-q"] + (["--release"] if prof == "release" else []) + ["--", full_name, "@" + hexfile]
            lp = os.path.join(ctx.scratch, f"replay_{key}_{prof}.log")
            rc, secs, _ = kani.run_cmd(cmd, ddir, lp, 1200, None, env={"RUSTFLAGS": "--cfg verif_native", "CARGO_TARGET_DIR": os.path.join(ddir, "target")})
            txt = open(lp).read()
            m = re.search(r"REPLAY-RESULT (\S+)", txt)
            out[prof] = m.group(1) if m else ("build-or-run-failed rc=%s: %s" % (rc, txt[-400:]))
    return out


def mem_available_gb():
    try:
        for line in open("/proc/meminfo"):
            if line.startswith("MemAvailable:"):
                return int(line.split()[1]) / (1 << 20)
    except OSError:
        pass
    return 1e9


_mem_cv = threading.Condition()
_mem_reserved = [0.0]


def mem_total_gb():
    try:
        for line in open("/proc/meminfo"):
            if line.startswith("MemTotal:"):
                return int(line.split()[1]) / (1 << 20)
    except OSError:
        pass
    return 64.0


def harness_need_gb(h):
    """Expected peak resident memory of a harness (GB): its need= key (measured peak + 20 %, written by bin/update-est for
    every harness measured above 2.5 GB), else half of an explicit mem= cap, else 2 GB (every quick harness has been
    measured: no need= means it stayed below 2.5 GB).  The first version defaulted to 9 GB for anything slower than 120 s,
    which admitted only five solver processes at a time and doubled the wall-clock time of C01."""
    if h.get("need"):
        return float(h["need"])
    if h.get("mem"):
        return max(3.0, float(h["mem"]) * 0.5)
    # (2 GB: sixteen unmeasured-small harnesses at 3 GB each reserved 48 of the 52 GB budget and made the few large ones of
    # C01 wait for them: 597 s wall for 366 s of work per core)
    return 2.0


def reserve_memory(need_gb, max_wait_s=3600):
    """Admission control: there is no swap, so solver processes that together outgrow the machine are killed by the kernel
    and their results are lost (seen: 12 of 107 C02 harnesses died when 14 started at once).  A harness starts only when
    the sum of the expected peaks of the running harnesses plus its own fits into 85 % of the machine AND that much memory
    is actually available now (other users of the machine); after max_wait_s it starts anyway (RLIMIT_AS still applies)."""
    budget = 0.85 * mem_total_gb()
    need_gb = min(need_gb, budget)
    t0 = time.time()
    with _mem_cv:
        while time.time() - t0 < max_wait_s:
            if _mem_reserved[0] + need_gb <= budget and (mem_available_gb() >= need_gb + 2 or _mem_reserved[0] == 0):
                break
            _mem_cv.wait(timeout=5)
        _mem_reserved[0] += need_gb
    return need_gb


def release_memory(got_gb):
    with _mem_cv:
        _mem_reserved[0] -= got_gb
        _mem_cv.notify_all()


def quick_deadline(ctx):
    """Quick tier only: the whole command must answer within the budget its caller gives it (900 s in `vp check`).  On
    the unchanged tree every quick check ends in 40-500 s; a change to /repo can make harnesses slower, and a check that
    is killed from outside can no longer print the violation another harness has already found.  So the quick tier has a
    wall deadline (VERIF_QUICK_DEADLINE, default 840 s after start, 0 = none): harnesses still running then are stopped
    and reported inconclusive, harnesses not started are reported inconclusive - never as a pass."""
    if ctx.tier != "quick" or getattr(ctx, "measure", False):
        return None
    d = int(os.environ.get("VERIF_QUICK_DEADLINE", "840"))
    return ctx.t0 + d if d > 0 else None


def run_harness(ctx, grp, h):
    dl = quick_deadline(ctx)
    def late():
        return {"harness": f"{grp['id']}/{h['_mod']}::{h['name']}", "variant": grp["id"], "verdict": "INCONCLUSIVE", "tier": h["tier"],
                "reason": "not started before the quick tier's wall deadline", "symbolic_bits": h["bits"], "desc": h.get("desc", ""), "wall_s": 0}
    if dl and time.time() > dl - 10:
        return late()
    got = reserve_memory(harness_need_gb(h), max_wait_s=(max(1, dl - 10 - time.time()) if dl else 3600))
    try:
        if dl and time.time() > dl - 10:
            return late()
        return run_harness_inner(ctx, grp, h)
    finally:
        release_memory(got)


def run_harness_inner(ctx, grp, h):
    modname = h["_mod"]
    # harness modules of verif_kani are addressed by their plain module name; inner modules by their full path
    full = f"{modname}::{h['name']}::check" if "::" in modname else f"verif_kani::{modname}::{h['name']}::check"
    short = f"{modname}::{h['name']}"
    tdir = os.path.join(ctx.scratch, "t_" + hashlib.sha1((grp["id"] + short).encode()).hexdigest()[:12])
    logp = os.path.join(ctx.scratch, f"log_{grp['id']}_{modname.replace('::', '.')}_{h['name']}.txt")
    cap = int(h.get("cap", plan.CAPS[ctx.tier]))
    dl = quick_deadline(ctx)
    if dl:
        cap = int(max(5, min(cap, dl - time.time())))
    mem = float(h.get("mem", plan.MEM_GB[ctx.tier]))
    cmd = ["/usr/bin/time", "-f", "VERIF_RSS_KB %M", "cargo", "kani", "--harness", full, "--exact",
           "-Z", "concrete-playback", "--concrete-playback=print", "--no-assertion-reach-checks", "--target-dir", tdir]
    if h.get("stub") == "1":
        cmd += ["-Z", "stubbing"]
    if os.path.exists(os.path.join(grp["dir"], "verif_uf.c")):
        cmd += ["-Z", "c-ffi", "--c-lib", os.path.join(grp["dir"], "verif_uf.c")]
    if h.get("solver"):
        cmd += ["--solver", h["solver"]]
    feats = grp["variant"].get("features", [])
    if feats:
        cmd += ["--features", ",".join(feats)]
    if h.get("cbmc_args"):
        # per-harness CBMC options, ';' separated (e.g. cbmc_args=--max-field-sensitivity-array-size;160); must stay last
        cmd += ["-Z", "unstable-options", "--cbmc-args"] + h["cbmc_args"].split(";")
    rc, secs, _ = kani.run_cmd(cmd, grp["dir"], logp, cap, mem)
    text = open(logp, errors="replace").read()
    shutil.rmtree(tdir, ignore_errors=True)
    r = kani.parse_log(text)
    m = re.search(r"VERIF_RSS_KB (\d+)", text)
    rec = {
        "harness": f"{grp['id']}/{short}", "variant": grp["id"], "_vname": grp["vname"], "_files": grp["files"], "desc": h.get("desc", ""), "tier": h["tier"],
        "symbolic_bits": h["bits"], "wall_s": round(secs, 1), "solver_s": round(r["solver_s"], 2),
        "symex_s": round(r["symex_s"], 2), "queries": r["queries"], "variables": r["variables"], "clauses": r["clauses"],
        "vccs": r["vccs"], "checks_total": len([c for c in r["checks"] if ".cover." not in c["name"]]),
        "checks_success": len([c for c in r["checks"] if c["status"] == "SUCCESS"]),
        "peak_rss_mb": int(m.group(1)) // 1024 if m else None, "stubs": r["stubs"], "functions": r["functions"][:60],
        "cap_s": cap, "mem_gb": mem, "cmd": " ".join(cmd[3:]),
    }
    cover = [c for c in r["checks"] if c["desc"] == "VERIF_REACHABLE"]
    rec["cover"] = cover[0]["status"] if cover else None
    failed = [c for c in r["checks"] if c["status"] == "FAILURE"]
    undet = [c for c in r["checks"] if c["status"] in ("UNDETERMINED",)]
    if rc is None:
        rec.update(verdict="INCONCLUSIVE", reason=f"timeout after {cap}s")
    elif r["compile_error"]:
        errs = re.findall(r"^error.*$", text, re.M)[:5]
        rec.update(verdict="INCONCLUSIVE", reason=("harness does not compile against current source: " + " | ".join(dict.fromkeys(errs)))[:400])
    elif not r["checks"]:
        rec.update(verdict="INCONCLUSIVE", reason=("out of memory" if r["oom"] else f"no results (rc={rc}): " + text[-300:].replace("\n", " ")))
    elif failed:
        only_unwind = all("unwinding assertion" in c["desc"] for c in failed)
        if only_unwind:
            rec.update(verdict="INCONCLUSIVE", reason="unwinding bound too small: " + failed[0]["loc"])
        else:
            real = [c for c in failed if "unwinding assertion" not in c["desc"]]
            rec["failed_checks"] = [{"name": c["name"], "desc": c["desc"], "loc": c["loc"]} for c in real[:8]]
            hexinp, kind, kdesc = kani.playback_inputs(text)
            rec["counterexample_hex"] = hexinp
            if any(c["desc"] == "VERIF_UF_CAPACITY" for c in real):
                rec.update(verdict="INCONCLUSIVE", reason="harness defect: uninterpreted-function log capacity exceeded (" + real[0]["loc"] + ")")
            elif hexinp is None:
                rec.update(verdict="INCONCLUSIVE", reason="FAILURE without extractable counterexample")
            else:
                rp = native_replay(ctx, grp, short, hexinp)
                rec["native_replay"] = rp
                bad = [p for p, v in rp.items() if v in ("violated", "panicked")]
                if bad:
                    rec.update(verdict="VIOLATION", reason=f"counterexample reproduces natively ({', '.join(p + ':' + rp[p] for p in bad)})")
                else:
                    rec.update(verdict="INCONCLUSIVE", reason=f"solver counterexample does not reproduce natively: {rp}")
    elif r["oom"]:
        rec.update(verdict="INCONCLUSIVE", reason="out of memory (solver)")
    elif undet or r["unsupported_reachable"]:
        rec.update(verdict="INCONCLUSIVE", reason="undetermined / unsupported construct reachable")
    elif r["verification"] != "SUCCESSFUL":
        rec.update(verdict="INCONCLUSIVE", reason=f"no SUCCESSFUL verdict (rc={rc})")
    elif rec["cover"] != "SATISFIED":
        rec.update(verdict="INCONCLUSIVE", reason=f"reachability cover is {rec['cover']} (vacuous harness)")
    else:
        rec.update(verdict="PASS", reason="")
    if rec["verdict"] != "PASS" and os.environ.get("VERIF_KEEP_LOGS"):
        shutil.copy(logp, os.path.join(os.environ["VERIF_KEEP_LOGS"], os.path.basename(logp)))
    return rec


GLOBAL_STATE_RE = re.compile(r"static\s+mut\b|UnsafeCell|\bCell<|RefCell|Atomic[A-Z]\w*|thread_local!|lazy_static|OnceCell|OnceLock|LazyLock|LazyCell|Mutex<|RwLock<")
GLOBAL_STATE_ALLOWED = re.compile(r"cpufeatures::new!\(aes_intrinsics,")


def global_state_listing():
    """C15 guard (not a deciding step): list every construct in the crates' sources that can hold state across calls.
    The C15 harnesses cover instance immutability, per-instance histories and the cpufeatures detection cache; any
    other such construct appearing in the sources is reported (-> inconclusive) until a harness covers it."""
    found, allowed = [], []
    for root, dirs, files in os.walk(REPO):
        dirs[:] = [d for d in dirs if d not in ("target", ".git", "tests", "benches")]
        for fn in files:
            if not fn.endswith(".rs") or "/src" not in root + "/":
                continue
            p = os.path.join(root, fn)
            for i, line in enumerate(open(p, errors="replace"), 1):
                code = line.split("//")[0]
                if GLOBAL_STATE_ALLOWED.search(code):
                    allowed.append(f"{os.path.relpath(p, REPO)}:{i}")
                elif GLOBAL_STATE_RE.search(code):
                    found.append(f"{os.path.relpath(p, REPO)}:{i}: {code.strip()[:80]}")
    return found, allowed


def load_known():
    p = os.path.join(VERIF, "known_findings.json")
    if not os.path.exists(p):
        return {"findings": [], "fixed": []}
    return json.load(open(p))


def finding_matches(f, prop, rec):
    if f.get("property") != prop:
        return False
    if f.get("harness") and not rec["harness"].endswith(f["harness"]):
        return False
    if f.get("input_mask") and rec.get("counterexample_hex"):
        inp = bytes.fromhex(rec["counterexample_hex"])
        mask = bytes.fromhex(f["input_mask"])
        val = bytes.fromhex(f["input_value"])
        if len(mask) > len(inp) or any((inp[i] & mask[i]) != val[i] for i in range(len(mask))):
            return False
    return True


def replay_main(path):
    """Re-run a recorded counterexample natively against a fresh shadow of /repo's current tree."""
    d = json.load(open(path))
    scratch = os.path.join(os.environ.get("VERIF_SCRATCH", "/var/tmp"), f"bcv.replay.{os.getpid()}")
    os.makedirs(scratch, exist_ok=True)
    try:
        vname, files = d["variant_name"], d["harness_files"]
        variant = plan.VARIANTS[vname]
        hfiles = [os.path.join(VERIF, "harness", f) for f in files]
        short = d["harness"].split("/", 1)[1]
        mod, name = short.rsplit("::", 1)
        gdir = os.path.join(scratch, "s", variant.get("pkg_name") or variant["crate"])
        shadow.make_shadow(gdir, variant, hfiles, [(mod, name)])
        ctx = Ctx(d["property"], "quick", scratch, 1, 0)
        grp = {"id": "r", "dir": gdir, "variant": variant}
        rp = native_replay(ctx, grp, short, d["input_hex"])
        print(f"REPLAY property={d['property']} harness={d['harness']} input={d['input_hex']} -> {rp}")
        bad = [p for p, v in rp.items() if v in ("violated", "panicked")]
        print("REPRODUCED" if bad else "NOT-REPRODUCED")
        return 1 if bad else 0
    finally:
        shutil.rmtree(scratch, ignore_errors=True)


def main():
    if len(sys.argv) >= 3 and sys.argv[1] == "--replay":
        sys.exit(replay_main(sys.argv[2]))
    ap = argparse.ArgumentParser()
    ap.add_argument("prop")
    ap.add_argument("--tier", default=os.environ.get("VERIF_TIER", "quick"), choices=["quick", "thorough"])
    ap.add_argument("--only", default=None)
    ap.add_argument("--jobs", type=int, default=int(os.environ.get("VERIF_JOBS", "14")))
    ap.add_argument("--keep", action="store_true")
    ap.add_argument("--no-evidence", action="store_true")
    ap.add_argument("--measure-thorough", action="store_true", help="development aid: run only the tier=thorough harnesses whose home is this property (each thorough-only harness once over all properties); evidence goes to $VERIF_EVIDENCE_DIR (default /var/tmp/evidence_thorough)")
    ap.add_argument("--list", action="store_true", help="list the selected harnesses with tier / est / mem and exit (development aid)")
    a = ap.parse_args()
    prop = a.prop.upper()
    seed = int(os.environ.get("VERIF_SEED", "0") or 0)
    t0 = time.time()
    if prop not in plan.PLAN:
        print(f"no check registered for {prop}")
        sys.exit(2)
    scratch_root = os.environ.get("VERIF_SCRATCH", "/var/tmp")
    scratch = os.path.join(scratch_root, f"bcv.{prop}.{os.getpid()}")
    os.makedirs(scratch, exist_ok=True)

    def cleanup(*_):
        if not a.keep:
            shutil.rmtree(scratch, ignore_errors=True)

    def on_sig(signum, frame):
        cleanup()
        os._exit(2)
    signal.signal(signal.SIGTERM, on_sig)
    signal.signal(signal.SIGINT, on_sig)
    ctx = Ctx(prop, a.tier, scratch, a.jobs, seed)
    ctx.t0, ctx.measure = t0, a.measure_thorough
    records, engine_errors, transforms = [], [], {}
    known = load_known()
    violations, known_hits, inconclusive = [], [], []
    os.makedirs(os.path.join(VERIF, "replay"), exist_ok=True)

    def classify(rec):
        # called as soon as a harness has answered: a reproduced counterexample is written to /verif/replay and its
        # VIOLATION line printed at once, so that it is on the output even if the command is stopped from outside later
        if rec["verdict"] == "VIOLATION":
            hit = [f for f in known["findings"] if finding_matches(f, prop, rec)]
            if hit:
                rec["known_finding"] = hit[0].get("id")
                known_hits.append((rec, hit[0]))
                print(f"KNOWN-FINDING: property={prop} {hit[0].get('what', rec['harness'])}", flush=True)
            else:
                n = len(violations) + 1
                rp = os.path.join(VERIF, "replay", f"{prop}-{n}.json")
                vn = rec["variant"]
                json.dump({"property": prop, "harness": rec["harness"], "variant": vn, "variant_name": rec.get("_vname"), "harness_files": rec.get("_files"), "input_hex": rec["counterexample_hex"],
                           "failed_checks": rec.get("failed_checks"), "native_replay": rec.get("native_replay"), "desc": rec["desc"]}, open(rp, "w"), indent=1)
                rec["replay_file"] = rp
                violations.append(rec)
                print(f"VIOLATION property={prop} replay={rp}", flush=True)
        elif rec["verdict"] == "INCONCLUSIVE":
            inconclusive.append(rec)
    if prop == "C15":
        found, allowed = global_state_listing()
        transforms["global_state_listing"] = {"covered_by_harness": allowed, "uncovered": found}
        for f in found:
            engine_errors.append(f"state-holding construct not covered by a C15 harness: {f}")
    try:
        groups = []
        for gi, ent in enumerate(plan.groups_for(prop, a.tier, seed)):
            vname, files = ent[0], ent[1]
            opts = ent[2] if len(ent) > 2 else {}
            # properties whose harnesses count for `prop` in this group (default: prop itself)
            accept = set([prop] + list(opts.get("include_props", [])))
            adopted = bool(opts.get("include_props"))
            variant = plan.VARIANTS[vname]
            hfiles = [os.path.join(VERIF, "harness", f) for f in files]
            hs = []
            for hf in hfiles:
                for h in parse_meta(hf):
                    h["_mod"] = shadow.harness_mod_name(hf)
                    # variants= restricts a harness to the listed variants; in an adopting group (feature build
                    # "x+feat" re-running the harnesses of other properties) the base variant "x" counts as well
                    if h.get("variants"):
                        allowed = h["variants"].split(",")
                        if vname not in allowed and not (adopted and vname.split("+")[0] in allowed):
                            continue
                    if h.get("prop") and not (accept & set(h["prop"].split(","))):
                        continue
                    hs.append(h)
            # harness modules injected inside private modules of the crate (variant["inner"])
            for rel_src, modpath, hrel in variant.get("inner", []):
                for h in parse_meta(os.path.join(VERIF, "harness", hrel)):
                    h["_mod"] = shadow.inner_mod_path(modpath, hrel)
                    if h.get("variants"):
                        allowed = h["variants"].split(",")
                        if vname not in allowed and not (adopted and vname.split("+")[0] in allowed):
                            continue
                    if h.get("prop") and not (accept & set(h["prop"].split(","))):
                        continue
                    hs.append(h)
            def wanted(h):
                # --only: comma-separated substrings matched against "<variant>/<module>::<harness name>"
                if not a.only:
                    return True
                full = "%s/%s::%s" % (vname, h["_mod"], h["name"])
                return any(o and o in full for o in a.only.split(","))
            def in_tier(h):
                # thorough: every harness that names the property.
                # quick: a tier=quick harness that serves several properties runs in the quick check of ONE of them, its
                # home: the first property of its prop= list whose plan contains this shadow variant (the adopting property
                # if none does), plus every property listed in its quick= key.  So each (variant, harness) pair is run by
                # exactly one quick check unless it says otherwise, and by the thorough check of every property it names.
                if a.tier != "quick" and not a.measure_thorough:
                    return True
                if a.measure_thorough:
                    if h["tier"] != "thorough":
                        return False
                    # VERIF_MEASURE_UNKNOWN=1: only harnesses that carry no measured est= yet
                    if os.environ.get("VERIF_MEASURE_UNKNOWN") and h.get("est"):
                        return False
                elif h["tier"] != "quick":
                    return False
                # quick_variants=: in the quick tier on the listed shadow variants only (thorough on the others)
                if h.get("quick_variants") and vname not in h["quick_variants"].split(","):
                    return False
                props = h.get("prop", prop).split(",")
                cands = [q for q in props if any(e[0] == vname for e in plan.PLAN.get(q, []))]
                home = cands[0] if cands else prop
                also = [x for x in h.get("quick", "").split(",") if x]
                return home == prop or prop in also
            sel = [h for h in hs if in_tier(h) and wanted(h)]
            if not sel:
                continue
            if a.list:
                for h in sel:
                    print("LIST %s %s/%s::%s tier=%s est=%s mem=%s need=%s" % (prop, vname, h["_mod"], h["name"], h["tier"], h.get("est", "?"), h.get("mem", "-"), h.get("need", "-")))
                continue
            gid = re.sub(r"[^A-Za-z0-9_]+", "_", vname)
            gdir = os.path.join(scratch, "s_" + gid, variant.get("pkg_name") or variant["crate"])
            try:
                _, tlog = shadow.make_shadow(gdir, variant, hfiles, [(h["_mod"], h["name"]) for h in hs])
                transforms[vname] = tlog
            except shadow.ShadowError as e:
                engine_errors.append(f"{vname}: {e}")
                continue
            grp = {"id": gid, "dir": gdir, "variant": variant, "vname": vname, "files": files}
            for h in sel:
                groups.append((grp, h))
        if a.list:
            cleanup()
            sys.exit(0)
        # longest first
        groups.sort(key=lambda gh: -int(gh[1].get("est", "10")))
        with cf.ThreadPoolExecutor(max_workers=a.jobs) as ex:
            futs = {ex.submit(run_harness, ctx, g, h): (g, h) for g, h in groups}
            for f in cf.as_completed(futs):
                g, h = futs[f]
                try:
                    rec = f.result()
                except Exception as e:  # engine failure
                    rec = {"harness": f"{g['id']}/{h['_mod']}::{h['name']}", "verdict": "INCONCLUSIVE", "reason": f"engine exception {e!r}", "symbolic_bits": h["bits"], "desc": h.get("desc", "")}
                records.append(rec)
                classify(rec)
                print(f"[{rec['verdict']:12}] {rec['harness']:60} {rec.get('wall_s', 0):7.1f}s {rec.get('reason', '')[:160]}", flush=True)
    finally:
        pass
    for e in engine_errors:
        print(f"ENGINE-ERROR {e}")
    for rec in inconclusive:
        print(f"INCONCLUSIVE {rec['harness']}: {rec['reason']}")
    wall = time.time() - t0
    passed = [r for r in records if r["verdict"] == "PASS"]
    if not a.no_evidence and not a.only:
        ev = {
            "property_id": prop, "tier": a.tier, "seed": seed, "level": "model_checking",
            "coverage": {
                "evaluations": sum(r.get("queries", 0) for r in records) or len(records),
                "distinct_nontrivial": len({r["harness"] for r in passed if r.get("symbolic_bits", 0) >= 32 and r.get("cover") == "SATISFIED"}),
                "rule": "one case = one Kani proof harness (a solver query set over the compiled MIR of the real functions, all primary inputs symbolic); "
                        "non-trivial = verdict PASS with the reachability cover SATISFIED and >= 32 symbolic input bits; distinct by (variant, harness) name. "
                        "evaluations = SAT queries CBMC issued (one per property group plus cover checks).",
                "obligations": sum(r.get("checks_total", 0) for r in records),
                "discharged": sum(r.get("checks_success", 0) for r in records),
                "harnesses_run": len(records), "harnesses_passed": len(passed),
                "harnesses_inconclusive": len(inconclusive), "solver_s_total": round(sum(r.get("solver_s", 0) for r in records), 1),
                "samples": records,
                "shadow_transformations": transforms,
                "checker_cmd": "cargo kani --harness <h> --exact -Z concrete-playback --concrete-playback=print [-Z stubbing] (Kani 0.68.0, CBMC 6.11.0, CaDiCaL)",
                "engine_errors": engine_errors,
                "exhaustive": False,
            },
            "assumptions": plan.ASSUMPTIONS.get(prop, []) + plan.ASSUMPTIONS["*"],
            "wall_s": round(wall, 1),
            "violations": len(violations),
        }
        evdir = os.path.join(VERIF, "evidence")
        if a.measure_thorough:
            evdir = os.environ.get("VERIF_EVIDENCE_DIR", "/var/tmp/evidence_thorough")
        os.makedirs(evdir, exist_ok=True)
        json.dump(ev, open(os.path.join(evdir, f"{prop}.json"), "w"), indent=1)
    cleanup()
    print(f"SUMMARY property={prop} tier={a.tier} harnesses={len(records)} pass={len(passed)} known={len(known_hits)} violations={len(violations)} inconclusive={len(inconclusive) + len(engine_errors)} wall={wall:.0f}s")
    if violations:
        sys.exit(1)
    if inconclusive or engine_errors or not records:
        sys.exit(2)
    sys.exit(0)


if __name__ == "__main__":
    main()

#!/usr/bin/env python3
"""Development-time generator of /verif/harness/<crate>/xcut.rs and /verif/lib/bcv/plans/xcut.py from the table
below (the generated files are committed; checks never run this script).  One row per public cipher type:
cross-cutting properties C04 (blocks), C13 (never weak / checked constructor), C15 (frame), C16 (zeroize),
C19 (Debug / AlgorithmName), C20 (totality on arbitrary state) through the generators of harness/common/generic.rs."""
import os

VERIF = os.path.dirname(os.path.dirname(os.path.dirname(os.path.abspath(__file__))))

# valid / exempt expressions (Rust closures coerced to fn pointers)
ALWAYS, NONE = "generic::always", "generic::none"
# Cast5 is the only struct with padding (and a bool): validity and padding come from the layout table that the shadow
# generator derives from the struct definition in the CURRENT source (variant key `layouts`), never from names kept here.
CAST5_VALID = "crate::verif_kani::layout::cast5_valid"
CAST5_EXEMPT = "crate::verif_kani::layout::cast5_exempt"
LAYOUTS = {"cast5": [("src/lib.rs", "Cast5", "crate::Cast5")]}
TWOFISH_VALID = "|b| { let o = core::mem::offset_of!(crate::Twofish, start); u64::from_le_bytes([b[o], b[o+1], b[o+2], b[o+3], b[o+4], b[o+5], b[o+6], b[o+7]]) <= 2 }"


def T(crate, ty, ident, alg, klen, bs, valid=ALWAYS, exempt=NONE, dirs=("enc", "dec"), uses="", heavy=False, frame=True, blocks=True, weak=True, checked=None, nb=2,
      accepted=None, ks_stub=None, eq_slice=True, debug=True, heavy_ks=False):
    return dict(crate=crate, ty=ty, ident=ident, alg=alg, klen=klen, bs=bs, valid=valid, exempt=exempt, dirs=dirs, uses=uses,
                heavy=heavy, frame=frame, blocks=blocks, weak=weak, checked=checked, nb=nb, debug=debug,
                accepted=accepted or ("|l| l == %d" % klen), ks_stub=ks_stub, eq_slice=eq_slice, heavy_ks=heavy_ks or heavy)


# key schedules stubbed out in the C11 accept/reject harnesses (the verdict Ok/Err does not depend on them; what the
# schedule computes is decided by the conformance harnesses of C09)
BLOWFISH_KS = ("// cheap key-dependent stand-in for the 521-encryption key schedule (XORs the key bytes, cycled, into the first 72\n"
               "// bytes of the state; no field is named)\n"
               "pub fn stub_bf_expand<T: byteorder::ByteOrder>(b: &mut crate::Blowfish<T>, key: &[u8]) {\n"
               "    let p = b as *mut crate::Blowfish<T> as *mut u8;\n"
               "    let mut i = 0;\n"
               "    while i < 72 && !key.is_empty() {\n"
               "        unsafe { *p.add(i) ^= key[i % key.len()] };\n"
               "        i += 1;\n"
               "    }\n"
               "}\n",
               "(crate::Blowfish::expand_key, stub_bf_expand)")
CAST5_KS = ("pub fn stub_c5_ks(_c: &mut crate::Cast5, _key: &[u8]) {}\n", "(crate::Cast5::key_schedule, stub_c5_ks)")
TWOFISH_KS = ("// cheap stand-in for the Twofish key schedule (h function over the q-tables), injective in the key bytes AND the key\n"
              "// length: state byte i is XORed with key byte i (i < len <= 32), state byte 40 with the length; no field is named\n"
              "pub fn stub_tf_ks(t: &mut crate::Twofish, key: &[u8]) {\n"
              "    let p = t as *mut crate::Twofish as *mut u8;\n"
              "    let mut i = 0;\n"
              "    while i < key.len() && i < 40 {\n"
              "        unsafe { *p.add(i) ^= key[i] };\n"
              "        i += 1;\n"
              "    }\n"
              "    unsafe { *p.add(40) ^= key.len() as u8 };\n"
              "}\n",
              "(crate::Twofish::key_schedule, stub_tf_ks)")


CAST6_KS = ("// cheap stand-in for the CAST-256 key schedule, injective in the 32 key bytes it is handed (XORed into the first 32\n"
            "// bytes of the state; no field is named)\n"
            "pub fn stub_c6_ks(c: &mut crate::Cast6, key: &[u8; 32]) {\n"
            "    let p = c as *mut crate::Cast6 as *mut u8;\n"
            "    let mut i = 0;\n"
            "    while i < 32 {\n"
            "        unsafe { *p.add(i) ^= key[i] };\n"
            "        i += 1;\n"
            "    }\n"
            "}\n",
            "(crate::Cast6::key_schedule, stub_c6_ks)")
RC2_KS = ("// cheap stand-in for RC2 key expansion: the key bytes packed into the 64 words, length and effective length mixed in\n"
          "pub fn stub_rc2_ks(key: &[u8], t1: usize) -> [u16; 64] {\n"
          "    let mut o = [0u16; 64];\n"
          "    let mut i = 0;\n"
          "    while i < key.len() && i < 128 {\n"
          "        o[i / 2] ^= (key[i] as u16) << (8 * (i % 2));\n"
          "        i += 1;\n"
          "    }\n"
          "    o[63] ^= t1 as u16;\n"
          "    o[62] ^= (key.len() as u16).rotate_left(5);\n"
          "    o\n"
          "}\n",
          "(crate::Rc2::expand_key, stub_rc2_ks)")
# crates whose types override KeyInit::new_from_slice (explicit length guards); every other type uses the default impl
OVERRIDES_NFS = {"blowfish", "cast5", "cast6", "rc2", "serpent", "twofish", "xtea"}


TYPES = [
    T("aria", "crate::Aria128", "Aria128", ["aria", "128"], 16, 16),
    T("aria", "crate::Aria192", "Aria192", ["aria", "192"], 24, 16),
    T("aria", "crate::Aria256", "Aria256", ["aria", "256"], 32, 16),
    T("belt-block", "crate::BeltBlock", "BeltBlock", ["belt"], 32, 16, debug=False),   # implements AlgorithmName only, no Debug
    T("blowfish", "crate::Blowfish", "Blowfish<BE>", ["blowfish", "be"], 56, 8, heavy=False, accepted="|l| l >= 4 && l <= 56", ks_stub=BLOWFISH_KS, eq_slice=False),
    T("blowfish", "crate::BlowfishLE", "Blowfish<LE>", ["blowfish", "le"], 56, 8, heavy=False, accepted="|l| l >= 4 && l <= 56", ks_stub=BLOWFISH_KS, eq_slice=False),
    T("camellia", "crate::Camellia128", "Camellia128", ["camellia", "128"], 16, 16),
    T("camellia", "crate::Camellia192", "Camellia192", ["camellia", "192"], 24, 16),
    T("camellia", "crate::Camellia256", "Camellia256", ["camellia", "256"], 32, 16),
    T("cast5", "crate::Cast5", "Cast5", ["cast5"], 16, 8, valid=CAST5_VALID, exempt=CAST5_EXEMPT, accepted="|l| l >= 5 && l <= 16", ks_stub=CAST5_KS, eq_slice=False),
    T("cast6", "crate::Cast6", "Cast6", ["cast6"], 32, 16, accepted="|l| l == 16 || l == 20 || l == 24 || l == 28 || l == 32", ks_stub=CAST6_KS),
    T("gift", "crate::Gift128", "Gift128", ["gift", "128"], 16, 16),
    T("idea", "crate::Idea", "Idea", ["idea"], 16, 8),
    T("kuznyechik", "crate::Kuznyechik", "Kuznyechik", ["kuznyechik"], 32, 16, heavy=True),
    T("kuznyechik", "crate::KuznyechikEnc", "KuznyechikEnc", ["kuznyechik"], 32, 16, dirs=("enc",), heavy=True),
    T("kuznyechik", "crate::KuznyechikDec", "KuznyechikDec", ["kuznyechik"], 32, 16, dirs=("dec",), heavy=True),
    T("magma", "crate::Magma", "Magma", ["magma"], 32, 8),
    T("magma", "crate::Gost89Test", "Gost89<TestSbox>", ["gost89", "testsbox"], 32, 8),
    T("magma", "crate::Gost89CryptoProA", "Gost89<CryptoProA>", ["gost89", "cryptoproa"], 32, 8),
    T("magma", "crate::Gost89CryptoProB", "Gost89<CryptoProB>", ["gost89", "cryptoprob"], 32, 8),
    T("magma", "crate::Gost89CryptoProC", "Gost89<CryptoProC>", ["gost89", "cryptoproc"], 32, 8),
    T("magma", "crate::Gost89CryptoProD", "Gost89<CryptoProD>", ["gost89", "cryptoprod"], 32, 8),
    T("rc2", "crate::Rc2", "Rc2", ["rc2"], 32, 8, accepted="|l| l >= 1 && l <= 128", ks_stub=RC2_KS),
    T("serpent", "crate::Serpent", "Serpent", ["serpent"], 16, 16, accepted="|l| l >= 16 && l <= 32"),
    T("sm4", "crate::Sm4", "Sm4", ["sm4"], 16, 16),
    T("twofish", "crate::Twofish", "Twofish", ["twofish"], 32, 16, valid=TWOFISH_VALID, accepted="|l| l == 16 || l == 24 || l == 32", ks_stub=TWOFISH_KS),
    T("xtea", "crate::Xtea", "Xtea", ["xtea"], 16, 8),
    T("threefish", "crate::Threefish256", "Threefish256", ["threefish", "256"], 32, 32),
    T("threefish", "crate::Threefish512", "Threefish512", ["threefish", "512"], 64, 64),
    T("threefish", "crate::Threefish1024", "Threefish1024", ["threefish", "1024"], 128, 128),
]
for n, kl, bs in [("Speck32_64", 8, 4), ("Speck48_72", 9, 6), ("Speck48_96", 12, 6), ("Speck64_96", 12, 8), ("Speck64_128", 16, 8),
                  ("Speck96_96", 12, 12), ("Speck96_144", 18, 12), ("Speck128_128", 16, 16), ("Speck128_192", 24, 16), ("Speck128_256", 32, 16)]:
    bsz, ksz = n[5:].split("_")
    TYPES.append(T("speck", "crate::" + n, n, ["speck", bsz, ksz], kl, bs))
RC5_USES = "use cipher::consts::*;\n"
for w, r, b in [("u32", 12, 16), ("u16", 16, 8), ("u8", 12, 4), ("u64", 24, 24), ("u128", 28, 32), ("u32", 16, 16), ("u16", 1, 3), ("u32", 12, 5)]:
    wb = {"u8": 1, "u16": 2, "u32": 4, "u64": 8, "u128": 16}[w]
    # the RC5 key schedule (3 * max(t, c) mixing steps with data-dependent rotations) on a symbolic key is heavy from 32-bit
    # words upwards (measured 640-740 s for u32/12/5 and u32/16/16): the CONSTRUCTOR harnesses (key-length verdict, new ==
    # new_from_slice, construction history) of those instantiations are thorough; the 8- and 16-bit-word ones stay quick
    TYPES.append(T("rc5", f"crate::RC5<{w}, U{r}, U{b}>", "RC5", ["rc5", str(8 * wb) if False else w, str(r), str(b)], b, 2 * wb, uses=RC5_USES, heavy_ks=(wb >= 4 and r > 1)))


# Routing stubs: for table-based ciphers the blocks / frame / mixed harnesses (whose subject is buffer routing and state
# immutability, not what the cipher computes) run with the non-linear leaf uninterpreted -- otherwise the solver has to
# prove two separately encoded S-box networks equal round by round (Camellia blocks: no answer in 900 s).  The leaf itself
# is decided over its whole input space by the family's leaf lemma.  crate -> (declarations, stub pairs)
ROUTE = {
    "camellia": ("fn rt_conc_f(x: u64, k: u64) -> u64 { refmodels::camellia::f(x, k) }\n"
                 "cuf2!(rt_f, vuf_xcut_rt_f, u64, u64, u64, rt_conc_f);\n"
                 "pub fn rt_stub_f(x: u64, k: u64) -> u64 { rt_f::call(x, k) }\n",
                 "(crate::utils::f, rt_stub_f)"),
    "sm4": ("cuf1!(rt_t, vuf_xcut_rt_t, u32, u32, refmodels::sm4::t);\n"
            "pub fn rt_stub_t(v: u32) -> u32 { rt_t::call(v) }\n",
            "(crate::t, rt_stub_t)"),
    "idea": ("cuf2!(rt_mul, vuf_xcut_rt_mul, u16, u16, u16, refmodels::idea::mul);\n"
             "pub fn rt_stub_mul(_c: &crate::Idea, a: u16, b: u16) -> u16 { rt_mul::call(a, b) }\n",
             "(crate::Idea::mul, rt_stub_mul)"),
    "aria": ("cuf1!(rt_fo, vuf_xcut_rt_fo, u128, u128, refmodels::aria::fo);\n"
             "cuf1!(rt_fe, vuf_xcut_rt_fe, u128, u128, refmodels::aria::fe);\n"
             "cuf1!(rt_s2, vuf_xcut_rt_s2, u128, u128, refmodels::aria::sl2);\n"
             "cuf1!(rt_a, vuf_xcut_rt_a, u128, u128, refmodels::aria::a);\n"
             "pub fn rt_stub_fo(x: u128) -> u128 { rt_fo::call(x) }\n"
             "pub fn rt_stub_fe(x: u128) -> u128 { rt_fe::call(x) }\n"
             "pub fn rt_stub_s2(x: u128) -> u128 { rt_s2::call(x) }\n"
             "pub fn rt_stub_a(x: u128) -> u128 { rt_a::call(x) }\n",
             "(crate::utils::fo, rt_stub_fo), (crate::utils::fe, rt_stub_fe), (crate::utils::sl2, rt_stub_s2), (crate::utils::a, rt_stub_a)"),
    # CAST-128 / CAST-256: the round functions are macros; the shadow variants give them a function boundary (vf1..vf3, bodies =
    # the real macros, lib/bcv/plans/cast5_route.py)
    "cast5": ("fn rt_conc_f1(d: u32, mr: u64) -> u32 { refmodels::cast5::f(1, d, (mr >> 8) as u32, mr as u8) }\n"
              "fn rt_conc_f2(d: u32, mr: u64) -> u32 { refmodels::cast5::f(2, d, (mr >> 8) as u32, mr as u8) }\n"
              "fn rt_conc_f3(d: u32, mr: u64) -> u32 { refmodels::cast5::f(3, d, (mr >> 8) as u32, mr as u8) }\n"
              "cuf2!(rt_f1, vuf_xcut_rt_f1, u32, u64, u32, rt_conc_f1);\n"
              "cuf2!(rt_f2, vuf_xcut_rt_f2, u32, u64, u32, rt_conc_f2);\n"
              "cuf2!(rt_f3, vuf_xcut_rt_f3, u32, u64, u32, rt_conc_f3);\n"
              "pub fn rt_stub_f1(d: u32, m: u32, r: u8) -> u32 { rt_f1::call(d, ((m as u64) << 8) | r as u64) }\n"
              "pub fn rt_stub_f2(d: u32, m: u32, r: u8) -> u32 { rt_f2::call(d, ((m as u64) << 8) | r as u64) }\n"
              "pub fn rt_stub_f3(d: u32, m: u32, r: u8) -> u32 { rt_f3::call(d, ((m as u64) << 8) | r as u64) }\n",
              "(crate::vf1, rt_stub_f1), (crate::vf2, rt_stub_f2), (crate::vf3, rt_stub_f3)"),
    "cast6": ("fn rt_conc_f1(d: u32, mr: u64) -> u32 { refmodels::cast6::f1(d, (mr >> 8) as u32, mr as u8) }\n"
              "fn rt_conc_f2(d: u32, mr: u64) -> u32 { refmodels::cast6::f2(d, (mr >> 8) as u32, mr as u8) }\n"
              "fn rt_conc_f3(d: u32, mr: u64) -> u32 { refmodels::cast6::f3(d, (mr >> 8) as u32, mr as u8) }\n"
              "cuf2!(rt_f1, vuf_xcut_rt_f1, u32, u64, u32, rt_conc_f1);\n"
              "cuf2!(rt_f2, vuf_xcut_rt_f2, u32, u64, u32, rt_conc_f2);\n"
              "cuf2!(rt_f3, vuf_xcut_rt_f3, u32, u64, u32, rt_conc_f3);\n"
              "pub fn rt_stub_f1(d: u32, m: u32, r: u8) -> u32 { rt_f1::call(d, ((m as u64) << 8) | r as u64) }\n"
              "pub fn rt_stub_f2(d: u32, m: u32, r: u8) -> u32 { rt_f2::call(d, ((m as u64) << 8) | r as u64) }\n"
              "pub fn rt_stub_f3(d: u32, m: u32, r: u8) -> u32 { rt_f3::call(d, ((m as u64) << 8) | r as u64) }\n",
              "(crate::vf1, rt_stub_f1), (crate::vf2, rt_stub_f2), (crate::vf3, rt_stub_f3)"),
    # state-dependent leaves (Blowfish F over the instance's S-boxes, Twofish g over its key-dependent S-boxes): every harness
    # that uses these stubs works on ONE state (all its instances are built from the same bytes), so the leaf is one fixed
    # function of its data argument; the native replay runs the real function (kani::stub does not apply natively)
    "blowfish": ("fn rt_no_rf(_x: u32) -> u32 { 0 }\n"
                 "cuf1!(rt_rf, vuf_xcut_rt_rf, u32, u32, rt_no_rf);\n"
                 "pub fn rt_stub_rf<T: byteorder::ByteOrder>(_b: &crate::Blowfish<T>, x: u32) -> u32 { rt_rf::call(x) }\n",
                 "(crate::Blowfish::round_function, rt_stub_rf)"),
    "twofish": ("fn rt_no_g(_x: u32) -> u32 { 0 }\n"
                "cuf1!(rt_g, vuf_xcut_rt_g, u32, u32, rt_no_g);\n"
                "pub fn rt_stub_g(_t: &crate::Twofish, x: u32) -> u32 { rt_g::call(x) }\n",
                "(crate::Twofish::g_func, rt_stub_g)"),
    "serpent": ("fn rt_pack(w: [u32; 4]) -> u128 { (w[0] as u128) | ((w[1] as u128) << 32) | ((w[2] as u128) << 64) | ((w[3] as u128) << 96) }\n"
                "fn rt_unpack(v: u128) -> [u32; 4] { [v as u32, (v >> 32) as u32, (v >> 64) as u32, (v >> 96) as u32] }\n"
                "fn rt_conc_s(i: usize, w: u128) -> u128 { rt_pack(refmodels::serpent::apply_s(i, rt_unpack(w))) }\n"
                "fn rt_conc_si(i: usize, w: u128) -> u128 { rt_pack(refmodels::serpent::apply_s_inv(i, rt_unpack(w))) }\n"
                "cuf2!(rt_s, vuf_xcut_rt_s, usize, u128, u128, rt_conc_s);\n"
                "cuf2!(rt_si, vuf_xcut_rt_si, usize, u128, u128, rt_conc_si);\n"
                "pub fn rt_stub_s(index: usize, w: [u32; 4]) -> [u32; 4] { rt_unpack(rt_s::call(index, rt_pack(w))) }\n"
                "pub fn rt_stub_si(index: usize, w: [u32; 4]) -> [u32; 4] { rt_unpack(rt_si::call(index, rt_pack(w))) }\n",
                "(crate::bitslice::apply_s, rt_stub_s), (crate::bitslice::apply_s_inv, rt_stub_si)"),
    "belt-block": ("use core::num::Wrapping;\n"
                   "cuf1!(rt_g5, vuf_xcut_rt_g5, u32, u32, refmodels::belt::g5);\n"
                   "cuf1!(rt_g13, vuf_xcut_rt_g13, u32, u32, refmodels::belt::g13);\n"
                   "cuf1!(rt_g21, vuf_xcut_rt_g21, u32, u32, refmodels::belt::g21);\n"
                   "pub fn rt_stub_g5(u: Wrapping<u32>) -> Wrapping<u32> { Wrapping(rt_g5::call(u.0)) }\n"
                   "pub fn rt_stub_g13(u: Wrapping<u32>) -> Wrapping<u32> { Wrapping(rt_g13::call(u.0)) }\n"
                   "pub fn rt_stub_g21(u: Wrapping<u32>) -> Wrapping<u32> { Wrapping(rt_g21::call(u.0)) }\n",
                   "(crate::g5, rt_stub_g5), (crate::g13, rt_stub_g13), (crate::g21, rt_stub_g21)"),
}

# Position-paired leaf abstraction for ARX ciphers (DESIGN 10.2 item 19): the two-computation harnesses (b2b1, frame2) run the
# SAME block function twice on equal data; two separately encoded 72/80-round add-rotate-xor networks are a miter the SAT back end
# does not finish (600 s), and a back-end uninterpreted function would need 288..1280 applications (quadratic consistency
# constraints).  The stub below answers every leaf call with a fresh arbitrary pair, logs (which, r, x) -> y, and constrains
# call k only against the calls exactly one block computation earlier (k - 144 / 288 / 640: Threefish-256 / 512 / 1024 make
# that many MIX calls per block): equal arguments => the logged result.  Every constraint imposed is a consistency constraint
# of a real function, so the real MIX / MIX^-1 are among the admitted behaviours (sound); counterexamples are replayed natively.
# crate -> (declarations, stub pairs, cbmc_args)
PAIRED = {
    "threefish": (r"""
// position-paired abstraction of MIX / MIX^-1 (see gen_xcut.py PAIRED)
pub mod rt_pl {
    pub const CAP: usize = 1280;
    pub static mut N: usize = 0;
    pub static mut W: [u8; CAP] = [0; CAP];
    pub static mut R: [u8; CAP] = [0; CAP];
    pub static mut X0: [u64; CAP] = [0; CAP];
    pub static mut X1: [u64; CAP] = [0; CAP];
    pub static mut Y0: [u64; CAP] = [0; CAP];
    pub static mut Y1: [u64; CAP] = [0; CAP];
}
#[cfg(kani)]
fn rt_paired(which: u8, r: u8, x: (u64, u64)) -> (u64, u64) {
    unsafe {
        let k = rt_pl::N;
        let mut y: (u64, u64) = (kani::any(), kani::any());
        if k >= rt_pl::CAP {
            return y; // beyond the log: unconstrained (sound)
        }
        rt_pl::N = k + 1;
        if k >= 640 && rt_pl::W[k - 640] == which && rt_pl::R[k - 640] == r && rt_pl::X0[k - 640] == x.0 && rt_pl::X1[k - 640] == x.1 {
            y = (rt_pl::Y0[k - 640], rt_pl::Y1[k - 640]);
        }
        if k >= 288 && rt_pl::W[k - 288] == which && rt_pl::R[k - 288] == r && rt_pl::X0[k - 288] == x.0 && rt_pl::X1[k - 288] == x.1 {
            y = (rt_pl::Y0[k - 288], rt_pl::Y1[k - 288]);
        }
        if k >= 144 && rt_pl::W[k - 144] == which && rt_pl::R[k - 144] == r && rt_pl::X0[k - 144] == x.0 && rt_pl::X1[k - 144] == x.1 {
            y = (rt_pl::Y0[k - 144], rt_pl::Y1[k - 144]);
        }
        rt_pl::W[k] = which;
        rt_pl::R[k] = r;
        rt_pl::X0[k] = x.0;
        rt_pl::X1[k] = x.1;
        rt_pl::Y0[k] = y.0;
        rt_pl::Y1[k] = y.1;
        y
    }
}
#[cfg(not(kani))]
fn rt_paired(which: u8, r: u8, x: (u64, u64)) -> (u64, u64) {
    if which == 0 { crate::mix(r, x) } else { crate::inv_mix(r, x) }
}
pub fn rt_stub_mix(r: u8, x: (u64, u64)) -> (u64, u64) { rt_paired(0, r, x) }
pub fn rt_stub_inv_mix(r: u8, y: (u64, u64)) -> (u64, u64) { rt_paired(1, r, y) }
""",
                  "(crate::mix, rt_stub_mix), (crate::inv_mix, rt_stub_inv_mix)",
                  "--max-field-sensitivity-array-size;1300"),
}

# Hand-written per-crate additions appended to the generated xcut.rs: C11 constructor-pair relations at the public API
# (no private helper is named, so a refactoring of the padding code cannot break the harness, only the property).
EXTRA = {
    "serpent": r'''
// ---- C11: a short Serpent key and its explicitly padded 32-byte form (key || 0x01 || 0x00...) give the same cipher
fn state_bytes_eq(a: &core::mem::MaybeUninit<crate::Serpent>, b: &core::mem::MaybeUninit<crate::Serpent>) -> bool {
    // one block copy of each instance into a byte array, then a branch-free comparison (528 early exits through raw-pointer
    // reads took 690 s)
    const S: usize = core::mem::size_of::<crate::Serpent>();
    let ba: [u8; S] = unsafe { core::ptr::read(a.as_ptr() as *const [u8; S]) };
    let bb: [u8; S] = unsafe { core::ptr::read(b.as_ptr() as *const [u8; S]) };
    let mut d = 0u8;
    let mut i = 0;
    while i < S {
        d |= ba[i] ^ bb[i];
        i += 1;
    }
    d == 0
}
//@ harness name=serpent_short_eq_padded prop=C11,C08 quick=C08 tier=quick bits=260 est=200 desc="Serpent::new_from_slice(&k[..len]) for len symbolic in 16..=31 yields the same round keys as new_from_slice of the explicit 32-byte form k[..len] || 0x01 || 0x00..; all key bytes symbolic; public API only"
verif_harness! {
    name: serpent_short_eq_padded,
    bytes: 33,
    unwind: 600,
    prop: |inp| {
        use cipher::KeyInit;
        let key: [u8; 32] = take(&inp[..], 0);
        let len = 16 + (inp[32] & 15) as usize;
        let mut padded = [0u8; 32];
        let mut i = 0;
        while i < 32 {
            if i < len { padded[i] = key[i]; } else if i == len { padded[i] = 1; }
            i += 1;
        }
        let a = match crate::Serpent::new_from_slice(&key[..len]) { Ok(c) => core::mem::MaybeUninit::new(c), Err(_) => return Some(false) };
        let b = match crate::Serpent::new_from_slice(&padded[..]) { Ok(c) => core::mem::MaybeUninit::new(c), Err(_) => return Some(false) };
        Some(state_bytes_eq(&a, &b))
    }
}

// the same pair at two CONSTANT odd lengths: every loop of the padding code then has a concrete trip count (a change that
// re-implements the padding with chunk iterators made the symbolic-length form above exceed the quick cap on the zeroize build)
fn short_eq_padded_at<const LEN: usize>(inp: &[u8]) -> Option<bool> {
    use cipher::KeyInit;
    let key: [u8; 32] = take(inp, 0);
    let mut padded = [0u8; 32];
    let mut i = 0;
    while i < 32 {
        if i < LEN { padded[i] = key[i]; } else if i == LEN { padded[i] = 1; }
        i += 1;
    }
    let a = match crate::Serpent::new_from_slice(&key[..LEN]) { Ok(c) => core::mem::MaybeUninit::new(c), Err(_) => return Some(false) };
    let b = match crate::Serpent::new_from_slice(&padded[..]) { Ok(c) => core::mem::MaybeUninit::new(c), Err(_) => return Some(false) };
    Some(state_bytes_eq(&a, &b))
}
//@ harness name=serpent_short17_eq_padded prop=C11,C08 quick=C08 tier=quick bits=256 est=100 desc="Serpent::new_from_slice(&k[..17]) yields the same round keys as new_from_slice of k[..17] || 0x01 || 0x00..: a key length that is not a multiple of 4 (pad bit inside a word); all key bytes symbolic; public API only"
verif_harness! {
    name: serpent_short17_eq_padded,
    bytes: 32,
    unwind: 600,
    prop: |inp| { short_eq_padded_at::<17>(&inp[..]) }
}
//@ harness name=serpent_short30_eq_padded prop=C11,C08 quick=C08 tier=quick bits=256 est=100 desc="as serpent_short17_eq_padded for a 30-byte key"
verif_harness! {
    name: serpent_short30_eq_padded,
    bytes: 32,
    unwind: 600,
    prop: |inp| { short_eq_padded_at::<30>(&inp[..]) }
}
''',
    "cast6": r'''
// ---- C11: a 16/20/24/28-byte CAST-256 key and its zero-padded 32-byte form give the same cipher
//@ harness name=cast6_short_eq_padded prop=C11,C08 quick=C08 tier=quick bits=258 stub=1 est=60 desc="Cast6::new_from_slice(&k[..len]) for len in {16,20,24,28} (symbolic choice) and new_from_slice of k[..len] zero-padded to 32 bytes hand the key schedule the same 32 bytes (schedule replaced by a stand-in that is injective in them; the schedule itself is C08's subject); all key bytes symbolic"
verif_harness! {
    name: cast6_short_eq_padded,
    bytes: 33,
    unwind: 400,
    stubs: [(crate::Cast6::key_schedule, stub_c6_ks)],
    prop: |inp| {
        use cipher::KeyInit;
        let key: [u8; 32] = take(&inp[..], 0);
        let len = 16 + 4 * (inp[32] & 3) as usize;
        let mut padded = [0u8; 32];
        let mut i = 0;
        while i < len {
            padded[i] = key[i];
            i += 1;
        }
        let a = match crate::Cast6::new_from_slice(&key[..len]) { Ok(c) => core::mem::MaybeUninit::new(c), Err(_) => return Some(false) };
        let b = match crate::Cast6::new_from_slice(&padded[..]) { Ok(c) => core::mem::MaybeUninit::new(c), Err(_) => return Some(false) };
        let mut j = 0;
        while j < core::mem::size_of::<crate::Cast6>() {
            vcheck!(generic::peek(&a, j) == generic::peek(&b, j));
            j += 1;
        }
        Some(true)
    }
}
''',
    "cast5": r'''
// ---- C11: a CAST5 key of 11..=15 bytes (above 80 bits) and its zero-padded 16-byte form give the same cipher.
// The macro-expanded key schedule is replaced by a stub that stores the 16 key bytes it receives into the state
// (an injective function of its argument), so state equality <=> the real schedule would have received the same padded key
// and the round-count flag agrees; the schedule itself is decided by the conformance harnesses of C09.
pub fn stub_c5_ks_record(c: &mut crate::Cast5, key: &[u8]) {
    // write the key bytes over the first 16 bytes of the instance's storage, keep the rest (incl. the round-count flag)
    let p = c as *mut crate::Cast5 as *mut u8;
    let mut i = 0;
    while i < 16 && i < key.len() {
        unsafe { *p.add(i) = key[i] };
        i += 1;
    }
}
//@ harness name=cast5_short_eq_padded prop=C11,C09 quick=C09 tier=quick bits=136 stub=1 est=60 desc="Cast5::new_from_slice(&k[..len]) for len symbolic in 11..=15 and new_from_slice of k[..len] zero-padded to 16 bytes reach the key schedule with the same 16 bytes and the same round-count flag (schedule replaced by an argument-recording stub); all key bytes symbolic"
verif_harness! {
    name: cast5_short_eq_padded,
    bytes: 17,
    unwind: 140,
    stubs: [(crate::Cast5::key_schedule, stub_c5_ks_record)],
    prop: |inp| {
        use cipher::KeyInit;
        let key: [u8; 16] = take(&inp[..], 0);
        let len = 11 + (inp[16] % 5) as usize;
        let mut padded = [0u8; 16];
        let mut i = 0;
        while i < len {
            padded[i] = key[i];
            i += 1;
        }
        let a = match crate::Cast5::new_from_slice(&key[..len]) { Ok(c) => core::mem::MaybeUninit::new(c), Err(_) => return Some(false) };
        let b = match crate::Cast5::new_from_slice(&padded[..]) { Ok(c) => core::mem::MaybeUninit::new(c), Err(_) => return Some(false) };
        let mut j = 0;
        while j < core::mem::size_of::<crate::Cast5>() {
            if !crate::verif_kani::layout::cast5_exempt(j) {
                vcheck!(generic::peek(&a, j) == generic::peek(&b, j));
            }
            j += 1;
        }
        Some(true)
    }
}
''',
    "rc2": r'''
// ---- C11: Rc2 from a slice == Rc2 with effective key length 8 x len
//@ harness name=rc2_slice_eq_eff_len prop=C11,C09 quick=C09 tier=quick bits=136 stub=1 est=60 desc="Rc2::new_from_slice(&k[..len]) and Rc2::new_with_eff_key_len(&k[..len], 8*len) call the key expansion with the same key bytes and the same effective length, for len symbolic in 1..=16 (expansion replaced by a stand-in that depends on every key byte, the length and the effective length; the expansion itself is C09's subject); all key bytes symbolic"
verif_harness! {
    name: rc2_slice_eq_eff_len,
    bytes: 17,
    unwind: 200,
    stubs: [(crate::Rc2::expand_key, stub_rc2_ks)],
    prop: |inp| {
        use cipher::KeyInit;
        let key: [u8; 16] = take(&inp[..], 0);
        let len = 1 + (inp[16] & 15) as usize;
        let a = match crate::Rc2::new_from_slice(&key[..len]) { Ok(c) => core::mem::MaybeUninit::new(c), Err(_) => return Some(false) };
        let b = core::mem::MaybeUninit::new(crate::Rc2::new_with_eff_key_len(&key[..len], 8 * len));
        let mut j = 0;
        while j < core::mem::size_of::<crate::Rc2>() {
            vcheck!(generic::peek(&a, j) == generic::peek(&b, j));
            j += 1;
        }
        Some(true)
    }
}
''',
}


def ident_of(t):
    return t["ty"].split("::")[-1].replace("<", "_").replace(">", "").replace(",", "_").replace(" ", "").lower()


def emit(crate, rows):
    o = ["// GENERATED by /verif/lib/bcv/gen_xcut.py from its type table -- edit the table, not this file.\n",
         "// %s crate: cross-cutting per-type harnesses (C04, C13, C15, C16, C19, C20) via harness/common/generic.rs.\n" % crate,
         "use super::generic;\nuse super::prelude::*;\n"]
    uses = "".join(sorted({r["uses"] for r in rows}))
    o.append(uses)
    route_decl, route_pairs = ROUTE.get(crate, ("", ""))
    if route_decl:
        o.append("\n// routing stubs (see gen_xcut.py ROUTE): non-linear leaf uninterpreted in the blocks / frame / mixed harnesses\n" + route_decl)
    pdecl, ppairs, pargs = PAIRED.get(crate, ("", "", ""))
    if pdecl:
        o.append(pdecl)
    pstubs = (", stubs: [%s]" % ppairs) if ppairs else ""
    pmeta = ("stub=1 cbmc_args=%s " % pargs) if ppairs else ""
    pnote = " (MIX / MIX^-1 abstracted: each call constrained only against the call one block computation earlier, equal arguments => equal result; the leaf itself is decided by the conformance family's MIX lemmas)" if ppairs else ""
    rstubs = (", stubs: [%s]" % route_pairs) if route_pairs else ""
    rmeta = "stub=1 " if route_pairs else ""
    rnote = " (non-linear leaf uninterpreted; totality with nothing abstracted is decided by the *_total_* harness)" if route_pairs else "; nothing abstracted"
    if crate in ("blowfish", "twofish"):
        rnote = " (key-dependent leaf uninterpreted; the leaf itself is decided on arbitrary states by the conformance family's leaf lemmas)"
    for t in rows:
        n = ident_of(t)
        ty, bs, kl = t["ty"], t["bs"], t["klen"]
        size_bits = "0"
        o.append("\n// ---- %s\n" % ty)
        if t["debug"]:
            o.append('//@ harness name=%s_debug prop=C19 tier=quick bits=64 desc="Debug of %s on an arbitrary state equals Debug of the zero-bytes instance (key independent) and starts with the identifier `%s`"\n' % (n, ty, t["ident"]))
            o.append('g_debug!(%s_debug, %s, "%s", %s);\n' % (n, ty, t["ident"], t["valid"]))
        parts = ", ".join('"%s"' % p for p in t["alg"])
        o.append('//@ harness name=%s_algname prop=C19 tier=quick bits=0 desc="AlgorithmName of %s contains (case-insensitively) %s"\n' % (n, ty, " and ".join(t["alg"])))
        o.append("g_algname!(%s_algname, %s, [%s]);\n" % (n, ty, parts))
        if t["weak"]:
            o.append('//@ harness name=%s_never_weak prop=C13 tier=quick bits=%d desc="%s::weak_key_test(k) is Ok for every %d-byte key (never-fails clause)"\n' % (n, 8 * kl, ty, kl))
            o.append("g_never_weak!(%s_never_weak, %s, %d);\n" % (n, ty, kl))
        # C11: exact accepted lengths, clean rejection, array vs slice constructor
        stub_decl, stub_pair = t["ks_stub"] if t["ks_stub"] else ("", "")
        if stub_decl and stub_decl not in "".join(o):
            o.append(stub_decl)
        o.append('//@ harness name=%s_keylen prop=C11 tier=%s bits=2416 %sdesc="%s::new_from_slice(&buf[..len]) is Ok exactly for the accepted key lengths and Err(InvalidLength) otherwise, without panicking; buf (300 bytes) and len (0..=300) symbolic%s"\n'
                 % (n, "quick" if (stub_pair or not t["heavy_ks"] or crate != "rc5") else "thorough", "stub=1 " if stub_pair else "", ty, "; key schedule stubbed out (verdict only)" if stub_pair else ""))
        if crate in ("idea", "kuznyechik"):
            # the accepting path runs the whole key schedule (IDEA: 18 modular inversions; Kuznyechik: 32 table look-up
            # rounds) and CBMC runs out of memory on it even with a constant key (measured 7-13 GB, no verdict); both types
            # use the cipher crate's default new_from_slice, which is decided for the 30 other default-impl types
            o.pop()
        elif crate in OVERRIDES_NFS:
            o.append("g_keylen!(%s_keylen, %s, 300, %s%s);\n" % (n, ty, t["accepted"], (", stubs: [%s]" % stub_pair) if stub_pair else ""))
        else:
            o[-1] = o[-1].replace("tier=thorough", "tier=quick").replace("bits=2416", "bits=16").replace("buf (300 bytes) and len (0..=300) symbolic", "len (0..=300) symbolic, key content the zero string (default new_from_slice: the verdict depends on the length only)")
            o.append("g_keylen0!(%s_keylen, %s, 300, %s);\n" % (n, ty, t["accepted"]))
        if t["eq_slice"] and crate in OVERRIDES_NFS:
            # (types with the default new_from_slice: new_from_slice IS `try_from(slice).map(new)` of the cipher crate; two
            # symbolic key schedules per type to re-decide that were measured in the hundreds of seconds and are not emitted)
            o.append('//@ harness name=%s_new_eq_slice prop=C11 tier=%s bits=%d %sdesc="%s::new(&key) and new_from_slice(&key[..]) yield the same state for every %d-byte key%s"\n' % (n, "quick" if (crate in OVERRIDES_NFS and (stub_pair or not t["heavy_ks"])) else "thorough", 8 * kl, "stub=1 " if stub_pair else "", ty, kl, "; key schedule replaced by a cheap stand-in that is injective in key bytes and length (the subject is what the constructors hand to it)" if stub_pair else ""))
            o.append("g_new_eq_slice!(%s_new_eq_slice, %s, %d, %s%s);\n" % (n, ty, kl, t["exempt"], (", stubs: [%s]" % stub_pair) if stub_pair else ""))
        o.append('//@ harness name=%s_zeroize prop=C16 tier=quick bits=64 variants=%s+zeroize desc="drop_in_place of an arbitrary-state %s (zeroize feature) leaves every non-padding byte of its storage zero"\n' % (n, crate, ty))
        o.append("g_zeroize!(%s_zeroize, %s, %s, %s);\n" % (n, ty, t["valid"], t["exempt"]))
        tier = "thorough" if t["heavy"] else "quick"
        # C15: construction history (process-wide state written by constructors) and mixed-direction history
        ks = (", stubs: [%s]" % stub_pair) if stub_pair else ""
        o.append('//@ harness name=%s_ctor_history prop=C15 tier=%s bits=%d %sdesc="%s: history new(k2) in a fresh process, new(k1), new(k2), new(k3), new(k1): both constructions from k2 give the same state and both from k1 do, for all keys k1, k2, k3 (no process-wide state written by construction changes a later construction; a one-entry cache needs the eviction by k3 to show)%s"\n'
                 % (n, "quick" if (stub_pair or not t["heavy_ks"]) else "thorough", 24 * kl, "stub=1 " if stub_pair else "", ty, "; key schedule replaced by a cheap key-dependent stub" if stub_pair else ""))
        if crate == "blowfish":
            # 4 x 256-word S-boxes: tracked per element (a process-wide cache of the schedule would otherwise put every
            # copy loop into the array theory)
            o[-1] = o[-1].replace(" desc=", " cbmc_args=--max-field-sensitivity-array-size;1100 desc=", 1)
        o.append("g_ctor_history!(%s_ctor_history, %s, %d, %s%s);\n" % (n, ty, kl, t["exempt"], ks))
        if set(t["dirs"]) == {"enc", "dec"}:
            o.append('//@ harness name=%s_mixed prop=C15,C20 tier=thorough bits=%d %sdesc="%s: on one arbitrary-state instance the history enc(x); dec(x); dec(y); enc(y) returns for dec(x) and enc(y) what a pristine instance with the same state returns (no memoisation across directions), instance bytes unchanged%s"\n' % (n, 16 * bs + 64, rmeta, ty, rnote))
            if route_pairs:
                # with an uninterpreted leaf the history is split in its two halves (quadratic consistency constraints)
                o.pop()
                for first, second in (("enc", "dec"), ("dec", "enc")):
                    o.append('//@ harness name=%s_mixed_%s%s prop=C15,C20 tier=%s bits=%d %sdesc="%s: on one arbitrary-state instance, after %s(x) the call %s(x) returns what a pristine instance with the same state returns (no memoisation across directions), instance bytes unchanged%s"\n' % (n, first, second, tier, 8 * bs + 64, rmeta, ty, first, second, rnote))
                    o.append("g_mixed_half!(%s_mixed_%s%s, %s, %d, %s, %s, %s%s);\n" % (n, first, second, ty, bs, t["valid"], first, second, rstubs))
            else:
                # without an abstractable leaf the six-computation history is out of reach (even two copies of one cipher are a
                # hard equivalence): not emitted; the two-computation forms below are what is decided for these types
                o.pop()
        for d in t["dirs"]:
            if t["frame"]:
                o.append('//@ harness name=%s_frame2_%s prop=C15,C20 tier=%s bits=%d %s%sdesc="%s: %s_block twice with the same block on one arbitrary-valid-state instance returns (no panic / overflow / bounds failure), gives the same result both times and leaves every byte of the instance unchanged%s"\n' % (n, d, tier, 8 * bs + 64, rmeta or pmeta, "quick=C20 " if d == t["dirs"][0] else "", ty, "encrypt" if d == "enc" else "decrypt", pnote or rnote))
                o.append("g_frame2!(%s_frame2_%s, %s, %d, %s, %s%s);\n" % (n, d, ty, bs, t["valid"], d, rstubs or pstubs))
                o.append('//@ harness name=%s_frame_%s prop=C15,C20 tier=%s bits=%d %sdesc="%s: %s_block on an arbitrary valid state returns for every block (no panic / overflow / bounds failure); the history op(x); op(y); op(x) on one instance gives equal first and third results and leaves every byte of the instance unchanged%s"\n' % (n, d, "thorough", 16 * bs + 64, rmeta, ty, "encrypt" if d == "enc" else "decrypt", rnote))
                if route_pairs:
                    o.append("g_frame1!(%s_frame_%s, %s, %d, %s, %s%s);\n" % (n, d, ty, bs, t["valid"], d, rstubs))
                else:
                    o.pop()
                if route_pairs and crate not in ("blowfish", "twofish"):
                    # (Blowfish / Twofish with the real key-dependent S-box look-ups on an arbitrary state: out of memory /
                    # no answer in 900 s; their leaves are decided on arbitrary states by bf_round_function and tf_leaf_g_*)
                    o.append('//@ harness name=%s_total_%s prop=C20 tier=%s bits=%d desc="%s: one %s_block call on an arbitrary valid state and block returns and leaves the instance unchanged; NOTHING abstracted (every overflow / bounds / shift / unwrap / debug assertion on the path is an obligation)"\n' % (n, d, tier, 8 * bs + 64, ty, "encrypt" if d == "enc" else "decrypt"))
                    o.append("g_total!(%s_total_%s, %s, %d, %s, %s);\n" % (n, d, ty, bs, t["valid"], d))
            if t["blocks"]:
                o.append('//@ harness name=%s_b2b_%s prop=C04,C20 tier=%s bits=%d %sdesc="%s (%s): the single-block b2b call into an output buffer pre-filled with arbitrary bytes equals the in-place call on the same block; the separate input is unchanged; arbitrary valid state (two block computations: the quick form; for parallel width 1 the multi-block entry points are the cipher crate\'s loop over this call)%s"\n' % (n, d, tier, 16 * bs + 64, rmeta or pmeta, ty, d, " (non-linear leaf uninterpreted)" if route_pairs else pnote))
                o.append("g_b2b1!(%s_b2b_%s, %s, %d, %s, %s%s);\n" % (n, d, ty, bs, t["valid"], d, rstubs or pstubs))
                o.append('//@ harness name=%s_blocks_%s prop=C04,C20 tier=%s bits=%d %sdesc="%s (%s): multi-block in place, multi-block b2b and single b2b calls for every n in 0..=%d equal per-block in-place calls; separate input unchanged; output blocks >= n untouched; arbitrary valid state%s"\n' % (n, d, "thorough", 8 * bs * t["nb"] + 72, rmeta, ty, d, t["nb"], " (non-linear leaf uninterpreted)" if route_pairs else ""))
                if route_pairs:
                    o.pop()
                    parts = {"b2b": "multi-block b2b with n = %d equals the per-block in-place calls, separate input unchanged; n = 0 and mismatched lengths write nothing" % t["nb"],
                             "inplace": "multi-block in place with n = %d (and n = 0) equals the per-block in-place calls" % t["nb"],
                             "short": "n = %d: multi-block b2b and in place equal the per-block calls and leave blocks >= n untouched; single-block b2b equals the in-place call, input unchanged" % (t["nb"] - 1)}
                    for part, what in parts.items():
                        o.append('//@ harness name=%s_blocks_%s_%s prop=C04,C20 tier=%s bits=%d %sdesc="%s (%s): %s; arbitrary valid state (non-linear leaf uninterpreted)"\n' % (n, d, part, "thorough", 8 * bs * t["nb"] + 72, rmeta, ty, d, what))
                        o.append("g_blocks_part!(%s_blocks_%s_%s, %s, %d, %d, %s, %s, %s%s);\n" % (n, d, part, ty, bs, t["nb"], t["valid"], d, part, rstubs))
                else:
                    o.pop()   # nine block computations without an abstractable leaf: not emitted (see the mixed history above)
    o.append(EXTRA.get(crate, ""))
    p = os.path.join(VERIF, "harness", crate, "xcut.rs")
    os.makedirs(os.path.dirname(p), exist_ok=True)
    text = "".join(o)
    # keep the measured est= / need= values that bin/update-est wrote into the previous generation of this file
    import re
    measured = {}
    if os.path.exists(p):
        for line in open(p):
            m = re.match(r"//@ harness name=(\w+) ", line)
            if m:
                e = re.search(r" est=(\S+)", line)
                nd = re.search(r" need=(\S+)", line)
                measured[m.group(1)] = (e.group(1) if e else None, nd.group(1) if nd else None)
    # measured tier decisions (bin/retier): harnesses that did not fit the quick tier's budget
    import json
    tp = os.path.join(VERIF, "lib", "bcv", "xcut_tiers.json")
    tiers = json.load(open(tp)) if os.path.exists(tp) else {}
    out = []
    for line in text.split("\n"):
        m = re.match(r"//@ harness name=(\w+) ", line)
        if m and tiers.get("%s/%s" % (crate, m.group(1)), {}).get("tier") == "off":
            # did not finish in the thorough measuring run either (bin/prune-thorough): kept in the file, not run
            why = tiers["%s/%s" % (crate, m.group(1))].get("why", "off")
            line = line.replace("//@ harness name=", "//@ disabled-harness reason=%s name=" % why, 1)
            m = None
        if m and ("%s/%s" % (crate, m.group(1))) in tiers and " tier=quick" in line:
            line = line.replace(" tier=quick", " tier=" + tiers["%s/%s" % (crate, m.group(1))]["tier"], 1)
            if "memory" in tiers["%s/%s" % (crate, m.group(1))].get("why", "") and " mem=" not in line:
                line = line.replace(" desc=", " mem=30 desc=", 1)
        if m and m.group(1) in measured:
            e, nd = measured[m.group(1)]
            ins = ""
            if e and " est=" not in line:
                ins += " est=" + e
            if nd and " need=" not in line:
                ins += " need=" + nd
            if ins:
                line = line.replace(" desc=", ins + " desc=", 1)
        out.append(line)
    open(p, "w").write("\n".join(out))


def main():
    crates = {}
    for t in TYPES:
        crates.setdefault(t["crate"], []).append(t)
    for c, rows in crates.items():
        emit(c, rows)
    # plan fragment
    lines = ['"""GENERATED by gen_xcut.py: cross-cutting harness files per crate."""\n', "VARIANTS = {\n"]
    for c in crates:
        lay = (", layouts=%r" % LAYOUTS[c]) if c in LAYOUTS else ""
        lines.append('    "%s": dict(crate="%s", common_mods=["uf", "generic"]%s),\n' % (c, c, lay))
        lines.append('    "%s+zeroize": dict(crate="%s", features=["zeroize"], common_mods=["uf", "generic"]%s),\n' % (c, c, lay))
    lines.append("}\nPLAN = {\n")
    for prop in ("C04", "C11", "C13", "C15", "C19", "C20"):
        lines.append('    "%s": [%s],\n' % (prop, ", ".join('("%s", ["%s/xcut.rs"])' % (c, c) for c in crates)))
    lines.append('    "C16": [%s],\n' % ", ".join('("%s+zeroize", ["%s/xcut.rs"])' % (c, c) for c in crates))
    # C03 (features change no output), constructor side: the key-length / constructor-pair harnesses of C11 are re-run
    # on the zeroize build of every crate (a feature-gated constructor path that drops or alters key bytes fails there)
    lines.append('    "C03": [%s],\n' % ", ".join('("%s+zeroize", ["%s/xcut.rs"], {"include_props": ["C11"]})' % (c, c) for c in crates))
    # public-API constructor-pair harnesses also count for the conformance properties whose key-padding clause they decide
    # (they do not name private helpers, so a refactoring of the padding code cannot stop them from compiling)
    lines.append('    "C08": [("serpent", ["serpent/xcut.rs"]), ("cast6", ["cast6/xcut.rs"])],\n')
    lines.append('    "C09": [("cast5", ["cast5/xcut.rs"]), ("rc2", ["rc2/xcut.rs"])],\n')
    lines.append("}\n")
    open(os.path.join(VERIF, "lib", "bcv", "plans", "xcut.py"), "w").write("".join(lines))
    print("generated xcut.rs for %d crates, %d types" % (len(crates), len(TYPES)))


if __name__ == "__main__":
    main()

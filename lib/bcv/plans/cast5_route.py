from bcv.shadow import Sub

# CAST5: the round functions are macros (f1!/f2!/f3!) and the key schedule is 160 inline S-box look-ups, so nothing of them is
# a function a harness could replace, and the direct queries (16 rounds x 4 look-ups against the oracle's; 160 look-ups) did
# not answer in 1800 s / 37 min.  In this variant the shadow copy gives the leaves a function boundary WITHOUT touching their
# text: the three macros are renamed f1_real!/f2_real!/f3_real! and f1!/f2!/f3! expand to calls of `vf1/vf2/vf3`, whose
# bodies are the renamed real macros; in schedule.rs every `S5[get_i!(x, 13)]` becomes `crate::vs5(get_i!(x, 13))`, a
# one-line look-up in the crate's own table.  harness/cast5/route.rs then decides leaf lemmas (real macro body / real table ==
# RFC 2144 for every argument) and wiring lemmas (rounds / half schedule with the leaves uninterpreted on both sides).
_INJ = '''
#[inline(never)] pub(crate) fn vf1(d: u32, m: u32, r: u8) -> u32 { f1_real!(d, m, r) }
#[inline(never)] pub(crate) fn vf2(d: u32, m: u32, r: u8) -> u32 { f2_real!(d, m, r) }
#[inline(never)] pub(crate) fn vf3(d: u32, m: u32, r: u8) -> u32 { f3_real!(d, m, r) }
macro_rules! f1 { ($D:expr, $m:expr, $r:expr) => { crate::vf1($D, $m, $r) }; }
macro_rules! f2 { ($D:expr, $m:expr, $r:expr) => { crate::vf2($D, $m, $r) }; }
macro_rules! f3 { ($D:expr, $m:expr, $r:expr) => { crate::vf3($D, $m, $r) }; }
#[inline(never)] pub(crate) fn vs1(i: usize) -> u32 { crate::consts::S1[i] }
#[inline(never)] pub(crate) fn vs2(i: usize) -> u32 { crate::consts::S2[i] }
#[inline(never)] pub(crate) fn vs3(i: usize) -> u32 { crate::consts::S3[i] }
#[inline(never)] pub(crate) fn vs4(i: usize) -> u32 { crate::consts::S4[i] }
#[inline(never)] pub(crate) fn vs5(i: usize) -> u32 { crate::consts::S5[i] }
#[inline(never)] pub(crate) fn vs6(i: usize) -> u32 { crate::consts::S6[i] }
#[inline(never)] pub(crate) fn vs7(i: usize) -> u32 { crate::consts::S7[i] }
#[inline(never)] pub(crate) fn vs8(i: usize) -> u32 { crate::consts::S8[i] }

impl KeySizeUser for Cast5 {'''

VARIANTS = {
    "cast5:route": dict(crate="cast5", common_mods=["uf", "cuf"], subs=[
        Sub("src/lib.rs", "macro_rules! f1 {", "macro_rules! f1_real {", 1, why="round function type 1: macro body untouched, renamed"),
        Sub("src/lib.rs", "macro_rules! f2 {", "macro_rules! f2_real {", 1, why="round function type 2: macro body untouched, renamed"),
        Sub("src/lib.rs", "macro_rules! f3 {", "macro_rules! f3_real {", 1, why="round function type 3: macro body untouched, renamed"),
        Sub("src/lib.rs", "\nimpl KeySizeUser for Cast5 {", _INJ, 1,
            why="f1!/f2!/f3! now call vf1/vf2/vf3 whose bodies are the real macros; vs5..vs8 = one look-up in the crate's tables"),
        Sub("src/lib.rs", r"\bS([1-4])\[(\(.*?\) as usize)\]", r"crate::vs\1(\2)", 12, kind="re",
            why="round-function macros: each of the 12 S-box look-ups through vs1..vs4 (index expression untouched)"),
        Sub("src/schedule.rs", r"\bS([5-8])\[(get_i!\([xz], \d+\))\]", r"crate::vs\1(\2)", 160, kind="re",
            why="key schedule: each of the 160 S-box look-ups through vs5..vs8 (index expression untouched)"),
    ]),
}
# The per-type cross-cutting harnesses (harness/cast5/xcut.rs: buffer routing C04, call histories C15, ...) compare two or
# three block computations of one instance; with the real round functions those miters never answered (420 / 600 s).  The
# base variants get the function boundary around the three macro bodies as well (nothing else), so that xcut.rs can run them
# with f1/f2/f3 uninterpreted (gen_xcut.py ROUTE); harnesses that stub nothing run the real macro bodies through vf1..vf3.
_INJ_F = '''
#[inline(never)] pub(crate) fn vf1(d: u32, m: u32, r: u8) -> u32 { f1_real!(d, m, r) }
#[inline(never)] pub(crate) fn vf2(d: u32, m: u32, r: u8) -> u32 { f2_real!(d, m, r) }
#[inline(never)] pub(crate) fn vf3(d: u32, m: u32, r: u8) -> u32 { f3_real!(d, m, r) }
macro_rules! f1 { ($D:expr, $m:expr, $r:expr) => { crate::vf1($D, $m, $r) }; }
macro_rules! f2 { ($D:expr, $m:expr, $r:expr) => { crate::vf2($D, $m, $r) }; }
macro_rules! f3 { ($D:expr, $m:expr, $r:expr) => { crate::vf3($D, $m, $r) }; }
'''


def f_boundary(anchor):
    return [
        Sub("src/lib.rs", "macro_rules! f1 {", "macro_rules! f1_real {", 1, why="round function type 1: macro body untouched, renamed"),
        Sub("src/lib.rs", "macro_rules! f2 {", "macro_rules! f2_real {", 1, why="round function type 2: macro body untouched, renamed"),
        Sub("src/lib.rs", "macro_rules! f3 {", "macro_rules! f3_real {", 1, why="round function type 3: macro body untouched, renamed"),
        Sub("src/lib.rs", anchor, _INJ_F + anchor, 1, why="f1!/f2!/f3! now call vf1/vf2/vf3 whose bodies are the real macros"),
    ]


VARIANTS["cast5"] = dict(crate="cast5", subs=f_boundary("\nimpl KeySizeUser for Cast5 {"))
VARIANTS["cast5+zeroize"] = dict(crate="cast5", subs=f_boundary("\nimpl KeySizeUser for Cast5 {"))
# CAST-256 uses the same three macros (cast6/src/lib.rs)
VARIANTS["cast6"] = dict(crate="cast6", subs=f_boundary("\n#[inline]\nfn forward_quad("))
VARIANTS["cast6+zeroize"] = dict(crate="cast6", subs=f_boundary("\n#[inline]\nfn forward_quad("))
_R = [("cast5:route", ["cast5/route.rs"])]
PLAN = {"C09": list(_R), "C01": list(_R), "C20": list(_R)}
ASSUMPTIONS = {
    "C09": ["CAST5 is decided compositionally on a shadow copy in which the round-function macros and the S-box look-ups of the key schedule have a function boundary (text of the macro bodies and of every index expression unchanged): leaf lemmas for every argument + rounds and half key schedule with the leaves uninterpreted on both sides + cast5_new_w for the constructor; that the composition of these lemmas is the whole cipher is an argument, not a query"],
}

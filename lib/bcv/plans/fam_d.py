VARIANTS = {
    "blowfish": dict(crate="blowfish", common_mods=["uf"]),
    "blowfish+bcrypt": dict(crate="blowfish", features=["bcrypt"], common_mods=["uf"]),
    "cast5": dict(crate="cast5", common_mods=["uf"]),
    "idea": dict(crate="idea", common_mods=["uf"]),
    "rc2": dict(crate="rc2", common_mods=["uf"]),
    "xtea": dict(crate="xtea", common_mods=["uf"]),
}
_BF = ["blowfish/conf.rs", "blowfish/expand.rs"]
# bcrypt.rs uses arb_state / stub_rf / uf_f of conf.rs and the co-routine stub of expand.rs; the harnesses of those two files
# are restricted to the plain variant by `variants=blowfish` in their meta lines
_BC = ["blowfish/conf.rs", "blowfish/expand.rs", "blowfish/bcrypt.rs"]
PLAN = {
    "C09": [("blowfish", _BF), ("blowfish+bcrypt", _BC), ("cast5", ["cast5/conf.rs"]), ("idea", ["idea/conf.rs", "idea/inv16.rs"]), ("rc2", ["rc2/conf.rs"]), ("xtea", ["xtea/conf.rs"])],
    "C14": [("blowfish+bcrypt", _BC)],
    "C01": [("blowfish", _BF), ("cast5", ["cast5/conf.rs"]), ("idea", ["idea/conf.rs", "idea/inv16.rs", "idea/rt.rs"]), ("rc2", ["rc2/conf.rs", "rc2/rt.rs"]), ("xtea", ["xtea/conf.rs"])],
    "C20": [("blowfish", _BF), ("blowfish+bcrypt", _BC), ("cast5", ["cast5/conf.rs"]), ("idea", ["idea/conf.rs", "idea/inv16.rs"]), ("rc2", ["rc2/conf.rs", "rc2/rt.rs"]), ("xtea", ["xtea/conf.rs"])],
}
_BF_EXPAND = ("Blowfish key expansion (new_from_slice, bc_expand_key, salted_expand_key): the block encryption inside the expansion is "
              "replaced per call by a co-routine stub that runs the oracle's step machine in lockstep and hands both sides the same fresh "
              "64-bit value; compared at every one of the 521 calls: the (l, r) argument, the whole P array and the pair of entries stored "
              "after the previous call; compared in full (18 + 1024 words): the state at calls 0, 9, 137, 265, 393 and the final state. "
              "S-box entries other than the newest pair are not re-compared between those checkpoints (a transient modification undone "
              "before the next checkpoint would go unnoticed). The real encrypt is decided separately on an arbitrary state (bf_conf_*, bc_encrypt).")
ASSUMPTIONS = {
    "C01": ["IDEA round trip: the cancellation laws mul(mul(x,k), mul_inv(k)) == x == mul(mul(x, mul_inv(k)), k) imposed on the uninterpreted (mul, mul_inv) pair follow from the solver-decided leaf lemmas idea_leaf_mul (mul is multiplication mod 65537 with 0 = 2^16) and idea_inv_r0..r15 (mul(k, mul_inv(k)) == 1, sixteen argument ranges) by associativity/commutativity of multiplication modulo the prime 65537 (arithmetic, not decided by the solver)",
            "RC2 round trip: L+W -- mix/reverse_mix and mash/reverse_mash are proved mutually inverse on arbitrary round keys (rc2_leaf_*), the block functions are then checked with these leaves as uninterpreted mutually inverse bijections"],
    "C09": [_BF_EXPAND,
            "RC2 key expansion: decided for ALL key bytes at the (key length, effective length) pairs of rc2_expand_w_* with the table abstracted by position-paired look-ups (variant rc2:route) and for every effective length of the stated ranges with fixed keys (rc2_expand_t1_*); with key length, key bytes and effective length all symbolic in one query it is NOT decided (no answer in 900 s CaDiCaL / 1800 s Kissat); absence of panics/overflow for all T in 1..=128 and T1 in 1..=1024 (rc2_expand_safe, thorough); the constructors pass (key, 8*len) resp. (key, t1) unchanged to expand_key; the oracle expansion is validated natively on the RFC 2268 and repository vectors",
            "CAST5: the direct queries (rounds against the oracle, half key schedule with the real tables) never answered and stay disabled in conf.rs; CAST5 is decided compositionally in variant cast5:route (see there) plus cast5_new_w for the constructor",
            "Blowfish::expand_key (what new_from_slice runs) is also decided in the quick tier in the recording form bc_expand_key_rec_k72 / _k7 on the bcrypt feature build, where bc_expand_key is a one-line wrapper of it"],
    "C14": [_BF_EXPAND,
            "bcrypt expansions from an arbitrary pre-state (bc_expand_key_w, bc_salted_w, bc_zero_salt_w) exceed the quick tier's 14 GB during propositional reduction (the 1024-word S-boxes are handled by CBMC's array theory once their contents are symbolic); they are thorough-tier (mem=30); salt length fixed to bcrypt's 16 bytes in bc_salted_w / bc_zero_salt_w, symbolic 1..=16 in the *_anylen_w variants"],
}

VARIANTS = {
    "blowfish": dict(crate="blowfish", common_mods=["uf"]),
    "blowfish+bcrypt": dict(crate="blowfish", features=["bcrypt"], common_mods=["uf"]),
    "cast5": dict(crate="cast5", common_mods=["uf"]),
    "idea": dict(crate="idea", common_mods=["uf"]),
    "rc2": dict(crate="rc2", common_mods=["uf"]),
    "xtea": dict(crate="xtea", common_mods=["uf"]),
}
_BF = ["blowfish/conf.rs", "blowfish/expand.rs"]
_BC = ["blowfish/conf.rs", "blowfish/expand.rs", "blowfish/bcrypt.rs"]
PLAN = {
    "C09": [("blowfish", _BF), ("cast5", ["cast5/conf.rs"]), ("idea", ["idea/conf.rs", "idea/inv16.rs"]), ("rc2", ["rc2/conf.rs"]), ("xtea", ["xtea/conf.rs"])],
    "C14": [("blowfish+bcrypt", _BC)],
    "C01": [("blowfish", _BF), ("cast5", ["cast5/conf.rs"]), ("idea", ["idea/conf.rs", "idea/inv16.rs", "idea/rt.rs"]), ("rc2", ["rc2/conf.rs", "rc2/rt.rs"]), ("xtea", ["xtea/conf.rs"])],
    "C20": [("blowfish", _BF), ("blowfish+bcrypt", _BC), ("cast5", ["cast5/conf.rs"]), ("idea", ["idea/conf.rs", "idea/inv16.rs"]), ("rc2", ["rc2/conf.rs", "rc2/rt.rs"]), ("xtea", ["xtea/conf.rs"])],
}
ASSUMPTIONS = {
    "C01": ["IDEA round trip: the cancellation laws mul(mul(x,k), mul_inv(k)) == x == mul(mul(x, mul_inv(k)), k) imposed on the uninterpreted (mul, mul_inv) pair follow from the solver-decided leaf lemmas idea_leaf_mul (mul is multiplication mod 65537 with 0 = 2^16) and idea_inv_r0..r15 (mul(k, mul_inv(k)) == 1, sixteen argument ranges) by associativity/commutativity of multiplication modulo the prime 65537 (arithmetic, not decided by the solver)"],
}

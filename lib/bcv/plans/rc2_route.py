from bcv.shadow import Sub

# RC2 key expansion for symbolic keys: 256 chained PI_TABLE look-ups per side never answered as a direct query (rc2/conf.rs).
# In this variant the three look-ups of expand_key go through `crate::vpi`, a one-line look-up in the crate's own table (index
# expressions untouched); harness/rc2/route.rs decides the table (leaf) and the expansion with the table uninterpreted on both
# sides for all key bytes at stated (key length, effective length) pairs.
VARIANTS = {
    "rc2:route": dict(crate="rc2", common_mods=["uf", "cuf"], subs=[
        Sub("src/lib.rs", r"PI_TABLE\[(.*)\];$", r"crate::vpi(\1);", 3, kind="re",
            why="expand_key: each of the 3 PI_TABLE look-ups through vpi (index expression untouched)"),
        Sub("src/lib.rs", "use crate::consts::PI_TABLE;\n",
            "use crate::consts::PI_TABLE;\n#[inline(never)] pub(crate) fn vpi(i: usize) -> u8 { PI_TABLE[i] }\n", 1,
            why="vpi = one look-up in the crate's PI_TABLE"),
    ]),
}
_R = [("rc2:route", ["rc2/route.rs"])]
PLAN = {"C09": list(_R), "C20": list(_R)}
ASSUMPTIONS = {
    "C09": ["RC2 key expansion for symbolic key bytes is decided with PI_TABLE uninterpreted on both sides (table lemma rc2_leaf_pi) at the stated (key length, effective key length) pairs; other pairs by the fixed-key sweeps over T1 (rc2_expand_t1_*) and the constructor wiring"],
}

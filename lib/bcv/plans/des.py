VARIANTS = {
    "des": dict(crate="des", common_mods=["uf"]),
    "des+zeroize": dict(crate="des", features=["zeroize"], common_mods=["uf"]),
}
PLAN = {
    "C13": [("des", ["des/c13.rs"])],
}
FIX_COMMITS = ["a3e134a"]

VARIANTS = {
    "des": dict(crate="des", common_mods=["uf", "generic"]),
    "des+zeroize": dict(crate="des", features=["zeroize"], common_mods=["uf", "generic"]),
}
PLAN = {
    "C01": [("des", ["des/c05.rs"])],
    "C05": [("des", ["des/c05.rs"])],
    "C13": [("des", ["des/c13.rs"])],
    "C19": [("des", ["des/xcut.rs"])],
    "C16": [("des+zeroize", ["des/xcut.rs"])],
    "C15": [("des", ["des/xcut.rs"])],
    "C20": [("des", ["des/xcut.rs", "des/c05.rs"])],
    "C04": [("des", ["des/xcut.rs"])],
}
FIX_COMMITS = ["a3e134a"]

VARIANTS = {
    "des": dict(crate="des", common_mods=["uf", "generic"]),
    "des+zeroize": dict(crate="des", features=["zeroize"], common_mods=["uf", "generic"]),
}
PLAN = {
    "C01": [("des", ["des/c05.rs"])],
    "C05": [("des", ["des/c05.rs"])],
    "C13": [("des", ["des/c13.rs"])],
    "C19": [("des", ["des/xcut.rs"])],
    "C16": [("des+zeroize", ["des/xcut.rs"])],
    "C15": [("des", ["des/xcut.rs"])],
    "C20": [("des", ["des/xcut.rs", "des/c05.rs"])],
    "C04": [("des", ["des/xcut.rs"])],
}
# 'fix:' commits in /repo (repairs of genuine defects, see /verif/known_findings.json): des weak keys modulo parity,
# TdesEde3 Debug name, rc5 name prints B, rc5 empty key
FIX_COMMITS = ["a3e134a", "b8bed3c", "7f7d8df", "9f07434"]

"""ARMv8 Cryptography-Extensions backend of the `aes` crate, compiled on this x86-64 host as a shadow variant.

The backend (aes/src/armv8.rs, armv8/{expand,encdec,hazmat}.rs) is selected by `target_arch = "aarch64"`.  The counted
substitutions below (cfg predicates and `use` lines only; no function body is touched) make exactly the aarch64 branches
of lib.rs / autodetect.rs / hazmat.rs active and redirect the `core::arch::aarch64` imports to the instruction model
/verif/harness/aes/arm_model.rs, which is copied into the shadow crate as src/verif_arch.rs.
`cpufeatures::new!(aes_intrinsics, "aes")` is left alone: on this host it expands to x86 CPUID probing, which the harnesses
stub with the same CPUID model as the AES-NI side (aes/ni_model.rs) -- the token/union selection logic of autodetect.rs is
architecture independent."""
from bcv.shadow import Sub

_ARCH = "crate::verif_arch::aarch64::*"
_SUBS = [
    # -- the model module
    Sub("src/lib.rs", "mod soft;", "mod soft;\npub(crate) mod verif_arch;", 1, why="declare the AArch64 instruction model module (src/verif_arch.rs)"),
    # -- take the aarch64 branches, not the x86 ones
    Sub("src/lib.rs", 'target_arch = "aarch64"', "all()", 2, why="lib.rs: aarch64 cfg predicates hold (cfg_if arm `mod armv8; mod autodetect;`; second occurrence is inside cfg(test))"),
    Sub("src/lib.rs", 'target_arch = "x86_64"', "any()", 2, why="lib.rs: x86_64 cfg predicates do not hold (`mod ni` not compiled)"),
    Sub("src/lib.rs", 'target_arch = "x86"', "any()", 2, why="lib.rs: x86 cfg predicates do not hold"),
    Sub("src/autodetect.rs", 'target_arch = "aarch64"', "all()", 1, why="autodetect.rs: `use crate::armv8 as intrinsics`"),
    Sub("src/autodetect.rs", 'target_arch = "x86_64"', "any()", 1, why="autodetect.rs: not `use crate::ni as intrinsics`"),
    Sub("src/autodetect.rs", 'target_arch = "x86"', "any()", 1, why="autodetect.rs: not `use crate::ni as intrinsics`"),
    Sub("src/hazmat.rs", 'target_arch = "aarch64"', "all()", 3, why="hazmat.rs: `use crate::armv8::hazmat as intrinsics`, cpufeatures token and if_intrinsics_available! active"),
    Sub("src/hazmat.rs", 'target_arch = "x86_64"', "any()", 3, why="hazmat.rs: not `use crate::ni::hazmat as intrinsics`"),
    Sub("src/hazmat.rs", 'target_arch = "x86"', "any()", 3, why="hazmat.rs: not `use crate::ni::hazmat as intrinsics`"),
    # -- core::arch::aarch64 -> model
    Sub("src/armv8/expand.rs", "use core::{arch::aarch64::*, mem, slice};", "use core::{mem, slice};\nuse %s;" % _ARCH, 1, why="expand.rs: intrinsics and vector types from the model"),
    Sub("src/armv8/encdec.rs", "use core::{arch::aarch64::*, mem};", "use core::mem;\nuse %s;" % _ARCH, 1, why="encdec.rs: intrinsics and vector types from the model"),
    Sub("src/armv8/hazmat.rs", "use core::arch::aarch64::*;", "use %s;" % _ARCH, 1, why="armv8/hazmat.rs: intrinsics and vector types from the model"),
    # -- visibility only, for the SubWord leaf lemma (the harness module lives at crate::verif_kani)
    Sub("src/armv8.rs", "mod expand;", "pub(crate) mod expand;", 1, why="visibility of armv8::expand for the sub_word leaf lemma"),
    Sub("src/armv8/expand.rs", "unsafe fn sub_word(", "pub(crate) unsafe fn sub_word(", 1, why="visibility of leaf sub_word"),
]
_EXTRA = {"src/verif_arch.rs": "@copy:/verif/harness/aes/arm_model.rs"}


def _v(**kw):
    return dict(crate="aes", common_mods=["uf", "generic"], subs=list(_SUBS), extra_files=dict(_EXTRA), **kw)


VARIANTS = {
    "aes:armv8": _v(),
    # C16 harnesses for the autodetect types live INSIDE crate::autodetect (they call the private
    # aes_intrinsics::init_get() to run CPU detection without constructing a cipher), as on the x86 build (plans/aes.py)
    "aes:armv8+zeroize": _v(features=["zeroize"], inner=[("src/autodetect.rs", "crate::autodetect", "aes/auto_inner_arm.rs")]),
    "aes:armv8+hazmat": _v(features=["hazmat"]),
}
_C = ["aes/ni_model.rs", "aes/c02_arm.rs"]
_X = ["aes/ni_model.rs", "aes/x_arm.rs"]
PLAN = {
    "C02": [("aes:armv8", _C)],
    "C03": [("aes:armv8", _C), ("aes:armv8+hazmat", _X)],
    "C04": [("aes:armv8", _X), ("aes:armv8+hazmat", _X)],
    "C12": [("aes:armv8", _C + ["aes/x_arm.rs"])],
    "C16": [("aes:armv8+zeroize", ["aes/ni_model.rs"])],   # harnesses come from the variant's inner module auto_inner_arm.rs
    "C17": [("aes:armv8+hazmat", _X)],
    "C20": [("aes:armv8", _X)],
}
ASSUMPTIONS = {
    p: ["ARMv8 backend: the AArch64 AES/NEON instructions are replaced by the model /verif/harness/aes/arm_model.rs written from the Arm ARM pseudo-code (trusted, not validated on hardware); "
        "the shadow is compiled for x86-64 (little-endian, 64-bit, like aarch64-unknown-linux-gnu) with the aarch64 cfg branches forced by counted substitutions"]
    for p in ("C02", "C03", "C04", "C12", "C16", "C17", "C20")
}

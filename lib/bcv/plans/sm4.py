VARIANTS = {"sm4": dict(crate="sm4", common_mods=["uf"])}
PLAN = {
    "C06": [("sm4", ["sm4/conf.rs"])],
    "C01": [("sm4", ["sm4/conf.rs"])],
}

VARIANTS = {
    "aria": dict(crate="aria", common_mods=["uf"]),
    "camellia": dict(crate="camellia", common_mods=["uf"]),
}
PLAN = {
    "C06": [("aria", ["aria/conf.rs"]), ("camellia", ["camellia/conf.rs"])],
    "C01": [("aria", ["aria/conf.rs"]), ("camellia", ["camellia/conf.rs"])],
    "C20": [("aria", ["aria/conf.rs"]), ("camellia", ["camellia/conf.rs"])],
}

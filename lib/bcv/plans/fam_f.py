"""Family F: the SOFTWARE (fixsliced) backends of the aes crate: src/soft.rs, src/soft/fixslice64.rs, src/soft/fixslice32.rs,
normal and aes_compact form, and their hazmat sub-modules.

Harness files (all under /verif/harness/aes):
  fix64_inner.rs / fix32_inner.rs   inner modules of crate::soft::fixslice (model, leaf lemmas, stubs, accessors); they
                                    `include!` the shared text soft_inner_body.rs (not a module, not listed anywhere)
  soft_conf.rs                      wiring queries on the public types (C02, C03, C04, C12, C20), shared by all variants
  soft_hazmat.rs                    C17 on the feature-hazmat variants
The cfg `verif_fix32` (baked in like the crate's own cfgs) only tells the shared root-level harness files which inner
module exists in this shadow."""
from bcv.shadow import Sub

_FORCE32 = Sub(
    "src/soft.rs",
    '#[cfg_attr(not(target_pointer_width = "64"), path = "soft/fixslice32.rs")]\n'
    '#[cfg_attr(target_pointer_width = "64", path = "soft/fixslice64.rs")]\n',
    '#[path = "soft/fixslice32.rs"]\n',
    count=1, kind="lit",
    why="select the 32-bit fixslice file on this 64-bit host (module attribute only; no function body is touched)")

_IN64 = [("src/soft/fixslice64.rs", "crate::soft::fixslice", "aes/fix64_inner.rs")]
_IN32 = [("src/soft/fixslice32.rs", "crate::soft::fixslice", "aes/fix32_inner.rs")]
_CM = ["uf", "generic"]


def _v(bits, compact, feats=()):
    cfgs = ["aes_force_soft"] + (["aes_compact"] if compact else []) + (["verif_fix32"] if bits == 32 else [])
    d = dict(crate="aes", cfgs=cfgs, common_mods=list(_CM), inner=list(_IN64 if bits == 64 else _IN32))
    if bits == 32:
        d["subs"] = [_FORCE32]
    if feats:
        d["features"] = list(feats)
    return d


VARIANTS = {
    "aes:soft64": _v(64, False),
    "aes:soft64c": _v(64, True),
    "aes:soft32": _v(32, False),
    "aes:soft32c": _v(32, True),
    "aes:soft64+hazmat": _v(64, False, ["hazmat"]),
    "aes:soft64c+hazmat": _v(64, True, ["hazmat"]),
    "aes:soft32+hazmat": _v(32, False, ["hazmat"]),
    "aes:soft32c+hazmat": _v(32, True, ["hazmat"]),
    "aes:soft64+zeroize": _v(64, False, ["zeroize"]),
}
_BASE = ["aes:soft64", "aes:soft64c", "aes:soft32", "aes:soft32c"]
_HZ = ["aes:soft64+hazmat", "aes:soft64c+hazmat", "aes:soft32+hazmat", "aes:soft32c+hazmat"]
_CONF = ["aes/soft_conf.rs"]
PLAN = {
    "C02": [(v, list(_CONF)) for v in _BASE],
    # each configuration conforms to the one FIPS-197 oracle => pairwise agreement; features: the AES-128 wiring queries
    # are re-run with hazmat / zeroize on (the 192/256 harnesses carry variants= for the four base configurations)
    "C03": [(v, list(_CONF)) for v in _BASE + ["aes:soft64+hazmat", "aes:soft32+hazmat", "aes:soft64+zeroize"]],
    "C04": [(v, list(_CONF)) for v in _BASE],
    "C12": [(v, list(_CONF)) for v in _BASE],
    "C17": [(v, ["aes/soft_hazmat.rs"]) for v in _HZ],
    "C20": [(v, list(_CONF)) for v in _BASE] + [(v, ["aes/soft_hazmat.rs"]) for v in _HZ],
}
# development convenience: VERIF_FAMF_VARIANTS=aes:soft64,aes:soft32 restricts this fragment's entries to the named variants
import os as _os
if _os.environ.get("VERIF_FAMF_VARIANTS"):
    _keep = _os.environ["VERIF_FAMF_VARIANTS"].split(",")
    PLAN = {p: [e for e in lst if e[0] in _keep] for p, lst in PLAN.items()}
ASSUMPTIONS = {
    "C02": [
        "aes software backends: conformance of the composed cipher is concluded from (KS) key-schedule wiring on all keys + (ENC)/(DEC) round wiring on arbitrary round keys (instantiated at the expanded key) + leaf lemmas; in the wiring queries the S-box layer number j is an uninterpreted byte function f_j shared by implementation and FIPS-197 oracle in that layer (one function per layer: weaker than one shared function), sub_bytes/inv_sub_bytes are stubbed by bitslice o (f_j with the NOT convention) o inv_bitslice on lane 0 with the padding lanes havocked (over-approximation justified by the lane-wise leaf lemmas fx_sub_bytes / fx_inv_sub_bytes), mix_columns_k / inv_mix_columns_k by the byte forms mc_ks / imc_ks they are proved equal to (fx_mix_columns / fx_inv_mix_columns), and the oracle's MixColumns / InvMixColumns are the k = 0 byte forms, proved equal to the FIPS-197 matrices on all 2^128 states (fx_mc_model / fx_imc_model)",
        "aes:soft32*: the 32-bit fixslice file is selected by a counted substitution of the module's path attribute and analysed on a 64-bit usize host",
    ],
    "C03": ["aes software configurations (64/32-bit file, normal/compact, features hazmat and zeroize) agree pairwise because each conforms to the same FIPS-197 oracle (C02 queries per configuration)"],
    "C04": ["aes software backends: batch independence = output block `lane` of a full batch equals the oracle cipher of input block `lane` while all other lanes are havocked in every stubbed layer (lane symbolic); batch tails and buffer-to-buffer shapes are covered by the generic C04 harnesses"],
    "C12": ["aes software backends: Enc/Dec/combined constructors are each compared with the oracle key expansion (state equality), conversions and Clone on arbitrary key words"],
    "C17": ["aes software hazmat: 8-block forms with the S-box an uninterpreted byte function per block on every lane and (inv_)mix_columns_0 replaced by its proved byte form; single-block forms direct with the real S-box circuits; InvMixColumns / column mixes tied to the FIPS-197 matrices through fx_mc_model / fx_imc_model"],
}

from bcv.shadow import Sub

# Visibility only: the harness module lives at crate::verif_kani, so items private to a *sub*module must be raised to
# pub(crate) for the leaf lemmas to call them.  No function body is touched.
_KZ_SSE2_SUBS = [
    Sub("src/sse2/mod.rs", "mod backends;", "pub(crate) mod backends;", 1, why="visibility of the sse2 backend module for leaf lemmas"),
    Sub("src/sse2/backends.rs", "unsafe fn sub_bytes(", "pub(crate) unsafe fn sub_bytes(", 1, why="visibility of leaf sub_bytes"),
    Sub("src/sse2/backends.rs", "unsafe fn transform(", "pub(crate) unsafe fn transform(", 1, why="visibility of leaf transform"),
]
_KZ_SOFT_SUBS = [
    Sub("src/big_soft/mod.rs", "mod backends;", "pub(crate) mod backends;", 1, why="visibility of the big_soft backend module for leaf lemmas"),
    Sub("src/big_soft/backends.rs", "fn sub_bytes(", "pub(crate) fn sub_bytes(", 1, why="visibility of leaf sub_bytes"),
    Sub("src/big_soft/backends.rs", "fn transform(", "pub(crate) fn transform(", 1, why="visibility of leaf transform"),
]
_KZ_COMPACT_SUBS = [
    Sub("src/compact_soft/mod.rs", "mod backends;", "pub(crate) mod backends;", 1, why="visibility of the compact_soft backend module for leaf lemmas"),
    Sub("src/compact_soft/backends.rs", "fn lsx(", "pub(crate) fn lsx(", 1, why="visibility of leaf lsx"),
    Sub("src/compact_soft/backends.rs", "fn lsx_inv(", "pub(crate) fn lsx_inv(", 1, why="visibility of leaf lsx_inv"),
]
VARIANTS = {
    "magma": dict(crate="magma", common_mods=["uf", "cuf"], subs=[
        Sub("src/sboxes.rs", "const fn gen_exp_sbox(", "pub(crate) const fn gen_exp_sbox(", 1, why="visibility of gen_exp_sbox for its leaf lemma"),
    ]),
    "belt-block": dict(crate="belt-block", common_mods=["uf", "cuf"]),
    "kuznyechik": dict(crate="kuznyechik", common_mods=["uf", "cuf"], subs=_KZ_SSE2_SUBS),
    "kuznyechik:soft": dict(crate="kuznyechik", cfgs=['kuznyechik_backend="soft"'], common_mods=["uf", "cuf"], subs=_KZ_SOFT_SUBS),
    "kuznyechik:compact": dict(crate="kuznyechik", cfgs=['kuznyechik_backend="compact_soft"'], common_mods=["uf", "cuf"], subs=_KZ_COMPACT_SUBS),
}
_KZ = [
    ("kuznyechik", ["kuznyechik/kz_common.rs", "kuznyechik/sse2.rs"]),
    ("kuznyechik:soft", ["kuznyechik/kz_common.rs", "kuznyechik/soft.rs"]),
    ("kuznyechik:compact", ["kuznyechik/kz_common.rs", "kuznyechik/compact.rs"]),
]
PLAN = {
    "C07": [("magma", ["magma/conf.rs"]), ("belt-block", ["belt-block/conf.rs"])] + _KZ,
    "C18": [("belt-block", ["belt-block/wblock.rs"])],
    "C01": [("magma", ["magma/conf.rs"]), ("belt-block", ["belt-block/conf.rs", "belt-block/wblock.rs"])] + _KZ,
    "C20": [("magma", ["magma/conf.rs"]), ("belt-block", ["belt-block/conf.rs", "belt-block/wblock.rs"])] + _KZ,
    "C03": list(_KZ),
    "C12": list(_KZ),
    "C04": list(_KZ),
}

from bcv.shadow import Sub

# Visibility only: the harness module lives at crate::verif_kani, so items private to a *sub*module must be raised to
# pub(crate) for the leaf lemmas to call them.  No function body is touched.
VARIANTS = {
    "magma": dict(crate="magma", common_mods=["uf"], subs=[
        Sub("src/sboxes.rs", "const fn gen_exp_sbox(", "pub(crate) const fn gen_exp_sbox(", 1, why="visibility of gen_exp_sbox for its leaf lemma"),
    ]),
    "belt-block": dict(crate="belt-block", common_mods=["uf"]),
    "kuznyechik": dict(crate="kuznyechik", common_mods=["uf"], subs=[
        Sub("src/sse2/mod.rs", "mod backends;", "pub(crate) mod backends;", 1, why="visibility of the sse2 backend module for leaf lemmas"),
        Sub("src/sse2/backends.rs", "unsafe fn sub_bytes(", "pub(crate) unsafe fn sub_bytes(", 1, why="visibility of leaf sub_bytes"),
        Sub("src/sse2/backends.rs", "unsafe fn transform(", "pub(crate) unsafe fn transform(", 1, why="visibility of leaf transform"),
        Sub("src/sse2/backends.rs", "pub(super) ", "pub(crate) ", 3, why="visibility of RoundKeys / expand_enc_keys / inv_enc_keys"),
    ]),
}
PLAN = {
    "C07": [("magma", ["magma/conf.rs"]), ("belt-block", ["belt-block/conf.rs"]), ("kuznyechik", ["kuznyechik/sse2.rs"])],
    "C18": [("belt-block", ["belt-block/wblock.rs"])],
    "C01": [("magma", ["magma/conf.rs"]), ("belt-block", ["belt-block/conf.rs", "belt-block/wblock.rs"]), ("kuznyechik", ["kuznyechik/sse2.rs"])],
    "C20": [("magma", ["magma/conf.rs"]), ("belt-block", ["belt-block/conf.rs", "belt-block/wblock.rs"]), ("kuznyechik", ["kuznyechik/sse2.rs"])],
}

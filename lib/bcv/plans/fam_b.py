from bcv.shadow import Sub

# Visibility only: the harness module lives at crate::verif_kani, so items private to a *sub*module must be raised to
# pub(crate) for the leaf lemmas to call them.  No function body is touched.
_KZ_SSE2_SUBS = [
    Sub("src/sse2/mod.rs", "mod backends;", "pub(crate) mod backends;", 1, why="visibility of the sse2 backend module for leaf lemmas"),
    Sub("src/sse2/backends.rs", "unsafe fn sub_bytes(", "pub(crate) unsafe fn sub_bytes(", 1, why="visibility of leaf sub_bytes"),
    Sub("src/sse2/backends.rs", "unsafe fn transform(", "pub(crate) unsafe fn transform(", 1, why="visibility of leaf transform"),
]
_KZ_SOFT_SUBS = [
    Sub("src/big_soft/mod.rs", "mod backends;", "pub(crate) mod backends;", 1, why="visibility of the big_soft backend module for leaf lemmas"),
    Sub("src/big_soft/backends.rs", "fn sub_bytes(", "pub(crate) fn sub_bytes(", 1, why="visibility of leaf sub_bytes"),
    Sub("src/big_soft/backends.rs", "fn transform(", "pub(crate) fn transform(", 1, why="visibility of leaf transform"),
]
_KZ_COMPACT_SUBS = [
    Sub("src/compact_soft/mod.rs", "mod backends;", "pub(crate) mod backends;", 1, why="visibility of the compact_soft backend module for leaf lemmas"),
    Sub("src/compact_soft/backends.rs", "fn lsx(", "pub(crate) fn lsx(", 1, why="visibility of leaf lsx"),
    Sub("src/compact_soft/backends.rs", "fn lsx_inv(", "pub(crate) fn lsx_inv(", 1, why="visibility of leaf lsx_inv"),
]
VARIANTS = {
    "magma": dict(crate="magma", common_mods=["uf", "cuf"], subs=[
        Sub("src/sboxes.rs", "const fn gen_exp_sbox(", "pub(crate) const fn gen_exp_sbox(", 1, why="visibility of gen_exp_sbox for its leaf lemma"),
    ]),
    "belt-block": dict(crate="belt-block", common_mods=["uf", "cuf"]),
    "kuznyechik": dict(crate="kuznyechik", common_mods=["uf", "cuf"], subs=_KZ_SSE2_SUBS),
    "kuznyechik:soft": dict(crate="kuznyechik", cfgs=['kuznyechik_backend="soft"'], common_mods=["uf", "cuf"], subs=_KZ_SOFT_SUBS),
    "kuznyechik:compact": dict(crate="kuznyechik", cfgs=['kuznyechik_backend="compact_soft"'], common_mods=["uf", "cuf"], subs=_KZ_COMPACT_SUBS),
}
_KZ = [
    ("kuznyechik", ["kuznyechik/kz_common.rs", "kuznyechik/sse2.rs"]),
    ("kuznyechik:soft", ["kuznyechik/kz_common.rs", "kuznyechik/soft.rs"]),
    ("kuznyechik:compact", ["kuznyechik/kz_common.rs", "kuznyechik/compact.rs"]),
]
PLAN = {
    "C07": [("magma", ["magma/conf.rs"]), ("belt-block", ["belt-block/conf.rs"])] + _KZ,
    "C18": [("belt-block", ["belt-block/wblock.rs"])],
    "C01": [("magma", ["magma/conf.rs"]), ("belt-block", ["belt-block/conf.rs", "belt-block/wblock.rs"])] + _KZ,
    "C20": [("magma", ["magma/conf.rs"]), ("belt-block", ["belt-block/conf.rs", "belt-block/wblock.rs"])] + _KZ,
    "C03": list(_KZ),
    "C12": list(_KZ),
    "C04": list(_KZ),
}
# kuznyechik: what the W harnesses abstract / assume (each harness' desc= repeats its own part)
_KZ_ASSUME = [
    "kuznyechik: key schedule (kuz_*_keys: real expansion == oracle key schedule for all 2^256 keys, L S one uninterpreted function, the oracle's C_i from a compile-time table tied to c() by kuz_oracle_consts) and encryption / decryption (kuz_*_rk*: arbitrary round keys, S and L uninterpreted mutually inverse pairs) are separate queries; conformance for all keys is their composition",
    "kuznyechik (sse2, big_soft): the decryption W harnesses assume, on the uninterpreted L^-1, the eight instances L^-1(a ^ K) == L^-1(a) ^ L^-1(K) that the pre-transformed decryption keys rely on (kz_common::lin_instances); the lemma -- the oracle's L and L^-1 are GF(2)-linear for all 2^256 pairs -- is proved by kuz_lin_mul, kuz_lin_lfunc, kuz_lin_l / kuz_lin_linv (each level with the level below uninterpreted inside the oracle and its instances assumed)",
    "kuznyechik leaves: sse2 transform == L S / L^-1 S^-1 is (rows of the real tables == oracle, kuz_leaf_rows) + (data flow with the load intrinsic uninterpreted, kuz_leaf_transform_flow) + linearity, composed outside the solver; big_soft transform: rows (kuz_soft_leaf_rows) + single-octet words at one position per table (kuz_soft_leaf_tf_one) + linearity + inspection of the three-line accumulation loop (the 128-bit data-flow query does not fit in memory for this back end); compact_soft lsx / lsx_inv: one-step lemma for all states and step indices (kuz_compact_leaf_lstep) + composition with l_step and the oracle's l_func uninterpreted",
]
ASSUMPTIONS = {p: list(_KZ_ASSUME) for p in ("C07", "C01", "C03", "C12")}

from bcv.shadow import Sub

# serpent's Cargo.toml already has `[lints.rust] unexpected_cfgs = {..}`; the shadow generator only recognises the
# dotted table form and appends a second `[lints.rust.unexpected_cfgs]` table (duplicate key -> TOML error).
# Drop the appended table again (0 matches once the generator recognises the inline form itself).
_SERPENT_LINTS = Sub("Cargo.toml", '\n[lints.rust.unexpected_cfgs]\nlevel = "allow"\n', "", count=(0, 1),
                     why="serpent already configures lints.rust.unexpected_cfgs (inline form): remove the table appended by the shadow generator")

VARIANTS = {
    "serpent": dict(crate="serpent", common_mods=["uf"], subs=[_SERPENT_LINTS]),
    # looped instead of unrolled rounds (serpent/src/unroll.rs); cfg baked in through the generated build.rs
    "serpent:loop": dict(crate="serpent", cfgs=["serpent_no_unroll"], common_mods=["uf"], subs=[_SERPENT_LINTS]),
    # the two harnesses that name the private helper expand_key (see harness/serpent/conf_priv.rs)
    "serpent:priv": dict(crate="serpent", common_mods=["uf"], subs=[_SERPENT_LINTS]),
    "twofish": dict(crate="twofish", common_mods=["uf"]),
    "cast6": dict(crate="cast6", common_mods=["uf"]),
}
_ALL = [("serpent", ["serpent/conf.rs"]), ("twofish", ["twofish/conf.rs"]), ("cast6", ["cast6/conf.rs"])]
_PRIV = [("serpent:priv", ["serpent/conf_priv.rs"])]
PLAN = {
    "C08": list(_ALL) + _PRIV,
    "C01": list(_ALL),
    "C20": list(_ALL) + _PRIV,
    # unrolled == looped: the same leaf + wiring conformance harnesses on both configurations, one oracle
    "C03": [("serpent", ["serpent/conf.rs"]), ("serpent:loop", ["serpent/conf.rs"])],
}
ASSUMPTIONS = {
    "C03": ["agreement of the two cfg(serpent_no_unroll) configurations is concluded from conformance of each to the same oracle (leaf lemmas + wiring of encrypt_block/decrypt_block on every round-key state, every block)"],
}

VARIANTS = {
    # default x86-64 build: autodetect + AES-NI + fixslice64 fallback
    "aes:ni": dict(crate="aes", common_mods=["uf", "generic"]),
    # zeroize build: C16 harnesses for the autodetect types live INSIDE crate::autodetect (they call the private
    # aes_intrinsics::init_get() to run CPU detection without constructing a cipher)
    "aes:ni+zeroize": dict(crate="aes", features=["zeroize"], common_mods=["uf", "generic"],
                           inner=[("src/autodetect.rs", "crate::autodetect", "aes/auto_inner.rs")]),
    "aes:ni+hazmat": dict(crate="aes", features=["hazmat"], common_mods=["uf", "generic"]),
}
_NI = ["aes/ni_model.rs", "aes/c02_ni.rs"]
_X = ["aes/ni_model.rs", "aes/x_ni.rs"]
_HZ = ["aes/ni_model.rs", "aes/c17_ni.rs"]
PLAN = {
    "C02": [("aes:ni", _NI)],
    # C03: besides the default build, the AES-128 conformance wiring is re-run with the optional features on
    # (zeroize, hazmat): a feature that altered an encrypt/decrypt path would fail there
    "C03": [("aes:ni", _NI), ("aes:ni+hazmat", _HZ + ["aes/c02_ni.rs"]), ("aes:ni+zeroize", _NI)],
    "C12": [("aes:ni", _NI + ["aes/x_ni.rs"])],
    "C13": [("aes:ni", _NI)],
    "C04": [("aes:ni", _X), ("aes:ni+hazmat", _HZ)],
    "C15": [("aes:ni", _X)],
    "C16": [("aes:ni+zeroize", ["aes/ni_model.rs"])],     # harnesses come from the variant's inner module
    "C17": [("aes:ni+hazmat", _HZ + ["aes/c02_ni.rs"])],   # c02_ni.rs carries the oracle lemma fips_mc_inverse (prop C17)
    "C19": [("aes:ni", _X)],
    "C20": [("aes:ni", _X)],
}

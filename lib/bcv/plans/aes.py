VARIANTS = {
    # default x86-64 build: autodetect + AES-NI + fixslice64 fallback
    "aes:ni": dict(crate="aes", common_mods=["uf", "generic"]),
    "aes:ni+zeroize": dict(crate="aes", features=["zeroize"], common_mods=["uf", "generic"]),
    "aes:ni+hazmat": dict(crate="aes", features=["hazmat"], common_mods=["uf", "generic"]),
}
_NI = ["aes/ni_model.rs", "aes/c02_ni.rs"]
PLAN = {
    "C02": [("aes:ni", _NI)],
    "C03": [("aes:ni", _NI)],
    "C12": [("aes:ni", _NI)],
    "C13": [("aes:ni", _NI)],
}

"""Family E: rc5, speck (speck-cipher), threefish, gift (gift-cipher).

C10  conformance to the specifications (Rivest's RC5 paper, Simon&Speck paper, Skein 1.3, GIFT paper) -- oracles in
     refmodels/src/{rc5,speck,threefish,gift}.rs, validated natively by refmodels/validate/src/v_e.rs
C01  round trips
C20  absence of panics / overflows (dev-profile obligations of every harness; the harnesses marked prop=..C20 are
     the ones whose inputs cover the data-dependent rotates / narrow-word-in-wide-carrier rotates named in C20)

`pkg_name` is the Cargo package name where it differs from the directory name (needed by the native replay driver).
"""
VARIANTS = {
    "rc5": dict(crate="rc5", common_mods=["uf"]),
    "speck": dict(crate="speck", pkg_name="speck-cipher", common_mods=["uf"]),
    "threefish": dict(crate="threefish", common_mods=["uf"]),
    "gift": dict(crate="gift", pkg_name="gift-cipher", common_mods=["uf"]),
}
_ALL = [
    ("rc5", ["rc5/conf.rs"]),
    ("speck", ["speck/conf.rs"]),
    ("threefish", ["threefish/conf.rs"]),
    ("gift", ["gift/conf.rs"]),
]
PLAN = {
    "C10": list(_ALL),
    "C01": list(_ALL),
    "C20": list(_ALL),
}
ASSUMPTIONS = {
    "C10": [
        "RC5 is checked for the listed concrete instantiations RC5<W,R,B> (type-level generic code: one harness set per instantiation); rounds/round trips range over every key table, key schedules over every key of length B",
        "Threefish W-queries: mix / inv_mix are an uninterpreted keyed bijection shared with the oracle (leaf lemmas threefish_leaf_*)",
    ],
}

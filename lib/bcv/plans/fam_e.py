"""Family E: rc5, speck (speck-cipher), threefish, gift (gift-cipher).

C10  conformance to the specifications (Rivest's RC5 paper, Simon&Speck paper, Skein 1.3, GIFT paper) -- oracles in
     refmodels/src/{rc5,speck,threefish,gift}.rs, validated natively by refmodels/validate/src/v_e.rs
C01  round trips
C20  absence of panics / overflows (dev-profile obligations of every harness; the harnesses marked prop=..C20 are
     the ones whose inputs cover the data-dependent rotates / narrow-word-in-wide-carrier rotates named in C20)

`pkg_name` is the Cargo package name where it differs from the directory name (needed by the native replay driver).
"""
VARIANTS = {
    "rc5": dict(crate="rc5", common_mods=["uf"]),
    "speck": dict(crate="speck", pkg_name="speck-cipher", common_mods=["uf"]),
    "threefish": dict(crate="threefish", common_mods=["uf"]),
    "gift": dict(crate="gift", pkg_name="gift-cipher", common_mods=["uf"]),
}
_ALL = [
    ("rc5", ["rc5/conf.rs"]),
    ("speck", ["speck/conf.rs"]),
    ("threefish", ["threefish/conf.rs"]),
    ("gift", ["gift/conf.rs"]),
]
PLAN = {
    "C10": list(_ALL),
    "C01": list(_ALL),
    "C20": list(_ALL),
}
_W = ("W-queries of this family use uninterpreted leaves WITH MATCH HINTS: every query runs two passes with the same "
      "number of leaf calls; pass 1 logs (arguments, result) of every call, the k-th call of pass 2 is constrained against "
      "exactly one logged call (equal arguments => equal result when both passes run the same function; the inverse "
      "relation of the leaf lemma when pass 2 undoes pass 1).  Every assumed implication holds for the real leaves whatever "
      "the pairing, so a wrong pairing can only produce a spurious counterexample (caught by native replay), never a false proof")
ASSUMPTIONS = {
    "C10": [
        "RC5 is checked for concrete instantiations RC5<W,R,B> (type-level generic code, one harness set per instantiation): the six of rc5/tests/mod.rs, 8/0/1, 16/1/3, 32/12/5, 64/24/9, 128/28/17, the r = 1 instantiations 32/1/5, 64/1/9, 128/1/17, RC5-8/128/1 (r >= 128) and RC5<u32,U12,U0> (b = 0); rounds / round trips range over EVERY key table (superset of all keys)",
        "RC5 key expansion: steps 1-2 (key_into_words, initialize_expanded_key_table) for fifteen instantiations and every key (rc5_kw_all); the complete expansion incl. step 3 (mix_in) for 8/12/4, 16/16/8, 8/0/1, 16/1/3 (direct) and for the r <= 1 instantiations of every word type on arbitrary key words (wiring); step 3 at the real round counts of 32/64/128-bit words did not finish (direct: > 900 s, wiring: out of memory) and rests on the generic code shared with the proved instantiations plus the native vectors of rc5/tests/mod.rs; RC5-8/128/1 has round trips only (C01/C20)",
        "Threefish-1024: key schedule and MIX leaf only; its round queries ran out of memory (wiring) or did not finish in 1 h (direct); the round code is the macro shared with Threefish-256/512",
        "RC5: leaves = the four Word operations (wrapping_add, wrapping_sub, rotate_left, rotate_right) of each word type, tied to the oracle's arithmetic mod 2^w by rc5_leaf_ops_<w> for all arguments; direct key-expansion queries run the oracle on the real leaves (same gate structure on both sides)",
        "Speck 96/128-bit blocks: round_function / inverse_round_function uninterpreted (leaf lemmas speck_leaf_round, speck_leaf_inverse); 32..64-bit blocks are direct queries",
        "Threefish: mix / inv_mix uninterpreted (leaf lemma threefish_leaf_mix); byte vs u64 entry points and round trips on an arbitrary subkey table (superset of every key and tweak); key schedule direct",
        "GIFT-128: the fixsliced code is compared with the bit-level specification per quintuple of rounds through packing / unpacking (proved mutually inverse bijections), for every key with the REAL precompute_rkeys; encrypt_block / decrypt_block == the eight quintuples with quintuple_round uninterpreted",
        _W,
    ],
    "C01": [_W],
    "C20": ["RC5 rotate_left / rotate_right with every data-dependent count of every word type: rc5_leaf_ops_<w> (all x, all n); Speck rotates of 24/48-bit words in u32/u64 carriers: speck_leaf_round / speck_leaf_inverse incl. garbage above bit n; GIFT ror and nibble/byte/half rotates: every gift_* harness runs them on symbolic data"],
}

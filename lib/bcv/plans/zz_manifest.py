TECH = "bounded symbolic execution of the real Rust code with Kani/CBMC (SAT, CaDiCaL); solver verdict over all symbolic inputs within stated bounds; counterexamples replayed natively"
MANIFEST_TEXT = {
    "C13": dict(
        level="Each clause is a solver verdict over the full key width (all 2^64 DES keys, all 2^128/2^192 TDES keys, all AES keys): weak_key_test/new_checked of the real crate vs. the statement's predicate (NIST list modulo parity; upper half zero). Bounded only by fixed key widths, so the verdict covers every key.",
        note="NIST weak-key list carried by the oracle (validated structurally: odd parity, 4/12/48 keys with 1/2/4 distinct subkeys under the FIPS 46-3 key schedule); Kani/CBMC/CaDiCaL; MIR-level semantics.",
        technique=TECH),
}

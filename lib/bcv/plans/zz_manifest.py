"""Per-property texts for MANIFEST.json (level claimed, trusted base, technique).  A property appears in MANIFEST.checks
only if it has a plan AND a text here; everything else is listed under not_applicable by gen_manifest.py."""

TECH = ("bounded symbolic execution of the real Rust code with Kani 0.68 / CBMC 6.11 (SAT back end CaDiCaL): inputs, keys, "
        "states, lengths symbolic; solver verdict over all values within the stated bounds; non-linear leaves as shared "
        "uninterpreted functions (CBMC function applications or Ackermann logs) where the direct query is out of reach, tied "
        "down by leaf lemmas over the leaf's full input space; loops out of reach by an inductive step on the real loop body; "
        "counterexamples replayed natively (dev and release profile) against a copy of the real crate before reporting")

BASE = ("Trusted: Kani's MIR->GOTO translation, CBMC, CaDiCaL; the oracles in /verif/refmodels (validated natively against all "
        "of the repository's vectors: 0 mismatches) and the constant tables they carry; the counted shadow transformations "
        "listed in the evidence; sequential MIR-level semantics (no threads, no optimiser).")

# Properties whose registered check has been run green, end to end, on the unchanged tree by the main session.
# gen_manifest.py lists every other property under not_applicable ("under construction") even if harnesses exist.
CLAIMED = ["C%02d" % i for i in range(1, 21)]

MANIFEST_TEXT = {
    "C01": dict(
        level="Round trips dec(enc(b))==b and enc(dec(b))==b per cipher type over all blocks and either all keys (D queries) or all expanded-key states, a superset of all keys (W queries: round leaf uninterpreted, or S-box / linear layer as uninterpreted inverse pairs whose inverse lemmas are separate queries): DES, TDES x4, SM4, Camellia, ARIA, Serpent (both unroll variants), Twofish, CAST-256, Blowfish BE/LE, IDEA, RC2, XTEA, Magma, BelT, Kuznyechik (sse2, big_soft, compact_soft), RC5 (14 instantiations + 128 rounds), Speck x10, Threefish-256/512, GIFT; AES through conformance of both directions to FIPS-197 (C02) plus oracle inverse lemmas.  BelT wide block: whole function for 32..=48 octets and, for 100 / 2048 / 4096 / 2033 octets, an inductive step on the real round body with an arbitrary round counter.  CAST5: round trips on arbitrary 12- and 16-round states for any round functions (round-function macros given a function boundary in the shadow copy, DESIGN 10.2 item 17).  Not decided: Threefish-1024 rounds, NEON (DESIGN 10.5).",
        note=BASE + " W queries additionally rely on: any function as Feistel leaf (no lemma needed) or the leaf-inverse lemma proved as its own query.",
        technique=TECH),
    "C02": dict(
        level="AES-128/192/256 (combined, Enc, Dec types) == FIPS-197 for all keys and all blocks, per backend: x86 autodetect->AES-NI arm (W: real key expansion sequences, inverse keys, round sequencing, loads/stores; the unkeyed round bodies of AESENC/AESENCLAST/AESDEC/AESDECLAST, AESIMC and the key-schedule S-box are uninterpreted functions shared with the oracle, whose concrete meaning is the Intel SDM definition); fixslice64/32 normal and compact (leaf lemmas for the bitsliced S-box circuits, linear layers and packing + wiring with the byte S-box uninterpreted); ARMv8 (software model of the intrinsics).  Decryption is compared with FIPS-197's equivalent inverse cipher (5.3.5), tied to InvCipher by oracle lemmas.",
        note=BASE + " Intrinsic models (AES-NI from the Intel SDM, validated natively against the real instructions of this host; ARMv8 from the Arm ARM, not validated on hardware); 32-bit and aarch64 sources are compiled for the x86-64 host from shadow copies.",
        technique=TECH),
    "C03": dict(
        level="Backend/cfg independence by transitivity: every configuration (autodetect->NI, fixslice64, fixslice64 compact, fixslice32, fixslice32 compact, ARMv8 model; Kuznyechik backends; Serpent unrolled/looped) is decided to conform to the same oracle over all keys and blocks, hence they agree pairwise; hazmat dispatchers are decided with CPUID symbolic (both arms in one query).",
        note=BASE + " Configuration matrix is the list of shadow variants in the evidence; configurations that do not exist in the source are outside the claim.",
        technique=TECH),
    "C04": dict(
        level="Per cipher type (parallel width 1), quick tier: the single-block b2b call into an output buffer pre-filled with arbitrary bytes equals the in-place call on an arbitrary state, separate input unchanged (for these types the multi-block entry points are the cipher crate's loop over this call); thorough tier: multi-block in-place, multi-block b2b and single b2b calls equal per-block in-place calls for every block count n in 0..=2, blocks >= n and mismatched-length outputs untouched (table-based ciphers with the non-linear leaf uninterpreted).  AES-NI 9-wide path: n = 10 (batch + tail; thorough 8, 9, 19, AES-256), output block i for a SYMBOLIC lane i, b2b with the input unchanged (quick) and in place at a symbolic buffer offset 0..15 with guard bytes (thorough); fixslice batches (last lane quick, symbolic lane thorough); ARMv8 model n = 3, 21 (quick), 22 / 20 / 18 (thorough); Kuznyechik sse2 4-wide and big_soft 3-wide batches (+ tail thorough).  Types whose two-copy equivalence does not finish in the quick budget (most Magma sets, XTEA, RC5 with 32-bit words, Threefish-256 / -512) are thorough only; it is not decided for Threefish-1024 and RC5 with 64/128-bit words (no answer / out of memory: disabled).  CAST5 / CAST-256 (round-function macros given a function boundary in the shadow copy) and Threefish-256 / -512 (MIX abstracted by position pairing) run it with the leaf abstracted (DESIGN 10.2 items 17, 19).",
        note=BASE + " Block counts are enumerated (bounded), contents are universal; counts above the bound are outside the claim (the iteration code is periodic in the parallel width).",
        technique=TECH),
    "C05": dict(
        level="Des == FIPS 46-3 for all 2^64 keys x 2^64 blocks: leaf lemmas for IP/FP, the round function (E, S-boxes, P) and the key schedule (PC1, rotations, PC2) against bit-table oracles over their full input spaces + wiring of Des::new/encrypt/decrypt with f uninterpreted; thorough tier adds the direct query with nothing abstracted.  TDES EDE3/EDE2/EEE3/EEE2 == SP 800-67 compositions with single DES uninterpreted per key part; key relations (equal parts = DES, parity bits ignored, complementation) as separate queries.",
        note=BASE + " DES S-box tables of the oracle typed from FIPS 46-3 (validated on 2700 vectors).",
        technique=TECH),
    "C06": dict(
        level="ARIA-128/192/256 == RFC 5794, Camellia-128/192/256 == RFC 3713, SM4 == GB/T 32907 for all keys and blocks, both directions: leaf lemmas (S-box layers, diffusion, F/FL/FLINV, T/T') over the leaves' full input spaces + wiring of the real key schedules and round loops with the leaves uninterpreted on both sides.",
        note=BASE, technique=TECH),
    "C07": dict(
        level="Kuznyechik (default backend; others per C03), Magma and Gost89 over the six bundled and two user-defined S-box sets, BeltBlock/belt_block_raw == their standards for all keys and blocks; gen_exp_sbox decided for every 8x16 nibble table (symbolic table).",
        note=BASE + " 'Any user Sbox impl' is bounded to the symbolic-table lemma plus 8 concrete types.",
        technique=TECH),
    "C08": dict(
        level="Serpent (key length symbolic 16..=32, both unroll variants), Twofish (16/24/32) and CAST-256 (five key sizes) == their specifications for all keys and blocks: leaf lemmas (bitsliced S-box circuits, linear transform, q-boxes/MDS/RS/h/g, quads/octave) + wiring with the leaves uninterpreted.",
        note=BASE, technique=TECH),
    "C09": dict(
        level="Blowfish / BlowfishLE: round function leaf, data path and round trips on arbitrary P/S (quick), key expansion for key lengths 0..=57 under a lockstep stub on the inner encrypt (thorough).  IDEA: multiplication and inverse leaves, key expansion, data path, all keys (quick).  XTEA: direct conformance, all keys and blocks (quick).  RC2: data path on an arbitrary round-key state, constructor wiring, key expansion for every effective length T1 of stated ranges with fixed keys (the effective-length mask is data independent) and for ALL key bytes at six (key length, effective length) pairs with the table abstracted by position-paired look-ups (DESIGN 10.2 item 18).  CAST5, compositionally (DESIGN 10.2 item 17: the shadow copy gives the round-function macros and the S-box look-ups a function boundary, their text unchanged): tables S1..S8, the three round-function bodies for all arguments, both block functions on arbitrary 12- and 16-round states, the half key schedule for all 2^128 running values, constructor wiring (padding, 12/16-round flag).  NOT decided by a finished query: RC2 key expansion with key length, key bytes and effective length all symbolic at once (DESIGN 10.5); its oracle is validated natively against all repository vectors.",
        note=BASE + " Blowfish's 521 chained self-modifying encryptions are decided under the call-indexed abstraction (DESIGN 2.3).",
        technique=TECH),
    "C10": dict(
        level="RC5: word operations for all five word types, key-to-words and table initialisation for 15 instantiations (odd key lengths, b = 0, r = 0 included), full key expansion for 8/16-bit words, rounds and round trips on arbitrary key tables for 14 instantiations and for 128 rounds; Speck x10 (key schedule, rounds, round trips); Threefish-256/512 (key schedule incl. tweak and both entry points, rounds on arbitrary subkey tables), Threefish-1024 key schedule and MIX only; GIFT-128 (quintuple decomposition against bit-level rounds, all keys).  Not decided: RC5 key mixing at real round counts for 32/64/128-bit words, Threefish-1024 rounds.",
        note=BASE + " RC5 admits 5 x 256 x 256 type-level instantiations; a listed dozen are checked.",
        technique=TECH),
    "C11": dict(
        level="Length contract for every cipher type: new_from_slice on a slice of symbolic length 0..=300 is Ok exactly for the accepted lengths and Err otherwise, without panicking (types with the default implementation: zero key content, the verdict depends on the length only; the seven crates that override it: symbolic content, heavy key schedules replaced by stand-ins injective in what they are handed).  Constructor pairs by state equality for the overriding crates (new vs new_from_slice; Serpent / CAST5 / CAST6 short key vs explicitly padded key; Rc2 slice vs effective length 8 x len).",
        note=BASE + " Lengths above 300 take the same comparison (usize compare) and are not explored; Blowfish/CAST5 key schedules are stubbed out in the verdict-only harnesses.",
        technique=TECH),
    "C12": dict(
        level="AES (NI arm; soft; ARMv8 model) and Kuznyechik: combined/Enc/Dec instances obtained by new, From<Enc>, From<&Enc>, clone and clone-of-converted are each decided to compute FIPS-197 / GOST for all keys and blocks (same wiring queries as C02/C07 run through the conversion chains), hence agree with a freshly keyed combined cipher.",
        note=BASE, technique=TECH),
    "C13": dict(
        level="Each clause is a solver verdict over the full key width (all 2^64 DES keys, all 2^128/2^192 TDES keys, all AES keys, every other type's key size): weak_key_test / new_checked of the real crate vs the statement's predicate (NIST list modulo parity, parts equal modulo parity; upper half zero; never fails).",
        note=BASE + " NIST weak-key list carried by the oracle, validated structurally (odd parity; 4/12/48 keys with 1/2/4 distinct subkeys).",
        technique=TECH),
    "C14": dict(
        level="bc_init_state and bc_encrypt (arbitrary state) against the reference; salted_expand_key / bc_expand_key / zero-salt equivalence in a data-flow form at fixed salt and key lengths (12-, 16-, 5-byte salts, 72-, 8-, 57-byte keys): the inner encrypt replaced on both sides by a recording stand-in, arguments of all 521 calls and the final state compared (quick); lockstep forms against the eksblowfish step machine from an arbitrary pre-state with symbolic key / salt lengths (thorough, 20-30 GB).  One step from an arbitrary pre-state covers call sequences of any length.",
        note=BASE + " Bounds on salt/key length as stated in the evidence.",
        technique=TECH),
    "C15": dict(
        level="Sequential histories (threads = 1): per type, the same call twice on one arbitrary-state instance gives the same result and leaves every byte of the instance unchanged (quick); op(x); op(y); op(x) and the mixed enc/dec history against a pristine instance (thorough, quick for DES/TDES and the ciphers with an abstractable leaf); construction history new(k2); new(k1); new(k2); new(k3); new(k1) (process-wide state written by construction; not decided for ARIA, SM4, IDEA, Kuznyechik and RC5 with words of 16 bits and more, whose real key schedules five times over did not answer: disabled, DESIGN 10.5); AES autodetect history including the first use that runs CPU detection.  A textual listing of every static mut / atomic / cell construct of the crates guards the 'no interior mutability' premise (a new one is an engine error until a harness covers it).  Thread interleavings are NOT decided (Kani is sequential).",
        note=BASE + " The 'all thread interleavings' part of the quantifier is outside the technique and stated as such.",
        technique=TECH),
    "C16": dict(
        level="zeroize feature: drop_in_place of an arbitrary-state instance (built in place from symbolic bytes) leaves every byte of its storage zero, for every cipher type; only padding (Cast5) and the dead tail of the AES autodetect unions are exempt, computed from offset_of!/size_of.",
        note=BASE + " Copies the compiler may leave in registers/stack are outside MIR-level analysis.",
        technique=TECH),
    "C17": dict(
        level="aes::hazmat::{cipher_round, equiv_inv_cipher_round} == the FIPS-197 round transformations for all 2^128 blocks x 2^128 keys with CPUID symbolic (intrinsics arm with concrete Intel-SDM models, fixslice arm with the real S-box circuits); mix_columns / inv_mix_columns per arm (intrinsics arm: three AESIMC, with the oracle lemma InvMixColumns^3 == MixColumns; fixslice: structure-aligned byte forms tied to the FIPS matrices by model lemmas) and mutual inverses by additivity + single-byte basis; 8-block forms == eight single rounds with the respective keys; four fixslice builds and the ARMv8 model.",
        note=BASE, technique=TECH),
    "C18": dict(
        level="belt_wblock_enc/dec == STB 34.101.31 6.2 for 32, 33, 47, 48 octets (whole function, all keys and contents, belt-block uninterpreted) and per ROUND for 100, 2048 (quick), 4096 and 2033 octets (thorough): the real round body with an arbitrary counter on an arbitrary buffer equals the standard's round, and the decryption round inverts the encryption round (induction over the rounds gives the whole function; that the loops visit 1..=2n in order is decided at the short lengths); fewer than 32 octets: error and buffer untouched.",
        note=BASE + " Lengths above the stated bound are outside the claim.",
        technique=TECH),
    "C19": dict(
        level="Per type: Debug on an arbitrary state equals Debug on the zero-bytes instance (so it cannot depend on key material) and starts with the type identifier; AlgorithmName contains the algorithm name and every type-level parameter (key size, variant, byte order, S-box name, RC5 w/r/b).",
        note=BASE, technique=TECH),
    "C20": dict(
        level="Dev-profile obligations (overflow, bounds, unwrap, debug_assert, shift) are proof obligations of every harness of every property.  Quick tier: per-type totality with nothing abstracted for the table-based ciphers, AES soft, RC5 with 128 rounds, BelT wide-block round at 2048 octets with the counter reaching 256, Kuznyechik key schedules; thorough tier: every harness that names C20 (all types, all backends).  Since no overflow check or debug assertion can fire, dev and release profiles compute the same function; counterexamples are replayed in both profiles.",
        note=BASE + " Allocation/stack exhaustion and anything below MIR are outside.",
        technique=TECH),
}

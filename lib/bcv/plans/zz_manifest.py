"""Per-property texts for MANIFEST.json (level claimed, trusted base, technique).  A property appears in MANIFEST.checks
only if it has a plan AND a text here; everything else is listed under not_applicable by gen_manifest.py."""

TECH = ("bounded symbolic execution of the real Rust code with Kani 0.68 / CBMC 6.11 (SAT back end CaDiCaL): inputs, keys, "
        "states, lengths symbolic; solver verdict over all values within the stated bounds; non-linear leaves as shared "
        "uninterpreted functions (Ackermann) where the direct query is out of reach, tied down by leaf lemmas over the "
        "leaf's full input space; counterexamples replayed natively against a copy of the real crate before reporting")

BASE = ("Trusted: Kani's MIR->GOTO translation, CBMC, CaDiCaL; the oracles in /verif/refmodels (validated natively against all "
        "of the repository's vectors: 0 mismatches) and the constant tables they carry; the counted shadow transformations "
        "listed in the evidence; sequential MIR-level semantics (no threads, no optimiser).")

# Properties whose registered check has been run green, end to end, on the unchanged tree by the main session.
# gen_manifest.py lists every other property under not_applicable ("under construction") even if harnesses exist.
CLAIMED = ["C05", "C06", "C13", "C19"]

MANIFEST_TEXT = {
    "C01": dict(
        level="Round trips dec(enc(b))==b and enc(dec(b))==b decided per cipher type over all blocks and either all keys (public constructor, D queries: DES, Magma/Gost89 sets, XTEA, Speck, GIFT, RC5 instantiations, ...) or all expanded-key states, a superset of all keys (W queries with the round leaf uninterpreted: SM4, Camellia, Twofish, CAST-256, BelT, TDES, Threefish, ...; SPN ciphers through uninterpreted bijection pairs or through conformance of both directions to one oracle).  BelT wide block per length in a stated range.  Bounded model checking: complete over the fixed-width inputs, bounded in wide-block length and in the list of RC5/Speck/Threefish instantiations.",
        note=BASE + " W queries additionally rely on: any function as Feistel leaf (no lemma needed) or the leaf-inverse lemma proved as its own query.",
        technique=TECH),
    "C02": dict(
        level="AES-128/192/256 (combined, Enc, Dec types) == FIPS-197 for all keys and all blocks, per backend: x86 autodetect->AES-NI arm (W: real key expansion sequences, inverse keys, round sequencing, loads/stores; the unkeyed round bodies of AESENC/AESENCLAST/AESDEC/AESDECLAST, AESIMC and the key-schedule S-box are uninterpreted functions shared with the oracle, whose concrete meaning is the Intel SDM definition); fixslice64/32 normal and compact (leaf lemmas for the bitsliced S-box circuits, linear layers and packing + wiring with the byte S-box uninterpreted); ARMv8 (software model of the intrinsics).  Decryption is compared with FIPS-197's equivalent inverse cipher (5.3.5), tied to InvCipher by oracle lemmas.",
        note=BASE + " Intrinsic models (AES-NI from the Intel SDM, validated natively against the real instructions of this host; ARMv8 from the Arm ARM, not validated on hardware); 32-bit and aarch64 sources are compiled for the x86-64 host from shadow copies.",
        technique=TECH),
    "C03": dict(
        level="Backend/cfg independence by transitivity: every configuration (autodetect->NI, fixslice64, fixslice64 compact, fixslice32, fixslice32 compact, ARMv8 model; Kuznyechik backends; Serpent unrolled/looped) is decided to conform to the same oracle over all keys and blocks, hence they agree pairwise; hazmat dispatchers are decided with CPUID symbolic (both arms in one query).",
        note=BASE + " Configuration matrix is the list of shadow variants in the evidence; configurations that do not exist in the source are outside the claim.",
        technique=TECH),
    "C04": dict(
        level="For every cipher type: multi-block in-place, multi-block b2b and single b2b calls equal per-block in-place calls on an arbitrary state for every block count n in 0..=2 (parallel width 1) — all contents symbolic, separate input unchanged, output blocks >= n and mismatched-length outputs untouched.  AES-NI 9-wide path: n = 10 (batch + tail; thorough: 8, 9, 19) at a symbolic buffer offset 0..15 with guard bytes; fixslice and Kuznyechik/ARMv8 parallel paths per their harness lists.",
        note=BASE + " Block counts are enumerated (bounded), contents are universal; counts above the bound are outside the claim (the iteration code is periodic in the parallel width).",
        technique=TECH),
    "C05": dict(
        level="Des == FIPS 46-3 for all 2^64 keys x 2^64 blocks: leaf lemmas for IP/FP, the round function (E, S-boxes, P) and the key schedule (PC1, rotations, PC2) against bit-table oracles over their full input spaces + wiring of Des::new/encrypt/decrypt with f uninterpreted; thorough tier adds the direct query with nothing abstracted.  TDES EDE3/EDE2/EEE3/EEE2 == SP 800-67 compositions with single DES uninterpreted per key part; key relations (equal parts = DES, parity bits ignored, complementation) as separate queries.",
        note=BASE + " DES S-box tables of the oracle typed from FIPS 46-3 (validated on 2700 vectors).",
        technique=TECH),
    "C06": dict(
        level="ARIA-128/192/256 == RFC 5794, Camellia-128/192/256 == RFC 3713, SM4 == GB/T 32907 for all keys and blocks, both directions: leaf lemmas (S-box layers, diffusion, F/FL/FLINV, T/T') over the leaves' full input spaces + wiring of the real key schedules and round loops with the leaves uninterpreted on both sides.",
        note=BASE, technique=TECH),
    "C07": dict(
        level="Kuznyechik (default backend; others per C03), Magma and Gost89 over the six bundled and two user-defined S-box sets, BeltBlock/belt_block_raw == their standards for all keys and blocks; gen_exp_sbox decided for every 8x16 nibble table (symbolic table).",
        note=BASE + " 'Any user Sbox impl' is bounded to the symbolic-table lemma plus 8 concrete types.",
        technique=TECH),
    "C08": dict(
        level="Serpent (key length symbolic 16..=32, both unroll variants), Twofish (16/24/32) and CAST-256 (five key sizes) == their specifications for all keys and blocks: leaf lemmas (bitsliced S-box circuits, linear transform, q-boxes/MDS/RS/h/g, quads/octave) + wiring with the leaves uninterpreted.",
        note=BASE, technique=TECH),
    "C09": dict(
        level="Blowfish/BlowfishLE, CAST5, IDEA, RC2, XTEA == their specifications: round functions on arbitrary states (D), key schedules vs oracle (Blowfish with the inner encrypt uninterpreted per call index, key length symbolic 4..=56; RC2 key and effective lengths symbolic within the tier bound; CAST5 per stated split), leaf lemmas for IDEA multiplication modulo 65537.",
        note=BASE + " Blowfish's 521 chained self-modifying encryptions are decided under the call-indexed abstraction (DESIGN 2.3).",
        technique=TECH),
    "C10": dict(
        level="RC5 (listed W/R/B instantiations), the ten Speck variants, Threefish-256/512/1024 (tweak, byte vs u64 entry points, zero-tweak constructor) and GIFT-128 == their specifications for all keys and blocks, by D queries where they finish and L+W otherwise.",
        note=BASE + " RC5 admits 5 x 256 x 256 type-level instantiations; a listed dozen are checked.",
        technique=TECH),
    "C11": dict(
        level="For every cipher type new_from_slice(&buf[..len]) with buf (300 bytes) and len (0..=300) symbolic is Ok exactly for the accepted lengths and Err otherwise without panicking; new(&key) and new_from_slice(&key) give the same state; padded/short-key and Rc2 effective-length constructor pairs by state equality.",
        note=BASE + " Lengths above 300 take the same comparison (usize compare) and are not explored; Blowfish/CAST5 key schedules are stubbed out in the verdict-only harnesses.",
        technique=TECH),
    "C12": dict(
        level="AES (NI arm; soft; ARMv8 model) and Kuznyechik: combined/Enc/Dec instances obtained by new, From<Enc>, From<&Enc>, clone and clone-of-converted are each decided to compute FIPS-197 / GOST for all keys and blocks (same wiring queries as C02/C07 run through the conversion chains), hence agree with a freshly keyed combined cipher.",
        note=BASE, technique=TECH),
    "C13": dict(
        level="Each clause is a solver verdict over the full key width (all 2^64 DES keys, all 2^128/2^192 TDES keys, all AES keys, every other type's key size): weak_key_test / new_checked of the real crate vs the statement's predicate (NIST list modulo parity, parts equal modulo parity; upper half zero; never fails).",
        note=BASE + " NIST weak-key list carried by the oracle, validated structurally (odd parity; 4/12/48 keys with 1/2/4 distinct subkeys).",
        technique=TECH),
    "C14": dict(
        level="bcrypt primitives: each of salted_expand_key, bc_expand_key, bc_encrypt, bc_init_state decided as ONE step from an arbitrary pre-state against the eksblowfish oracle step (salt and key lengths symbolic within bounds, inner encrypt uninterpreted per call index); induction over the step covers call sequences of any length.",
        note=BASE + " Bounds on salt/key length as stated in the evidence.",
        technique=TECH),
    "C15": dict(
        level="Sequential histories: frame harness per type (encrypt/decrypt on an arbitrary state leave every byte of the instance unchanged) + AES autodetect history harness including the first-use CPU detection; with determinism of symbolic execution this gives history independence for sequential histories of any length.  Thread interleavings are NOT decided (Kani is sequential): threads = 1.",
        note=BASE + " The 'all thread interleavings' part of the quantifier is outside the technique and stated as such.",
        technique=TECH),
    "C16": dict(
        level="zeroize feature: drop_in_place of an arbitrary-state instance (built in place from symbolic bytes) leaves every byte of its storage zero, for every cipher type; only padding (Cast5) and the dead tail of the AES autodetect unions are exempt, computed from offset_of!/size_of.",
        note=BASE + " Copies the compiler may leave in registers/stack are outside MIR-level analysis.",
        technique=TECH),
    "C17": dict(
        level="aes::hazmat::{cipher_round, equiv_inv_cipher_round, mix_columns, inv_mix_columns} == FIPS-197 round transformations for all 2^128 blocks x 2^128 keys with CPUID symbolic (intrinsics arm with concrete SDM models, fixslice arm with nothing abstracted); par forms == eight single calls.",
        note=BASE, technique=TECH),
    "C18": dict(
        level="belt_wblock_enc/dec == STB 34.101.31 wide block for every length in the stated range (incl. non-multiples of 16) and all keys/contents with belt_block_raw uninterpreted; inverse both orders; len < 32 returns the error and leaves the buffer unchanged.",
        note=BASE + " Lengths above the stated bound are outside the claim.",
        technique=TECH),
    "C19": dict(
        level="Per type: Debug on an arbitrary state equals Debug on the zero-bytes instance (so it cannot depend on key material) and starts with the type identifier; AlgorithmName contains the algorithm name and every type-level parameter (key size, variant, byte order, S-box name, RC5 w/r/b).",
        note=BASE, technique=TECH),
    "C20": dict(
        level="Dev-profile obligations (overflow, bounds, unwrap, debug_assert, shift, division) are proof obligations of every harness; per type, encrypt/decrypt on an arbitrary valid state and block are decided to return; leaf arithmetic named by the property is run on fully symbolic inputs; since no overflow check or debug assertion can fire, dev and release profiles compute the same function.",
        note=BASE + " Allocation/stack exhaustion and anything below MIR are outside.",
        technique=TECH),
}

from bcv.shadow import Sub

# BelT wide block at long lengths: the two loop RANGE expressions of belt_wblock_enc / belt_wblock_dec are routed through
# harness/belt-block/wblock_step.rs::wbstep::range (real range until a harness selects one round); the round bodies are
# untouched.  See the header of wblock_step.rs for the inductive argument and for what stays outside it.
VARIANTS = {
    "belt-block:step": dict(crate="belt-block", common_mods=["uf", "cuf"], subs=[
        Sub("src/lib.rs", r"for i in 1\.\.\(2 \* n \+ 1\) \{",
            "for i in crate::verif_kani::wblock_step::wbstep::range(1, 2 * n + 1) {", 1, kind="re",
            why="belt_wblock_enc: round range through the step selector (body untouched)"),
        Sub("src/lib.rs", r"for i in \(1\.\.\(2 \* n \+ 1\)\)\.rev\(\) \{",
            "for i in crate::verif_kani::wblock_step::wbstep::range(1, 2 * n + 1).rev() {", 1, kind="re",
            why="belt_wblock_dec: round range through the step selector (body untouched)"),
    ]),
}
_S = [("belt-block:step", ["belt-block/wblock_step.rs"])]
PLAN = {"C18": list(_S), "C01": list(_S), "C20": list(_S)}
ASSUMPTIONS = {
    "C18": ["long wide-block lengths (2033, 2048; also 100) are decided per ROUND (inductive step on the real loop body with an arbitrary counter and buffer); that the loops run the counter over 1..=2n in order is decided by the whole-function harnesses at lengths 32..=48 only"],
}

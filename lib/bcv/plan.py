"""Which shadow variants and harness files decide which property.

Fragments in lib/bcv/plans/*.py each define VARIANTS (name -> variant dict), PLAN (property -> list of
(variant_name, [harness files relative to /verif/harness])) and optionally ASSUMPTIONS (property -> [str]).
They are merged here; the same (variant, files) pair may serve several properties -- harness meta `prop=`
selects which harnesses of a file belong to which property."""
import glob, importlib.util, os
from bcv.shadow import Sub  # noqa: F401

import os as _os
# wall-clock cap per harness (s) unless the harness says cap=; VERIF_QUICK_CAP / VERIF_THOROUGH_CAP override (development:
# measuring passes give up on slow harnesses sooner)
CAPS = {"quick": int(_os.environ.get("VERIF_QUICK_CAP", "900")), "thorough": int(_os.environ.get("VERIF_THOROUGH_CAP", "7200"))}
MEM_GB = {"quick": 14, "thorough": 30}       # RLIMIT_AS per process of a harness

VARIANTS, PLAN = {}, {}
ASSUMPTIONS = {
    "*": [
        "Kani 0.68 MIR->GOTO translation, CBMC 6.11 symbolic execution and bit-blasting, CaDiCaL (trusted base 1)",
        "shadow copies of /repo's working tree: counted textual substitutions (item visibility, target predicates of code for other architectures, in variant belt-block:step the two loop-range expressions of the wide block, in variant cast5:route function boundaries around the unchanged round-function macro bodies and S-box look-ups, in variant rc2:route the three PI_TABLE look-ups of expand_key through a one-line function) + injected harness modules; every one is listed under coverage.shadow_transformations",
        "oracles in /verif/refmodels, validated natively against the repository's known-answer vectors by setup_cmd",
        "sequential execution (Kani does not model threads); MIR-level semantics (not the optimiser / code generation)",
        "W-queries: leaves named in the harness' stubs are uninterpreted functions shared by implementation and oracle (Ackermann encoding); the matching leaf lemma (L harness) ties the real leaf to the oracle leaf",
    ],
}
MANIFEST_TEXT, NOT_APPLICABLE = {}, {}
FIX_COMMITS = []
CLAIMED = []

for _f in sorted(glob.glob(os.path.join(os.path.dirname(os.path.abspath(__file__)), "plans", "*.py"))):
    _spec = importlib.util.spec_from_file_location("bcv_plan_" + os.path.basename(_f)[:-3], _f)
    _m = importlib.util.module_from_spec(_spec)
    _spec.loader.exec_module(_m)
    for k, v in getattr(_m, "VARIANTS", {}).items():
        if k in VARIANTS:
            # the same variant may be declared by several fragments: list-valued keys (common_mods, inner, subs,
            # features, cfgs) are united, scalar keys must agree
            cur = VARIANTS[k]
            for kk, vv in v.items():
                if isinstance(vv, list):
                    lst = cur.setdefault(kk, [])
                    for x in vv:
                        if x not in lst:
                            lst.append(x)
                elif kk in cur and cur[kk] != vv:
                    raise RuntimeError(f"variant {k}: key {kk} defined twice differently ({_f})")
                else:
                    cur[kk] = vv
        else:
            VARIANTS[k] = {kk: (list(vv) if isinstance(vv, list) else vv) for kk, vv in v.items()}
    for p, lst in getattr(_m, "PLAN", {}).items():
        for ent in lst:
            cur = PLAN.setdefault(p, [])
            # optional third element: {"include_props": [...]} = under this variant, run the harnesses that belong to
            # those properties as part of property p (used by C03: conformance harnesses re-run on feature/cfg builds)
            opts = dict(ent[2]) if len(ent) > 2 else {}
            # merge harness files of the same variant into one shadow group
            for c in cur:
                if c[0] == ent[0]:
                    for f in ent[1]:
                        if f not in c[1]:
                            c[1].append(f)
                    for k, v in opts.items():
                        c[2].setdefault(k, [])
                        c[2][k].extend(x for x in v if x not in c[2][k])
                    break
            else:
                cur.append((ent[0], list(ent[1]), {k: list(v) for k, v in opts.items()}))
    for p, lst in getattr(_m, "ASSUMPTIONS", {}).items():
        ASSUMPTIONS.setdefault(p, []).extend(lst)
    MANIFEST_TEXT.update(getattr(_m, "MANIFEST_TEXT", {}))
    NOT_APPLICABLE.update(getattr(_m, "NOT_APPLICABLE", {}))
    FIX_COMMITS.extend(getattr(_m, "FIX_COMMITS", []))
    CLAIMED.extend(getattr(_m, "CLAIMED", []))


def groups_for(prop, tier, seed):
    return PLAN[prop]

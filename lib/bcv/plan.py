"""Which shadow variants and harness files decide which property."""
from bcv.shadow import Sub

CAPS = {"quick": 900, "thorough": 5400}      # wall-clock cap per harness (s) unless the harness says cap=
MEM_GB = {"quick": 14, "thorough": 30}       # RLIMIT_AS per harness process tree member

VARIANTS = {
    "des": dict(crate="des"),
    "des+zeroize": dict(crate="des", features=["zeroize"]),
}

# property -> list of (variant, [harness files relative to /verif/harness])
PLAN = {
    "C13": [("des", ["des/c13.rs"])],
}

ASSUMPTIONS = {
    "*": [
        "Kani 0.68 MIR->GOTO translation, CBMC 6.11 symbolic execution and bit-blasting, CaDiCaL (trusted base 1)",
        "shadow copies of /repo's working tree: counted textual substitutions outside function bodies + one injected harness module (listed under coverage.shadow_transformations)",
        "oracles in /verif/refmodels, validated natively against the repository's known-answer vectors by setup_cmd",
        "sequential execution (Kani does not model threads); MIR-level semantics (not the optimiser / code generation)",
    ],
}


def groups_for(prop, tier, seed):
    return PLAN[prop]

FIX_COMMITS = ["a3e134a"]
NOT_APPLICABLE = {}
TECH = "bounded symbolic execution of the real Rust code with Kani/CBMC (SAT, CaDiCaL); solver verdict over all symbolic inputs within stated bounds; counterexamples replayed natively"
MANIFEST_TEXT = {
    "C13": dict(
        level="Each clause is a solver verdict over the full key width (all 2^64 DES keys, all 2^128/2^192 TDES keys, all AES keys): weak_key_test/new_checked of the real crate vs. the statement's predicate (NIST list modulo parity; upper half zero). Bounded only by fixed key widths, so the verdict covers every key.",
        note="NIST weak-key list carried by the oracle (validated structurally: odd parity, 4/12/48 keys with 1/2/4 distinct subkeys under the FIPS 46-3 key schedule); Kani/CBMC/CaDiCaL; MIR-level semantics.",
        technique=TECH),
}

"""Run one Kani harness, parse CBMC's verdicts, extract a counterexample's primary input bytes."""
import os, re, resource, signal, subprocess, time

# the check name is the rest of the line: names of checks inside generic / trait functions contain spaces
# (e.g. `<usize as core::slice::SliceIndex<[u32]>>::index.assertion.1`)
CHECK_RE = re.compile(r"^Check (\d+): (.+)\n\t - Status: (\w+)\n\t - Description: \"(.*)\"\n(?:\t - Location: (.*)\n)?", re.M)


def _limits(mem_gb):
    def f():
        os.setsid()
        if mem_gb:
            b = int(mem_gb * (1 << 30))
            resource.setrlimit(resource.RLIMIT_AS, (b, b))
    return f


def run_cmd(cmd, cwd, log_path, timeout, mem_gb=None, env=None):
    """Run cmd in its own process group with a wall-clock cap; returns (rc|None on timeout, seconds, peak_rss_kb)."""
    t0 = time.time()
    e = dict(os.environ)
    e["CARGO_NET_OFFLINE"] = "true"
    e.pop("RUSTFLAGS", None)
    if env:
        e.update(env)
    with open(log_path, "w") as lf:
        p = subprocess.Popen(cmd, cwd=cwd, stdout=lf, stderr=subprocess.STDOUT, preexec_fn=_limits(mem_gb), env=e)
        try:
            rc = p.wait(timeout=timeout)
        except subprocess.TimeoutExpired:
            rc = None
            try:
                os.killpg(p.pid, signal.SIGKILL)
            except ProcessLookupError:
                pass
            p.wait()
    ru = resource.getrusage(resource.RUSAGE_CHILDREN)
    return rc, time.time() - t0, ru.ru_maxrss


def parse_log(text):
    """-> dict(checks=[...], verdict, stats)"""
    checks = []
    for m in CHECK_RE.finditer(text):
        checks.append({"n": int(m.group(1)), "name": m.group(2), "status": m.group(3), "desc": m.group(4), "loc": m.group(5) or ""})
    res = {"checks": checks}
    res["verification"] = "SUCCESSFUL" if "VERIFICATION:- SUCCESSFUL" in text else ("FAILED" if "VERIFICATION:- FAILED" in text else None)
    res["solver_s"] = sum(float(x) for x in re.findall(r"Runtime Solver: ([0-9.e+-]+)s", text))
    res["decision_s"] = sum(float(x) for x in re.findall(r"Runtime decision procedure: ([0-9.e+-]+)s", text))
    res["symex_s"] = sum(float(x) for x in re.findall(r"Runtime Symex: ([0-9.e+-]+)s", text))
    res["queries"] = len(re.findall(r"^Solving with ", text, re.M))
    vc = re.findall(r"^(\d+) variables, (\d+) clauses", text, re.M)
    res["variables"] = max([int(a) for a, _ in vc], default=0)
    res["clauses"] = max([int(b) for _, b in vc], default=0)
    m = re.search(r"Generated (\d+) VCC\(s\), (\d+) remaining", text)
    res["vccs"] = int(m.group(1)) if m else 0
    res["vccs_remaining"] = int(m.group(2)) if m else 0
    m = re.search(r"Verification Time: ([0-9.]+)s", text)
    res["verification_time_s"] = float(m.group(1)) if m else None
    res["stubs"] = sorted(set(re.findall(r"^\s*- Stub: (.*)$", text, re.M)))
    fns = set(re.findall(r" function (\S+) thread 0", text))
    for c in checks:
        m2 = re.search(r" in function (.+)$", c["loc"])
        if m2:
            fns.add(m2.group(1))
    res["functions"] = sorted(f for f in fns if not f.startswith(("core::", "kani::", "<usize as kani", "std::", "alloc::")))
    res["unsupported_reachable"] = [c for c in checks if "unsupported_construct" in c["name"] and c["status"] != "SUCCESS"]
    res["oom"] = ("std::bad_alloc" in text) or ("Out of memory" in text) or ("memory allocation of" in text) or ("Solver ran out of memory" in text)
    res["compile_error"] = bool(re.search(r"^error(\[E\d+\])?:", text, re.M)) and not checks
    return res


def playback_inputs(text, nbytes=None):
    """First non-cover concrete playback block -> first nbytes nondet bytes (hex) or None."""
    blocks = re.split(r"^Concrete playback unit test for ", text, flags=re.M)[1:]
    for b in blocks:
        m = re.search(r"/// Check for `(\w+)`: \"(.*)\"", b)
        kind = m.group(1) if m else "?"
        if kind == "cover":
            continue
        code = b.split("```")[1] if "```" in b else b
        vals = []
        for v in re.findall(r"^\s*vec!\[([0-9, ]*)\],?\s*$", code, re.M):
            vals.extend(int(x) for x in v.replace(" ", "").split(",") if x != "")
        if vals:
            return bytes(vals[:nbytes] if nbytes else vals).hex(), kind, (m.group(2) if m else "")
    return None, None, None

"""Shadow workspace generation: copy crates of /repo's *current working tree*, apply counted textual
transformations, inject harness modules that live in /verif/harness.

Nothing is written under /repo.  Every transformation carries an expected match count; a mismatch raises
ShadowError (-> exit 2, "engine cannot apply -- source layout changed")."""
import os, re, shutil, subprocess

REPO = os.environ.get("VERIF_REPO", "/repo")
VERIF = os.path.dirname(os.path.dirname(os.path.dirname(os.path.abspath(__file__))))


class ShadowError(Exception):
    pass


class Sub:
    """One counted substitution. kind: 'lit' or 're'. count: int or (min,max) ."""

    def __init__(self, file, old, new, count=1, kind="lit", why=""):
        self.file, self.old, self.new, self.count, self.kind, self.why = file, old, new, count, kind, why

    def apply(self, root, log):
        p = os.path.join(root, self.file)
        if not os.path.exists(p):
            raise ShadowError(f"transform target missing: {self.file}")
        s = open(p).read()
        if self.kind == "lit":
            n = s.count(self.old)
            s2 = s.replace(self.old, self.new)
        else:
            s2, n = re.subn(self.old, self.new, s, flags=re.M)
        lo, hi = (self.count, self.count) if isinstance(self.count, int) else self.count
        if not (lo <= n <= hi):
            raise ShadowError(f"transform '{self.why or self.old[:40]}' on {self.file}: expected {self.count} matches, found {n}")
        open(p, "w").write(s2)
        log.append({"file": self.file, "why": self.why, "matches": n})


LIB_INJECT = "\n#[cfg(any(kani, verif_native))]\n#[allow(missing_docs, unsafe_code, unused, unreachable_pub, clippy::all)]\npub mod verif_kani;\n"


def harness_mod_name(path):
    return os.path.splitext(os.path.basename(path))[0]


def layout_module(dest, specs):
    """Generate `pub mod layout` from the struct definitions found in the COPIED source (so that a field added, renamed or
    retyped by a change is picked up without editing /verif).  specs: [(source file rel. to crate, struct name, type path)].
    For struct S the module provides  s_exempt(i) -> bool  (byte i of the storage belongs to no field: padding) and
    s_valid(bytes) -> bool  (every `bool` field byte is 0 or 1)."""
    out = ["pub mod layout {\n    fn fsz<T, F>(_f: fn(&T) -> &F) -> usize { core::mem::size_of::<F>() }\n"]
    for rel, sname, tpath in specs:
        src = open(os.path.join(dest, rel)).read()
        m = re.search(r"\bstruct\s+%s\s*\{(.*?)\n\}" % re.escape(sname), src, re.S)
        if not m:
            raise ShadowError(f"layout: struct {sname} not found in {rel}")
        body = re.sub(r"//[^\n]*", "", m.group(1))
        body = re.sub(r"#\[[^\]]*\]", "", body)
        fields = re.findall(r"(?:pub(?:\([^)]*\))?\s+)?(\w+)\s*:\s*([^,\n]+(?:<[^>]*>)?[^,\n]*),", body + ",")
        if not fields:
            raise ShadowError(f"layout: no fields parsed for struct {sname} in {rel}")
        low = sname.lower()
        spans = ", ".join("(core::mem::offset_of!(%s, %s), fsz(|x: &%s| &x.%s))" % (tpath, f, tpath, f) for f, _ in fields)
        out.append("    pub fn %s_fields() -> [(usize, usize); %d] { [%s] }\n" % (low, len(fields), spans))
        out.append("    pub fn %s_exempt(i: usize) -> bool { let f = %s_fields(); let mut k = 0; let mut inside = false; while k < f.len() { inside |= i >= f[k].0 && i < f[k].0 + f[k].1; k += 1; } !inside }\n" % (low, low))
        bools = [f for f, t in fields if t.strip() == "bool"]
        conds = " && ".join("b[core::mem::offset_of!(%s, %s)] <= 1" % (tpath, f) for f in bools) or "true"
        out.append("    pub fn %s_valid(b: &[u8]) -> bool { %s }\n" % (low, conds))
        out.append("    // parsed fields of %s: %s\n" % (sname, ", ".join("%s: %s" % (f, t.strip()) for f, t in fields)))
    out.append("}\n")
    return "".join(out)


def make_shadow(dest, variant, harness_files, harness_index):
    """variant: dict(crate=, features=[], cfgs=[], subs=[Sub], extra_files={rel: content}, pkg_name=None)
    harness_files: list of absolute paths to harness .rs files to inject.
    harness_index: list of (modname, harness_name) for native dispatch generation.
    Returns (crate_dir, transform_log)."""
    crate = variant["crate"]
    src = os.path.join(REPO, crate)
    if not os.path.isdir(src):
        raise ShadowError(f"crate directory {src} missing")
    if os.path.exists(dest):
        shutil.rmtree(dest)
    os.makedirs(os.path.dirname(dest), exist_ok=True)
    subprocess.run(["rsync", "-a", "--exclude", "target", "--exclude", "benches", src + "/", dest + "/"], check=True)
    log = []
    # -- package identity / standalone workspace
    ct = os.path.join(dest, "Cargo.toml")
    s = open(ct).read()
    if "[workspace]" in s:
        raise ShadowError("crate already has [workspace]")
    feats = variant.get("features", [])
    add = "\n[dependencies.refmodels]\npath = \"%s/refmodels\"\n\n[workspace]\n" % VERIF
    # [lints.rust.unexpected_cfgs] may already exist (aes, kuznyechik, serpent): leave it.
    if "unexpected_cfgs" not in s and "[lints" not in s:
        add += "\n[lints.rust.unexpected_cfgs]\nlevel = \"allow\"\n"
    s = s + add
    if variant.get("pkg_name"):
        s, n = re.subn(r'(?m)^name = "[^"]+"', 'name = "%s"' % variant["pkg_name"], s, count=1)
        if n != 1:
            raise ShadowError("package name line not found")
    open(ct, "w").write(s)
    shutil.copy(os.path.join(REPO, "Cargo.lock"), os.path.join(dest, "Cargo.lock"))
    os.makedirs(os.path.join(dest, ".cargo"), exist_ok=True)
    open(os.path.join(dest, ".cargo", "config.toml"), "w").write("[net]\noffline = true\n")
    # -- cfgs baked in through a generated build.rs (so that RUSTFLAGS are not needed and two configurations of
    #    the same crate can be linked into one binary)
    cfgs = variant.get("cfgs", [])
    if cfgs:
        if os.path.exists(os.path.join(dest, "build.rs")):
            raise ShadowError("crate already has build.rs")
        lines = "".join('    println!("cargo:rustc-cfg=%s");\n' % c.replace('"', '\\"') for c in cfgs)
        open(os.path.join(dest, "build.rs"), "w").write("fn main() {\n%s}\n" % lines)
        log.append({"file": "build.rs", "why": "bake cfgs " + ",".join(cfgs), "matches": len(cfgs)})
    for rel, content in variant.get("extra_files", {}).items():
        p = os.path.join(dest, rel)
        os.makedirs(os.path.dirname(p), exist_ok=True)
        if content.startswith("@copy:"):
            shutil.copy(content[6:], p)
        else:
            open(p, "w").write(content)
        log.append({"file": rel, "why": "extra file", "matches": 1})
    for sub in variant.get("subs", []):
        sub.apply(dest, log)
    # -- harness injection
    lib = os.path.join(dest, "src", "lib.rs")
    s = open(lib).read()
    if "mod verif_kani" in s:
        raise ShadowError("lib.rs already declares verif_kani")
    s = s.replace("#![forbid(unsafe_code)]", "#![deny(unsafe_code)]")
    open(lib, "w").write(s + LIB_INJECT)
    gen = ["// generated by /verif/lib/bcv/shadow.py -- do not edit\n",
           "#[macro_use]\n#[path = \"%s/harness/common/prelude.rs\"]\npub mod prelude;\n" % VERIF]
    cm = list(variant.get("common_mods", []))
    if "uf" in cm and "cuf" not in cm:
        cm.insert(cm.index("uf") + 1, "cuf")
    for extra in cm:
        gen.append("#[macro_use]\n#[path = \"%s/harness/common/%s.rs\"]\npub mod %s;\n" % (VERIF, extra, extra))
    if variant.get("layouts"):
        gen.append(layout_module(dest, variant["layouts"]))
        log.append({"file": "src/verif_kani.rs", "why": "layout tables generated from the struct definitions: " + ", ".join(s for _, s, _ in variant["layouts"]), "matches": len(variant["layouts"])})
    for hf in harness_files:
        gen.append("#[path = \"%s\"]\npub mod %s;\n" % (hf, harness_mod_name(hf)))
    # -- inner injection: harness modules that must live inside a private module to reach its private items.
    #    variant["inner"] = [(source file relative to the crate, module path of that file, harness file rel. to
    #    /verif/harness)].  One `mod` line is appended to the source file; the harness module is
    #    <module path>::verif_inner_<stem>.  Inner harness files bring the macros in themselves (textual macro scope does
    #    not reach modules declared before the injected verif_kani line).
    for rel_src, modpath, hrel in variant.get("inner", []):
        p = os.path.join(dest, rel_src)
        if not os.path.exists(p):
            raise ShadowError(f"inner injection target missing: {rel_src}")
        stem = harness_mod_name(hrel)
        with open(p, "a") as f:
            f.write("\n#[cfg(any(kani, verif_native))]\n#[allow(missing_docs, unsafe_code, unused, unreachable_pub, clippy::all)]\n"
                    "#[path = \"%s/harness/%s\"]\npub(crate) mod verif_inner_%s;\n" % (VERIF, hrel, stem))
        log.append({"file": rel_src, "why": "inner harness module verif_inner_%s appended" % stem, "matches": 1})
    gen.append("\n#[cfg(verif_native)]\npub fn dispatch(name: &str, inp: &[u8]) -> Option<Option<bool>> {\n    match name {\n")
    for mod, h in harness_index:
        # mod is either a module of verif_kani (plain name) or an absolute path (contains "::") of an inner module
        q = ("crate::" + mod) if "::" in mod else mod
        gen.append("        \"%s::%s\" => {\n            if inp.len() < %s::%s::N { return Some(None); }\n            let a: &[u8; %s::%s::N] = inp[..%s::%s::N].try_into().ok()?;\n            Some(%s::%s::prop(a))\n        }\n" % (mod, h, q, h, q, h, q, h, q, h))
    gen.append("        _ => None,\n    }\n}\n")
    open(os.path.join(dest, "src", "verif_kani.rs"), "w").write("".join(gen))
    # -- back-end uninterpreted functions (harness/common/cuf.rs): one C wrapper per cuf1!/cuf2!/cuf_bij! invocation found
    #    in the harness sources of this shadow (followed through #[path] includes)
    csrc = cuf_c_source(list(harness_files) + [os.path.join(VERIF, "harness", hrel) for _, _, hrel in variant.get("inner", [])])
    if csrc:
        open(os.path.join(dest, "verif_uf.c"), "w").write(csrc)
        log.append({"file": "verif_uf.c", "why": "C wrappers of back-end uninterpreted functions (cuf macros)", "matches": csrc.count("__CPROVER_uninterpreted_") // 2})
    return dest, log


CTYPES = {"u8": "uint8_t", "u16": "uint16_t", "u32": "uint32_t", "u64": "uint64_t", "u128": "unsigned __int128", "usize": "uint64_t"}


def cuf_c_source(files):
    """Scan harness sources (recursively through #[path = "..."]) for cuf macro invocations with literal arguments and
    return the C translation unit declaring one wrapper per uninterpreted function ('' if there is none)."""
    seen, todo, decls = set(), list(files), {}
    while todo:
        f = os.path.abspath(todo.pop())
        if f in seen or not os.path.exists(f):
            continue
        seen.add(f)
        src = re.sub(r"(?m)^\s*//.*$", "", open(f).read())
        for m in re.finditer(r'#\[path\s*=\s*"([^"]+)"\]', src):
            q = m.group(1)
            todo.append(q if os.path.isabs(q) else os.path.join(os.path.dirname(f), q))
        for m in re.finditer(r"\bcuf1!\(\s*(\w+)\s*,\s*(\w+)\s*,\s*(\w+)\s*,\s*(\w+)\s*,", src):
            decls.setdefault(m.group(2), []).append(((m.group(3),), m.group(4), f))
        for m in re.finditer(r"\bcuf2!\(\s*(\w+)\s*,\s*(\w+)\s*,\s*(\w+)\s*,\s*(\w+)\s*,\s*(\w+)\s*,", src):
            decls.setdefault(m.group(2), []).append(((m.group(3), m.group(4)), m.group(5), f))
        for m in re.finditer(r"\bcuf_bij!\(\s*(\w+)\s*,\s*(\w+)\s*,\s*(\w+)\s*,\s*(\w+)\s*,", src):
            decls.setdefault(m.group(2), []).append(((m.group(4),), m.group(4), f))
            decls.setdefault(m.group(3), []).append(((m.group(4),), m.group(4), f))
    if not decls:
        return ""
    out = ["// generated by /verif/lib/bcv/shadow.py from the cuf macro invocations of the harness sources -- do not edit\n#include <stdint.h>\n"]
    for name in sorted(decls):
        sigs = {(a, r) for a, r, _ in decls[name]}
        if len(sigs) != 1:
            raise ShadowError(f"uninterpreted function symbol {name} declared with different signatures in {[f for _, _, f in decls[name]]}")
        if name.startswith("$") or not re.match(r"^[A-Za-z_]\w*$", name):
            raise ShadowError(f"cuf symbol {name!r} is not a literal identifier")
        (args, ret), = sigs
        for t in args + (ret,):
            if t not in CTYPES:
                raise ShadowError(f"cuf symbol {name}: unsupported type {t}")
        params = ", ".join("%s a%d" % (CTYPES[t], i) for i, t in enumerate(args))
        call = ", ".join("a%d" % i for i in range(len(args)))
        out.append("%s __CPROVER_uninterpreted_%s(%s);\n%s %s(%s) { return __CPROVER_uninterpreted_%s(%s); }\n"
                   % (CTYPES[ret], name, ", ".join(CTYPES[t] for t in args), CTYPES[ret], name, params, name, call))
    return "".join(out)


def inner_mod_path(modpath, hrel):
    """Rust path (without leading crate::) of an inner harness module."""
    mp = modpath[len("crate::"):] if modpath.startswith("crate::") else modpath
    return "%s::verif_inner_%s" % (mp, harness_mod_name(hrel))


DRIVER_MAIN = r'''
fn unhex(s: &str) -> Vec<u8> {
    (0..s.len() / 2).map(|i| u8::from_str_radix(&s[2 * i..2 * i + 2], 16).unwrap()).collect()
}
fn main() {
    let args: Vec<String> = std::env::args().collect();
    let name = args[1].clone();
    let bytes = if let Some(p) = args[2].strip_prefix("@") { unhex(std::fs::read_to_string(p).unwrap().trim()) } else { unhex(&args[2]) };
    let r = std::panic::catch_unwind(move || shadow::verif_kani::dispatch(&name, &bytes));
    match r {
        Ok(Some(Some(true))) => println!("REPLAY-RESULT holds"),
        Ok(Some(Some(false))) => println!("REPLAY-RESULT violated"),
        Ok(Some(None)) => println!("REPLAY-RESULT assumption-failed"),
        Ok(None) => println!("REPLAY-RESULT unknown-harness"),
        Err(_) => println!("REPLAY-RESULT panicked"),
    }
}
'''


def make_driver(dest, shadow_dir, pkg_name, features):
    os.makedirs(os.path.join(dest, "src"), exist_ok=True)
    feats = ", features = [%s]" % ", ".join('"%s"' % f for f in features) if features else ""
    open(os.path.join(dest, "Cargo.toml"), "w").write(
        "[package]\nname = \"verif_replay_driver\"\nversion = \"0.0.0\"\nedition = \"2021\"\n\n"
        "[dependencies]\nshadow = { package = \"%s\", path = \"%s\"%s }\n\n[workspace]\n\n"
        "[profile.dev]\nopt-level = 1\noverflow-checks = true\ndebug-assertions = true\n\n"
        "[profile.release]\noverflow-checks = false\ndebug-assertions = false\n" % (pkg_name, shadow_dir, feats))
    shutil.copy(os.path.join(shadow_dir, "Cargo.lock"), os.path.join(dest, "Cargo.lock"))
    os.makedirs(os.path.join(dest, ".cargo"), exist_ok=True)
    open(os.path.join(dest, ".cargo", "config.toml"), "w").write("[net]\noffline = true\n")
    open(os.path.join(dest, "src", "main.rs"), "w").write(DRIVER_MAIN)
    return dest

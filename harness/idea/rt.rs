// IDEA round trip (C01).  The direct query (real mul / mul_inv with its Euclid loop) runs out of memory, and the combined
// leaf statement mul(mul(x,k), mul_inv(k)) == x is a multiplier-associativity query no SAT solver finishes.  So:
//   L  idea_leaf_mul (conf.rs)   Idea::mul(a,b) == a*b mod 65537 (0 = 2^16) for all 2^32 (a,b)           [solver]
//   L  idea_inv_r0..r15 (inv16.rs) mul(k, mul_inv(k)) == 1 for all 2^16 k (16 argument ranges)          [solver]
//      => by arithmetic (the non-zero residues mod the prime 65537 form a commutative group; not a property of the code):
//         mul(mul(x,k), mul_inv(k)) == x  and  mul(mul(x, mul_inv(k)), k) == x  for all x, k             [cancellation laws]
//   W  idea_roundtrip_ed/de      Idea::new(key) (real expand_key / invert_sub_keys / add / add_inv / crypt), all 2^128 keys and
//                                all 2^64 blocks, with mul and mul_inv replaced by uninterpreted functions constrained ONLY by
//                                functional consistency and by instances of the two cancellation laws.
// Soundness: the real pair (mul, mul_inv) satisfies every constraint placed on the uninterpreted pair, so a verdict for all
// constrained pairs covers the real pair.
use super::prelude::*;
use crate::Idea;
use cipher::{BlockCipherDecrypt, BlockCipherEncrypt, KeyInit};
use refmodels::idea as r;

/// Uninterpreted (mul, mul_inv) with cancellation: logs in banks of <= 64 entries (see common/uf.rs).
/// All mul_inv calls of the harness (Idea::new) precede all mul calls (encrypt/decrypt); a mul_inv call after the first
/// mul call is flagged (LATE) because its cancellation instances would be missing (fewer constraints is still sound, but the
/// harness states what it relies on).
pub mod g {
    #[cfg(kani)]
    pub mod m0 {
        pub static mut A: [u16; 64] = [0; 64];
        pub static mut B: [u16; 64] = [0; 64];
        pub static mut Y: [u16; 64] = [0; 64];
        pub static mut MK: [u64; 64] = [0; 64]; // bit j: B == K[j]   (second argument is the argument of the j-th mul_inv call)
        pub static mut MV: [u64; 64] = [0; 64]; // bit j: B == V[j]   (second argument is the result of the j-th mul_inv call)
    }
    #[cfg(kani)]
    pub mod m1 {
        pub static mut A: [u16; 64] = [0; 64];
        pub static mut B: [u16; 64] = [0; 64];
        pub static mut Y: [u16; 64] = [0; 64];
        pub static mut MK: [u64; 64] = [0; 64];
        pub static mut MV: [u64; 64] = [0; 64];
    }
    #[cfg(kani)]
    pub mod i0 {
        pub static mut K: [u16; 64] = [0; 64];
        pub static mut V: [u16; 64] = [0; 64];
    }
    #[cfg(kani)]
    pub static mut NM: usize = 0;
    #[cfg(kani)]
    pub static mut NI: usize = 0;
    pub static mut LATE: bool = false;

    /// mul_inv: functional consistency only.
    #[cfg(kani)]
    pub fn inv(k: u16) -> u16 {
        unsafe {
            if NM != 0 {
                LATE = true;
            }
            let v: u16 = kani::any();
            let n = NI;
            let mut ok = true;
            let mut j = 0;
            while j < 64 && j < n {
                ok &= (i0::K[j] != k) | (i0::V[j] == v);
                j += 1;
            }
            kani::assert(n < 64, "VERIF_UF_CAPACITY");
            i0::K[n] = k;
            i0::V[n] = v;
            kani::assume(ok);
            NI = n + 1;
            v
        }
    }

    // one earlier mul entry (x, k) -> y [masks mk, mv of k] against the new call (a, b) -> r [masks bk, bv of b]:
    //   consistency:  (x, k) == (a, b)                                                     => r == y
    //   cancellation: a == y and (k, b) or (b, k) is a logged mul_inv pair (argument, result)  => r == x
    #[cfg(kani)]
    fn entry(x: u16, k: u16, y: u16, mk: u64, mv: u64, a: u16, b: u16, r: u16, bk: u64, bv: u64) -> bool {
        let pair = ((mk & bv) | (mv & bk)) != 0;
        ((x != a) | (k != b) | (r == y)) & (!((a == y) & pair) | (r == x))
    }

    #[cfg(kani)]
    pub fn mul(a: u16, b: u16) -> u16 {
        unsafe {
            let r: u16 = kani::any();
            let n = NM;
            let ni = NI;
            let mut bk = 0u64;
            let mut bv = 0u64;
            let mut j = 0;
            while j < 64 && j < ni {
                if b == i0::K[j] {
                    bk |= 1u64 << j;
                }
                if b == i0::V[j] {
                    bv |= 1u64 << j;
                }
                j += 1;
            }
            let mut ok = true;
            let mut i = 0;
            while i < 64 && i < n {
                ok &= entry(m0::A[i], m0::B[i], m0::Y[i], m0::MK[i], m0::MV[i], a, b, r, bk, bv);
                i += 1;
            }
            i = 0;
            while i < 64 && 64 + i < n {
                ok &= entry(m1::A[i], m1::B[i], m1::Y[i], m1::MK[i], m1::MV[i], a, b, r, bk, bv);
                i += 1;
            }
            kani::assert(n < 128, "VERIF_UF_CAPACITY");
            if n < 64 {
                m0::A[n] = a;
                m0::B[n] = b;
                m0::Y[n] = r;
                m0::MK[n] = bk;
                m0::MV[n] = bv;
            } else {
                m1::A[n - 64] = a;
                m1::B[n - 64] = b;
                m1::Y[n - 64] = r;
                m1::MK[n - 64] = bk;
                m1::MV[n - 64] = bv;
            }
            kani::assume(ok);
            NM = n + 1;
            r
        }
    }
}

pub fn stub_mul(_c: &Idea, a: u16, b: u16) -> u16 {
    #[cfg(kani)]
    return g::mul(a, b);
    #[cfg(not(kani))]
    return r::mul(a, b);
}
pub fn stub_mul_inv(_c: &Idea, a: u16) -> u16 {
    #[cfg(kani)]
    return g::inv(a);
    #[cfg(not(kani))]
    return r::mul_inv(a);
}

//@ harness name=idea_roundtrip_ed prop=C01 tier=quick bits=192 stub=1 est=250 need=7 desc="W: decrypt_block(encrypt_block(b)) == b for Idea::new(key), all 2^128 keys, all 2^64 blocks; real key schedule, sub-key inversion placement, add, add_inv and data path; mul / mul_inv uninterpreted up to the cancellation laws that follow from idea_leaf_mul + idea_inv_r0..r15"
verif_harness! {
    name: idea_roundtrip_ed,
    bytes: 24,
    unwind: 66,
    stubs: [(crate::Idea::mul, stub_mul), (crate::Idea::mul_inv, stub_mul_inv)],
    prop: |inp| {
        let key: [u8; 16] = take(inp, 0);
        let blk: [u8; 8] = take(inp, 16);
        let c = Idea::new(&key.into());
        let mut b = blk.into();
        c.encrypt_block(&mut b);
        c.decrypt_block(&mut b);
        Some(b.0 == blk && !unsafe { g::LATE })
    }
}

//@ harness name=idea_roundtrip_de prop=C01 tier=thorough bits=192 stub=1 est=215 need=7 desc="W: encrypt_block(decrypt_block(b)) == b for Idea::new(key), all keys, all blocks; mul / mul_inv uninterpreted up to the cancellation laws that follow from idea_leaf_mul + idea_inv_r0..r15"
verif_harness! {
    name: idea_roundtrip_de,
    bytes: 24,
    unwind: 66,
    stubs: [(crate::Idea::mul, stub_mul), (crate::Idea::mul_inv, stub_mul_inv)],
    prop: |inp| {
        let key: [u8; 16] = take(inp, 0);
        let blk: [u8; 8] = take(inp, 16);
        let c = Idea::new(&key.into());
        let mut b = blk.into();
        c.decrypt_block(&mut b);
        c.encrypt_block(&mut b);
        Some(b.0 == blk && !unsafe { g::LATE })
    }
}

// IDEA round trip (C01).  The direct query (real mul / mul_inv, Euclid loop) runs out of memory, so:
//   L  idea_leaf_cancel      mul(mul(x,k), mul_inv(k)) == x  and  mul(mul(x, mul_inv(k)), k) == x   (real code, all 2^32 (x,k))
//   W  idea_roundtrip_ed/de  Idea::new(key) (real expand_key / invert_sub_keys / add / add_inv / crypt), all 2^128 keys and all
//                            2^64 blocks, with mul and mul_inv replaced by uninterpreted functions that are constrained ONLY by
//                            functional consistency and by instances of the two cancellation laws of the leaf lemma.
// Soundness: the real pair (mul, mul_inv) satisfies every constraint placed on the uninterpreted pair (leaf lemma), so a
// verdict for all constrained pairs covers the real pair.
use super::prelude::*;
use crate::Idea;
use cipher::{BlockCipherDecrypt, BlockCipherEncrypt, KeyInit};
use refmodels::idea as r;

/// Uninterpreted (mul, mul_inv) with cancellation: logs in banks of <= 64 entries (see common/uf.rs).
pub mod g {
    #[cfg(kani)]
    pub mod m0 {
        pub static mut A: [u16; 64] = [0; 64];
        pub static mut B: [u16; 64] = [0; 64];
        pub static mut Y: [u16; 64] = [0; 64];
    }
    #[cfg(kani)]
    pub mod m1 {
        pub static mut A: [u16; 64] = [0; 64];
        pub static mut B: [u16; 64] = [0; 64];
        pub static mut Y: [u16; 64] = [0; 64];
    }
    #[cfg(kani)]
    pub mod i0 {
        pub static mut K: [u16; 64] = [0; 64];
        pub static mut V: [u16; 64] = [0; 64];
    }
    #[cfg(kani)]
    pub static mut NM: usize = 0;
    #[cfg(kani)]
    pub static mut NI: usize = 0;

    /// mul_inv: functional consistency only.
    #[cfg(kani)]
    pub fn inv(k: u16) -> u16 {
        unsafe {
            let v: u16 = kani::any();
            let n = NI;
            let mut ok = true;
            let mut j = 0;
            while j < 64 && j < n {
                ok &= (i0::K[j] != k) | (i0::V[j] == v);
                j += 1;
            }
            kani::assert(n < 64, "VERIF_UF_CAPACITY");
            i0::K[n] = k;
            i0::V[n] = v;
            kani::assume(ok);
            NI = n + 1;
            v
        }
    }

    // one earlier mul entry (x, k) -> y against the new call (a, b) -> r:
    //   consistency:  (x, k) == (a, b)                       => r == y
    //   cancellation: a == y and {k, b} == {kk, vv} for a logged mul_inv pair (kk -> vv)   => r == x
    #[cfg(kani)]
    unsafe fn entry(x: u16, k: u16, y: u16, a: u16, b: u16, r: u16) -> bool {
        let mut ok = (x != a) | (k != b) | (r == y);
        let ni = NI;
        let mut j = 0;
        while j < 64 && j < ni {
            let kk = i0::K[j];
            let vv = i0::V[j];
            let pair = ((k == kk) & (b == vv)) | ((k == vv) & (b == kk));
            ok &= !((a == y) & pair) | (r == x);
            j += 1;
        }
        ok
    }

    #[cfg(kani)]
    pub fn mul(a: u16, b: u16) -> u16 {
        unsafe {
            let r: u16 = kani::any();
            let n = NM;
            let mut ok = true;
            let mut i = 0;
            while i < 64 && i < n {
                ok &= entry(m0::A[i], m0::B[i], m0::Y[i], a, b, r);
                i += 1;
            }
            i = 0;
            while i < 64 && 64 + i < n {
                ok &= entry(m1::A[i], m1::B[i], m1::Y[i], a, b, r);
                i += 1;
            }
            kani::assert(n < 128, "VERIF_UF_CAPACITY");
            if n < 64 {
                m0::A[n] = a;
                m0::B[n] = b;
                m0::Y[n] = r;
            } else {
                m1::A[n - 64] = a;
                m1::B[n - 64] = b;
                m1::Y[n - 64] = r;
            }
            kani::assume(ok);
            NM = n + 1;
            r
        }
    }
}

pub fn stub_mul(_c: &Idea, a: u16, b: u16) -> u16 {
    #[cfg(kani)]
    return g::mul(a, b);
    #[cfg(not(kani))]
    return r::mul(a, b);
}
pub fn stub_mul_inv(_c: &Idea, a: u16) -> u16 {
    #[cfg(kani)]
    return g::inv(a);
    #[cfg(not(kani))]
    return r::mul_inv(a);
}

//@ harness name=idea_leaf_cancel prop=C01 tier=thorough bits=32 est=1500 desc="L: for the real Idea::mul / Idea::mul_inv and all 2^32 (x,k): mul(mul(x,k), mul_inv(k)) == x and mul(mul(x, mul_inv(k)), k) == x (multiplication by a sub-key is undone by multiplication by its inverse, in either order)"
verif_harness! {
    name: idea_leaf_cancel,
    bytes: 4,
    unwind: 11,
    prop: |inp| {
        let x = take_u16(inp, 0);
        let k = take_u16(inp, 2);
        let c = Idea { enc_keys: [0u16; 52], dec_keys: [0u16; 52] };
        let v = c.mul_inv(k);
        vcheck!(c.mul(c.mul(x, k), v) == x);
        vcheck!(c.mul(c.mul(x, v), k) == x);
        Some(true)
    }
}

//@ harness name=idea_roundtrip_ed prop=C01 tier=quick bits=192 stub=1 est=120 desc="W: decrypt_block(encrypt_block(b)) == b for Idea::new(key), all 2^128 keys, all 2^64 blocks; real key schedule, sub-key inversion placement, add, add_inv and data path; mul / mul_inv uninterpreted up to the cancellation laws of idea_leaf_cancel"
verif_harness! {
    name: idea_roundtrip_ed,
    bytes: 24,
    unwind: 66,
    stubs: [(crate::Idea::mul, stub_mul), (crate::Idea::mul_inv, stub_mul_inv)],
    prop: |inp| {
        let key: [u8; 16] = take(inp, 0);
        let blk: [u8; 8] = take(inp, 16);
        let c = Idea::new(&key.into());
        let mut b = blk.into();
        c.encrypt_block(&mut b);
        c.decrypt_block(&mut b);
        Some(b.0 == blk)
    }
}

//@ harness name=idea_roundtrip_de prop=C01 tier=quick bits=192 stub=1 est=120 desc="W: encrypt_block(decrypt_block(b)) == b for Idea::new(key), all keys, all blocks; mul / mul_inv uninterpreted up to the cancellation laws of idea_leaf_cancel"
verif_harness! {
    name: idea_roundtrip_de,
    bytes: 24,
    unwind: 66,
    stubs: [(crate::Idea::mul, stub_mul), (crate::Idea::mul_inv, stub_mul_inv)],
    prop: |inp| {
        let key: [u8; 16] = take(inp, 0);
        let blk: [u8; 8] = take(inp, 16);
        let c = Idea::new(&key.into());
        let mut b = blk.into();
        c.decrypt_block(&mut b);
        c.encrypt_block(&mut b);
        Some(b.0 == blk)
    }
}

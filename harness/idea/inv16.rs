// IDEA mul_inv leaf lemma, split over the top four bits of the argument (16 queries of 2^12 arguments each): a single
// query over all 2^16 arguments (Euclid loop unrolled 10 times = 40 32-bit dividers) finishes neither with CaDiCaL nor
// with Kissat in 900 s; each range takes about 3 minutes.  Together the 16 harnesses cover every u16 argument.
// Each query: mul(k, mul_inv(k)) == 1 with the crate's own mul, which idea_leaf_mul (conf.rs) proves to be multiplication
// mod 65537 with 0 = 2^16 on all 2^32 argument pairs; so mul_inv(k) is THE inverse of k in that group.
use super::prelude::*;
use crate::Idea;

macro_rules! inv_range {
    ($name:ident, $hi:expr) => {
        verif_harness! {
            name: $name,
            bytes: 2,
            unwind: 11,
            prop: |inp| {
                let k = take_u16(inp, 0);
                vassume!(k >> 12 == $hi);
                let c = Idea { enc_keys: [0u16; 52], dec_keys: [0u16; 52] };
                let v = c.mul_inv(k);
                vcheck!(c.mul(k, v) == 1);
                Some(true)
            }
        }
    };
}

//@ harness name=idea_inv_r0 prop=C09,C01,C20 tier=quick bits=12 est=160 desc="L: mul(k, mul_inv(k)) == 1 for all k with k>>12 == 0 (4096 arguments incl. 0 = 2^16 and 1); Euclid loop terminates within the unwinding bound without overflow / division by zero"
inv_range!(idea_inv_r0, 0);
//@ harness name=idea_inv_r1 prop=C09,C01,C20 tier=quick bits=12 est=175 desc="L: mul(k, mul_inv(k)) == 1 for all k with k>>12 == 1"
inv_range!(idea_inv_r1, 1);
//@ harness name=idea_inv_r2 prop=C09,C01,C20 tier=quick bits=12 est=175 desc="L: mul(k, mul_inv(k)) == 1 for all k with k>>12 == 2"
inv_range!(idea_inv_r2, 2);
//@ harness name=idea_inv_r3 prop=C09,C01,C20 tier=quick bits=12 est=165 desc="L: mul(k, mul_inv(k)) == 1 for all k with k>>12 == 3"
inv_range!(idea_inv_r3, 3);
//@ harness name=idea_inv_r4 prop=C09,C01,C20 tier=quick bits=12 est=185 desc="L: mul(k, mul_inv(k)) == 1 for all k with k>>12 == 4"
inv_range!(idea_inv_r4, 4);
//@ harness name=idea_inv_r5 prop=C09,C01,C20 tier=quick bits=12 est=155 desc="L: mul(k, mul_inv(k)) == 1 for all k with k>>12 == 5"
inv_range!(idea_inv_r5, 5);
//@ harness name=idea_inv_r6 prop=C09,C01,C20 tier=quick bits=12 est=175 desc="L: mul(k, mul_inv(k)) == 1 for all k with k>>12 == 6"
inv_range!(idea_inv_r6, 6);
//@ harness name=idea_inv_r7 prop=C09,C01,C20 tier=quick bits=12 est=160 desc="L: mul(k, mul_inv(k)) == 1 for all k with k>>12 == 7"
inv_range!(idea_inv_r7, 7);
//@ harness name=idea_inv_r8 prop=C09,C01,C20 tier=quick bits=12 est=195 desc="L: mul(k, mul_inv(k)) == 1 for all k with k>>12 == 8"
inv_range!(idea_inv_r8, 8);
//@ harness name=idea_inv_r9 prop=C09,C01,C20 tier=quick bits=12 est=200 desc="L: mul(k, mul_inv(k)) == 1 for all k with k>>12 == 9"
inv_range!(idea_inv_r9, 9);
//@ harness name=idea_inv_r10 prop=C09,C01,C20 tier=quick bits=12 est=185 desc="L: mul(k, mul_inv(k)) == 1 for all k with k>>12 == 10"
inv_range!(idea_inv_r10, 10);
//@ harness name=idea_inv_r11 prop=C09,C01,C20 tier=quick bits=12 est=190 desc="L: mul(k, mul_inv(k)) == 1 for all k with k>>12 == 11"
inv_range!(idea_inv_r11, 11);
//@ harness name=idea_inv_r12 prop=C09,C01,C20 tier=quick bits=12 est=185 desc="L: mul(k, mul_inv(k)) == 1 for all k with k>>12 == 12"
inv_range!(idea_inv_r12, 12);
//@ harness name=idea_inv_r13 prop=C09,C01,C20 tier=quick bits=12 est=180 desc="L: mul(k, mul_inv(k)) == 1 for all k with k>>12 == 13"
inv_range!(idea_inv_r13, 13);
//@ harness name=idea_inv_r14 prop=C09,C01,C20 tier=quick bits=12 est=150 desc="L: mul(k, mul_inv(k)) == 1 for all k with k>>12 == 14"
inv_range!(idea_inv_r14, 14);
//@ harness name=idea_inv_r15 prop=C09,C01,C20 tier=quick bits=12 est=145 desc="L: mul(k, mul_inv(k)) == 1 for all k with k>>12 == 15"
inv_range!(idea_inv_r15, 15);

// IDEA: conformance (C09), dev-profile obligations of the helpers on fully symbolic inputs (C20).
// Decomposition (the direct query runs out of memory: Euclid loop + 34 multipliers mod 65537 per block):
//   L  idea_leaf_mul      mul(a,b) == a*b mod 65537 with 0 = 2^16, add == + mod 2^16            (all 2^32 inputs)
//   L  idea_inv_r0..r15   mul(k, mul_inv(k)) == 1 (inv16.rs), idea_leaf_addinv: add_inv(k) == -k  (all 2^16 inputs)
//   D  idea_expand        expand_key == 25-bit rotation schedule                                (all 2^128 keys)
//   W  idea_invert_w      invert_sub_keys placement, mul_inv uninterpreted                      (arbitrary enc_keys)
//   W  idea_new_w         Idea::new = expand + invert, mul_inv uninterpreted                    (all keys)
//   W  idea_crypt_w_*     8 rounds + output transformation, mul uninterpreted                   (arbitrary sub-keys, all blocks)
use super::prelude::*;
use crate::Idea;
use cipher::{BlockCipherDecrypt, BlockCipherEncrypt, KeyInit};
use refmodels::idea as r;

uf2!(uf_mul, u16, u16, u16, [B0 B1], r::mul);
uf1!(uf_mi, u16, u16, [B0], r::mul_inv);
pub fn stub_mul(_c: &Idea, a: u16, b: u16) -> u16 {
    uf_mul::call(a, b)
}
pub fn stub_mul_inv(_c: &Idea, a: u16) -> u16 {
    uf_mi::call(a)
}

fn blank() -> Idea {
    Idea { enc_keys: [0u16; 52], dec_keys: [0u16; 52] }
}

//@ harness name=idea_leaf_mul prop=C09,C01,C20 tier=quick bits=32 est=10 desc="L: Idea::mul(a,b) == a*b mod 65537 with 0 standing for 2^16, and Idea::add(a,b) == a+b mod 2^16, for all 2^32 (a,b); no overflow in the i32/u32 arithmetic"
verif_harness! {
    name: idea_leaf_mul,
    bytes: 4,
    prop: |inp| {
        let a = take_u16(inp, 0);
        let b = take_u16(inp, 2);
        let c = blank();
        vcheck!(c.mul(a, b) == r::mul(a, b));
        vcheck!(c.add(a, b) == r::add(a, b));
        Some(true)
    }
}

//@ harness name=idea_leaf_addinv prop=C09,C01,C20 tier=quick bits=16 est=5 desc="L: add_inv(k) == -k mod 2^16 and add(k, add_inv(k)) == 0 for all 2^16 k (the multiplicative inverse lemma mul(k, mul_inv(k)) == 1 is split over 16 argument ranges in inv16.rs: one query over all 2^16 k -- Euclid loop, 40 32-bit dividers -- finishes neither with CaDiCaL nor with Kissat in 900 s)"
verif_harness! {
    name: idea_leaf_addinv,
    bytes: 2,
    prop: |inp| {
        let k = take_u16(inp, 0);
        let c = blank();
        vcheck!(c.add_inv(k) == r::add_inv(k));
        vcheck!(c.add(k, c.add_inv(k)) == 0);
        Some(true)
    }
}

//@ harness name=idea_expand prop=C09,C20 tier=quick bits=128 est=10 desc="D: Idea::expand_key(key) fills enc_keys with the 52 sub-keys of the 25-bit-rotation schedule, all 2^128 keys; indices in range"
verif_harness! {
    name: idea_expand,
    bytes: 16,
    unwind: 54,
    prop: |inp| {
        let key: [u8; 16] = take(inp, 0);
        let mut c = blank();
        c.expand_key(&key.into());
        let e = r::expand_key(&key);
        let mut ok = true;
        let mut i = 0;
        while i < 52 {
            ok &= c.enc_keys[i] == e[i];
            i += 1;
        }
        Some(ok)
    }
}

//@ harness name=idea_invert_w prop=C09,C20 tier=quick bits=832 stub=1 est=15 desc="W: invert_sub_keys on arbitrary enc_keys places mul_inv / add_inv / copies exactly as the decryption sub-key table of the specification (middle additive keys exchanged in rounds 2..8), mul_inv uninterpreted and shared with the oracle; indices in range"
verif_harness! {
    name: idea_invert_w,
    bytes: 104,
    unwind: 54,
    stubs: [(crate::Idea::mul_inv, stub_mul_inv)],
    prop: |inp| {
        let mut c = blank();
        let mut i = 0;
        while i < 52 {
            c.enc_keys[i] = take_u16(inp, 2 * i);
            i += 1;
        }
        c.invert_sub_keys();
        let d = r::invert_with(&c.enc_keys, uf_mi::call, r::add_inv);
        let mut ok = true;
        i = 0;
        while i < 52 {
            ok &= c.dec_keys[i] == d[i];
            i += 1;
        }
        Some(ok)
    }
}

//@ harness name=idea_new_w prop=C09 tier=quick bits=128 stub=1 est=15 desc="W: Idea::new(key) has enc_keys == oracle schedule and dec_keys == oracle inversion of it, all 2^128 keys, mul_inv uninterpreted"
verif_harness! {
    name: idea_new_w,
    bytes: 16,
    unwind: 54,
    stubs: [(crate::Idea::mul_inv, stub_mul_inv)],
    prop: |inp| {
        let key: [u8; 16] = take(inp, 0);
        let c = Idea::new(&key.into());
        let e = r::expand_key(&key);
        let d = r::invert_with(&e, uf_mi::call, r::add_inv);
        let mut ok = true;
        let mut i = 0;
        while i < 52 {
            ok &= c.enc_keys[i] == e[i] && c.dec_keys[i] == d[i];
            i += 1;
        }
        Some(ok)
    }
}

fn arb_state(inp: &[u8; 216]) -> (Idea, [u8; 8]) {
    let mut c = blank();
    let mut i = 0;
    while i < 52 {
        c.enc_keys[i] = take_u16(inp, 2 * i);
        c.dec_keys[i] = take_u16(inp, 104 + 2 * i);
        i += 1;
    }
    (c, take(inp, 208))
}

//@ harness name=idea_crypt_w_enc prop=C09,C20 tier=quick bits=896 stub=1 est=55 desc="W: encrypt_block on arbitrary sub-key arrays == 8 rounds + output transformation of the specification with enc_keys, all blocks, mul uninterpreted and shared with the oracle (add is real)"
verif_harness! {
    name: idea_crypt_w_enc,
    bytes: 216,
    unwind: 66,
    stubs: [(crate::Idea::mul, stub_mul)],
    prop: |inp| {
        let (c, blk) = arb_state(inp);
        let mut b = blk.into();
        c.encrypt_block(&mut b);
        Some(b.0 == r::crypt_with(&c.enc_keys, &blk, uf_mul::call))
    }
}

//@ harness name=idea_crypt_w_dec prop=C09,C20 tier=quick bits=896 stub=1 est=60 desc="W: decrypt_block on arbitrary sub-key arrays == the same data path with dec_keys, all blocks, mul uninterpreted"
verif_harness! {
    name: idea_crypt_w_dec,
    bytes: 216,
    unwind: 66,
    stubs: [(crate::Idea::mul, stub_mul)],
    prop: |inp| {
        let (c, blk) = arb_state(inp);
        let mut b = blk.into();
        c.decrypt_block(&mut b);
        Some(b.0 == r::crypt_with(&c.dec_keys, &blk, uf_mul::call))
    }
}

// GIFT-128: conformance of the fixsliced implementation to the bit-level specification (C10), round trip (C01),
// no panic / overflow incl. `ror` and the nibble / byte / half-word rotates (C20).  Oracle: refmodels::gift
// (S-box table GS, bit permutation P128, AddRoundKey with U/V, LFSR constants; NOT fixsliced).
//
// The fixsliced code keeps the state in a representation that changes every round and returns to the packed
// representation every 5 rounds; round keys are pre-permuted accordingly.  Decomposition:
//   gift_leaf_pack      D: packing / unpacking are mutually inverse bijections between 16-byte blocks and 4x32-bit
//                       states (so `packing` is a faithful change of representation of the specification's state)
//   gift_quint_lo/_hi   D: for every key (REAL precompute_rkeys) and every state X:
//                         unpacking(quintuple_round(packing(X), rkeys[10q..], GIFT_RC[5q..])) == spec rounds 5q+1..5q+5 (X)
//                       with the specification's key schedule and LFSR constants -- this is the conformance of
//                       precompute_rkeys, GIFT_RC and the five round variants together, q = 0..7
//   gift_quint_inv_*    D: the same for inv_quintuple_round and the inverse rounds
//   gift_wire_enc/_dec  W: encrypt_block / decrypt_block == unpacking . quintuple_round^8 . packing with the
//                       slice offsets i*2 / i of the real code, quintuple_round uninterpreted, ARBITRARY round keys
//   gift_rt_ed/_rt_de   D: round trips on an arbitrary round-key state
use super::prelude::*;
use crate::consts::GIFT_RC;
use crate::key_schedule::precompute_rkeys;
use crate::primitives::{inv_quintuple_round, packing, quintuple_round, unpacking};
use crate::Gift128;
use cipher::{BlockCipherDecrypt, BlockCipherEncrypt, KeyInit};
use refmodels::gift as r;

//@ harness name=gift_leaf_pack prop=C10,C20 tier=quick bits=128 est=5 desc="D: unpacking(packing(b)) == b for all 2^128 blocks and packing(unpacking(S)) == S for all 2^128 states (packing is a bijective change of representation)"
verif_harness! {
    name: gift_leaf_pack,
    bytes: 16,
    unwind: 20,
    prop: |inp| {
        let b: [u8; 16] = take(inp, 0);
        let mut st = [0u32; 4];
        packing(&mut st, &b);
        let mut o = [0u8; 16];
        unpacking(&st, &mut o);
        vcheck!(o == b);
        let s = [take_u32(inp, 0), take_u32(inp, 4), take_u32(inp, 8), take_u32(inp, 12)];
        unpacking(&s, &mut o);
        packing(&mut st, &o);
        vcheck!(st == s);
        Some(true)
    }
}

/// quintuple q of the real code on packing(X) vs spec rounds 5q..5q+5 on X
fn quint(inp: &[u8], q: usize) -> Option<bool> {
    let key: [u8; 16] = take(inp, 0);
    let x: [u8; 16] = take(inp, 16);
    let rk = precompute_rkeys(&key);
    let mut st = [0u32; 4];
    packing(&mut st, &x);
    quintuple_round(&mut st, &rk[10 * q..], &GIFT_RC[5 * q..]);
    let mut o = [0u8; 16];
    unpacking(&st, &mut o);
    let e = r::rounds(u128::from_be_bytes(x), &r::round_keys(&key), 5 * q, 5 * q + 5);
    Some(u128::from_be_bytes(o) == e)
}
fn quint_inv(inp: &[u8], q: usize) -> Option<bool> {
    let key: [u8; 16] = take(inp, 0);
    let x: [u8; 16] = take(inp, 16);
    let rk = precompute_rkeys(&key);
    let mut st = [0u32; 4];
    packing(&mut st, &x);
    inv_quintuple_round(&mut st, &rk[10 * q..], &GIFT_RC[5 * q..]);
    let mut o = [0u8; 16];
    unpacking(&st, &mut o);
    let e = r::inv_rounds(u128::from_be_bytes(x), &r::round_keys(&key), 5 * q, 5 * q + 5);
    Some(u128::from_be_bytes(o) == e)
}

//@ harness name=gift_quint_lo prop=C10,C20 tier=quick bits=256 est=190 need=10 desc="D: rounds 1-20: for q = 0..3: unpacking(quintuple_round(packing(X), precompute_rkeys(key)[10q..], GIFT_RC[5q..])) == the 5 spec rounds 5q+1..5q+5 (GS, P128, U/V round keys of the spec key schedule, LFSR constants; inverse order for the inverse), all keys, all states"
verif_harness! {
    name: gift_quint_lo,
    bytes: 32,
    unwind: 130,
    prop: |inp| {
        vcheck!(quint(inp, 0) == Some(true));
        vcheck!(quint(inp, 1) == Some(true));
        vcheck!(quint(inp, 2) == Some(true));
        vcheck!(quint(inp, 3) == Some(true));
        Some(true)
    }
}
//@ harness name=gift_quint_hi prop=C10,C20 tier=quick bits=256 est=190 need=10 desc="D: rounds 21-40: for q = 4..7: unpacking(quintuple_round(packing(X), precompute_rkeys(key)[10q..], GIFT_RC[5q..])) == the 5 spec rounds 5q+1..5q+5 (GS, P128, U/V round keys of the spec key schedule, LFSR constants; inverse order for the inverse), all keys, all states"
verif_harness! {
    name: gift_quint_hi,
    bytes: 32,
    unwind: 130,
    prop: |inp| {
        vcheck!(quint(inp, 4) == Some(true));
        vcheck!(quint(inp, 5) == Some(true));
        vcheck!(quint(inp, 6) == Some(true));
        vcheck!(quint(inp, 7) == Some(true));
        Some(true)
    }
}
//@ harness name=gift_quint_inv_lo prop=C10,C20 tier=quick bits=256 est=135 need=10 desc="D: inverse of rounds 1-20: for q = 0..3: unpacking(inv_quintuple_round(packing(X), precompute_rkeys(key)[10q..], GIFT_RC[5q..])) == the 5 spec rounds 5q+1..5q+5 (GS, P128, U/V round keys of the spec key schedule, LFSR constants; inverse order for the inverse), all keys, all states"
verif_harness! {
    name: gift_quint_inv_lo,
    bytes: 32,
    unwind: 130,
    prop: |inp| {
        vcheck!(quint_inv(inp, 0) == Some(true));
        vcheck!(quint_inv(inp, 1) == Some(true));
        vcheck!(quint_inv(inp, 2) == Some(true));
        vcheck!(quint_inv(inp, 3) == Some(true));
        Some(true)
    }
}
//@ harness name=gift_quint_inv_hi prop=C10,C20 tier=quick bits=256 est=190 need=10 desc="D: inverse of rounds 21-40: for q = 4..7: unpacking(inv_quintuple_round(packing(X), precompute_rkeys(key)[10q..], GIFT_RC[5q..])) == the 5 spec rounds 5q+1..5q+5 (GS, P128, U/V round keys of the spec key schedule, LFSR constants; inverse order for the inverse), all keys, all states"
verif_harness! {
    name: gift_quint_inv_hi,
    bytes: 32,
    unwind: 130,
    prop: |inp| {
        vcheck!(quint_inv(inp, 4) == Some(true));
        vcheck!(quint_inv(inp, 5) == Some(true));
        vcheck!(quint_inv(inp, 6) == Some(true));
        vcheck!(quint_inv(inp, 7) == Some(true));
        Some(true)
    }
}

// ------------------------------------------------------------------ wiring with quintuple_round uninterpreted
// log of calls: 4 state words + 10 round-key words + 5 constants -> 4 state words; at most 16 calls per query.
// Each wiring harness stubs exactly one of quintuple_round / inv_quintuple_round, so one log serves both.
#[cfg(kani)]
pub mod uf_q {
    pub static mut IN: [[u32; 19]; 16] = [[0; 19]; 16];
    pub static mut OUT: [[u32; 4]; 16] = [[0; 4]; 16];
    pub static mut N: usize = 0;
    pub fn call(state: &mut [u32; 4], rkey: &[u32], rconst: &[u32]) {
        unsafe {
            let mut a = [0u32; 19];
            a[0] = state[0];
            a[1] = state[1];
            a[2] = state[2];
            a[3] = state[3];
            let mut i = 0;
            while i < 10 {
                a[4 + i] = rkey[i];
                i += 1;
            }
            i = 0;
            while i < 5 {
                a[14 + i] = rconst[i];
                i += 1;
            }
            let y: [u32; 4] = [kani::any(), kani::any(), kani::any(), kani::any()];
            let n = N;
            kani::assert(n < 16, "VERIF_UF_CAPACITY");
            let mut ok = true;
            let mut k = 0;
            while k < n {
                let mut same = true;
                i = 0;
                while i < 19 {
                    same &= IN[k][i] == a[i];
                    i += 1;
                }
                ok &= !same | ((OUT[k][0] == y[0]) & (OUT[k][1] == y[1]) & (OUT[k][2] == y[2]) & (OUT[k][3] == y[3]));
                k += 1;
            }
            i = 0;
            while i < 19 {
                IN[n][i] = a[i];
                i += 1;
            }
            OUT[n] = y;
            kani::assume(ok);
            N = n + 1;
            *state = y;
        }
    }
}
#[cfg(kani)]
pub fn stub_q(state: &mut [u32; 4], rkey: &[u32], rconst: &[u32]) {
    uf_q::call(state, rkey, rconst)
}
#[cfg(not(kani))]
pub fn stub_q(state: &mut [u32; 4], rkey: &[u32], rconst: &[u32]) {
    quintuple_round(state, rkey, rconst)
}
#[cfg(kani)]
pub fn stub_qi(state: &mut [u32; 4], rkey: &[u32], rconst: &[u32]) {
    uf_q::call(state, rkey, rconst)
}
#[cfg(not(kani))]
pub fn stub_qi(state: &mut [u32; 4], rkey: &[u32], rconst: &[u32]) {
    inv_quintuple_round(state, rkey, rconst)
}

fn arb_state(inp: &[u8]) -> (Gift128, [u32; 80], [u8; 16]) {
    let mut k = [0u32; 80];
    let mut i = 0;
    while i < 80 {
        k[i] = take_u32(inp, 4 * i);
        i += 1;
    }
    (Gift128 { k }, k, take(inp, 320))
}

//@ harness name=gift_wire_enc prop=C10,C20 tier=quick bits=2688 stub=1 est=35 desc="W: Gift128::encrypt_block(b) == unpacking(Q_7(..Q_0(packing(b)))) with Q_q = quintuple_round(., k[10q..], GIFT_RC[5q..]), quintuple_round uninterpreted, ARBITRARY round keys, all blocks (slice offsets of the round-key and constant tables)"
verif_harness! {
    name: gift_wire_enc,
    bytes: 336,
    unwind: 90,
    stubs: [(crate::primitives::quintuple_round, stub_q)],
    prop: |inp| {
        let (c, k, blk) = arb_state(inp);
        let mut b: cipher::Block<Gift128> = blk.into();
        c.encrypt_block(&mut b);
        let mut st = [0u32; 4];
        packing(&mut st, &blk);
        let mut q = 0;
        while q < 8 {
            stub_q(&mut st, &k[10 * q..], &GIFT_RC[5 * q..]);
            q += 1;
        }
        let mut o = [0u8; 16];
        unpacking(&st, &mut o);
        Some(b.0 == o)
    }
}
//@ harness name=gift_wire_dec prop=C10,C20 tier=quick bits=2688 stub=1 est=35 desc="W: Gift128::decrypt_block(b) == unpacking(Qi_0(..Qi_7(packing(b)))) with Qi_q = inv_quintuple_round(., k[10q..], GIFT_RC[5q..]), inv_quintuple_round uninterpreted, ARBITRARY round keys, all blocks"
verif_harness! {
    name: gift_wire_dec,
    bytes: 336,
    unwind: 90,
    stubs: [(crate::primitives::inv_quintuple_round, stub_qi)],
    prop: |inp| {
        let (c, k, blk) = arb_state(inp);
        let mut b: cipher::Block<Gift128> = blk.into();
        c.decrypt_block(&mut b);
        let mut st = [0u32; 4];
        packing(&mut st, &blk);
        let mut q = 8;
        while q > 0 {
            q -= 1;
            stub_qi(&mut st, &k[10 * q..], &GIFT_RC[5 * q..]);
        }
        let mut o = [0u8; 16];
        unpacking(&st, &mut o);
        Some(b.0 == o)
    }
}

// (The whole cipher in one direct query -- Gift128::new(key).encrypt_block(b) == spec, 40 rounds -- was tried and
//  removed: 34 M SAT variables, 13.7 GB at the 14 GB cap of the quick tier, no verdict.  The decomposition above
//  covers it: packing bijective + every quintuple == 5 spec rounds + encrypt_block == the eight quintuples.)

// ------------------------------------------------------------------ round trips

//@ harness name=gift_rt_ed prop=C01,C20 tier=quick bits=2688 est=25 desc="D: decrypt_block(encrypt_block(b)) == b on an ARBITRARY round-key state (superset of all keys), all blocks"
verif_harness! {
    name: gift_rt_ed,
    bytes: 336,
    unwind: 90,
    prop: |inp| {
        let (c, _k, blk) = arb_state(inp);
        let mut b: cipher::Block<Gift128> = blk.into();
        c.encrypt_block(&mut b);
        c.decrypt_block(&mut b);
        Some(b.0 == blk)
    }
}
//@ harness name=gift_rt_de prop=C01,C20 tier=quick bits=2688 est=25 desc="D: encrypt_block(decrypt_block(b)) == b on an ARBITRARY round-key state, all blocks"
verif_harness! {
    name: gift_rt_de,
    bytes: 336,
    unwind: 90,
    prop: |inp| {
        let (c, _k, blk) = arb_state(inp);
        let mut b: cipher::Block<Gift128> = blk.into();
        c.decrypt_block(&mut b);
        c.encrypt_block(&mut b);
        Some(b.0 == blk)
    }
}

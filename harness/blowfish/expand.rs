#![allow(static_mut_refs)]
// Blowfish key expansion (C09; the stub machinery is shared with bcrypt.rs for C14).
//
// 521 chained block encryptions with self-modifying S-boxes are out of reach as one query, so `Blowfish::encrypt` is
// replaced INSIDE the expansion by a co-routine stub: the j-th call
//   1. advances the oracle's expansion step machine (refmodels::blowfish::Expander) to its j-th encryption request,
//   2. checks that the implementation passes the same (l, r) as the oracle would encrypt,
//   3. checks that the implementation's P array (all 18 words) and the pair of entries stored after the previous call
//      equal the oracle's; at the calls that begin a new table (j = 0, 9, 137, 265, 393) the ENTIRE state (18 P words,
//      1024 S words) is compared,
//   4. hands the same fresh arbitrary 64-bit value to both sides as the result, which the oracle stores by its own rule.
// After the run the complete final states must agree and exactly 521 calls must have happened.  This decides: key cycling,
// the 18 P XORs, the all-zero first block, chaining, (eksblowfish) salt cycling and XOR order, and the store order -- for the
// real encryption function, whose conformance on an arbitrary state is decided in conf.rs.
// Memory: the 256-word S-boxes go through CBMC's array theory; the run peaks at 13-14 GB (measured 237 s and 318 s when it
// fit, killed twice at the quick tier's 14 GB limit / by the system OOM killer), hence thorough tier with mem=30.
// Not compared: S-box entries other than the newest pair at calls other than the five checkpoints (comparing all 1042
// words at each of the 521 calls needs ~88 MB of CBMC memory per call: > 14 GB before a third of the run).  A transient
// change of such an entry that is undone before the next checkpoint would go unnoticed; nothing else can.
use super::prelude::*;
use crate::Blowfish;
use byteorder::{ByteOrder, BE, LE};
use cipher::KeyInit;
use refmodels::blowfish as r;

pub mod co {
    use refmodels::blowfish as r;
    pub static mut ORC: r::Expander = r::Expander { p: [0; 18], s: [[0; 256]; 4], block: [0; 2], n: 0, salt: r::Cycle { pos: 0 } };
    pub static mut OK: bool = true;
    /// false: Schneier's expansion (argument = previous output); true: eksblowfish (previous output ^ next 64 salt bits)
    pub static mut SALTED: bool = false;
    pub static mut SALT: [u8; 16] = [0; 16];
    pub static mut SLEN: usize = 1;
}

pub unsafe fn state_eq<T: ByteOrder>(c: &Blowfish<T>) -> bool {
    // by-value copies first: comparing through the reference costs a pointer-validity obligation per element under
    // CBMC (the first version of this harness needed > 14 GB during symbolic execution)
    let p: [u32; 18] = c.p;
    let s: [[u32; 256]; 4] = c.s;
    let op: [u32; 18] = co::ORC.p;
    let os: [[u32; 256]; 4] = co::ORC.s;
    let mut ok = true;
    let mut i = 0;
    while i < 18 {
        ok &= p[i] == op[i];
        i += 1;
    }
    let mut b = 0;
    while b < 4 {
        i = 0;
        while i < 256 {
            ok &= (s[b][i] == os[b][i]) & (s[b][i + 1] == os[b][i + 1]) & (s[b][i + 2] == os[b][i + 2]) & (s[b][i + 3] == os[b][i + 3]);
            i += 4;
        }
        b += 1;
    }
    ok
}

/// P array in full and the entry pair stored by the previous call (entries 2(n-1), 2(n-1)+1 of P1..P18,S1..S4).
pub unsafe fn cheap_eq<T: ByteOrder>(c: &Blowfish<T>) -> bool {
    let p: [u32; 18] = c.p;
    let op: [u32; 18] = co::ORC.p;
    let mut ok = true;
    let mut i = 0;
    while i < 18 {
        ok &= p[i] == op[i];
        i += 1;
    }
    let n = co::ORC.n;
    if n > 9 {
        let e = 2 * (n - 1) - 18;
        let b = e / 256;
        let k = e % 256;
        ok &= c.s[b][k] == co::ORC.block[0] && c.s[b][k + 1] == co::ORC.block[1];
        ok &= co::ORC.s[b][k] == co::ORC.block[0] && co::ORC.s[b][k + 1] == co::ORC.block[1];
    }
    ok
}

pub fn stub_encrypt<T: ByteOrder>(this: &Blowfish<T>, lr: [u32; 2]) -> [u32; 2] {
    #[cfg(kani)]
    unsafe {
        if co::ORC.done() {
            co::OK = false;
            return [0, 0];
        }
        let n = co::ORC.n;
        // order matters: the checks on the stored pair use ORC.block = previous result, before arg_salted changes it
        if n == 0 || n == 9 || n == 137 || n == 265 || n == 393 {
            co::OK &= state_eq(this);
        } else {
            co::OK &= cheap_eq(this);
        }
        let a = if co::SALTED { co::ORC.arg_salted(&co::SALT, co::SLEN) } else { co::ORC.arg_plain() };
        co::OK &= a[0] == lr[0] && a[1] == lr[1];
        let y: [u32; 2] = [kani::any(), kani::any()];
        co::ORC.put(y);
        return y;
    }
    #[cfg(not(kani))]
    return r::encipher(&this.p, &this.s, lr);
}

macro_rules! new_harness {
    ($name:ident, $T:ty) => {
        verif_harness! {
            name: $name,
            bytes: 58,
            unwind: 260,
            stubs: [(crate::Blowfish::encrypt, stub_encrypt)],
            prop: |inp| {
                let key: [u8; 57] = take(inp, 0);
                let len = inp[57] as usize;
                vassume!(len <= 57);
                let valid = 4 <= len && len <= 56;
                #[cfg(kani)]
                if valid {
                    unsafe {
                        co::ORC = r::Expander::start(&r::P_INIT, &r::S_INIT, &key, len);
                        co::OK = true;
                        co::SALTED = false;
                    }
                }
                let c = match Blowfish::<$T>::new_from_slice(&key[..len]) {
                    Err(_) => return Some(!valid),
                    Ok(c) => c,
                };
                vcheck!(valid);
                #[cfg(kani)]
                return Some(unsafe { co::OK && co::ORC.n == r::CALLS && state_eq(&c) });
                #[cfg(not(kani))]
                {
                    let (p, s) = r::new(&key, len);
                    return Some(c.p == p && c.s == s);
                }
            }
        }
    };
}

//@ harness name=bf_new_w_be prop=C09,C20 variants=blowfish tier=thorough bits=464 stub=1 est=320 mem=30 cbmc_args=--max-field-sensitivity-array-size;1100 desc="W: Blowfish<BE>::new_from_slice(key[..len]), len symbolic 0..=57: Err exactly outside 4..=56; otherwise the state equals Schneier's key expansion from the pi digits (key bytes cycled, 18 P XORs, 521 chained encryptions, store order), with the block encryption uninterpreted per call; arguments, P array and newest stored pair compared with the oracle's at every call, the full state at calls 0/9/137/265/393 and at the end"
new_harness!(bf_new_w_be, BE);
//@ harness name=bf_new_w_le prop=C09,C20 variants=blowfish tier=thorough bits=464 stub=1 est=320 mem=30 cbmc_args=--max-field-sensitivity-array-size;1100 desc="W: BlowfishLE::new_from_slice: same key expansion as Blowfish<BE> (keying does not depend on the block byte order), len symbolic 0..=57, co-routine stub as bf_new_w_be"
new_harness!(bf_new_w_le, LE);

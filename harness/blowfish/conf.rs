// Blowfish: conformance of the data path to Schneier's description on an ARBITRARY state (P array and S-boxes fully
// symbolic), big- and little-endian block variants (C09), round trips (C01), dev-profile obligations of round_function /
// next_u32_wrap / encrypt / decrypt on fully symbolic inputs (C20).  Key expansion: see expand.rs.
//   L  bf_round_function      round_function(x) == F(x) on arbitrary S-boxes, all x          (direct)
//   L  bf_next_u32_wrap       cyclic big-endian reader, buffer length symbolic
//   W  bf_conf_*, bf_le_*     16 rounds + P18/P17 whitening, halves BE / LE, round_function uninterpreted and shared with the
//                             oracle (the direct queries on a fully symbolic state -- 6.5 M clauses -- did not finish in 10 min)
//   W  bf_roundtrip_*         Feistel: holds for ANY round function, so no leaf lemma is involved
use super::prelude::*;
use crate::Blowfish;
use byteorder::{ByteOrder, BE, LE};
use cipher::{BlockCipherDecrypt, BlockCipherEncrypt};
use core::marker::PhantomData;
use refmodels::blowfish as r;

pub const STATE: usize = 4 * (18 + 1024);

pub fn arb_state<T: ByteOrder>(inp: &[u8]) -> Blowfish<T> {
    let mut p = [0u32; 18];
    let mut s = [[0u32; 256]; 4];
    let mut i = 0;
    while i < 18 {
        p[i] = take_u32(inp, 4 * i);
        i += 1;
    }
    let mut b = 0;
    while b < 4 {
        i = 0;
        while i < 256 {
            s[b][i] = take_u32(inp, 72 + 1024 * b + 4 * i);
            i += 1;
        }
        b += 1;
    }
    Blowfish { s, p, _pd: PhantomData }
}

//@ harness name=bf_next_u32_wrap prop=C09,C20 variants=blowfish tier=quick bits=592 est=10 desc="L: next_u32_wrap(buf[..len], &mut off) returns the big-endian word of bytes off..off+3 of the cyclic repetition of buf[..len] and advances off by 4 cyclically, for len symbolic 1..=72, every off in 0..=len, all buffer contents; index always in range, no overflow"
verif_harness! {
    name: bf_next_u32_wrap,
    bytes: 74,
    unwind: 74,
    prop: |inp| {
        let buf: [u8; 72] = take(inp, 0);
        let len = inp[72] as usize;
        let off = inp[73] as usize;
        vassume!(1 <= len && len <= 72);
        vassume!(off <= len);
        let mut o = off;
        let w = crate::next_u32_wrap(&buf[..len], &mut o);
        vcheck!(w == r::cyc_word(&buf, len, off));
        vcheck!(1 <= o && o <= len);
        vcheck!(o % len == (off + 4) % len);
        Some(true)
    }
}

//@ harness name=bf_round_function prop=C09,C20 variants=blowfish tier=quick bits=32800 est=50 need=4 desc="L: round_function(x) on arbitrary S-boxes == F(x) = ((S1[a] + S2[b]) ^ S3[c]) + S4[d] mod 2^32, all x, all S-box contents; indices in range, additions wrap"
verif_harness! {
    name: bf_round_function,
    bytes: STATE + 4,
    unwind: 258,
    prop: |inp| {
        let c: Blowfish<BE> = arb_state(inp);
        let x = take_u32(inp, STATE);
        Some(c.round_function(x) == r::f(&c.s, x))
    }
}

// F is a function of (S-boxes, x); all calls of one harness see the same S-boxes (one state object, never modified by
// encrypt / decrypt), so an uninterpreted function of x alone is the sound abstraction.
fn no_concrete_f(_x: u32) -> u32 {
    unreachable!() // natively the harnesses use the oracle's real F (cfg(not(kani)) arms below), never uf_f::call
}
uf1!(uf_f, u32, u32, [B0], no_concrete_f);
pub fn stub_rf<T: ByteOrder>(_c: &Blowfish<T>, x: u32) -> u32 {
    uf_f::call(x)
}

macro_rules! conf_harness {
    ($name:ident, $T:ty, $le:expr, $method:ident, $with:path, $plain:path) => {
        verif_harness! {
            name: $name,
            bytes: STATE + 8,
            unwind: 258,
            stubs: [(crate::Blowfish::round_function, stub_rf)],
            prop: |inp| {
                let c: Blowfish<$T> = arb_state(inp);
                let blk: [u8; 8] = take(inp, STATE);
                let mut b = blk.into();
                c.$method(&mut b);
                #[cfg(kani)]
                let e = r::store($with(&c.p, r::load(&blk, $le), uf_f::call), $le);
                #[cfg(not(kani))]
                let e = $plain(&c.p, &c.s, &blk, $le);
                Some(b.0 == e)
            }
        }
    };
}

//@ harness name=bf_conf_enc_be prop=C09,C20 variants=blowfish tier=quick bits=33408 stub=1 est=90 need=5 desc="W: Blowfish<BE>::encrypt_block on an arbitrary state (P, S fully symbolic: superset of every keyed state) == Schneier's 16-round encryption, halves big-endian, all blocks; round_function uninterpreted (bf_round_function)"
conf_harness!(bf_conf_enc_be, BE, false, encrypt_block, r::encipher_with, r::encrypt_block);
//@ harness name=bf_conf_dec_be prop=C09,C20 variants=blowfish tier=quick bits=33408 stub=1 est=90 need=5 desc="W: Blowfish<BE>::decrypt_block on an arbitrary state == Schneier's decryption (P reversed), halves big-endian, all blocks; round_function uninterpreted"
conf_harness!(bf_conf_dec_be, BE, false, decrypt_block, r::decipher_with, r::decrypt_block);
//@ harness name=bf_conf_enc_le prop=C09,C20 variants=blowfish tier=quick bits=33408 stub=1 est=65 need=5 desc="W: BlowfishLE::encrypt_block on an arbitrary state == the same permutation of the two 32-bit halves, halves read and written little-endian, all blocks; round_function uninterpreted"
conf_harness!(bf_conf_enc_le, LE, true, encrypt_block, r::encipher_with, r::encrypt_block);
//@ harness name=bf_conf_dec_le prop=C09,C20 variants=blowfish tier=quick bits=33408 stub=1 est=90 need=5 desc="W: BlowfishLE::decrypt_block on an arbitrary state == Schneier's decryption with halves little-endian, all blocks; round_function uninterpreted"
conf_harness!(bf_conf_dec_le, LE, true, decrypt_block, r::decipher_with, r::decrypt_block);

fn swap_halves(b: &[u8; 8]) -> [u8; 8] {
    [b[3], b[2], b[1], b[0], b[7], b[6], b[5], b[4]]
}

//@ harness name=bf_le_is_swapped_be prop=C09 variants=blowfish tier=quick bits=33408 stub=1 est=170 need=11 desc="W: on the same arbitrary state, BlowfishLE enc/dec of b == byte-swap-each-half(Blowfish<BE> enc/dec of byte-swap-each-half(b)), all blocks; round_function uninterpreted (same function for both instantiations: same S-boxes)"
verif_harness! {
    name: bf_le_is_swapped_be,
    bytes: STATE + 8,
    unwind: 258,
    stubs: [(crate::Blowfish::round_function, stub_rf)],
    prop: |inp| {
        let le: Blowfish<LE> = arb_state(inp);
        let be: Blowfish<BE> = arb_state(inp);
        let blk: [u8; 8] = take(inp, STATE);
        let mut a = blk.into();
        le.encrypt_block(&mut a);
        let mut b = swap_halves(&blk).into();
        be.encrypt_block(&mut b);
        vcheck!(a.0 == swap_halves(&b.0));
        let mut a = blk.into();
        le.decrypt_block(&mut a);
        let mut b = swap_halves(&blk).into();
        be.decrypt_block(&mut b);
        vcheck!(a.0 == swap_halves(&b.0));
        Some(true)
    }
}

macro_rules! rt_harness {
    ($name:ident, $T:ty, $first:ident, $second:ident) => {
        verif_harness! {
            name: $name,
            bytes: STATE + 8,
            unwind: 258,
            stubs: [(crate::Blowfish::round_function, stub_rf)],
            prop: |inp| {
                let c: Blowfish<$T> = arb_state(inp);
                let blk: [u8; 8] = take(inp, STATE);
                let mut b = blk.into();
                c.$first(&mut b);
                c.$second(&mut b);
                Some(b.0 == blk)
            }
        }
    };
}

//@ harness name=bf_roundtrip_ed_be prop=C01 variants=blowfish tier=quick bits=33408 stub=1 est=80 need=5 desc="W: Blowfish<BE>: decrypt_block(encrypt_block(b)) == b on an arbitrary state (superset of every state reachable by keying with 4..=56 bytes or by bcrypt steps), all blocks; round_function uninterpreted (a Feistel network inverts for any round function)"
rt_harness!(bf_roundtrip_ed_be, BE, encrypt_block, decrypt_block);
//@ harness name=bf_roundtrip_de_be prop=C01 variants=blowfish tier=quick bits=33408 stub=1 est=80 need=5 desc="W: Blowfish<BE>: encrypt_block(decrypt_block(b)) == b on an arbitrary state, all blocks; round_function uninterpreted"
rt_harness!(bf_roundtrip_de_be, BE, decrypt_block, encrypt_block);
//@ harness name=bf_roundtrip_ed_le prop=C01 variants=blowfish tier=quick bits=33408 stub=1 est=80 need=5 desc="W: BlowfishLE: decrypt_block(encrypt_block(b)) == b on an arbitrary state, all blocks; round_function uninterpreted"
rt_harness!(bf_roundtrip_ed_le, LE, encrypt_block, decrypt_block);
//@ harness name=bf_roundtrip_de_le prop=C01 variants=blowfish tier=quick bits=33408 stub=1 est=70 need=5 desc="W: BlowfishLE: encrypt_block(decrypt_block(b)) == b on an arbitrary state, all blocks; round_function uninterpreted"
rt_harness!(bf_roundtrip_de_le, LE, decrypt_block, encrypt_block);

#![allow(static_mut_refs)]
// bcrypt feature (C14): every public step decided as ONE step from an ARBITRARY pre-state (P, S fully symbolic) against
// the oracle's step (refmodels::blowfish: Schneier expansion / eksblowfish ExpandKey of Provos-Mazieres); induction over
// the steps then covers any sequence of steps such as bcrypt's cost loop.  The expansions use the co-routine stub of
// expand.rs (block encryption uninterpreted per call; see expand.rs for what is compared when); bc_encrypt is direct.
use super::conf::{arb_state, stub_rf, uf_f, STATE};
use super::expand::{co, state_eq, stub_encrypt};
use super::prelude::*;
use crate::Blowfish;
use byteorder::BE;
use refmodels::blowfish as r;

//@ harness name=bc_init_state prop=C14 tier=quick bits=0 est=45 need=4 desc="D: Blowfish::bc_init_state() is the pi-digit state (P_INIT, S_INIT) the reference algorithm starts from (no symbolic input: constant tables compared entry by entry)"
verif_harness! {
    name: bc_init_state,
    bytes: 1,
    unwind: 258,
    prop: |inp| {
        let c = Blowfish::bc_init_state();
        let mut ok = true;
        let mut i = 0;
        while i < 18 {
            ok &= c.p[i] == r::P_INIT[i];
            i += 1;
        }
        let mut b = 0;
        while b < 4 {
            i = 0;
            while i < 256 {
                ok &= c.s[b][i] == r::S_INIT[b][i];
                i += 1;
            }
            b += 1;
        }
        Some(ok)
    }
}

//@ harness name=bc_encrypt prop=C14,C20 tier=quick bits=33408 stub=1 est=60 need=5 desc="W: bc_encrypt([l, r]) on an arbitrary state == Schneier's Blowfish encryption of the word pair under that state's P and S, all (l, r); round_function uninterpreted and shared with the oracle (leaf lemma bf_round_function, conf.rs)"
verif_harness! {
    name: bc_encrypt,
    bytes: STATE + 8,
    unwind: 258,
    stubs: [(crate::Blowfish::round_function, stub_rf)],
    prop: |inp| {
        let c: Blowfish<BE> = arb_state(inp);
        let lr = [take_u32(inp, STATE), take_u32(inp, STATE + 4)];
        #[cfg(kani)]
        let e = r::encipher_with(&c.p, lr, uf_f::call);
        #[cfg(not(kani))]
        let e = r::encipher(&c.p, &c.s, lr);
        let o = c.bc_encrypt(lr);
        Some(o[0] == e[0] && o[1] == e[1])
    }
}

// which implementation step is run / which oracle machine it is compared with
const PLAIN_VS_PLAIN: u8 = 0; // bc_expand_key(key)                    vs Schneier expansion
const SALTED_VS_EKS: u8 = 1; //  salted_expand_key(salt, key)          vs eksblowfish ExpandKey(state, salt, key)
const ZERO_SALT_VS_PLAIN: u8 = 2; // salted_expand_key(0^slen, key)    vs Schneier expansion

/// `slen16`: the salt has bcrypt's fixed length of 16 bytes (all reads at constant positions); otherwise its length is
/// symbolic in 1..=16 (every salt byte read is a symbolic-index access on both sides: 8336 of them, which needs more
/// than the quick tier's 14 GB during propositional reduction).
fn step(inp: &[u8], mode: u8, slen16: bool) -> Option<bool> {
    step2(inp, mode, slen16, false)
}
/// `init`: the pre-state is bc_init_state() (the state every bcrypt run starts from) instead of an arbitrary one: all
/// 1042 state words are then constants until the expansion overwrites them, which keeps the query small enough for the
/// quick tier; the arbitrary-pre-state forms (thorough) cover the later expansions of bcrypt's cost loop.
fn step2(inp: &[u8], mode: u8, slen16: bool, init: bool) -> Option<bool> {
    let mut c: Blowfish<BE> = if init { Blowfish::bc_init_state() } else { arb_state(inp) };
    let key: [u8; 72] = take(inp, STATE);
    let klen = inp[STATE + 72] as usize;
    let mut salt: [u8; 16] = take(inp, STATE + 73);
    let slen = if slen16 { 16 } else { inp[STATE + 89] as usize };
    vassume!(1 <= klen && klen <= 72);
    vassume!(1 <= slen && slen <= 16);
    if mode == ZERO_SALT_VS_PLAIN {
        salt = [0u8; 16];
    }
    let (mut p, mut s) = (c.p, c.s);
    #[cfg(kani)]
    unsafe {
        co::ORC = r::Expander::start(&p, &s, &key, klen);
        co::OK = true;
        co::SALTED = mode == SALTED_VS_EKS;
        co::SALT = salt;
        co::SLEN = slen;
    }
    if mode == PLAIN_VS_PLAIN {
        c.bc_expand_key(&key[..klen]);
    } else {
        c.salted_expand_key(&salt[..slen], &key[..klen]);
    }
    #[cfg(kani)]
    return Some(unsafe { co::OK && co::ORC.n == r::CALLS && state_eq(&c) });
    #[cfg(not(kani))]
    {
        if mode == SALTED_VS_EKS {
            r::eks_expand_key(&mut p, &mut s, &salt, slen, &key, klen);
        } else {
            r::expand_key(&mut p, &mut s, &key, klen);
        }
        return Some(c.p == p && c.s == s);
    }
}

//@ harness name=bc_expand_key_w prop=C14,C20 tier=thorough bits=33928 stub=1 est=342 mem=30 cbmc_args=--max-field-sensitivity-array-size;1100 desc="W: bc_expand_key(key[..klen]) from an arbitrary pre-state == Schneier's key expansion from that state (= ordinary Blowfish keying when the pre-state is bc_init_state), klen symbolic 1..=72 (only the first 72 bytes of the cycled key are ever used), co-routine stub: arguments, P array and newest stored pair compared at each of the 521 calls, full state at calls 0/9/137/265/393 and at the end"
verif_harness! {
    name: bc_expand_key_w,
    bytes: STATE + 90,
    unwind: 260,
    stubs: [(crate::Blowfish::encrypt, stub_encrypt)],
    prop: |inp| { step(inp, PLAIN_VS_PLAIN, true) }
}

//@ disabled-harness reason=never_finished_below_30_GB name=bc_salted_w prop=C14,C20 tier=thorough bits=34056 stub=1 est=1500 mem=30 cbmc_args=--max-field-sensitivity-array-size;1100 desc="W: salted_expand_key(salt, key[..klen]) for a 16-byte salt (bcrypt's salt size) from an arbitrary pre-state == eksblowfish ExpandKey(state, salt, key): P ^= cycled key, then each of the 521 blocks = Enc(previous block ^ next 64 bits of the cycled salt) stored in order; all salt bytes, klen symbolic 1..=72, co-routine stub (checks as bc_expand_key_w)"
verif_harness! {
    name: bc_salted_w,
    bytes: STATE + 90,
    unwind: 260,
    stubs: [(crate::Blowfish::encrypt, stub_encrypt)],
    prop: |inp| { step(inp, SALTED_VS_EKS, true) }
}

//@ disabled-harness reason=never_finished_below_30_GB name=bc_zero_salt_w prop=C14 tier=thorough bits=33920 stub=1 est=1500 mem=30 cbmc_args=--max-field-sensitivity-array-size;1100 desc="W: salted_expand_key(16 zero bytes, key) from an arbitrary pre-state == Schneier's (unsalted) expansion == bc_expand_key (by bc_expand_key_w), klen symbolic 1..=72"
verif_harness! {
    name: bc_zero_salt_w,
    bytes: STATE + 90,
    unwind: 260,
    stubs: [(crate::Blowfish::encrypt, stub_encrypt)],
    prop: |inp| { step(inp, ZERO_SALT_VS_PLAIN, true) }
}

//@ disabled-harness reason=never_finished_below_30_GB name=bc_salted_anylen_w prop=C14,C20 tier=thorough bits=34064 stub=1 est=1500 mem=30 cbmc_args=--max-field-sensitivity-array-size;1100 desc="W: as bc_salted_w with the salt length symbolic in 1..=16 (salt bytes cycled)"
verif_harness! {
    name: bc_salted_anylen_w,
    bytes: STATE + 90,
    unwind: 260,
    stubs: [(crate::Blowfish::encrypt, stub_encrypt)],
    prop: |inp| { step(inp, SALTED_VS_EKS, false) }
}

//@ disabled-harness reason=never_finished_below_30_GB name=bc_zero_salt_anylen_w prop=C14 tier=thorough bits=33928 stub=1 est=1500 mem=30 cbmc_args=--max-field-sensitivity-array-size;1100 desc="W: as bc_zero_salt_w with an all-zero salt of symbolic length 1..=16"
verif_harness! {
    name: bc_zero_salt_anylen_w,
    bytes: STATE + 90,
    unwind: 260,
    stubs: [(crate::Blowfish::encrypt, stub_encrypt)],
    prop: |inp| { step(inp, ZERO_SALT_VS_PLAIN, false) }
}

// ---- the same steps from the initial state (quick tier)
//@ disabled-harness reason=never_finished_below_30_GB name=bc_salted_init_w prop=C14,C20 tier=thorough bits=728 stub=1 est=900 mem=30 cbmc_args=--max-field-sensitivity-array-size;1100 desc="W: salted_expand_key(salt, key[..klen]) for a 16-byte salt from bc_init_state() == eksblowfish ExpandKey(initial state, salt, key): all salt bytes, all key bytes, klen symbolic 1..=72; co-routine stub on encrypt (arguments, P array and newest stored pair compared at each of the 521 calls, full state at the checkpoints and at the end)"
verif_harness! {
    name: bc_salted_init_w,
    bytes: STATE + 90,
    unwind: 260,
    stubs: [(crate::Blowfish::encrypt, stub_encrypt)],
    prop: |inp| { step2(inp, SALTED_VS_EKS, true, true) }
}
//@ disabled-harness reason=never_finished_below_30_GB name=bc_salted_init_anylen_w prop=C14,C20 tier=thorough bits=736 stub=1 est=900 mem=30 cbmc_args=--max-field-sensitivity-array-size;1100 desc="W: as bc_salted_init_w with the salt length symbolic in 1..=16 (salt bytes cycled; lengths that do not divide 16 included)"
verif_harness! {
    name: bc_salted_init_anylen_w,
    bytes: STATE + 90,
    unwind: 260,
    stubs: [(crate::Blowfish::encrypt, stub_encrypt)],
    prop: |inp| { step2(inp, SALTED_VS_EKS, false, true) }
}
//@ disabled-harness reason=never_finished_below_30_GB name=bc_zero_salt_init_w prop=C14 tier=thorough bits=600 stub=1 est=900 mem=30 cbmc_args=--max-field-sensitivity-array-size;1100 desc="W: salted_expand_key(16 zero bytes, key) from bc_init_state() == Schneier's (unsalted) expansion == ordinary Blowfish keying, klen symbolic 1..=72 (keys longer than 56 bytes included)"
verif_harness! {
    name: bc_zero_salt_init_w,
    bytes: STATE + 90,
    unwind: 260,
    stubs: [(crate::Blowfish::encrypt, stub_encrypt)],
    prop: |inp| { step2(inp, ZERO_SALT_VS_PLAIN, true, true) }
}
//@ harness name=bc_expand_key_init_w prop=C14,C20 tier=thorough bits=584 stub=1 cbmc_args=--max-field-sensitivity-array-size;1100 est=450 need=15 desc="W: bc_expand_key(key[..klen]) from bc_init_state() == Schneier's key expansion (ordinary Blowfish keying), klen symbolic 1..=72"
verif_harness! {
    name: bc_expand_key_init_w,
    bytes: STATE + 90,
    unwind: 260,
    stubs: [(crate::Blowfish::encrypt, stub_encrypt)],
    prop: |inp| { step2(inp, PLAIN_VS_PLAIN, true, true) }
}

// ---- data-flow form (quick tier): which key / salt words are XORed where, and in which order ----------------------
// `encrypt` is replaced by a cheap keyed stand-in E_k(l, r) that depends on the call index k and is a bijection of (l, r)
// for every k, but NOT on the cipher state; the oracle's eksblowfish machine runs with the same stand-in; the FINAL states
// (all 1042 words) are compared.  Every deviation in what is fed to the k-th encryption (which salt word, which key word,
// the running block, the order) changes its output and so the stored words.  What this form does not see is the state
// dependence of the real encrypt (that the k-th call runs on exactly the state written so far): that is the subject of the
// lockstep harnesses above (thorough tier, 20-30 GB).  Pre-state: arbitrary P array, bc_init_state() S-boxes (every S word is
// overwritten by the expansion, and nothing but `encrypt` reads them).
pub mod dfl {
    pub static mut N: u32 = 0;
    /// the (l, r) argument of every call of the stubbed encrypt, in call order (recording form)
    pub static mut IN: [[u32; 2]; 521] = [[0; 2]; 521];
    pub static mut RECORD: bool = false;
}
fn cheap_e(k: u32, lr: [u32; 2]) -> [u32; 2] {
    [lr[0].rotate_left(5) ^ lr[1] ^ k.wrapping_mul(0x9E37_79B9), lr[1].rotate_left(11) ^ k.wrapping_mul(0x85EB_CA6B) ^ 0x1234_5677]
}
/// recording form: the result of call k is a constant pair that depends on k only, the argument is logged; the chain
/// "next argument = previous result ^ salt words" is thereby cut, so that every logged argument is a shallow term
fn const_e(k: u32) -> [u32; 2] {
    [k.wrapping_mul(0x9E37_79B9) ^ 0x0F0F_1234, k.wrapping_mul(0x85EB_CA6B) ^ 0x1234_5677]
}
pub fn stub_encrypt_df<T: byteorder::ByteOrder>(_this: &Blowfish<T>, lr: [u32; 2]) -> [u32; 2] {
    unsafe {
        let k = dfl::N;
        dfl::N = k + 1;
        if dfl::RECORD {
            if (k as usize) < 521 {
                dfl::IN[k as usize] = lr;
            }
            const_e(k)
        } else {
            cheap_e(k, lr)
        }
    }
}
/// inp = P (72) | key (72) | klen (1) | salt (24) | slen (1)
fn dataflow<const MAXSALT: usize>(inp: &[u8], mode: u8) -> Option<bool> {
    dataflow_at::<MAXSALT>(inp, mode, 0, 0)
}
/// `fix_slen` / `fix_klen` != 0: that length is a constant (every salt / key read is then at a constant position)
fn dataflow_at<const MAXSALT: usize>(inp: &[u8], mode: u8, fix_slen: usize, fix_klen: usize) -> Option<bool> {
    dataflow_rec::<MAXSALT>(inp, mode, fix_slen, fix_klen, false)
}
/// `record`: recording form of the stand-in (see const_e): the arguments of all 521 calls are compared, plus the final state
fn dataflow_rec<const MAXSALT: usize>(inp: &[u8], mode: u8, fix_slen: usize, fix_klen: usize, record: bool) -> Option<bool> {
    let mut c: Blowfish<BE> = Blowfish::bc_init_state();
    let mut i = 0;
    while i < 18 {
        c.p[i] = take_u32(inp, 4 * i);
        i += 1;
    }
    let key: [u8; 72] = take(inp, 72);
    let klen = if fix_klen != 0 { fix_klen } else { inp[144] as usize };
    let mut salt: [u8; 24] = take(inp, 145);
    let slen = if fix_slen != 0 { fix_slen } else { inp[169] as usize };
    vassume!(1 <= klen && klen <= 72);
    vassume!(1 <= slen && slen <= MAXSALT);
    if mode == ZERO_SALT_VS_PLAIN {
        salt = [0u8; 24];
    }
    let (mut p, mut s) = (c.p, c.s);
    unsafe {
        dfl::N = 0;
        dfl::RECORD = record;
    }
    if mode == PLAIN_VS_PLAIN {
        c.bc_expand_key(&key[..klen]);
    } else {
        c.salted_expand_key(&salt[..slen], &key[..klen]);
    }
    #[cfg(kani)]
    {
        let mut k = 0u32;
        let mut oin = [[0u32; 2]; 521];
        let e = |_p: &[u32; 18], _s: &r::Sboxes, lr: [u32; 2]| {
            let o = if record {
                if (k as usize) < 521 {
                    oin[k as usize] = lr;
                }
                const_e(k)
            } else {
                cheap_e(k, lr)
            };
            k += 1;
            o
        };
        if mode == SALTED_VS_EKS {
            r::eks_expand_key_with(&mut p, &mut s, &salt, slen, &key, klen, e);
        } else {
            r::expand_key_with(&mut p, &mut s, &key, klen, e);
        }
        if record {
            let calls = unsafe { dfl::N };
            vcheck!(calls == 521 && k == 521);
            let lin: [[u32; 2]; 521] = unsafe { dfl::IN };
            let mut dd = 0u32;
            let mut q = 0;
            while q < 521 {
                dd |= (lin[q][0] ^ oin[q][0]) | (lin[q][1] ^ oin[q][1]);
                q += 1;
            }
            vcheck!(dd == 0);
        }
    }
    #[cfg(not(kani))]
    {
        if mode == SALTED_VS_EKS {
            r::eks_expand_key(&mut p, &mut s, &salt, slen, &key, klen);
        } else {
            r::expand_key(&mut p, &mut s, &key, klen);
        }
    }
    let mut d = 0u32;
    i = 0;
    while i < 18 {
        d |= c.p[i] ^ p[i];
        i += 1;
    }
    let cs: [[u32; 256]; 4] = c.s;
    let mut b = 0;
    while b < 4 {
        let mut j = 0;
        while j < 256 {
            d |= cs[b][j] ^ s[b][j];
            j += 1;
        }
        b += 1;
    }
    Some(d == 0)
}
//@ disabled-harness reason=never_finished_below_30_GB name=bc_salted_df prop=C14,C20 tier=thorough bits=1368 stub=1 est=900 mem=30 cbmc_args=--max-field-sensitivity-array-size;1100 desc="data flow of salted_expand_key(salt[..slen], key[..klen]) == eksblowfish ExpandKey: arbitrary P array, all salt and key bytes, slen symbolic 1..=24 (lengths that do not divide 16 and lengths above 16 included), klen symbolic 1..=72 (above 56 included); encrypt replaced on both sides by a state-independent bijective stand-in keyed by the call index; final state (1042 words) equal"
verif_harness! {
    name: bc_salted_df,
    bytes: 170,
    unwind: 540,
    stubs: [(crate::Blowfish::encrypt, stub_encrypt_df)],
    prop: |inp| { dataflow::<24>(&inp[..], SALTED_VS_EKS) }
}
//@ disabled-harness reason=never_finished_below_30_GB name=bc_zero_salt_df prop=C14 tier=thorough bits=1240 stub=1 est=900 mem=30 cbmc_args=--max-field-sensitivity-array-size;1100 desc="data flow: salted_expand_key(zero salt of symbolic length 1..=24, key) == Schneier's unsalted expansion (what bc_expand_key and ordinary keying compute), klen symbolic 1..=72; stand-in for encrypt as in bc_salted_df"
verif_harness! {
    name: bc_zero_salt_df,
    bytes: 170,
    unwind: 540,
    stubs: [(crate::Blowfish::encrypt, stub_encrypt_df)],
    prop: |inp| { dataflow::<24>(&inp[..], ZERO_SALT_VS_PLAIN) }
}
//@ disabled-harness reason=never_finished_below_30_GB name=bc_expand_key_df prop=C14,C20 tier=thorough bits=1176 stub=1 est=900 mem=30 cbmc_args=--max-field-sensitivity-array-size;1100 desc="data flow: bc_expand_key(key[..klen]) == Schneier's key expansion, arbitrary P array, klen symbolic 1..=72; stand-in for encrypt as in bc_salted_df"
verif_harness! {
    name: bc_expand_key_df,
    bytes: 170,
    unwind: 540,
    stubs: [(crate::Blowfish::encrypt, stub_encrypt_df)],
    prop: |inp| { dataflow::<24>(&inp[..], PLAIN_VS_PLAIN) }
}

// fixed lengths (quick tier): every read of salt and key is at a constant position
macro_rules! df_fixed {
    ($name:ident, $mode:expr, $slen:expr, $klen:expr) => {
        verif_harness! {
            name: $name,
            bytes: 170,
            unwind: 540,
            stubs: [(crate::Blowfish::encrypt, stub_encrypt_df)],
            prop: |inp| { dataflow_rec::<24>(&inp[..], $mode, $slen, $klen, $mode == SALTED_VS_EKS) }
        }
    };
}
//@ harness name=bc_salted_df_s12_k72 prop=C14,C20 tier=thorough bits=1248 stub=1 est=120 cbmc_args=--max-field-sensitivity-array-size;1100 mem=30 desc="data flow of salted_expand_key == eksblowfish ExpandKey for a 12-byte salt (does not divide 16: the salt position carries over between the P phase and the S phase) and a 72-byte key (bcrypt's maximum, above Blowfish's 56): arbitrary P array, all salt and key bytes; encrypt replaced on both sides by a recording stand-in (result of call k a constant of k, argument logged): the arguments of all 521 calls and the final state (1042 words) are equal"
df_fixed!(bc_salted_df_s12_k72, SALTED_VS_EKS, 12, 72);
//@ harness name=bc_salted_df_s16_k8 prop=C14,C20 tier=thorough bits=768 stub=1 est=120 cbmc_args=--max-field-sensitivity-array-size;1100 mem=30 desc="data flow of salted_expand_key == eksblowfish ExpandKey for bcrypt's 16-byte salt and an 8-byte key; as bc_salted_df_s12_k72"
df_fixed!(bc_salted_df_s16_k8, SALTED_VS_EKS, 16, 8);
//@ harness name=bc_salted_df_s5_k57 prop=C14,C20 tier=thorough bits=1072 stub=1 est=120 cbmc_args=--max-field-sensitivity-array-size;1100 mem=30 desc="data flow of salted_expand_key == eksblowfish ExpandKey for a 5-byte salt and a 57-byte key (odd lengths: every word straddles the wrap-around); as bc_salted_df_s12_k72"
df_fixed!(bc_salted_df_s5_k57, SALTED_VS_EKS, 5, 57);
//@ harness name=bc_zero_salt_df_s16_k72 prop=C14 tier=thorough bits=1152 stub=1 est=120 cbmc_args=--max-field-sensitivity-array-size;1100 mem=30 desc="data flow: salted_expand_key(16 zero bytes, 72-byte key) == Schneier's unsalted expansion (what bc_expand_key and ordinary keying compute); stand-in for encrypt as above"
df_fixed!(bc_zero_salt_df_s16_k72, ZERO_SALT_VS_PLAIN, 16, 72);
//@ harness name=bc_expand_key_df_k72 prop=C14,C20 tier=thorough bits=1152 stub=1 cbmc_args=--max-field-sensitivity-array-size;1100 est=120 need=6 mem=30 desc="data flow: bc_expand_key(72-byte key) == Schneier's key expansion with the key cycled, arbitrary P array; stand-in for encrypt as above"
df_fixed!(bc_expand_key_df_k72, PLAIN_VS_PLAIN, 16, 72);

// ---- recording form with an inline reference (quick tier) ----------------------------------------------------------
// The stand-in forms above do not observe the key at all (the stubbed encrypt does not read P, and P is overwritten by the
// results), and the oracle's step machine makes the salted queries take 400-900 s.  Here the stub additionally snapshots the
// P array it is first called on, and the expectation is written down directly from the eksblowfish definition:
//   P_i ^= W_key(i)                                   (18 words of the cycled key; observed at the first call of encrypt)
//   arg_0 = (W_salt(0), W_salt(1)),  arg_k = res_{k-1} ^ (W_salt(2k), W_salt(2k+1))          (res_k a constant of k)
//   P_{2i}, P_{2i+1} = res_i (i < 9);  S_b[4j .. 4j+3] = res_{9+128b+2j}, res_{9+128b+2j+1}
// with W_x(i) the big-endian word of the bytes x[(4i + t) mod len], t = 0..3.
pub mod rec {
    pub static mut N: u32 = 0;
    pub static mut P0: [u32; 18] = [0; 18];
    pub static mut IN: [[u32; 2]; 521] = [[0; 2]; 521];
}
pub fn stub_encrypt_rec<T: byteorder::ByteOrder>(this: &Blowfish<T>, lr: [u32; 2]) -> [u32; 2] {
    unsafe {
        let k = rec::N;
        if k == 0 {
            rec::P0 = this.p;
        }
        if (k as usize) < 521 {
            rec::IN[k as usize] = lr;
        }
        rec::N = k + 1;
        const_e(k)
    }
}
fn cyc_word_be(buf: &[u8], len: usize, i: usize) -> u32 {
    let mut w = 0u32;
    let mut t = 0;
    while t < 4 {
        w = (w << 8) | buf[(4 * i + t) % len] as u32;
        t += 1;
    }
    w
}
/// inp = P (72) | key (72) | salt (24); lengths are constants of the harness
fn recorded<const SLEN: usize, const KLEN: usize>(inp: &[u8], salted: bool, zero_salt: bool) -> Option<bool> {
    let mut c: Blowfish<BE> = Blowfish::bc_init_state();
    let mut p0 = [0u32; 18];
    let mut i = 0;
    while i < 18 {
        p0[i] = take_u32(inp, 4 * i);
        c.p[i] = p0[i];
        i += 1;
    }
    let key: [u8; 72] = take(inp, 72);
    let mut salt: [u8; 24] = take(inp, 144);
    if zero_salt || !salted {
        salt = [0u8; 24];
    }
    unsafe {
        rec::N = 0;
    }
    if salted {
        c.salted_expand_key(&salt[..SLEN], &key[..KLEN]);
    } else {
        c.bc_expand_key(&key[..KLEN]);
    }
    #[cfg(kani)]
    {
        let (calls, seen_p, args) = unsafe { (rec::N, rec::P0, rec::IN) };
        vcheck!(calls == 521);
        let mut d = 0u32;
        i = 0;
        while i < 18 {
            d |= seen_p[i] ^ p0[i] ^ cyc_word_be(&key, KLEN, i);
            i += 1;
        }
        let mut k = 0usize;
        while k < 521 {
            let prev = if k == 0 { [0u32, 0u32] } else { const_e(k as u32 - 1) };
            d |= args[k][0] ^ prev[0] ^ cyc_word_be(&salt, SLEN, 2 * k);
            d |= args[k][1] ^ prev[1] ^ cyc_word_be(&salt, SLEN, 2 * k + 1);
            k += 1;
        }
        i = 0;
        while i < 9 {
            let r = const_e(i as u32);
            d |= (c.p[2 * i] ^ r[0]) | (c.p[2 * i + 1] ^ r[1]);
            i += 1;
        }
        let cs: [[u32; 256]; 4] = c.s;
        let mut b = 0;
        while b < 4 {
            let mut j = 0;
            while j < 64 {
                let r0 = const_e((9 + 128 * b + 2 * j) as u32);
                let r1 = const_e((9 + 128 * b + 2 * j + 1) as u32);
                d |= (cs[b][4 * j] ^ r0[0]) | (cs[b][4 * j + 1] ^ r0[1]) | (cs[b][4 * j + 2] ^ r1[0]) | (cs[b][4 * j + 3] ^ r1[1]);
                j += 1;
            }
            b += 1;
        }
        return Some(d == 0);
    }
    #[cfg(not(kani))]
    {
        // native replay: the real encrypt runs (no stub); compare with the oracle's eksblowfish from the same pre-state
        let mut p = p0;
        let mut st = Blowfish::<BE>::bc_init_state().s;
        if salted {
            r::eks_expand_key(&mut p, &mut st, &salt, SLEN, &key, KLEN);
        } else {
            r::expand_key(&mut p, &mut st, &key, KLEN);
        }
        return Some(c.p == p && c.s == st);
    }
}
macro_rules! rec_harness {
    ($name:ident, $slen:expr, $klen:expr, $salted:expr, $zero:expr) => {
        verif_harness! {
            name: $name,
            bytes: 168,
            unwind: 540,
            stubs: [(crate::Blowfish::encrypt, stub_encrypt_rec)],
            prop: |inp| { recorded::<$slen, $klen>(&inp[..], $salted, $zero) }
        }
    };
}
//@ harness name=bc_salted_rec_s12_k72 prop=C14,C20 tier=quick bits=1344 stub=1 cbmc_args=--max-field-sensitivity-array-size;1100 est=515 need=14 desc="salted_expand_key(12-byte salt, 72-byte key) from an arbitrary P array (initial S-boxes): the P array seen by the first encryption is P ^ cycled key (all 18 words, key bytes beyond 56 included), the argument of each of the 521 encryptions is the previous result ^ the next 64 bits of the cycled salt (a salt length that does not divide 16: the position carries over from the P phase into the S phase), results stored in order; encrypt replaced by a recording stand-in, expectation written from the eksblowfish definition; all salt and key bytes"
rec_harness!(bc_salted_rec_s12_k72, 12, 72, true, false);
//@ harness name=bc_salted_rec_s16_k8 prop=C14,C20 tier=quick bits=1344 stub=1 cbmc_args=--max-field-sensitivity-array-size;1100 est=475 need=14 desc="as bc_salted_rec_s12_k72 for bcrypt's 16-byte salt and an 8-byte key"
rec_harness!(bc_salted_rec_s16_k8, 16, 8, true, false);
//@ harness name=bc_salted_rec_s5_k57 prop=C14,C20 tier=thorough bits=1344 stub=1 cbmc_args=--max-field-sensitivity-array-size;1100 est=470 need=14 desc="as bc_salted_rec_s12_k72 for a 5-byte salt and a 57-byte key (every word straddles a wrap-around)"
rec_harness!(bc_salted_rec_s5_k57, 5, 57, true, false);
//@ harness name=bc_zero_salt_rec_k72 prop=C14 tier=quick bits=1152 stub=1 cbmc_args=--max-field-sensitivity-array-size;1100 est=490 need=14 desc="salted_expand_key(16 zero bytes, 72-byte key) behaves as the unsalted expansion (same P ^ key, arguments = previous results, same stores): with bc_expand_key_rec_k72 the zero-salt equivalence"
rec_harness!(bc_zero_salt_rec_k72, 16, 72, true, true);
//@ harness name=bc_expand_key_rec_k72 prop=C14,C20,C09 quick=C09 tier=quick bits=1152 stub=1 cbmc_args=--max-field-sensitivity-array-size;1100 est=170 need=7 desc="bc_expand_key(72-byte key): P ^ cycled key seen by the first encryption, each argument = the previous result, results stored in order (Schneier's expansion with the key cycled); recording stand-in for encrypt"
rec_harness!(bc_expand_key_rec_k72, 16, 72, false, false);
//@ harness name=bc_expand_key_rec_k7 prop=C09,C14,C20 tier=quick bits=1152 stub=1 cbmc_args=--max-field-sensitivity-array-size;1100 est=135 need=7 desc="as bc_expand_key_rec_k72 for a 7-byte key (odd length: every key word straddles the wrap-around; what Blowfish::new_from_slice runs for a 56-bit key)"
rec_harness!(bc_expand_key_rec_k7, 16, 7, false, false);

#![allow(static_mut_refs)]
// bcrypt feature (C14): every public step decided as ONE step from an ARBITRARY pre-state (P, S fully symbolic) against
// the oracle's step (refmodels::blowfish: Schneier expansion / eksblowfish ExpandKey of Provos-Mazieres); induction over
// the steps then covers any sequence of steps such as bcrypt's cost loop.  The expansions use the co-routine stub of
// expand.rs (block encryption uninterpreted per call; see expand.rs for what is compared when); bc_encrypt is direct.
use super::conf::{arb_state, stub_rf, uf_f, STATE};
use super::expand::{co, state_eq, stub_encrypt};
use super::prelude::*;
use crate::Blowfish;
use byteorder::BE;
use refmodels::blowfish as r;

//@ harness name=bc_init_state prop=C14 tier=quick bits=0 est=65 desc="D: Blowfish::bc_init_state() is the pi-digit state (P_INIT, S_INIT) the reference algorithm starts from (no symbolic input: constant tables compared entry by entry)"
verif_harness! {
    name: bc_init_state,
    bytes: 1,
    unwind: 258,
    prop: |inp| {
        let c = Blowfish::bc_init_state();
        let mut ok = true;
        let mut i = 0;
        while i < 18 {
            ok &= c.p[i] == r::P_INIT[i];
            i += 1;
        }
        let mut b = 0;
        while b < 4 {
            i = 0;
            while i < 256 {
                ok &= c.s[b][i] == r::S_INIT[b][i];
                i += 1;
            }
            b += 1;
        }
        Some(ok)
    }
}

//@ harness name=bc_encrypt prop=C14,C20 tier=quick bits=33408 stub=1 est=66 desc="W: bc_encrypt([l, r]) on an arbitrary state == Schneier's Blowfish encryption of the word pair under that state's P and S, all (l, r); round_function uninterpreted and shared with the oracle (leaf lemma bf_round_function, conf.rs)"
verif_harness! {
    name: bc_encrypt,
    bytes: STATE + 8,
    unwind: 258,
    stubs: [(crate::Blowfish::round_function, stub_rf)],
    prop: |inp| {
        let c: Blowfish<BE> = arb_state(inp);
        let lr = [take_u32(inp, STATE), take_u32(inp, STATE + 4)];
        #[cfg(kani)]
        let e = r::encipher_with(&c.p, lr, uf_f::call);
        #[cfg(not(kani))]
        let e = r::encipher(&c.p, &c.s, lr);
        let o = c.bc_encrypt(lr);
        Some(o[0] == e[0] && o[1] == e[1])
    }
}

// which implementation step is run / which oracle machine it is compared with
const PLAIN_VS_PLAIN: u8 = 0; // bc_expand_key(key)                    vs Schneier expansion
const SALTED_VS_EKS: u8 = 1; //  salted_expand_key(salt, key)          vs eksblowfish ExpandKey(state, salt, key)
const ZERO_SALT_VS_PLAIN: u8 = 2; // salted_expand_key(0^slen, key)    vs Schneier expansion

/// `slen16`: the salt has bcrypt's fixed length of 16 bytes (all reads at constant positions); otherwise its length is
/// symbolic in 1..=16 (every salt byte read is a symbolic-index access on both sides: 8336 of them, which needs more
/// than the quick tier's 14 GB during propositional reduction).
fn step(inp: &[u8], mode: u8, slen16: bool) -> Option<bool> {
    let mut c: Blowfish<BE> = arb_state(inp);
    let key: [u8; 72] = take(inp, STATE);
    let klen = inp[STATE + 72] as usize;
    let mut salt: [u8; 16] = take(inp, STATE + 73);
    let slen = if slen16 { 16 } else { inp[STATE + 89] as usize };
    vassume!(1 <= klen && klen <= 72);
    vassume!(1 <= slen && slen <= 16);
    if mode == ZERO_SALT_VS_PLAIN {
        salt = [0u8; 16];
    }
    let (mut p, mut s) = (c.p, c.s);
    #[cfg(kani)]
    unsafe {
        co::ORC = r::Expander::start(&p, &s, &key, klen);
        co::OK = true;
        co::SALTED = mode == SALTED_VS_EKS;
        co::SALT = salt;
        co::SLEN = slen;
    }
    if mode == PLAIN_VS_PLAIN {
        c.bc_expand_key(&key[..klen]);
    } else {
        c.salted_expand_key(&salt[..slen], &key[..klen]);
    }
    #[cfg(kani)]
    return Some(unsafe { co::OK && co::ORC.n == r::CALLS && state_eq(&c) });
    #[cfg(not(kani))]
    {
        if mode == SALTED_VS_EKS {
            r::eks_expand_key(&mut p, &mut s, &salt, slen, &key, klen);
        } else {
            r::expand_key(&mut p, &mut s, &key, klen);
        }
        return Some(c.p == p && c.s == s);
    }
}

//@ harness name=bc_expand_key_w prop=C14,C20 tier=thorough bits=33928 stub=1 est=342 mem=30 desc="W: bc_expand_key(key[..klen]) from an arbitrary pre-state == Schneier's key expansion from that state (= ordinary Blowfish keying when the pre-state is bc_init_state), klen symbolic 1..=72 (only the first 72 bytes of the cycled key are ever used), co-routine stub: arguments, P array and newest stored pair compared at each of the 521 calls, full state at calls 0/9/137/265/393 and at the end"
verif_harness! {
    name: bc_expand_key_w,
    bytes: STATE + 90,
    unwind: 260,
    stubs: [(crate::Blowfish::encrypt, stub_encrypt)],
    prop: |inp| { step(inp, PLAIN_VS_PLAIN, true) }
}

//@ harness name=bc_salted_w prop=C14,C20 tier=thorough bits=34056 stub=1 est=1500 mem=30 desc="W: salted_expand_key(salt, key[..klen]) for a 16-byte salt (bcrypt's salt size) from an arbitrary pre-state == eksblowfish ExpandKey(state, salt, key): P ^= cycled key, then each of the 521 blocks = Enc(previous block ^ next 64 bits of the cycled salt) stored in order; all salt bytes, klen symbolic 1..=72, co-routine stub (checks as bc_expand_key_w)"
verif_harness! {
    name: bc_salted_w,
    bytes: STATE + 90,
    unwind: 260,
    stubs: [(crate::Blowfish::encrypt, stub_encrypt)],
    prop: |inp| { step(inp, SALTED_VS_EKS, true) }
}

//@ harness name=bc_zero_salt_w prop=C14 tier=thorough bits=33920 stub=1 est=1500 mem=30 desc="W: salted_expand_key(16 zero bytes, key) from an arbitrary pre-state == Schneier's (unsalted) expansion == bc_expand_key (by bc_expand_key_w), klen symbolic 1..=72"
verif_harness! {
    name: bc_zero_salt_w,
    bytes: STATE + 90,
    unwind: 260,
    stubs: [(crate::Blowfish::encrypt, stub_encrypt)],
    prop: |inp| { step(inp, ZERO_SALT_VS_PLAIN, true) }
}

//@ harness name=bc_salted_anylen_w prop=C14,C20 tier=thorough bits=34064 stub=1 est=1500 mem=30 desc="W: as bc_salted_w with the salt length symbolic in 1..=16 (salt bytes cycled)"
verif_harness! {
    name: bc_salted_anylen_w,
    bytes: STATE + 90,
    unwind: 260,
    stubs: [(crate::Blowfish::encrypt, stub_encrypt)],
    prop: |inp| { step(inp, SALTED_VS_EKS, false) }
}

//@ harness name=bc_zero_salt_anylen_w prop=C14 tier=thorough bits=33928 stub=1 est=1500 mem=30 desc="W: as bc_zero_salt_w with an all-zero salt of symbolic length 1..=16"
verif_harness! {
    name: bc_zero_salt_anylen_w,
    bytes: STATE + 90,
    unwind: 260,
    stubs: [(crate::Blowfish::encrypt, stub_encrypt)],
    prop: |inp| { step(inp, ZERO_SALT_VS_PLAIN, false) }
}

// C02 / C03 / C12 — AES, ARMv8 Cryptography-Extensions backend (aes/src/armv8*.rs) compiled as shadow variant "aes:armv8"
// (plans/fam_g.py): the public autodetect types Aes{128,192,256}{,Enc,Dec} with the intrinsics arm selected vs FIPS-197
// (oracle refmodels::aes), all keys, all blocks.
//
// W queries.  Shared uninterpreted functions (crate::verif_arch = harness/aes/arm_model.rs):
//   srsb  = ShiftRows o SubBytes       (the unkeyed part of AESE)        mc  = MixColumns     (AESMC)
//   isrsb = InvShiftRows o InvSubBytes (the unkeyed part of AESD)        imc = InvMixColumns  (AESIMC)
//   sb    = byte S-box (SubWord of the key schedule; armv8::expand::sub_word is stubbed by four sb calls, leaf lemma
//           arm_sub_word_leaf)
// Implementation, round i:  s <- mc(srsb(s ^ k_i));  oracle (FIPS-197 5.1):  s <- mc(srsb(s)) ^ k_{i+1} -- the position
// of AddRoundKey differs, the arguments handed to srsb / mc are the same terms, so the shared functions identify them.
// Decided by the solver: the byte/word layout of the expanded key written through the *mut u32 view of [uint8x16_t; N],
// RotWord/Rcon in native-endian columns, the Nk = 4/6/8 schedules incl. the extra SubWord of AES-256, key order and
// AESIMC placement of inv_expanded_keys, round counts (KEYS - 2 full rounds + final), LD1/ST1, union arm selection by the
// CPUID token.
// (never compiled: lets lib/bcv/shadow.py find the cuf1! invocations of the instruction model, which is copied into the
// shadow crate as src/verif_arch.rs and is not a harness file)
#[cfg(any())]
#[path = "/verif/harness/aes/arm_model.rs"]
mod scan_arm_model;
use super::ni_model;
use super::prelude::*;
use crate::verif_arch as va;
use cipher::{BlockCipherDecrypt, BlockCipherEncrypt, KeyInit};
use refmodels::aes as ra;

macro_rules! arm_harness {
    ($name:ident, $bytes:expr, $unwind:expr, |$inp:ident| $body:block) => {
        verif_harness! {
            name: $name,
            bytes: $bytes,
            unwind: $unwind,
            stubs: [
                (core::arch::x86_64::__cpuid, ni_model::m_cpuid),
                (core::arch::x86_64::__cpuid_count, ni_model::m_cpuid_count),
                (core::arch::x86_64::_xgetbv, ni_model::m_xgetbv),
                (crate::armv8::expand::sub_word, crate::verif_arch::stub_sub_word)
            ],
            prop: |$inp| $body
        }
    };
}

macro_rules! arm_conf_enc {
    ($name:ident, $ty:ty, $klen:expr) => {
        arm_harness!($name, $klen + 16, 70, |inp| {
            ni_model::set_cpu(true);
            let key: [u8; $klen] = take(inp, 0);
            let blk: [u8; 16] = take(inp, $klen);
            let c = <$ty>::new(&key.into());
            let mut b = blk.into();
            c.encrypt_block(&mut b);
            Some(b.0 == va::oracle_enc(&key, &blk))
        });
    };
}
macro_rules! arm_conf_dec {
    ($name:ident, $ty:ty, $klen:expr) => {
        arm_harness!($name, $klen + 16, 70, |inp| {
            ni_model::set_cpu(true);
            let key: [u8; $klen] = take(inp, 0);
            let blk: [u8; 16] = take(inp, $klen);
            let c = <$ty>::new(&key.into());
            let mut b = blk.into();
            c.decrypt_block(&mut b);
            Some(b.0 == va::oracle_dec(&key, &blk))
        });
    };
}

//@ harness name=aes128_arm_enc prop=C02,C03 tier=quick bits=256 stub=1 variants=aes:armv8 est=25 desc="W: Aes128::new(key).encrypt_block(b) (autodetect -> ARMv8 arm: expand_key + AESE/AESMC rounds of the instruction model) == FIPS-197 KeyExpansion + Cipher; all 2^128 keys x 2^128 blocks; srsb, mc and the key-schedule S-box uninterpreted, shared with the oracle"
arm_conf_enc!(aes128_arm_enc, crate::Aes128, 16);
//@ harness name=aes128_arm_dec prop=C02,C03 tier=quick bits=256 stub=1 variants=aes:armv8 est=35 desc="W: Aes128::new(key).decrypt_block(b) (ARMv8 arm: inv_expanded_keys via AESIMC + AESD/AESIMC rounds) == FIPS-197 5.3.5 EqInvCipher; all keys and blocks"
arm_conf_dec!(aes128_arm_dec, crate::Aes128, 16);
//@ harness name=aes192_arm_enc prop=C02,C03 tier=quick bits=320 stub=1 variants=aes:armv8 est=30 desc="W: Aes192 encrypt (ARMv8 arm, Nk = 6 schedule, 12 rounds) == FIPS-197; all keys and blocks"
arm_conf_enc!(aes192_arm_enc, crate::Aes192, 24);
//@ harness name=aes192_arm_dec prop=C02,C03 tier=quick bits=320 stub=1 variants=aes:armv8 est=40 desc="W: Aes192 decrypt (ARMv8 arm) == FIPS-197 EqInvCipher; all keys and blocks"
arm_conf_dec!(aes192_arm_dec, crate::Aes192, 24);
//@ harness name=aes256_arm_enc prop=C02,C03 tier=quick bits=384 stub=1 variants=aes:armv8 est=35 desc="W: Aes256 encrypt (ARMv8 arm, Nk = 8 schedule with the extra SubWord, 14 rounds) == FIPS-197; all keys and blocks"
arm_conf_enc!(aes256_arm_enc, crate::Aes256, 32);
//@ harness name=aes256_arm_dec prop=C02,C03 tier=quick bits=384 stub=1 variants=aes:armv8 est=55 desc="W: Aes256 decrypt (ARMv8 arm) == FIPS-197 EqInvCipher; all keys and blocks"
arm_conf_dec!(aes256_arm_dec, crate::Aes256, 32);

//@ harness name=aes128enc_arm prop=C02,C12 tier=quick bits=256 stub=1 variants=aes:armv8 est=25 desc="W: Aes128Enc::new(key).encrypt_block == FIPS-197 Cipher (encrypt-only type, own constructor), ARMv8 arm; all keys and blocks"
arm_conf_enc!(aes128enc_arm, crate::Aes128Enc, 16);
//@ harness name=aes128dec_arm prop=C02,C12 tier=quick bits=256 stub=1 variants=aes:armv8 est=40 desc="W: Aes128Dec::new(key).decrypt_block == FIPS-197 EqInvCipher (decrypt-only type, own constructor), ARMv8 arm; all keys and blocks"
arm_conf_dec!(aes128dec_arm, crate::Aes128Dec, 16);
//@ harness name=aes192enc_arm prop=C02,C12 tier=quick bits=320 stub=1 variants=aes:armv8 est=30 desc="W: Aes192Enc encrypt == FIPS-197, ARMv8 arm; all keys and blocks"
arm_conf_enc!(aes192enc_arm, crate::Aes192Enc, 24);
//@ harness name=aes192dec_arm prop=C02,C12 tier=quick bits=320 stub=1 variants=aes:armv8 est=40 desc="W: Aes192Dec decrypt == FIPS-197 EqInvCipher, ARMv8 arm; all keys and blocks"
arm_conf_dec!(aes192dec_arm, crate::Aes192Dec, 24);
//@ harness name=aes256enc_arm prop=C02,C12 tier=quick bits=384 stub=1 variants=aes:armv8 est=35 desc="W: Aes256Enc encrypt == FIPS-197, ARMv8 arm; all keys and blocks"
arm_conf_enc!(aes256enc_arm, crate::Aes256Enc, 32);
//@ harness name=aes256dec_arm prop=C02,C12 tier=quick bits=384 stub=1 variants=aes:armv8 est=55 desc="W: Aes256Dec decrypt == FIPS-197 EqInvCipher, ARMv8 arm; all keys and blocks"
arm_conf_dec!(aes256dec_arm, crate::Aes256Dec, 32);

// ---- leaf lemmas (concrete instruction semantics, nothing abstracted, nothing stubbed)
//@ harness name=arm_sub_word_leaf prop=C02 tier=quick bits=32 variants=aes:armv8 est=10 desc="L: the real armv8::expand::sub_word(w) (DUP.4S, AESE with an all-zero key, UMOV lane 0; concrete AESE = ShiftRows(SubBytes(x ^ k))) equals the FIPS-197 S-box applied to each of the four bytes of w, for all 2^32 words -- the function that replaces it in the W queries"
verif_harness! {
    name: arm_sub_word_leaf,
    bytes: 4,
    unwind: 20,
    prop: |inp| {
        va::set_concrete(true);
        let w = take_u32(inp, 0);
        let got = unsafe { crate::armv8::expand::sub_word(w) };
        let b = w.to_le_bytes();
        vcheck!(got == u32::from_le_bytes([ra::sbox(b[0]), ra::sbox(b[1]), ra::sbox(b[2]), ra::sbox(b[3])]));
        // and the replacement itself, evaluated concretely, is that same function (it is also what the oracle's big-endian
        // SubWord computes on the byte-swapped word)
        vcheck!(got == unsafe { va::stub_sub_word(w) });
        Some(ra::sub_word(w.swap_bytes()) == got.swap_bytes())
    }
}

// Model lemmas: the Arm ARM writes AESE as AESSubBytes(AESShiftRows(d EOR k)) and AESD as AESInvSubBytes(AESInvShiftRows(
// d EOR k)); the model's concrete meaning is the oracle's last_core / inv_last_core (the opposite order).  Through the
// intrinsic entry points (LD1, AESE/AESD, ST1) both orders agree.  (AESMC / AESIMC are by definition the oracle's MixColumns /
// InvMixColumns; that these are mutually inverse and that InvMixColumns is linear is c02_ni::fips_eqinv_lemmas.)
macro_rules! arm_order {
    ($name:ident, $insn:ident, $shift:path, $sb:path) => {
        verif_harness! {
            name: $name,
            bytes: 32,
            unwind: 20,
            prop: |inp| {
                use crate::verif_arch::aarch64::*;
                va::set_concrete(true);
                let d: [u8; 16] = take(inp, 0);
                let k: [u8; 16] = take(inp, 16);
                let mut out = [0u8; 16];
                unsafe { vst1q_u8(out.as_mut_ptr(), $insn(vld1q_u8(d.as_ptr()), vld1q_u8(k.as_ptr()))) };
                Some(out == ra::sub_bytes_with(&$shift(&ra::xor(&d, &k)), &$sb))
            }
        }
    };
}
//@ harness name=arm_aese_order prop=C02,C17 tier=quick bits=256 variants=aes:armv8 est=10 desc="model lemma: vaeseq_u8(d, k) of the concrete instruction model, loaded and stored through vld1q_u8/vst1q_u8, equals the Arm-ARM definition SubBytes(ShiftRows(d ^ k)) with the FIPS-197 S-box and ShiftRows of the oracle; all 128-bit d, k"
arm_order!(arm_aese_order, vaeseq_u8, ra::shift_rows, ra::sbox);
//@ harness name=arm_aesd_order prop=C02,C17 tier=quick bits=256 variants=aes:armv8 est=10 desc="model lemma: vaesdq_u8(d, k) of the concrete instruction model equals the Arm-ARM definition InvSubBytes(InvShiftRows(d ^ k)); all 128-bit d, k"
arm_order!(arm_aesd_order, vaesdq_u8, ra::inv_shift_rows, ra::inv_sbox);

// AES on the x86 build, cross-cutting properties of the autodetect types (C04, C12, C15, C16, C19, C20).
// Same abstraction as c02_ni.rs: intrinsic round bodies and the key-schedule S-box are uninterpreted functions shared
// with the FIPS-197 oracle; everything else (union arm selection by the CPUID token, From/Clone, 9-wide batches,
// load/store, Drop) is the real code.
use super::generic;
use super::ni_model::{self, *};
use super::prelude::*;
use cipher::{Block, BlockCipherDecrypt, BlockCipherEncrypt, KeyInit};
use refmodels::aes as ra;

macro_rules! ni_harness {
    ($name:ident, $bytes:expr, $unwind:expr, |$inp:ident| $body:block) => {
        verif_harness! {
            name: $name,
            bytes: $bytes,
            unwind: $unwind,
            stubs: [
                (core::arch::x86_64::__cpuid, ni_model::m_cpuid),
                (core::arch::x86_64::__cpuid_count, ni_model::m_cpuid_count),
                (core::arch::x86_64::_xgetbv, ni_model::m_xgetbv),
                (core::arch::x86_64::_mm_aesenc_si128, ni_model::m_aesenc),
                (core::arch::x86_64::_mm_aesenclast_si128, ni_model::m_aesenclast),
                (core::arch::x86_64::_mm_aesdec_si128, ni_model::m_aesdec),
                (core::arch::x86_64::_mm_aesdeclast_si128, ni_model::m_aesdeclast),
                (core::arch::x86_64::_mm_aesimc_si128, ni_model::m_aesimc),
                (core::arch::x86_64::_mm_aeskeygenassist_si128, ni_model::m_aeskeygenassist)
            ],
            prop: |$inp| $body
        }
    };
}
fn oracle_enc(key: &[u8], nk: usize, blk: &[u8; 16]) -> [u8; 16] {
    let rk = ra::key_expansion_with(key, nk, o_subword);
    ra::cipher_with(&rk, nk + 6, blk, o_enc, o_last)
}
fn oracle_dec(key: &[u8], nk: usize, blk: &[u8; 16]) -> [u8; 16] {
    let rk = ra::key_expansion_with(key, nk, o_subword);
    let dw = ra::eq_inv_keys_with(&rk, nk + 6, o_imc);
    ra::eq_inv_cipher_with(&dw, nk + 6, blk, o_dec, o_declast)
}
fn enc_ok<C: BlockCipherEncrypt<BlockSize = cipher::consts::U16>>(c: &C, key: &[u8], blk: &[u8; 16]) -> bool {
    let mut b: cipher::array::Array<u8, cipher::consts::U16> = (*blk).into();
    c.encrypt_block(&mut b);
    b.0 == oracle_enc(key, key.len() / 4, blk)
}
fn dec_ok<C: BlockCipherDecrypt<BlockSize = cipher::consts::U16>>(c: &C, key: &[u8], blk: &[u8; 16]) -> bool {
    let mut b: cipher::array::Array<u8, cipher::consts::U16> = (*blk).into();
    c.decrypt_block(&mut b);
    b.0 == oracle_dec(key, key.len() / 4, blk)
}

// ------------------------------------------------------------------ C12: conversions and clones (AES-NI arm)
macro_rules! conv_set {
    ($pfx_val:ident, $pfx_ref:ident, $pfx_dec:ident, $pfx_clone:ident, $comb:ty, $enc:ty, $dec:ty, $klen:expr) => {
        ni_harness!($pfx_val, $klen + 16, 70, |inp| {
            ni_model::set_cpu(true);
            let key: [u8; $klen] = take(inp, 0);
            let blk: [u8; 16] = take(inp, $klen);
            let c = <$comb>::from(<$enc>::new(&key.into()));
            vcheck!(enc_ok(&c, &key, &blk));
            Some(dec_ok(&c, &key, &blk))
        });
        ni_harness!($pfx_ref, $klen + 16, 70, |inp| {
            ni_model::set_cpu(true);
            let key: [u8; $klen] = take(inp, 0);
            let blk: [u8; 16] = take(inp, $klen);
            let e = <$enc>::new(&key.into());
            let c = <$comb>::from(&e);
            vcheck!(enc_ok(&c, &key, &blk));
            vcheck!(dec_ok(&c, &key, &blk));
            // the source instance is still usable and unchanged in function
            Some(enc_ok(&e, &key, &blk))
        });
        ni_harness!($pfx_dec, $klen + 16, 70, |inp| {
            ni_model::set_cpu(true);
            let key: [u8; $klen] = take(inp, 0);
            let blk: [u8; 16] = take(inp, $klen);
            let e = <$enc>::new(&key.into());
            let d1 = <$dec>::from(&e);
            vcheck!(dec_ok(&d1, &key, &blk));
            let d2 = <$dec>::from(e);
            Some(dec_ok(&d2, &key, &blk))
        });
        ni_harness!($pfx_clone, $klen + 16, 70, |inp| {
            ni_model::set_cpu(true);
            let key: [u8; $klen] = take(inp, 0);
            let blk: [u8; 16] = take(inp, $klen);
            // clone of a converted instance, clone of a fresh combined instance, clones of the halves
            let c = <$comb>::from(&<$enc>::new(&key.into())).clone();
            vcheck!(enc_ok(&c, &key, &blk));
            vcheck!(dec_ok(&c, &key, &blk));
            let e = <$enc>::new(&key.into()).clone();
            vcheck!(enc_ok(&e, &key, &blk));
            let d = <$dec>::new(&key.into()).clone();
            Some(dec_ok(&d, &key, &blk))
        });
    };
}
//@ harness name=aes128_from_enc_val prop=C12 tier=quick bits=256 stub=1 variants=aes:ni est=120 desc="Aes128::from(Aes128Enc::new(k)) (by value) encrypts and decrypts as FIPS-197 for all keys and blocks (inverse keys derived from the encryption keys), AES-NI arm"
//@ harness name=aes128_from_enc_ref prop=C12 tier=quick bits=256 stub=1 variants=aes:ni est=150 desc="Aes128::from(&enc) encrypts/decrypts as FIPS-197 and leaves enc working; all keys and blocks"
//@ harness name=aes128_dec_from_enc prop=C12 tier=quick bits=256 stub=1 variants=aes:ni est=155 desc="Aes128Dec::from(&enc) and Aes128Dec::from(enc) decrypt as FIPS-197; all keys and blocks"
//@ harness name=aes128_clones prop=C12 tier=thorough bits=256 stub=1 est=700 variants=aes:ni desc="clone of a converted Aes128, clone of Aes128Enc, clone of Aes128Dec compute FIPS-197 (hand-written Clone over the union arm selected by the token); all keys and blocks"
conv_set!(aes128_from_enc_val, aes128_from_enc_ref, aes128_dec_from_enc, aes128_clones, crate::Aes128, crate::Aes128Enc, crate::Aes128Dec, 16);
//@ harness name=aes192_from_enc_val prop=C12 tier=thorough bits=320 stub=1 est=500 variants=aes:ni desc="Aes192::from(Aes192Enc) conforms, all keys and blocks"
//@ harness name=aes192_from_enc_ref prop=C12 tier=thorough bits=320 stub=1 est=600 variants=aes:ni desc="Aes192::from(&enc) conforms, all keys and blocks"
//@ harness name=aes192_dec_from_enc prop=C12 tier=thorough bits=320 stub=1 est=500 variants=aes:ni desc="Aes192Dec::from(enc / &enc) conforms"
//@ harness name=aes192_clones prop=C12 tier=thorough bits=320 stub=1 est=900 variants=aes:ni desc="clones of Aes192 / Aes192Enc / Aes192Dec conform"
conv_set!(aes192_from_enc_val, aes192_from_enc_ref, aes192_dec_from_enc, aes192_clones, crate::Aes192, crate::Aes192Enc, crate::Aes192Dec, 24);
//@ harness name=aes256_from_enc_val prop=C12 tier=thorough bits=384 stub=1 est=500 variants=aes:ni desc="Aes256::from(Aes256Enc) conforms, all keys and blocks"
//@ harness name=aes256_from_enc_ref prop=C12 tier=thorough bits=384 stub=1 est=600 variants=aes:ni desc="Aes256::from(&enc) conforms, all keys and blocks"
//@ harness name=aes256_dec_from_enc prop=C12 tier=thorough bits=384 stub=1 est=500 variants=aes:ni desc="Aes256Dec::from(enc / &enc) conforms"
//@ harness name=aes256_clones prop=C12 tier=thorough bits=384 stub=1 est=900 variants=aes:ni desc="clones of Aes256 / Aes256Enc / Aes256Dec conform"
conv_set!(aes256_from_enc_val, aes256_from_enc_ref, aes256_dec_from_enc, aes256_clones, crate::Aes256, crate::Aes256Enc, crate::Aes256Dec, 32);

// ------------------------------------------------------------------ C04: the 9-wide AES-NI batch path
// Instance: arbitrary state built in place (arbitrary round keys in both arrays; no key expansion in the query), after a
// first construction from a constant key has run CPU detection (CPUID reports AES-NI) and filled the process-wide cache.
// n blocks, n a constant per harness; the block index under test i is SYMBOLIC: output block i of the multi-block call
// equals the single-block call on input block i (one reference computation: the pairwise consistency constraints of the
// uninterpreted round body grow with the square of the number of applications, so the reference is computed for block i
// only, not for all n, and the round bodies are two-phase uninterpreted functions: uf.rs uf1ab!).  In-place variant: blocks carved out of a byte buffer at a symbolic offset 0..=15 with guard
// bytes before and after.  b2b variant: separate input unchanged.
macro_rules! ni_ab_harness {
    ($name:ident, $bytes:expr, $unwind:expr, |$inp:ident| $body:block) => {
        verif_harness! {
            name: $name,
            bytes: $bytes,
            unwind: $unwind,
            stubs: [
                (core::arch::x86_64::__cpuid, ni_model::m_cpuid),
                (core::arch::x86_64::__cpuid_count, ni_model::m_cpuid_count),
                (core::arch::x86_64::_xgetbv, ni_model::m_xgetbv),
                (core::arch::x86_64::_mm_aesenc_si128, ni_model::mab_aesenc),
                (core::arch::x86_64::_mm_aesenclast_si128, ni_model::mab_aesenclast),
                (core::arch::x86_64::_mm_aesdec_si128, ni_model::mab_aesdec),
                (core::arch::x86_64::_mm_aesdeclast_si128, ni_model::mab_aesdeclast),
                (core::arch::x86_64::_mm_aesimc_si128, ni_model::m_aesimc),
                (core::arch::x86_64::_mm_aeskeygenassist_si128, ni_model::m_aeskeygenassist)
            ],
            prop: |$inp| $body
        }
    };
}
macro_rules! ni_batch {
    ($name:ident, $ty:ty, $n:expr, $dec:expr, $b2b:expr) => {
        ni_ab_harness!($name, core::mem::size_of::<$ty>() + 16 * $n + 2, 700, |inp| {
            ni_model::set_cpu(true);
            const N: usize = $n;
            const S: usize = core::mem::size_of::<$ty>();
            let _detect = <$ty>::new(&Default::default());
            let mut a = core::mem::MaybeUninit::<$ty>::uninit();
            generic::fill(&mut a, &inp[..S]);
            let c = generic::as_ref(&a);
            let i = inp[S + 16 * N] as usize;
            vassume!(i < N);
            let off = (inp[S + 16 * N + 1] & 15) as usize;
            // reference: single-block call on block i
            // block i selected branch-free (a symbolic index into the 1 kB input array would put the whole array into the
            // array theory)
            let mut xi = [0u8; 16];
            let mut j = 0;
            while j < N {
                let m = 0u8.wrapping_sub((j == i) as u8);
                let xj: [u8; 16] = take(inp, S + 16 * j);
                let mut k = 0;
                while k < 16 {
                    xi[k] |= xj[k] & m;
                    k += 1;
                }
                j += 1;
            }
            let mut rb: Block<$ty> = xi.into();
            if $dec { c.decrypt_block(&mut rb) } else { c.encrypt_block(&mut rb) };
            let r = rb.0;
            // the reference's round-body applications are logged (phase A); from here on every application is constrained
            // against that log only (phase B)
            ni_model::ab_phase_b();
            let mut ok = true;
            if !$b2b {
                // in-place batch inside a larger buffer at offset `off`, 0xC3 guards around
                let mut buf = [0xC3u8; 16 * N + 32];
                let mut j = 0;
                while j < 16 * N {
                    buf[off + j] = inp[S + j];
                    j += 1;
                }
                {
                    let blocks: &mut [Block<$ty>] = unsafe { core::slice::from_raw_parts_mut(buf.as_mut_ptr().add(off) as *mut Block<$ty>, N) };
                    if $dec { c.decrypt_blocks(blocks) } else { c.encrypt_blocks(blocks) };
                }
                j = 0;
                while j < 16 * N + 32 {
                    if j < off || j >= off + 16 * N {
                        ok &= buf[j] == 0xC3;
                    }
                    j += 1;
                }
                // output block i == reference (selected branch-free over the lanes; `off` stays a symbolic index)
                let mut lane = 0;
                while lane < N {
                    let sel = lane == i;
                    j = 0;
                    while j < 16 {
                        ok &= !sel | (buf[off + 16 * lane + j] == r[j]);
                        j += 1;
                    }
                    lane += 1;
                }
            } else {
                // b2b batch: separate input unchanged, output block i as per block, nothing else to write
                let mut ins: [Block<$ty>; N] = [[0u8; 16].into(); N];
                let mut outs: [Block<$ty>; N] = [[0xA5u8; 16].into(); N];
                let mut j = 0;
                while j < N {
                    ins[j] = take::<16>(inp, S + 16 * j).into();
                    j += 1;
                }
                let res = if $dec { c.decrypt_blocks_b2b(&ins, &mut outs).is_ok() } else { c.encrypt_blocks_b2b(&ins, &mut outs).is_ok() };
                ok &= res;
                j = 0;
                while j < N {
                    ok &= ins[j].0 == take::<16>(inp, S + 16 * j);
                    j += 1;
                }
                j = 0;
                while j < N {
                    ok &= (j != i) | (outs[j].0 == r);
                    j += 1;
                }
            }
            Some(ok)
        });
    };
}
//@ harness name=aes128_ni_batch10_enc prop=C04,C20 tier=thorough bits=7072 stub=1 est=300 variants=aes:ni desc="Aes128 (AES-NI arm, arbitrary round keys) encrypt_blocks in place on 10 blocks (one full 9-wide batch + a tail of 1) at a symbolic buffer offset 0..15: output block i (i symbolic) equals the single-block call on block i; guard bytes unchanged; all states and contents"
ni_batch!(aes128_ni_batch10_enc, crate::Aes128, 10, false, false);
//@ harness name=aes128_ni_batch10_enc_b2b prop=C04,C20 tier=quick bits=7072 stub=1 variants=aes:ni est=285 need=6 desc="Aes128 (AES-NI arm) encrypt_blocks_b2b on 10 blocks: output block i (i symbolic) equals the single-block call; separate input unchanged"
ni_batch!(aes128_ni_batch10_enc_b2b, crate::Aes128, 10, false, true);
//@ harness name=aes128_ni_batch10_dec prop=C04,C20 tier=thorough bits=7072 stub=1 est=300 variants=aes:ni desc="Aes128 (AES-NI arm) decrypt_blocks in place on 10 blocks (9-wide batch + tail), symbolic offset: output block i equals the single-block call; guards unchanged"
ni_batch!(aes128_ni_batch10_dec, crate::Aes128, 10, true, false);
//@ harness name=aes128_ni_batch10_dec_b2b prop=C04,C20 tier=quick bits=7072 stub=1 variants=aes:ni est=285 need=6 desc="Aes128 (AES-NI arm) decrypt_blocks_b2b on 10 blocks: output block i equals the single-block call; separate input unchanged"
ni_batch!(aes128_ni_batch10_dec_b2b, crate::Aes128, 10, true, true);
//@ harness name=aes128_ni_batch9_enc prop=C04 tier=thorough bits=6944 stub=1 est=300 variants=aes:ni desc="as batch10, n = 9 (exactly the parallel width), in place"
ni_batch!(aes128_ni_batch9_enc, crate::Aes128, 9, false, false);
//@ harness name=aes128_ni_batch8_enc_b2b prop=C04 tier=thorough bits=6816 stub=1 est=300 variants=aes:ni desc="as batch10, n = 8 (fewer than the parallel width: tail path only), b2b"
ni_batch!(aes128_ni_batch8_enc_b2b, crate::Aes128, 8, false, true);
//@ harness name=aes128_ni_batch19_dec_b2b prop=C04 tier=thorough bits=8224 stub=1 est=1500 mem=30 variants=aes:ni desc="as batch10, n = 19 = 2W+1 (two full batches + tail), decrypt, b2b"
ni_batch!(aes128_ni_batch19_dec_b2b, crate::Aes128, 19, true, true);
//@ harness name=aes256_ni_batch10_dec_b2b prop=C04 tier=thorough bits=9120 stub=1 est=600 mem=30 variants=aes:ni desc="Aes256 (15 round keys) decrypt_blocks_b2b on 10 blocks: output block i equals the single-block call; input unchanged"
ni_batch!(aes256_ni_batch10_dec_b2b, crate::Aes256, 10, true, true);

// ------------------------------------------------------------------ C15: history independence incl. first-use detection
//@ harness name=aes128_history prop=C15 tier=thorough bits=896 stub=1 variants=aes:ni est=210 need=4 desc="sequential history on the autodetect types (CPUID reports AES-NI): a=new(k1) [first use triggers detection and fills the process-wide cache]; b=new(k2); a.enc(x); b.dec(y); clone(a).dec(z); then a fresh c=new(k1): a.enc(w) == c.enc(w), and b.dec(y) again gives the same result; all keys/blocks; threads = 1"
ni_harness!(aes128_history, 16 + 16 + 16 * 5 + 1, 70, |inp| {
    ni_model::set_cpu(true);
    let k1: [u8; 16] = take(inp, 0);
    let k2: [u8; 16] = take(inp, 16);
    let x: [u8; 16] = take(inp, 32);
    let y: [u8; 16] = take(inp, 48);
    let z: [u8; 16] = take(inp, 64);
    let w: [u8; 16] = take(inp, 80);
    let a = crate::Aes128::new(&k1.into());
    let b = crate::Aes128::new(&k2.into());
    let mut t: Block<crate::Aes128> = x.into();
    a.encrypt_block(&mut t);
    let mut y1: Block<crate::Aes128> = y.into();
    b.decrypt_block(&mut y1);
    let a2 = a.clone();
    let mut t2: Block<crate::Aes128> = z.into();
    a2.decrypt_block(&mut t2);
    let c = crate::Aes128::new(&k1.into());
    let mut wa: Block<crate::Aes128> = w.into();
    let mut wc: Block<crate::Aes128> = w.into();
    a.encrypt_block(&mut wa);
    c.encrypt_block(&mut wc);
    vcheck!(wa == wc);
    let mut y2: Block<crate::Aes128> = y.into();
    b.decrypt_block(&mut y2);
    Some(y1 == y2)
});

// ------------------------------------------------------------------ C19 on the autodetect types
// (C16 for these types lives in auto_inner.rs, an inner module of crate::autodetect that can run CPU detection directly)

//@ harness name=aes128_debug prop=C19 tier=quick bits=5632 variants=aes:ni est=15 desc="Debug of an arbitrary-state Aes128 equals Debug of the zero instance and starts with Aes128"
g_debug!(aes128_debug, crate::Aes128, "Aes128", generic::always);
//@ harness name=aes128enc_debug prop=C19 tier=quick bits=5632 variants=aes:ni est=15 desc="Debug of Aes128Enc is key independent and names the type"
g_debug!(aes128enc_debug, crate::Aes128Enc, "Aes128Enc", generic::always);
//@ harness name=aes128dec_debug prop=C19 tier=quick bits=5632 variants=aes:ni est=15 desc="Debug of Aes128Dec is key independent and names the type"
g_debug!(aes128dec_debug, crate::Aes128Dec, "Aes128Dec", generic::always);
//@ harness name=aes192_debug prop=C19 tier=quick bits=6656 variants=aes:ni est=10 desc="Debug of Aes192 is key independent and names the type"
g_debug!(aes192_debug, crate::Aes192, "Aes192", generic::always);
//@ harness name=aes192enc_debug prop=C19 tier=quick bits=6656 variants=aes:ni est=10 desc="Debug of Aes192Enc is key independent and names the type"
g_debug!(aes192enc_debug, crate::Aes192Enc, "Aes192Enc", generic::always);
//@ harness name=aes192dec_debug prop=C19 tier=quick bits=6656 variants=aes:ni est=10 desc="Debug of Aes192Dec is key independent and names the type"
g_debug!(aes192dec_debug, crate::Aes192Dec, "Aes192Dec", generic::always);
//@ harness name=aes256_debug prop=C19 tier=quick bits=7680 variants=aes:ni est=10 desc="Debug of Aes256 is key independent and names the type"
g_debug!(aes256_debug, crate::Aes256, "Aes256", generic::always);
//@ harness name=aes256enc_debug prop=C19 tier=quick bits=7680 variants=aes:ni est=15 desc="Debug of Aes256Enc is key independent and names the type"
g_debug!(aes256enc_debug, crate::Aes256Enc, "Aes256Enc", generic::always);
//@ harness name=aes256dec_debug prop=C19 tier=quick bits=7680 variants=aes:ni est=15 desc="Debug of Aes256Dec is key independent and names the type"
g_debug!(aes256dec_debug, crate::Aes256Dec, "Aes256Dec", generic::always);
//@ harness name=aes128_algname prop=C19 tier=quick bits=0 variants=aes:ni est=15 desc="AlgorithmName of Aes128 names AES and the key size"
g_algname!(aes128_algname, crate::Aes128, ["aes", "128"]);
//@ harness name=aes192_algname prop=C19 tier=quick bits=0 variants=aes:ni est=15 desc="AlgorithmName of Aes192 names AES and the key size"
g_algname!(aes192_algname, crate::Aes192, ["aes", "192"]);
//@ harness name=aes256_algname prop=C19 tier=quick bits=0 variants=aes:ni est=15 desc="AlgorithmName of Aes256 names AES and the key size"
g_algname!(aes256_algname, crate::Aes256, ["aes", "256"]);
//@ harness name=aes128enc_algname prop=C19 tier=quick bits=0 variants=aes:ni est=15 desc="AlgorithmName of Aes128Enc names AES and the key size"
g_algname!(aes128enc_algname, crate::Aes128Enc, ["aes", "128"]);
//@ harness name=aes256dec_algname prop=C19 tier=quick bits=0 variants=aes:ni est=15 desc="AlgorithmName of Aes256Dec names AES and the key size"
g_algname!(aes256dec_algname, crate::Aes256Dec, ["aes", "256"]);

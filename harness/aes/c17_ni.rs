// C17 — the public aes::hazmat dispatchers (x86 build, hazmat feature) vs the FIPS-197 round transformations.
// CPUID is symbolic where stated, so one query covers the intrinsics arm (concrete Intel-SDM models of AESENC / AESDEC /
// AESIMC) and the fixsliced software arm (real code, nothing abstracted).
use super::ni_model::{self, *};
use super::prelude::*;
use crate::hazmat;
use refmodels::aes as ra;

macro_rules! hz_harness {
    ($name:ident, $bytes:expr, $unwind:expr, |$inp:ident| $body:block) => {
        verif_harness! {
            name: $name,
            bytes: $bytes,
            unwind: $unwind,
            stubs: [
                (core::arch::x86_64::__cpuid, ni_model::m_cpuid),
                (core::arch::x86_64::__cpuid_count, ni_model::m_cpuid_count),
                (core::arch::x86_64::_xgetbv, ni_model::m_xgetbv),
                (core::arch::x86_64::_mm_aesenc_si128, ni_model::c_aesenc),
                (core::arch::x86_64::_mm_aesdec_si128, ni_model::c_aesdec),
                (core::arch::x86_64::_mm_aesimc_si128, ni_model::c_aesimc)
            ],
            prop: |$inp| $body
        }
    };
}

//@ harness name=hz_cipher_round prop=C17,C03 tier=quick bits=257 stub=1 variants=aes:ni+hazmat est=60 desc="hazmat::cipher_round(block, key) == MixColumns(ShiftRows(SubBytes(block))) ^ key for all 2^128 blocks x 2^128 keys, on either dispatch arm (CPUID symbolic: AES-NI model or fixslice64 software)"
hz_harness!(hz_cipher_round, 33, 40, |inp| {
    ni_model::set_cpu(inp[32] & 1 == 1);
    let blk: [u8; 16] = take(inp, 0);
    let key: [u8; 16] = take(inp, 16);
    let mut b = blk.into();
    hazmat::cipher_round(&mut b, &key.into());
    Some(b.0 == ra::xor(&ra::round_core(&blk), &key))
});

//@ harness name=hz_equiv_inv_cipher_round prop=C17,C03 tier=quick bits=257 stub=1 variants=aes:ni+hazmat est=275 desc="hazmat::equiv_inv_cipher_round(block, key) == InvMixColumns(InvShiftRows(InvSubBytes(block))) ^ key, all blocks and keys, either dispatch arm"
hz_harness!(hz_equiv_inv_cipher_round, 33, 40, |inp| {
    ni_model::set_cpu(inp[32] & 1 == 1);
    let blk: [u8; 16] = take(inp, 0);
    let key: [u8; 16] = take(inp, 16);
    let mut b = blk.into();
    hazmat::equiv_inv_cipher_round(&mut b, &key.into());
    Some(b.0 == ra::xor(&ra::inv_round_core(&blk), &key))
});

// mix_columns / inv_mix_columns, intrinsics arm (the NI arm computes MixColumns as AESDECLAST then AESENC with zero keys, and
// InvMixColumns as AESIMC).  The software arm of the same dispatcher lines is decided on the aes_force_soft builds by
// soft_hazmat.rs (a symbolic CPUID here would put the fixsliced column mix next to the byte oracle in one query: a
// wide-parity equivalence that does not finish); the dispatch itself is exercised with CPUID symbolic by the two round
// harnesses above.  "Mutual inverses" follows from the oracle lemma soft_hazmat::hz_mix_inverse (additivity + single-byte basis).
//@ harness name=hz_mix_columns prop=C17,C03 tier=quick bits=128 stub=1 variants=aes:ni+hazmat est=10 desc="W: hazmat::mix_columns(b) on the intrinsics arm == AESIMC(AESIMC(AESIMC(b))) for all 2^128 blocks, AESIMC an uninterpreted function shared with the oracle (the arm computes MixColumns as three InvMixColumns); InvMixColumns^3 == MixColumns is the oracle lemma fips_imc3_is_mc"
verif_harness! {
    name: hz_mix_columns,
    bytes: 16,
    unwind: 40,
    stubs: [
        (core::arch::x86_64::__cpuid, ni_model::m_cpuid),
        (core::arch::x86_64::__cpuid_count, ni_model::m_cpuid_count),
        (core::arch::x86_64::_xgetbv, ni_model::m_xgetbv),
        (core::arch::x86_64::_mm_aesenc_si128, ni_model::m_aesenc),
        (core::arch::x86_64::_mm_aesdeclast_si128, ni_model::m_aesdeclast),
        (core::arch::x86_64::_mm_aesimc_si128, ni_model::m_aesimc)
    ],
    prop: |inp| {
        ni_model::set_cpu(true);
        let blk: [u8; 16] = take(inp, 0);
        let mut b = blk.into();
        hazmat::mix_columns(&mut b);
        Some(b.0 == ni_model::o_imc(&ni_model::o_imc(&ni_model::o_imc(&blk))))
    }
}
//@ harness name=fips_imc3_is_mc prop=C17 tier=quick bits=300 variants=aes:ni+hazmat est=75 desc="oracle lemma: InvMixColumns applied three times equals MixColumns on every state: (a) both are additive -- I(x^y) == I(x)^I(y), M(x^y) == M(x)^M(y) for all 2^128 x 2^128 pairs (I^3 is then additive as a composition) -- and (b) I(I(I(e))) == M(e) for every state e with a single non-zero byte (position and value symbolic); every state is the XOR of its single-byte components"
verif_harness! {
    name: fips_imc3_is_mc,
    bytes: 34,
    unwind: 70,
    prop: |inp| {
        let x: [u8; 16] = take(inp, 0);
        let y: [u8; 16] = take(inp, 16);
        let xy = ra::xor(&x, &y);
        vcheck!(ra::mix_columns(&xy) == ra::xor(&ra::mix_columns(&x), &ra::mix_columns(&y)));
        vcheck!(ra::inv_mix_columns(&xy) == ra::xor(&ra::inv_mix_columns(&x), &ra::inv_mix_columns(&y)));
        let j = inp[32] as usize;
        vassume!(j < 16);
        let mut e = [0u8; 16];
        e[j] = inp[33];
        Some(ra::inv_mix_columns(&ra::inv_mix_columns(&ra::inv_mix_columns(&e))) == ra::mix_columns(&e))
    }
}
//@ harness name=hz_inv_mix_columns prop=C17,C03 tier=quick bits=128 stub=1 variants=aes:ni+hazmat est=15 desc="hazmat::inv_mix_columns == FIPS-197 InvMixColumns for all 2^128 blocks on the intrinsics arm (AESIMC model)"
hz_harness!(hz_inv_mix_columns, 16, 40, |inp| {
    ni_model::set_cpu(true);
    let blk: [u8; 16] = take(inp, 0);
    let mut b = blk.into();
    hazmat::inv_mix_columns(&mut b);
    Some(b.0 == ra::inv_mix_columns(&blk))
});

//@ harness name=hz_cipher_round_par_ni prop=C17,C04 tier=quick bits=2048 stub=1 variants=aes:ni+hazmat est=270 need=10 desc="hazmat::cipher_round_par on 8 arbitrary blocks with 8 arbitrary round keys == eight independent cipher_round calls with the respective keys (intrinsics arm)"
hz_harness!(hz_cipher_round_par_ni, 256, 40, |inp| {
    ni_model::set_cpu(true);
    let mut blocks = hazmat::Block8::default();
    let mut keys = hazmat::Block8::default();
    let mut i = 0;
    while i < 8 {
        blocks[i] = take::<16>(inp, 16 * i).into();
        keys[i] = take::<16>(inp, 128 + 16 * i).into();
        i += 1;
    }
    let singles = blocks.clone();
    hazmat::cipher_round_par(&mut blocks, &keys);
    i = 0;
    while i < 8 {
        let mut s = singles[i];
        hazmat::cipher_round(&mut s, &keys[i]);
        vcheck!(blocks[i] == s);
        i += 1;
    }
    Some(true)
});

//@ harness name=hz_equiv_inv_cipher_round_par_ni prop=C17,C04 tier=thorough bits=2048 stub=1 variants=aes:ni+hazmat est=400 need=10 desc="hazmat::equiv_inv_cipher_round_par on 8 blocks / 8 keys == eight independent equiv_inv_cipher_round calls (intrinsics arm)"
hz_harness!(hz_equiv_inv_cipher_round_par_ni, 256, 40, |inp| {
    ni_model::set_cpu(true);
    let mut blocks = hazmat::Block8::default();
    let mut keys = hazmat::Block8::default();
    let mut i = 0;
    while i < 8 {
        blocks[i] = take::<16>(inp, 16 * i).into();
        keys[i] = take::<16>(inp, 128 + 16 * i).into();
        i += 1;
    }
    let singles = blocks.clone();
    hazmat::equiv_inv_cipher_round_par(&mut blocks, &keys);
    i = 0;
    while i < 8 {
        let mut s = singles[i];
        hazmat::equiv_inv_cipher_round(&mut s, &keys[i]);
        vcheck!(blocks[i] == s);
        i += 1;
    }
    Some(true)
});

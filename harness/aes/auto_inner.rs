// Inner harness module of crate::autodetect (x86 build of the aes crate, zeroize feature): C16 for the public autodetect
// types.  Living inside autodetect.rs it can call the private `aes_intrinsics::init_get()` to run CPU detection with the
// stubbed CPUID answer, without constructing a cipher (no key expansion in the query at all).
//
// Instances are built in place from arbitrary bytes; after drop_in_place every byte of the LIVE union arm must be zero:
// the whole union when the software arm is live, the intrinsics struct when that arm is live (the rest of the union is
// never written by any constructor of that arm).
#[macro_use]
#[path = "/verif/harness/common/prelude.rs"]
pub mod prelude;
use prelude::*;
use core::mem::{size_of, MaybeUninit};

fn fill<T>(slot: &mut MaybeUninit<T>, b: &[u8]) {
    assert!(b.len() >= size_of::<T>());
    unsafe { core::ptr::copy_nonoverlapping(b.as_ptr(), slot.as_mut_ptr() as *mut u8, size_of::<T>()) };
}
fn peek<T>(slot: &MaybeUninit<T>, i: usize) -> u8 {
    unsafe { *(slot.as_ptr() as *const u8).add(i) }
}

macro_rules! auto_zeroize {
    ($name:ident, $ty:ty, $ni_ty:ty) => {
        verif_harness! {
            name: $name,
            bytes: core::mem::size_of::<$ty>() + 1,
            unwind: 5000,
            stubs: [
                (core::arch::x86_64::__cpuid, crate::verif_kani::ni_model::m_cpuid),
                (core::arch::x86_64::__cpuid_count, crate::verif_kani::ni_model::m_cpuid_count),
                (core::arch::x86_64::_xgetbv, crate::verif_kani::ni_model::m_xgetbv)
            ],
            prop: |inp| {
                const S: usize = core::mem::size_of::<$ty>();
                let ni_arm = inp[S] & 1 == 1;
                crate::verif_kani::ni_model::set_cpu(ni_arm);
                // first use: CPU detection fills the process-wide cache that every token reads
                let (_token, detected) = crate::autodetect::aes_intrinsics::init_get();
                vcheck!(detected == ni_arm);
                let mut a = MaybeUninit::<$ty>::uninit();
                fill(&mut a, &inp[..S]);
                unsafe { core::ptr::drop_in_place(a.as_mut_ptr()) };
                let live = if ni_arm { core::mem::size_of::<$ni_ty>() } else { S };
                let mut acc = 0u8;
                let mut i = 0;
                while i < S {
                    if i < live {
                        acc |= peek(&a, i);
                    }
                    i += 1;
                }
                Some(acc == 0)
            }
        }
    };
}

//@ harness name=aes128_zeroize prop=C16 tier=quick bits=5640 stub=1 variants=aes:ni+zeroize est=80 need=6 desc="drop of an arbitrary-state autodetect Aes128 zeroes every byte of the live union arm, whichever arm detection selected (CPUID symbolic, detection run for real)"
auto_zeroize!(aes128_zeroize, crate::autodetect::Aes128, crate::ni::Aes128);
//@ harness name=aes128enc_zeroize prop=C16 tier=quick bits=5640 stub=1 variants=aes:ni+zeroize est=65 need=5 desc="drop of an arbitrary-state autodetect Aes128Enc zeroes the live arm (CPUID symbolic)"
auto_zeroize!(aes128enc_zeroize, crate::autodetect::Aes128Enc, crate::ni::Aes128Enc);
//@ harness name=aes128dec_zeroize prop=C16 tier=quick bits=5640 stub=1 variants=aes:ni+zeroize est=65 need=5 desc="drop of an arbitrary-state autodetect Aes128Dec zeroes the live arm (CPUID symbolic)"
auto_zeroize!(aes128dec_zeroize, crate::autodetect::Aes128Dec, crate::ni::Aes128Dec);
//@ harness name=aes192_zeroize prop=C16 tier=quick bits=6664 stub=1 variants=aes:ni+zeroize est=240 need=7 desc="drop of an arbitrary-state autodetect Aes192 zeroes the live arm (CPUID symbolic)"
auto_zeroize!(aes192_zeroize, crate::autodetect::Aes192, crate::ni::Aes192);
//@ harness name=aes192enc_zeroize prop=C16 tier=quick bits=6664 stub=1 variants=aes:ni+zeroize est=90 need=6 desc="drop of an arbitrary-state autodetect Aes192Enc zeroes the live arm"
auto_zeroize!(aes192enc_zeroize, crate::autodetect::Aes192Enc, crate::ni::Aes192Enc);
//@ harness name=aes192dec_zeroize prop=C16 tier=quick bits=6664 stub=1 variants=aes:ni+zeroize est=210 need=6 desc="drop of an arbitrary-state autodetect Aes192Dec zeroes the live arm"
auto_zeroize!(aes192dec_zeroize, crate::autodetect::Aes192Dec, crate::ni::Aes192Dec);
//@ harness name=aes256_zeroize prop=C16 tier=quick bits=7688 stub=1 variants=aes:ni+zeroize est=270 need=9 desc="drop of an arbitrary-state autodetect Aes256 zeroes the live arm (CPUID symbolic)"
auto_zeroize!(aes256_zeroize, crate::autodetect::Aes256, crate::ni::Aes256);
//@ harness name=aes256enc_zeroize prop=C16 tier=quick bits=7688 stub=1 variants=aes:ni+zeroize est=240 need=6 desc="drop of an arbitrary-state autodetect Aes256Enc zeroes the live arm"
auto_zeroize!(aes256enc_zeroize, crate::autodetect::Aes256Enc, crate::ni::Aes256Enc);
//@ harness name=aes256dec_zeroize prop=C16 tier=quick bits=7688 stub=1 variants=aes:ni+zeroize est=100 need=6 desc="drop of an arbitrary-state autodetect Aes256Dec zeroes the live arm"
auto_zeroize!(aes256dec_zeroize, crate::autodetect::Aes256Dec, crate::ni::Aes256Dec);

// The intrinsics-arm and software-arm types themselves (what the union arms hold): every byte zero after drop.
macro_rules! plain_zeroize {
    ($name:ident, $ty:ty) => {
        verif_harness! {
            name: $name,
            bytes: core::mem::size_of::<$ty>(),
            unwind: 5000,
            prop: |inp| {
                const S: usize = core::mem::size_of::<$ty>();
                let mut a = MaybeUninit::<$ty>::uninit();
                fill(&mut a, &inp[..S]);
                unsafe { core::ptr::drop_in_place(a.as_mut_ptr()) };
                let mut acc = 0u8;
                let mut i = 0;
                while i < S {
                    acc |= peek(&a, i);
                    i += 1;
                }
                Some(acc == 0)
            }
        }
    };
}
//@ harness name=ni_aes128_zeroize prop=C16 tier=quick bits=2816 variants=aes:ni+zeroize est=45 need=4 desc="drop of an arbitrary-state ni::Aes128 (both round-key arrays) leaves every byte zero"
plain_zeroize!(ni_aes128_zeroize, crate::ni::Aes128);
//@ harness name=ni_aes256dec_zeroize prop=C16 tier=quick bits=1920 variants=aes:ni+zeroize est=35 desc="drop of an arbitrary-state ni::Aes256Dec leaves every byte zero"
plain_zeroize!(ni_aes256dec_zeroize, crate::ni::Aes256Dec);
//@ harness name=soft_aes128_zeroize prop=C16 tier=quick bits=5632 variants=aes:ni+zeroize est=45 need=4 desc="drop of an arbitrary-state soft::Aes128 (fixsliced round keys) leaves every byte zero"
plain_zeroize!(soft_aes128_zeroize, crate::soft::Aes128);
//@ harness name=soft_aes192dec_zeroize prop=C16 tier=quick bits=6656 variants=aes:ni+zeroize est=70 need=4 desc="drop of an arbitrary-state soft::Aes192Dec leaves every byte zero"
plain_zeroize!(soft_aes192dec_zeroize, crate::soft::Aes192Dec);
//@ harness name=soft_aes256enc_zeroize prop=C16 tier=quick bits=7680 variants=aes:ni+zeroize est=75 need=6 desc="drop of an arbitrary-state soft::Aes256Enc leaves every byte zero"
plain_zeroize!(soft_aes256enc_zeroize, crate::soft::Aes256Enc);

// Inner harness module of crate::soft::fixslice (src/soft/fixslice64.rs): byte-level model of the 64-bit fixsliced
// representation, leaf lemmas (D) for every private round function, S-box stubs for the wiring queries and accessors to the
// private key material.  The text shared with the 32-bit file lives in soft_inner_body.rs (included below).
#[macro_use]
#[path = "/verif/harness/common/prelude.rs"]
pub mod prelude;
use super::*;
use prelude::*;
use refmodels::aes as ra;

pub type W = u64;
/// bytes per word
pub const WB: usize = 8;
/// blocks per bitsliced state
pub const NB: usize = 4;
/// bit index, inside every bit-plane word, of byte (row r, column c) of block b: r1 r0 c1 c0 b1 b0
pub const fn pos(b: usize, r: usize, c: usize) -> u32 {
    (16 * r + 4 * c + b) as u32
}
pub fn w_from(inp: &[u8], off: usize) -> W {
    take_u64(inp, off)
}
pub fn real_bitslice(out: &mut [W], x: &[[u8; 16]; NB]) {
    bitslice(out, &x[0], &x[1], &x[2], &x[3]);
}

/// bit positions of lane 0 inside a word (lane l: shifted left by l)
pub const LANE0_MASK: W = 0x1111111111111111;
macro_rules! ds2 {
    ($a:ident, $b:ident, $sh:expr, $m:expr) => {
        let t = ($a ^ ($b >> $sh)) & $m;
        $a ^= t;
        $b ^= t << $sh;
    };
}
macro_rules! swaps {
    ($t0:ident, $t1:ident, $t2:ident, $t3:ident, $t4:ident, $t5:ident, $t6:ident, $t7:ident) => {
        ds2!($t1, $t0, 1, 0x5555555555555555);
        ds2!($t3, $t2, 1, 0x5555555555555555);
        ds2!($t5, $t4, 1, 0x5555555555555555);
        ds2!($t7, $t6, 1, 0x5555555555555555);
        ds2!($t2, $t0, 2, 0x3333333333333333);
        ds2!($t3, $t1, 2, 0x3333333333333333);
        ds2!($t6, $t4, 2, 0x3333333333333333);
        ds2!($t7, $t5, 2, 0x3333333333333333);
        ds2!($t4, $t0, 4, 0x0f0f0f0f0f0f0f0f);
        ds2!($t5, $t1, 4, 0x0f0f0f0f0f0f0f0f);
        ds2!($t6, $t2, 4, 0x0f0f0f0f0f0f0f0f);
        ds2!($t7, $t3, 4, 0x0f0f0f0f0f0f0f0f);
    };
}
macro_rules! rr {
    ($x:expr, $o:expr) => {
        ($x[$o] as W) | (($x[$o + 1] as W) << 16) | (($x[$o + 2] as W) << 32) | (($x[$o + 3] as W) << 48)
            | (($x[$o + 8] as W) << 8) | (($x[$o + 9] as W) << 24) | (($x[$o + 10] as W) << 40) | (($x[$o + 11] as W) << 56)
    };
}
macro_rules! wr {
    ($x:expr, $o:expr, $c:ident) => {
        $x[$o] = $c as u8;
        $x[$o + 1] = ($c >> 16) as u8;
        $x[$o + 2] = ($c >> 32) as u8;
        $x[$o + 3] = ($c >> 48) as u8;
        $x[$o + 8] = ($c >> 8) as u8;
        $x[$o + 9] = ($c >> 24) as u8;
        $x[$o + 10] = ($c >> 40) as u8;
        $x[$o + 11] = ($c >> 56) as u8;
    };
}
/// Loop-free, call-free transcription of bitslice() on plain arrays (fx_bitslice proves it equal to the crate's function);
/// used inside stubs and specifications, where the crate's own function would cost thousands of program steps per call.
pub fn fast_slice(x: &[[u8; 16]; NB]) -> [W; 8] {
    let mut t0: W = rr!(x[0], 0);
    let mut t4: W = rr!(x[0], 4);
    let mut t1: W = rr!(x[1], 0);
    let mut t5: W = rr!(x[1], 4);
    let mut t2: W = rr!(x[2], 0);
    let mut t6: W = rr!(x[2], 4);
    let mut t3: W = rr!(x[3], 0);
    let mut t7: W = rr!(x[3], 4);
    swaps!(t0, t1, t2, t3, t4, t5, t6, t7);
    [t0, t1, t2, t3, t4, t5, t6, t7]
}
/// Loop-free transcription of inv_bitslice() (fx_inv_bitslice proves it equal to the crate's function).
pub fn fast_unslice(s: &[W]) -> [[u8; 16]; NB] {
    let (mut t0, mut t1, mut t2, mut t3, mut t4, mut t5, mut t6, mut t7) = (s[0], s[1], s[2], s[3], s[4], s[5], s[6], s[7]);
    swaps!(t0, t1, t2, t3, t4, t5, t6, t7);
    let mut o = [[0u8; 16]; NB];
    wr!(o[0], 0, t0);
    wr!(o[0], 4, t4);
    wr!(o[1], 0, t1);
    wr!(o[1], 4, t5);
    wr!(o[2], 0, t2);
    wr!(o[2], 4, t6);
    wr!(o[3], 0, t3);
    wr!(o[3], 4, t7);
    o
}

//@ harness name=fx_bitslice prop=C02,C03,C04,C17,C20 tier=quick bits=512 est=35 desc="L(D): bitslice(b0..b3) == model placement (bit p of byte (r,c) of block b at word p, bit 16r+4c+b) and inv_bitslice(bitslice(x)) == x; all 4 x 128-bit blocks"
//@ harness name=fx_inv_bitslice prop=C02,C03,C04,C17,C20 tier=quick bits=512 est=30 desc="L(D): inv_bitslice(s) == model un-placement and bitslice(inv_bitslice(s)) == s; every 512-bit state"
//@ harness name=fx_sub_bytes prop=C02,C03,C04,C17,C20 tier=quick bits=512 est=55 desc="L(D): sub_bytes == FIPS S-box XOR 0x63 on each of the 64 byte lanes, sub_bytes_nots == XOR 0x63 per byte, nots(sub_bytes) == SubBytes; every 512-bit state (lane independence included)"
//@ harness name=fx_inv_sub_bytes prop=C02,C03,C04,C17,C20 tier=quick bits=512 est=40 desc="L(D): inv_sub_bytes(x) == FIPS inverse S-box of (x XOR 0x63) on each of the 64 byte lanes; every 512-bit state"
//@ harness name=fx_shift_rows prop=C02,C03,C04,C20 tier=quick bits=1024 est=55 desc="L(D): shift_rows_k / inv_shift_rows_k == ShiftRows^k / InvShiftRows^k on each block (k = 1, 2, 3 as compiled), add_round_key == lane-wise XOR; every state"
//@ harness name=fx_mix_columns prop=C02,C03,C04,C17,C20 tier=quick bits=512 est=35 desc="L1(D): mix_columns_k == bitslice o (Kaesper-Schwabe byte form mc_ks(., k) on each block) o inv_bitslice, k = 0..3 (0, 1 in compact form); every 512-bit state"
//@ harness name=fx_inv_mix_columns prop=C02,C03,C04,C17,C20 tier=quick bits=512 est=50 desc="L1(D): inv_mix_columns_k == bitslice o (byte form imc_ks(., k) on each block) o inv_bitslice, k = 0..3 (0, 1 compact); every 512-bit state"
//@ harness name=fx_mc_model prop=C02,C03,C04,C17,C20 tier=quick bits=128 est=20 desc="L2(D, byte level): mc_ks(x, 0) == FIPS MixColumns(x) and mc_ks(x, k) == InvShiftRows^k(mc_ks(ShiftRows^k(x), 0)), k = 1..3; all 2^128 blocks -- hence mix_columns_k == ShiftRows^-k o MixColumns o ShiftRows^k"
//@ harness name=fx_imc_model prop=C02,C03,C04,C17,C20 tier=quick bits=128 est=35 desc="L2(D, byte level): imc_ks(x, 0) == FIPS InvMixColumns(x) and imc_ks(x, k) == InvShiftRows^k(imc_ks(ShiftRows^k(x), 0)), k = 1..3; all 2^128 blocks -- hence inv_mix_columns_k == ShiftRows^-k o InvMixColumns o ShiftRows^k"
include!("/verif/harness/aes/soft_inner_body.rs");

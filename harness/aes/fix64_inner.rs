// Inner harness module of crate::soft::fixslice (src/soft/fixslice64.rs): byte-level model of the 64-bit fixsliced
// representation, leaf lemmas (D) for every private round function, S-box stubs for the wiring queries and accessors to the
// private key material.  The text shared with the 32-bit file lives in soft_inner_body.rs (included below).
#[macro_use]
#[path = "/verif/harness/common/prelude.rs"]
pub mod prelude;
#[macro_use]
#[path = "/verif/harness/common/uf.rs"]
pub mod uf;
use super::*;
use prelude::*;
use refmodels::aes as ra;

pub type W = u64;
/// bytes per word
pub const WB: usize = 8;
/// blocks per bitsliced state
pub const NB: usize = 4;
/// bit index, inside every bit-plane word, of byte (row r, column c) of block b: r1 r0 c1 c0 b1 b0
pub const fn pos(b: usize, r: usize, c: usize) -> u32 {
    (16 * r + 4 * c + b) as u32
}
pub fn w_from(inp: &[u8], off: usize) -> W {
    take_u64(inp, off)
}
pub fn real_bitslice(out: &mut [W], x: &[[u8; 16]; NB]) {
    bitslice(out, &x[0], &x[1], &x[2], &x[3]);
}

//@ harness name=fx_bitslice prop=C02,C03,C04,C17,C20 tier=quick bits=512 est=30 desc="L(D): bitslice(b0..b3) == model placement (bit p of byte (r,c) of block b at word p, bit 16r+4c+b) and inv_bitslice(bitslice(x)) == x; all 4 x 128-bit blocks"
//@ harness name=fx_inv_bitslice prop=C02,C03,C04,C17,C20 tier=quick bits=512 est=30 desc="L(D): inv_bitslice(s) == model un-placement and bitslice(inv_bitslice(s)) == s; every 512-bit state"
//@ harness name=fx_sub_bytes prop=C02,C03,C04,C17,C20 tier=quick bits=512 est=120 desc="L(D): sub_bytes == FIPS S-box XOR 0x63 on each of the 64 byte lanes, sub_bytes_nots == XOR 0x63 per byte, nots(sub_bytes) == SubBytes; every 512-bit state (lane independence included)"
//@ harness name=fx_inv_sub_bytes prop=C02,C03,C04,C17,C20 tier=quick bits=512 est=120 desc="L(D): inv_sub_bytes(x) == FIPS inverse S-box of (x XOR 0x63) on each of the 64 byte lanes; every 512-bit state"
//@ harness name=fx_shift_rows prop=C02,C03,C04,C20 tier=quick bits=1024 est=30 desc="L(D): shift_rows_k / inv_shift_rows_k == ShiftRows^k / InvShiftRows^k on each block (k = 1, 2, 3 as compiled), add_round_key == lane-wise XOR; every state"
//@ harness name=fx_mix_columns prop=C02,C03,C04,C17,C20 tier=quick bits=512 est=150 desc="L1(D): mix_columns_k == bitslice o (Kaesper-Schwabe byte form mc_ks(., k) on each block) o inv_bitslice, k = 0..3 (0, 1 in compact form); every 512-bit state"
//@ harness name=fx_inv_mix_columns prop=C02,C03,C04,C17,C20 tier=quick bits=512 est=150 desc="L1(D): inv_mix_columns_k == bitslice o (byte form imc_ks(., k) on each block) o inv_bitslice, k = 0..3 (0, 1 compact); every 512-bit state"
//@ harness name=fx_mc_model prop=C02,C03,C04,C17,C20 tier=quick bits=128 est=60 desc="L2(D, byte level): mc_ks(x, 0) == FIPS MixColumns(x) and mc_ks(x, k) == InvShiftRows^k(mc_ks(ShiftRows^k(x), 0)), k = 1..3; all 2^128 blocks -- hence mix_columns_k == ShiftRows^-k o MixColumns o ShiftRows^k"
//@ harness name=fx_imc_model prop=C02,C03,C04,C17,C20 tier=quick bits=128 est=120 desc="L2(D, byte level): imc_ks(x, 0) == FIPS InvMixColumns(x) and imc_ks(x, k) == InvShiftRows^k(imc_ks(ShiftRows^k(x), 0)), k = 1..3; all 2^128 blocks -- hence inv_mix_columns_k == ShiftRows^-k o InvMixColumns o ShiftRows^k"
include!("/verif/harness/aes/soft_inner_body.rs");

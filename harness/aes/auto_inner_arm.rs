// Inner harness module of crate::autodetect, aarch64 build of the aes crate compiled as shadow variant "aes:armv8+zeroize"
// (plans/fam_g.py), zeroize feature: C16 for the public autodetect types whose intrinsics arm is crate::armv8.
// Same construction as auto_inner.rs (x86 build): living inside autodetect.rs it calls the private
// `aes_intrinsics::init_get()` to run CPU detection with the stubbed CPU answer, without constructing a cipher (no key
// expansion in the query).  (On this host `cpufeatures::new!(aes_intrinsics, "aes")` expands to x86 CPUID probing -- the
// token / union-arm logic of autodetect.rs that is exercised here is architecture independent.)
//
// Instances are built in place from arbitrary bytes; after drop_in_place every byte of the LIVE union arm must be zero:
// the whole union when the software arm is live, the armv8 struct when that arm is live (the rest of the union is never
// written by any constructor of that arm).  armv8.rs zeroizes with zeroize::zeroize_flat_type(self) over the
// [uint8x16_t; N] key arrays; nothing in it depends on the instruction model beyond size and alignment of uint8x16_t
// (16 / 16, as on AArch64).
#[macro_use]
#[path = "/verif/harness/common/prelude.rs"]
pub mod prelude;
// (never compiled: lets lib/bcv/shadow.py find the cuf1! invocations of the instruction model, which is copied into the
// shadow crate as src/verif_arch.rs and is not a harness file)
#[cfg(any())]
#[path = "/verif/harness/aes/arm_model.rs"]
mod scan_arm_model;
use prelude::*;
use core::mem::{size_of, MaybeUninit};

fn fill<T>(slot: &mut MaybeUninit<T>, b: &[u8]) {
    assert!(b.len() >= size_of::<T>());
    unsafe { core::ptr::copy_nonoverlapping(b.as_ptr(), slot.as_mut_ptr() as *mut u8, size_of::<T>()) };
}
fn peek<T>(slot: &MaybeUninit<T>, i: usize) -> u8 {
    unsafe { *(slot.as_ptr() as *const u8).add(i) }
}

macro_rules! auto_zeroize {
    ($name:ident, $ty:ty, $arm_ty:ty) => {
        verif_harness! {
            name: $name,
            bytes: core::mem::size_of::<$ty>() + 1,
            unwind: 5000,
            stubs: [
                (core::arch::x86_64::__cpuid, crate::verif_kani::ni_model::m_cpuid),
                (core::arch::x86_64::__cpuid_count, crate::verif_kani::ni_model::m_cpuid_count),
                (core::arch::x86_64::_xgetbv, crate::verif_kani::ni_model::m_xgetbv)
            ],
            prop: |inp| {
                const S: usize = core::mem::size_of::<$ty>();
                let arm = inp[S] & 1 == 1;
                crate::verif_kani::ni_model::set_cpu(arm);
                // first use: CPU detection fills the process-wide cache that every token reads
                let (_token, detected) = crate::autodetect::aes_intrinsics::init_get();
                vcheck!(detected == arm);
                let mut a = MaybeUninit::<$ty>::uninit();
                fill(&mut a, &inp[..S]);
                unsafe { core::ptr::drop_in_place(a.as_mut_ptr()) };
                let live = if arm { core::mem::size_of::<$arm_ty>() } else { S };
                let mut acc = 0u8;
                let mut i = 0;
                while i < S {
                    if i < live {
                        acc |= peek(&a, i);
                    }
                    i += 1;
                }
                Some(acc == 0)
            }
        }
    };
}

//@ harness name=aes128_arm_zeroize prop=C16 tier=quick bits=5640 stub=1 variants=aes:armv8+zeroize est=85 need=6 desc="aarch64 build: drop of an arbitrary-state autodetect Aes128 zeroes every byte of the live union arm -- armv8::Aes128 (zeroize_flat_type over both [uint8x16_t; 11] key arrays) or the fixsliced software arm -- whichever detection selected (CPU answer symbolic, detection run for real)"
auto_zeroize!(aes128_arm_zeroize, crate::autodetect::Aes128, crate::armv8::Aes128);
//@ harness name=aes128enc_arm_zeroize prop=C16 tier=quick bits=5640 stub=1 variants=aes:armv8+zeroize est=65 need=5 desc="aarch64 build: drop of an arbitrary-state autodetect Aes128Enc zeroes the live arm (CPU answer symbolic)"
auto_zeroize!(aes128enc_arm_zeroize, crate::autodetect::Aes128Enc, crate::armv8::Aes128Enc);
//@ harness name=aes128dec_arm_zeroize prop=C16 tier=quick bits=5640 stub=1 variants=aes:armv8+zeroize est=75 need=5 desc="aarch64 build: drop of an arbitrary-state autodetect Aes128Dec zeroes the live arm (CPU answer symbolic)"
auto_zeroize!(aes128dec_arm_zeroize, crate::autodetect::Aes128Dec, crate::armv8::Aes128Dec);
//@ harness name=aes192_arm_zeroize prop=C16 tier=quick bits=6664 stub=1 variants=aes:armv8+zeroize est=90 need=7 desc="aarch64 build: drop of an arbitrary-state autodetect Aes192 zeroes the live arm (CPU answer symbolic)"
auto_zeroize!(aes192_arm_zeroize, crate::autodetect::Aes192, crate::armv8::Aes192);
//@ harness name=aes192enc_arm_zeroize prop=C16 tier=quick bits=6664 stub=1 variants=aes:armv8+zeroize est=90 need=6 desc="aarch64 build: drop of an arbitrary-state autodetect Aes192Enc zeroes the live arm"
auto_zeroize!(aes192enc_arm_zeroize, crate::autodetect::Aes192Enc, crate::armv8::Aes192Enc);
//@ harness name=aes192dec_arm_zeroize prop=C16 tier=quick bits=6664 stub=1 variants=aes:armv8+zeroize est=85 need=6 desc="aarch64 build: drop of an arbitrary-state autodetect Aes192Dec zeroes the live arm"
auto_zeroize!(aes192dec_arm_zeroize, crate::autodetect::Aes192Dec, crate::armv8::Aes192Dec);
//@ harness name=aes256_arm_zeroize prop=C16 tier=quick bits=7688 stub=1 variants=aes:armv8+zeroize est=270 need=9 desc="aarch64 build: drop of an arbitrary-state autodetect Aes256 zeroes the live arm (CPU answer symbolic)"
auto_zeroize!(aes256_arm_zeroize, crate::autodetect::Aes256, crate::armv8::Aes256);
//@ harness name=aes256enc_arm_zeroize prop=C16 tier=quick bits=7688 stub=1 variants=aes:armv8+zeroize est=240 need=6 desc="aarch64 build: drop of an arbitrary-state autodetect Aes256Enc zeroes the live arm"
auto_zeroize!(aes256enc_arm_zeroize, crate::autodetect::Aes256Enc, crate::armv8::Aes256Enc);
//@ harness name=aes256dec_arm_zeroize prop=C16 tier=quick bits=7688 stub=1 variants=aes:armv8+zeroize est=110 need=6 desc="aarch64 build: drop of an arbitrary-state autodetect Aes256Dec zeroes the live arm"
auto_zeroize!(aes256dec_arm_zeroize, crate::autodetect::Aes256Dec, crate::armv8::Aes256Dec);

// The armv8 types themselves (what the intrinsics arm of the union holds): every byte zero after drop.
macro_rules! plain_zeroize {
    ($name:ident, $ty:ty) => {
        verif_harness! {
            name: $name,
            bytes: core::mem::size_of::<$ty>(),
            unwind: 5000,
            prop: |inp| {
                const S: usize = core::mem::size_of::<$ty>();
                let mut a = MaybeUninit::<$ty>::uninit();
                fill(&mut a, &inp[..S]);
                unsafe { core::ptr::drop_in_place(a.as_mut_ptr()) };
                let mut acc = 0u8;
                let mut i = 0;
                while i < S {
                    acc |= peek(&a, i);
                    i += 1;
                }
                Some(acc == 0)
            }
        }
    };
}
//@ harness name=armv8_aes128_zeroize prop=C16 tier=quick bits=2816 variants=aes:armv8+zeroize est=45 need=4 desc="drop of an arbitrary-state armv8::Aes128 (encrypt and decrypt [uint8x16_t; 11] key arrays) leaves every byte zero"
plain_zeroize!(armv8_aes128_zeroize, crate::armv8::Aes128);
//@ harness name=armv8_aes192enc_zeroize prop=C16 tier=quick bits=1664 variants=aes:armv8+zeroize est=30 desc="drop of an arbitrary-state armv8::Aes192Enc leaves every byte zero"
plain_zeroize!(armv8_aes192enc_zeroize, crate::armv8::Aes192Enc);
//@ harness name=armv8_aes256dec_zeroize prop=C16 tier=quick bits=1920 variants=aes:armv8+zeroize est=35 desc="drop of an arbitrary-state armv8::Aes256Dec leaves every byte zero"
plain_zeroize!(armv8_aes256dec_zeroize, crate::armv8::Aes256Dec);

// C02 / C03 / C04 / C12 / C20 -- the fixsliced SOFTWARE backends of the aes crate (cfg aes_force_soft: crate::Aes* are
// the types of src/soft.rs), 64-bit and 32-bit file, normal and aes_compact form: one file for the four variants.
//
// Composition argument for C02 (per variant and key size; L = leaf lemmas in fix64_inner.rs / fix32_inner.rs, all D-shape
// over the full input width of the leaf):
//   (KS)  for every key:  the private state of Aes*::new(key) (and Aes*Enc::new, Aes*Dec::new) == m_keys(KeyExpansion(key))
//         -- real bitslice / memshift32 / xor_columns / add_round_constant_bit / sub_bytes_nots / inv_shift_rows_k adjustments /
//         NOT compensation; sub_bytes := bitslice o (f_j ^ 0x63 per byte) o inv_bitslice on the replicated lanes (replication is
//         a proof obligation), SubWord of the oracle := the same f_j  (f_j: uninterpreted byte function of the j-th S-box layer).
//   (ENC) for every round-key sequence rk[0..=nr] and block:  encrypt_block on the state m_keys(rk) == FIPS-197 Cipher(rk, block)
//         -- real padding of the batch, bitslice, add_round_key, shift_rows_2, round sequencing / loop exits / key offsets,
//         inv_bitslice; sub_bytes := f_r ^ 0x63 on the bytes of lane 0 (r = S-box layer = round); mix_columns_k := the byte form
//         mc_ks(., k) on lane 0 (leaf lemma L1 fx_mix_columns); in both stubs the padding lanes are havocked at every call (so
//         the result is also shown not to depend on them).  Oracle: refmodels::aes Cipher with S-box := the same f_r and
//         MixColumns := mc_ks(., 0), which L2 (fx_mc_model) proves equal to the FIPS-197 matrix on all 2^128 states.
//   (DEC) likewise decrypt_block == FIPS-197 InvCipher(rk, block) (straight form, 5.3): inv_sub_bytes := g_r(. ^ 0x63),
//         inv_mix_columns_k := imc_ks(., k) (fx_inv_mix_columns); oracle InvMixColumns := imc_ks(., 0) (fx_imc_model).
//   L:    sub_bytes / inv_sub_bytes are exactly these stubs with f = S-box, g = inverse S-box (fx_sub_bytes / fx_inv_sub_bytes,
//         all states, all lanes); bitslice / inv_bitslice == the transcriptions used inside the stubs == the bit placement model,
//         and are mutually inverse (fx_bitslice / fx_inv_bitslice).
//   One uninterpreted function PER S-BOX LAYER (shared by implementation and oracle in that layer) is a weaker hypothesis than one
//   shared function, hence sound; it keeps the Ackermann logs at 32 entries.
//   m_keys is the explicit fixslice key format (phase r mod 4 resp. r mod 2, NOT mask, replication over the lanes).
//   => instantiate (ENC)/(DEC) at rk = KeyExpansion(key): Aes*::new(key).encrypt_block(b) == Cipher(KeyExpansion(key), b) and
//      decrypt_block == InvCipher, all keys, all blocks.
// C04 (soft share): (PAR) one full batch through encrypt_blocks / decrypt_blocks: output block `lane` == Cipher(rk, input
//   block `lane`) with every other lane havocked in every stubbed layer, lane symbolic; with (ENC) this is "equals the
//   single-block result and depends on no other block".
// C12: (KS) on the Enc/Dec constructors + conversions and Clone preserve the key words on an arbitrary state.
use super::prelude::*;
#[cfg(verif_fix32)]
use crate::soft::fixslice::verif_inner_fix32_inner as fx;
#[cfg(not(verif_fix32))]
use crate::soft::fixslice::verif_inner_fix64_inner as fx;
use cipher::{BlockCipherDecrypt, BlockCipherEncrypt, KeyInit};
use refmodels::aes as ra;

#[cfg(kani)]
pub fn st_sb_lane(s: &mut [fx::W]) {
    fx::stub_sb_lane(s)
}
#[cfg(kani)]
pub fn st_isb_lane(s: &mut [fx::W]) {
    fx::stub_isb_lane(s)
}
#[cfg(kani)]
pub fn st_sb_rep(s: &mut [fx::W]) {
    fx::stub_sb_rep(s)
}
#[cfg(kani)]
pub fn st_mc0(s: &mut [fx::W; 8]) {
    fx::stub_mc0(s)
}
#[cfg(kani)]
pub fn st_mc1(s: &mut [fx::W; 8]) {
    fx::stub_mc1(s)
}
#[cfg(kani)]
pub fn st_mc2(s: &mut [fx::W; 8]) {
    fx::stub_mc2(s)
}
#[cfg(kani)]
pub fn st_mc3(s: &mut [fx::W; 8]) {
    fx::stub_mc3(s)
}
#[cfg(kani)]
pub fn st_imc0(s: &mut [fx::W; 8]) {
    fx::stub_imc0(s)
}
#[cfg(kani)]
pub fn st_imc1(s: &mut [fx::W; 8]) {
    fx::stub_imc1(s)
}
#[cfg(kani)]
pub fn st_imc2(s: &mut [fx::W; 8]) {
    fx::stub_imc2(s)
}
#[cfg(kani)]
pub fn st_imc3(s: &mut [fx::W; 8]) {
    fx::stub_imc3(s)
}

macro_rules! soft_ks {
    ($name:ident, $ty:ty, $kacc:path, $klen:expr, $nr:expr, $nw:expr) => {
        verif_harness! {
            name: $name,
            bytes: $klen,
            unwind: 130,
            stubs: [(crate::soft::fixslice::sub_bytes, st_sb_rep)],
            prop: |inp| {
                let key: [u8; $klen] = *inp;
                let c = <$ty>::new(&key.into());
                let rk = ra::key_expansion_with(&key, $klen / 4, fx::o_subword);
                let want: [fx::W; $nw] = fx::m_keys::<$nw>(&rk, $nr);
                Some(fx::eq_words($kacc(&c), &want))
            }
        }
    };
}
// the stub lists name private functions of the fixslice module: mix_columns_2/3 exist only in the normal form
#[cfg(not(aes_compact))]
macro_rules! soft_w {
    (enc, $name:ident, $bytes:expr, |$inp:ident| $body:block) => {
        verif_harness! {
            name: $name,
            bytes: $bytes,
            unwind: 70,
            stubs: [
                (crate::soft::fixslice::sub_bytes, st_sb_lane),
                (crate::soft::fixslice::mix_columns_0, st_mc0),
                (crate::soft::fixslice::mix_columns_1, st_mc1),
                (crate::soft::fixslice::mix_columns_2, st_mc2),
                (crate::soft::fixslice::mix_columns_3, st_mc3)
            ],
            prop: |$inp| $body
        }
    };
    (dec, $name:ident, $bytes:expr, |$inp:ident| $body:block) => {
        verif_harness! {
            name: $name,
            bytes: $bytes,
            unwind: 70,
            stubs: [
                (crate::soft::fixslice::inv_sub_bytes, st_isb_lane),
                (crate::soft::fixslice::inv_mix_columns_0, st_imc0),
                (crate::soft::fixslice::inv_mix_columns_1, st_imc1),
                (crate::soft::fixslice::inv_mix_columns_2, st_imc2),
                (crate::soft::fixslice::inv_mix_columns_3, st_imc3)
            ],
            prop: |$inp| $body
        }
    };
}
#[cfg(aes_compact)]
macro_rules! soft_w {
    (enc, $name:ident, $bytes:expr, |$inp:ident| $body:block) => {
        verif_harness! {
            name: $name,
            bytes: $bytes,
            unwind: 70,
            stubs: [
                (crate::soft::fixslice::sub_bytes, st_sb_lane),
                (crate::soft::fixslice::mix_columns_0, st_mc0),
                (crate::soft::fixslice::mix_columns_1, st_mc1)
            ],
            prop: |$inp| $body
        }
    };
    (dec, $name:ident, $bytes:expr, |$inp:ident| $body:block) => {
        verif_harness! {
            name: $name,
            bytes: $bytes,
            unwind: 70,
            stubs: [
                (crate::soft::fixslice::inv_sub_bytes, st_isb_lane),
                (crate::soft::fixslice::inv_mix_columns_0, st_imc0),
                (crate::soft::fixslice::inv_mix_columns_1, st_imc1)
            ],
            prop: |$inp| $body
        }
    };
}
macro_rules! soft_enc {
    ($name:ident, $mk:path, $nr:expr, $nw:expr) => {
        soft_w!(enc, $name, ($nr + 1) * 16 + 16, |inp| {
            fx::set_lane(0);
            let rk = fx::take_rk(inp, 0, $nr);
            let blk: [u8; 16] = take(inp, ($nr + 1) * 16);
            let c = $mk(fx::m_keys::<$nw>(&rk, $nr));
            let mut b = blk.into();
            c.encrypt_block(&mut b);
            Some(b.0 == ra::cipher_sb_mc_with(&rk, $nr, &blk, fx::o_sb, fx::o_mc))
        });
    };
}
macro_rules! soft_dec {
    ($name:ident, $mk:path, $nr:expr, $nw:expr) => {
        soft_w!(dec, $name, ($nr + 1) * 16 + 16, |inp| {
            fx::set_lane(0);
            let rk = fx::take_rk(inp, 0, $nr);
            let blk: [u8; 16] = take(inp, ($nr + 1) * 16);
            let c = $mk(fx::m_keys::<$nw>(&rk, $nr));
            let mut b = blk.into();
            c.decrypt_block(&mut b);
            Some(b.0 == ra::inv_cipher_with(&rk, $nr, &blk, fx::o_isb, fx::o_imc))
        });
    };
}
macro_rules! soft_par_enc {
    ($name:ident, $mk:path, $ty:ty, $nr:expr, $nw:expr) => {
        soft_w!(enc, $name, ($nr + 1) * 16 + 16 * fx::NB + 1, |inp| {
            const KB: usize = ($nr + 1) * 16;
            let lane = inp[KB + 16 * fx::NB] as usize;
            vassume!(lane < fx::NB);
            fx::set_lane(lane);
            let rk = fx::take_rk(inp, 0, $nr);
            let x = fx::blocks_of(inp, KB);
            let c = $mk(fx::m_keys::<$nw>(&rk, $nr));
            let mut bl: [cipher::Block<$ty>; fx::NB] = [[0u8; 16].into(); fx::NB];
            let mut j = 0;
            while j < fx::NB {
                bl[j] = x[j].into();
                j += 1;
            }
            c.encrypt_blocks(&mut bl);
            let xi = x[lane];
            Some(bl[lane].0 == ra::cipher_sb_mc_with(&rk, $nr, &xi, fx::o_sb, fx::o_mc))
        });
    };
}
macro_rules! soft_par_dec {
    ($name:ident, $mk:path, $ty:ty, $nr:expr, $nw:expr) => {
        soft_w!(dec, $name, ($nr + 1) * 16 + 16 * fx::NB + 1, |inp| {
            const KB: usize = ($nr + 1) * 16;
            let lane = inp[KB + 16 * fx::NB] as usize;
            vassume!(lane < fx::NB);
            fx::set_lane(lane);
            let rk = fx::take_rk(inp, 0, $nr);
            let x = fx::blocks_of(inp, KB);
            let c = $mk(fx::m_keys::<$nw>(&rk, $nr));
            let mut bl: [cipher::Block<$ty>; fx::NB] = [[0u8; 16].into(); fx::NB];
            let mut j = 0;
            while j < fx::NB {
                bl[j] = x[j].into();
                j += 1;
            }
            c.decrypt_blocks(&mut bl);
            let xi = x[lane];
            Some(bl[lane].0 == ra::inv_cipher_with(&rk, $nr, &xi, fx::o_isb, fx::o_imc))
        });
    };
}
// (PAR) with a fixed lane: the last block of a full batch (cheaper than the symbolic-lane form; quick tier)
macro_rules! soft_parl_enc {
    ($name:ident, $mk:path, $ty:ty, $nr:expr, $nw:expr) => {
        soft_w!(enc, $name, ($nr + 1) * 16 + 16 * fx::NB, |inp| {
            const KB: usize = ($nr + 1) * 16;
            const LANE: usize = fx::NB - 1;
            fx::set_lane(LANE);
            let rk = fx::take_rk(inp, 0, $nr);
            let x = fx::blocks_of(inp, KB);
            let c = $mk(fx::m_keys::<$nw>(&rk, $nr));
            let mut bl: [cipher::Block<$ty>; fx::NB] = [[0u8; 16].into(); fx::NB];
            let mut j = 0;
            while j < fx::NB {
                bl[j] = x[j].into();
                j += 1;
            }
            c.encrypt_blocks(&mut bl);
            Some(bl[LANE].0 == ra::cipher_sb_mc_with(&rk, $nr, &x[LANE], fx::o_sb, fx::o_mc))
        });
    };
}
macro_rules! soft_parl_dec {
    ($name:ident, $mk:path, $ty:ty, $nr:expr, $nw:expr) => {
        soft_w!(dec, $name, ($nr + 1) * 16 + 16 * fx::NB, |inp| {
            const KB: usize = ($nr + 1) * 16;
            const LANE: usize = fx::NB - 1;
            fx::set_lane(LANE);
            let rk = fx::take_rk(inp, 0, $nr);
            let x = fx::blocks_of(inp, KB);
            let c = $mk(fx::m_keys::<$nw>(&rk, $nr));
            let mut bl: [cipher::Block<$ty>; fx::NB] = [[0u8; 16].into(); fx::NB];
            let mut j = 0;
            while j < fx::NB {
                bl[j] = x[j].into();
                j += 1;
            }
            c.decrypt_blocks(&mut bl);
            Some(bl[LANE].0 == ra::inv_cipher_with(&rk, $nr, &x[LANE], fx::o_isb, fx::o_imc))
        });
    };
}
macro_rules! soft_conv {
    ($name:ident, $mke:path, $k:path, $ke:path, $kd:path, $ty:ty, $tyd:ty, $nw:expr) => {
        verif_harness! {
            name: $name,
            bytes: $nw * fx::WB,
            unwind: 130,
            prop: |inp| {
                let w: [fx::W; $nw] = fx::words_of::<$nw>(inp, 0);
                let e = $mke(w);
                let c1 = <$ty>::from(&e);
                let d1 = <$tyd>::from(&e);
                let e2 = e.clone();
                let c1c = c1.clone();
                let d1c = d1.clone();
                vcheck!(fx::eq_words($k(&c1), &w));
                vcheck!(fx::eq_words($kd(&d1), &w));
                vcheck!(fx::eq_words($ke(&e2), &w));
                vcheck!(fx::eq_words($k(&c1c), &w));
                vcheck!(fx::eq_words($kd(&d1c), &w));
                vcheck!(fx::eq_words($ke(&e), &w));
                let c2 = <$ty>::from(e2);
                let d2 = <$tyd>::from(e);
                vcheck!(fx::eq_words($k(&c2), &w));
                Some(fx::eq_words($kd(&d2), &w))
            }
        }
    };
}
macro_rules! soft_total {
    ($name:ident, $mk:path, $nw:expr) => {
        verif_harness! {
            name: $name,
            bytes: $nw * fx::WB + 16,
            unwind: 130,
            prop: |inp| {
                let c = $mk(fx::words_of::<$nw>(inp, 0));
                let blk: [u8; 16] = take(inp, $nw * fx::WB);
                let mut b = blk.into();
                c.encrypt_block(&mut b);
                let mut b2 = blk.into();
                c.decrypt_block(&mut b2);
                Some(true)
            }
        }
    };
}

// ------------------------------------------------------------------------------------------------ AES-128
//@ harness name=soft_ks128 prop=C02,C03,C12 tier=quick bits=128 stub=1 quick=C03 est=110 need=6 desc="W(KS): private key words of Aes128::new(key) == fixslice format of FIPS-197 KeyExpansion(key); all 2^128 keys; S-box uninterpreted (sub_bytes stub = uf^0x63 on the replicated lanes, replication proved; oracle SubWord = uf); everything else real"
soft_ks!(soft_ks128, crate::Aes128, fx::k128, 16, 10, 88);
//@ harness name=soft_ks128e prop=C02,C03,C12 tier=quick bits=128 stub=1 quick_variants=aes:soft64 est=95 need=6 desc="W(KS): key words of Aes128Enc::new(key) == fixslice format of KeyExpansion(key); all keys (encrypt-only form, own constructor)"
soft_ks!(soft_ks128e, crate::Aes128Enc, fx::k128e, 16, 10, 88);
//@ harness name=soft_ks128d prop=C02,C03,C12 tier=quick bits=128 stub=1 quick_variants=aes:soft64 est=95 need=6 desc="W(KS): key words of Aes128Dec::new(key) == fixslice format of KeyExpansion(key); all keys (decrypt-only form, own constructor)"
soft_ks!(soft_ks128d, crate::Aes128Dec, fx::k128d, 16, 10, 88);
//@ harness name=soft_enc128 prop=C02,C03,C20 tier=quick bits=1536 stub=1 variants=aes:soft64,aes:soft64c,aes:soft32,aes:soft32c,aes:soft64+hazmat,aes:soft32+hazmat est=175 need=8 desc="W(ENC): Aes128 on the state m_keys(rk): encrypt_block(b) == FIPS-197 Cipher(rk, b); all 11 round keys arbitrary (superset of all keys), all blocks; S-box uninterpreted on lane 0 (shared with the oracle), mix_columns_k replaced by their proved specification ShiftRows^-k o MixColumns o ShiftRows^k on lane 0, padding lanes havocked in every stubbed layer; round sequencing, key offsets, add_round_key, shift_rows_2, batch padding, bitslice / inv_bitslice real"
soft_enc!(soft_enc128, fx::mk128, 10, 88);
//@ harness name=soft_enc128e prop=C02,C03,C12 tier=quick bits=1536 stub=1 quick_variants=aes:soft64 variants=aes:soft64,aes:soft64c,aes:soft32,aes:soft32c,aes:soft64+hazmat,aes:soft32+hazmat est=130 need=8 desc="W(ENC): Aes128Enc on the state m_keys(rk): encrypt_block(b) == FIPS-197 Cipher(rk, b); all round keys, all blocks"
soft_enc!(soft_enc128e, fx::mk128e, 10, 88);
//@ harness name=soft_dec128 prop=C02,C03,C20 tier=quick bits=1536 stub=1 quick_variants=aes:soft64,aes:soft32 variants=aes:soft64,aes:soft64c,aes:soft32,aes:soft32c,aes:soft64+hazmat,aes:soft32+hazmat est=195 need=10 desc="W(DEC): Aes128 on the state m_keys(rk): decrypt_block(b) == FIPS-197 InvCipher(rk, b) (straight form); all round keys, all blocks; inverse S-box uninterpreted on lane 0, inv_mix_columns_k replaced by their proved specification ShiftRows^-k o InvMixColumns o ShiftRows^k, padding lanes havocked; sequencing, key offsets, add_round_key, inv_shift_rows_2, bitslice real"
soft_dec!(soft_dec128, fx::mk128, 10, 88);
//@ harness name=soft_dec128d prop=C02,C03,C12 tier=quick bits=1536 stub=1 quick_variants=aes:soft64 variants=aes:soft64,aes:soft64c,aes:soft32,aes:soft32c,aes:soft64+hazmat,aes:soft32+hazmat est=160 need=10 desc="W(DEC): Aes128Dec on the state m_keys(rk): decrypt_block(b) == FIPS-197 InvCipher(rk, b); all round keys, all blocks"
soft_dec!(soft_dec128d, fx::mk128d, 10, 88);
//@ harness name=soft_par_enc128 prop=C04,C03 tier=thorough bits=1922 stub=1 est=380 desc="W(PAR): Aes128::encrypt_blocks on one full batch (4 resp. 2 blocks): output block `lane` == Cipher(rk, input block `lane`), lane symbolic, all other lanes havocked in every S-box layer (no dependence on other blocks); all round keys, all blocks"
soft_par_enc!(soft_par_enc128, fx::mk128, crate::Aes128, 10, 88);
//@ harness name=soft_par_dec128 prop=C04,C03 tier=thorough bits=1922 stub=1 est=530 desc="W(PAR): Aes128::decrypt_blocks on one full batch: output block `lane` == InvCipher(rk, input block `lane`), lane symbolic, other lanes havocked; all round keys, all blocks"
soft_par_dec!(soft_par_dec128, fx::mk128, crate::Aes128, 10, 88);
//@ harness name=soft_parl_enc128 prop=C04,C03 tier=quick bits=1920 stub=1 variants=aes:soft64,aes:soft64c,aes:soft32,aes:soft32c quick_variants=aes:soft64 est=215 need=8 desc="W(PAR, fixed lane): Aes128::encrypt_blocks on one full batch: the LAST output block == Cipher(rk, last input block) with all other lanes havocked in every stubbed layer (so it depends on no other block); all round keys, all blocks"
soft_parl_enc!(soft_parl_enc128, fx::mk128, crate::Aes128, 10, 88);
//@ harness name=soft_parl_dec128 prop=C04,C03 tier=quick bits=1920 stub=1 variants=aes:soft64,aes:soft64c,aes:soft32,aes:soft32c quick_variants=aes:soft64 est=225 need=10 desc="W(PAR, fixed lane): Aes128::decrypt_blocks on one full batch: the LAST output block == InvCipher(rk, last input block), other lanes havocked; all round keys, all blocks"
soft_parl_dec!(soft_parl_dec128, fx::mk128, crate::Aes128, 10, 88);
//@ harness name=soft_conv128 prop=C12 tier=quick bits=5632 est=15 desc="D: Aes128::from(&enc), Aes128::from(enc), Aes128Dec::from(&enc), Aes128Dec::from(enc) and Clone of all three forms carry exactly the key words of the source; arbitrary key words (superset of all keys)"
soft_conv!(soft_conv128, fx::mk128e, fx::k128, fx::k128e, fx::k128d, crate::Aes128, crate::Aes128Dec, 88);
//@ harness name=soft_total128 prop=C20 tier=quick bits=5760 est=95 need=6 desc="D: Aes128 encrypt_block and decrypt_block return (no overflow / bounds / debug_assert failure) on ARBITRARY key words (not only reachable ones) and every block; real S-box circuits"
soft_total!(soft_total128, fx::mk128, 88);

// ------------------------------------------------------------------------------------------------ AES-192
//@ harness name=soft_ks192 prop=C02,C03,C12 tier=quick bits=192 stub=1 variants=aes:soft64,aes:soft64c,aes:soft32,aes:soft32c quick=C03 est=100 need=5 desc="W(KS): key words of Aes192::new(key) == fixslice format of FIPS-197 KeyExpansion(key) (Nk = 6: the shifted/masked half-key recombination of aes192_key_schedule); all 2^192 keys; S-box uninterpreted"
soft_ks!(soft_ks192, crate::Aes192, fx::k192, 24, 12, 104);
//@ harness name=soft_ks192e prop=C02,C03,C12 tier=thorough bits=192 stub=1 est=160 variants=aes:soft64,aes:soft64c,aes:soft32,aes:soft32c desc="W(KS): key words of Aes192Enc::new(key) == fixslice format of KeyExpansion(key); all keys"
soft_ks!(soft_ks192e, crate::Aes192Enc, fx::k192e, 24, 12, 104);
//@ harness name=soft_ks192d prop=C02,C03,C12 tier=thorough bits=192 stub=1 est=160 variants=aes:soft64,aes:soft64c,aes:soft32,aes:soft32c desc="W(KS): key words of Aes192Dec::new(key) == fixslice format of KeyExpansion(key); all keys"
soft_ks!(soft_ks192d, crate::Aes192Dec, fx::k192d, 24, 12, 104);
//@ harness name=soft_enc192 prop=C02,C03,C20 tier=thorough bits=1792 stub=1 variants=aes:soft64,aes:soft64c,aes:soft32,aes:soft32c quick_variants=aes:soft64 est=165 need=10 desc="W(ENC): Aes192 on the state m_keys(rk): encrypt_block(b) == FIPS-197 Cipher(rk, b), 12 rounds; all 13 round keys, all blocks; S-box uninterpreted on lane 0, padding lanes havocked"
soft_enc!(soft_enc192, fx::mk192, 12, 104);
//@ harness name=soft_enc192e prop=C02,C03,C12 tier=thorough bits=1792 stub=1 est=260 variants=aes:soft64,aes:soft64c,aes:soft32,aes:soft32c desc="W(ENC): Aes192Enc on the state m_keys(rk): encrypt_block(b) == Cipher(rk, b); all round keys, all blocks"
soft_enc!(soft_enc192e, fx::mk192e, 12, 104);
//@ harness name=soft_dec192 prop=C02,C03,C20 tier=thorough bits=1792 stub=1 est=335 variants=aes:soft64,aes:soft64c,aes:soft32,aes:soft32c desc="W(DEC): Aes192 on the state m_keys(rk): decrypt_block(b) == FIPS-197 InvCipher(rk, b); all round keys, all blocks"
soft_dec!(soft_dec192, fx::mk192, 12, 104);
//@ harness name=soft_dec192d prop=C02,C03,C12 tier=thorough bits=1792 stub=1 est=335 variants=aes:soft64,aes:soft64c,aes:soft32,aes:soft32c desc="W(DEC): Aes192Dec on the state m_keys(rk): decrypt_block(b) == InvCipher(rk, b); all round keys, all blocks"
soft_dec!(soft_dec192d, fx::mk192d, 12, 104);
//@ harness name=soft_par_enc192 prop=C04,C03 tier=thorough bits=2178 stub=1 est=465 variants=aes:soft64,aes:soft64c,aes:soft32,aes:soft32c desc="W(PAR): Aes192::encrypt_blocks on one full batch: output block `lane` == Cipher(rk, input block `lane`), lane symbolic, other lanes havocked"
soft_par_enc!(soft_par_enc192, fx::mk192, crate::Aes192, 12, 104);
//@ harness name=soft_par_dec192 prop=C04,C03 tier=thorough bits=2178 stub=1 est=510 variants=aes:soft64,aes:soft64c,aes:soft32,aes:soft32c desc="W(PAR): Aes192::decrypt_blocks on one full batch: output block `lane` == InvCipher(rk, input block `lane`), lane symbolic, other lanes havocked"
soft_par_dec!(soft_par_dec192, fx::mk192, crate::Aes192, 12, 104);
//@ harness name=soft_conv192 prop=C12 tier=quick bits=6656 variants=aes:soft64,aes:soft64c,aes:soft32,aes:soft32c est=15 desc="D: Aes192 / Aes192Dec From<Aes192Enc>, From<&Aes192Enc> and Clone carry exactly the key words of the source; arbitrary key words"
soft_conv!(soft_conv192, fx::mk192e, fx::k192, fx::k192e, fx::k192d, crate::Aes192, crate::Aes192Dec, 104);
//@ harness name=soft_total192 prop=C20 tier=quick bits=6784 variants=aes:soft64,aes:soft64c,aes:soft32,aes:soft32c est=90 need=6 desc="D: Aes192 encrypt_block and decrypt_block return on arbitrary key words and every block; real S-box circuits"
soft_total!(soft_total192, fx::mk192, 104);

// ------------------------------------------------------------------------------------------------ AES-256
//@ harness name=soft_ks256 prop=C02,C03,C12 tier=quick bits=256 stub=1 variants=aes:soft64,aes:soft64c,aes:soft32,aes:soft32c quick=C03 est=165 need=7 desc="W(KS): key words of Aes256::new(key) == fixslice format of FIPS-197 KeyExpansion(key) (Nk = 8: the extra SubWord step without rotation); all 2^256 keys; S-box uninterpreted"
soft_ks!(soft_ks256, crate::Aes256, fx::k256, 32, 14, 120);
//@ harness name=soft_ks256e prop=C02,C03,C12 tier=thorough bits=256 stub=1 est=200 variants=aes:soft64,aes:soft64c,aes:soft32,aes:soft32c desc="W(KS): key words of Aes256Enc::new(key) == fixslice format of KeyExpansion(key); all keys"
soft_ks!(soft_ks256e, crate::Aes256Enc, fx::k256e, 32, 14, 120);
//@ harness name=soft_ks256d prop=C02,C03,C12 tier=thorough bits=256 stub=1 est=200 variants=aes:soft64,aes:soft64c,aes:soft32,aes:soft32c desc="W(KS): key words of Aes256Dec::new(key) == fixslice format of KeyExpansion(key); all keys"
soft_ks!(soft_ks256d, crate::Aes256Dec, fx::k256d, 32, 14, 120);
//@ harness name=soft_enc256 prop=C02,C03,C20 tier=thorough bits=2048 stub=1 variants=aes:soft64,aes:soft64c,aes:soft32,aes:soft32c quick_variants=aes:soft64 est=210 need=11 desc="W(ENC): Aes256 on the state m_keys(rk): encrypt_block(b) == FIPS-197 Cipher(rk, b), 14 rounds; all 15 round keys, all blocks; S-box uninterpreted on lane 0, padding lanes havocked"
soft_enc!(soft_enc256, fx::mk256, 14, 120);
//@ harness name=soft_enc256e prop=C02,C03,C12 tier=thorough bits=2048 stub=1 est=295 variants=aes:soft64,aes:soft64c,aes:soft32,aes:soft32c desc="W(ENC): Aes256Enc on the state m_keys(rk): encrypt_block(b) == Cipher(rk, b); all round keys, all blocks"
soft_enc!(soft_enc256e, fx::mk256e, 14, 120);
//@ harness name=soft_dec256 prop=C02,C03,C20 tier=thorough bits=2048 stub=1 est=450 variants=aes:soft64,aes:soft64c,aes:soft32,aes:soft32c desc="W(DEC): Aes256 on the state m_keys(rk): decrypt_block(b) == FIPS-197 InvCipher(rk, b); all round keys, all blocks"
soft_dec!(soft_dec256, fx::mk256, 14, 120);
//@ harness name=soft_dec256d prop=C02,C03,C12 tier=thorough bits=2048 stub=1 est=450 variants=aes:soft64,aes:soft64c,aes:soft32,aes:soft32c desc="W(DEC): Aes256Dec on the state m_keys(rk): decrypt_block(b) == InvCipher(rk, b); all round keys, all blocks"
soft_dec!(soft_dec256d, fx::mk256d, 14, 120);
//@ harness name=soft_par_enc256 prop=C04,C03 tier=thorough bits=2434 stub=1 est=525 variants=aes:soft64,aes:soft64c,aes:soft32,aes:soft32c desc="W(PAR): Aes256::encrypt_blocks on one full batch: output block `lane` == Cipher(rk, input block `lane`), lane symbolic, other lanes havocked"
soft_par_enc!(soft_par_enc256, fx::mk256, crate::Aes256, 14, 120);
//@ harness name=soft_par_dec256 prop=C04,C03 tier=thorough bits=2434 stub=1 est=740 variants=aes:soft64,aes:soft64c,aes:soft32,aes:soft32c desc="W(PAR): Aes256::decrypt_blocks on one full batch: output block `lane` == InvCipher(rk, input block `lane`), lane symbolic, other lanes havocked"
soft_par_dec!(soft_par_dec256, fx::mk256, crate::Aes256, 14, 120);
//@ harness name=soft_conv256 prop=C12 tier=quick bits=7680 variants=aes:soft64,aes:soft64c,aes:soft32,aes:soft32c est=15 desc="D: Aes256 / Aes256Dec From<Aes256Enc>, From<&Aes256Enc> and Clone carry exactly the key words of the source; arbitrary key words"
soft_conv!(soft_conv256, fx::mk256e, fx::k256, fx::k256e, fx::k256d, crate::Aes256, crate::Aes256Dec, 120);
//@ harness name=soft_total256 prop=C20 tier=quick bits=7808 variants=aes:soft64,aes:soft64c,aes:soft32,aes:soft32c est=140 need=8 desc="D: Aes256 encrypt_block and decrypt_block return on arbitrary key words and every block; real S-box circuits"
soft_total!(soft_total256, fx::mk256, 120);

// C02 / C03 / C12 — AES on the x86 build (autodetect -> AES-NI arm, and autodetect -> soft fallback selection):
// the public types Aes{128,192,256}{,Enc,Dec} vs FIPS-197 (oracle refmodels::aes), all keys, all blocks.
// W queries: the unkeyed round bodies computed by AESENC/AESENCLAST/AESDEC/AESDECLAST, InvMixColumns (AESIMC) and the
// S-box of AESKEYGENASSIST are uninterpreted functions shared by the intrinsic models (ni_model.rs) and the oracle.
// Decided: key expansion sequences (aeskeygenassist + shuffles/shifts per key size), inverse key derivation and order,
// round sequencing (KEYS == 11/13/15), loads/stores, union arm selection by the CPUID token.
use super::ni_model::{self, *};
use super::prelude::*;
use cipher::{BlockCipherDecrypt, BlockCipherEncrypt, KeyInit};
use refmodels::aes as ra;

macro_rules! ni_harness {
    ($name:ident, $bytes:expr, |$inp:ident| $body:block) => {
        verif_harness! {
            name: $name,
            bytes: $bytes,
            unwind: 70,
            stubs: [
                (core::arch::x86_64::__cpuid, ni_model::m_cpuid),
                (core::arch::x86_64::__cpuid_count, ni_model::m_cpuid_count),
                (core::arch::x86_64::_xgetbv, ni_model::m_xgetbv),
                (core::arch::x86_64::_mm_aesenc_si128, ni_model::m_aesenc),
                (core::arch::x86_64::_mm_aesenclast_si128, ni_model::m_aesenclast),
                (core::arch::x86_64::_mm_aesdec_si128, ni_model::m_aesdec),
                (core::arch::x86_64::_mm_aesdeclast_si128, ni_model::m_aesdeclast),
                (core::arch::x86_64::_mm_aesimc_si128, ni_model::m_aesimc),
                (core::arch::x86_64::_mm_aeskeygenassist_si128, ni_model::m_aeskeygenassist)
            ],
            prop: |$inp| $body
        }
    };
}

fn oracle_enc(key: &[u8], nk: usize, blk: &[u8; 16]) -> [u8; 16] {
    let rk = ra::key_expansion_with(key, nk, o_subword);
    ra::cipher_with(&rk, nk + 6, blk, o_enc, o_last)
}
fn oracle_dec(key: &[u8], nk: usize, blk: &[u8; 16]) -> [u8; 16] {
    // FIPS-197 5.3.5 equivalent inverse cipher (equal to InvCipher by the oracle-only lemmas below)
    let rk = ra::key_expansion_with(key, nk, o_subword);
    let dw = ra::eq_inv_keys_with(&rk, nk + 6, o_imc);
    ra::eq_inv_cipher_with(&dw, nk + 6, blk, o_dec, o_declast)
}

macro_rules! ni_conf {
    ($enc_name:ident, $dec_name:ident, $ty:ty, $klen:expr) => {
        ni_harness!($enc_name, $klen + 16, |inp| {
            ni_model::set_cpu(true);
            let key: [u8; $klen] = take(inp, 0);
            let blk: [u8; 16] = take(inp, $klen);
            let c = <$ty>::new(&key.into());
            let mut b = blk.into();
            c.encrypt_block(&mut b);
            // no Drop: on the zeroize build dropping the instance is a 704-byte volatile-write loop (C16's subject, not this one)
            core::mem::forget(c);
            Some(b.0 == oracle_enc(&key, $klen / 4, &blk))
        });
        ni_harness!($dec_name, $klen + 16, |inp| {
            ni_model::set_cpu(true);
            let key: [u8; $klen] = take(inp, 0);
            let blk: [u8; 16] = take(inp, $klen);
            let c = <$ty>::new(&key.into());
            let mut b = blk.into();
            c.decrypt_block(&mut b);
            core::mem::forget(c);
            Some(b.0 == oracle_dec(&key, $klen / 4, &blk))
        });
    };
}
macro_rules! ni_conf_enc_only {
    ($enc_name:ident, $ty:ty, $klen:expr) => {
        ni_harness!($enc_name, $klen + 16, |inp| {
            ni_model::set_cpu(true);
            let key: [u8; $klen] = take(inp, 0);
            let blk: [u8; 16] = take(inp, $klen);
            let c = <$ty>::new(&key.into());
            let mut b = blk.into();
            c.encrypt_block(&mut b);
            // no Drop: on the zeroize build dropping the instance is a 704-byte volatile-write loop (C16's subject, not this one)
            core::mem::forget(c);
            Some(b.0 == oracle_enc(&key, $klen / 4, &blk))
        });
    };
}
macro_rules! ni_conf_dec_only {
    ($dec_name:ident, $ty:ty, $klen:expr) => {
        ni_harness!($dec_name, $klen + 16, |inp| {
            ni_model::set_cpu(true);
            let key: [u8; $klen] = take(inp, 0);
            let blk: [u8; 16] = take(inp, $klen);
            let c = <$ty>::new(&key.into());
            let mut b = blk.into();
            c.decrypt_block(&mut b);
            core::mem::forget(c);
            Some(b.0 == oracle_dec(&key, $klen / 4, &blk))
        });
    };
}

//@ harness name=aes128_ni_enc prop=C02,C03 tier=quick bits=256 stub=1 variants=aes:ni,aes:ni+zeroize,aes:ni+hazmat est=85 desc="W: Aes128::new(key).encrypt_block(b) (autodetect -> AES-NI arm) == FIPS-197 KeyExpansion + Cipher; all 2^128 keys x 2^128 blocks; round bodies and S-box uninterpreted (shared with the intrinsic models)"
//@ harness name=aes128_ni_dec prop=C02,C03 tier=quick bits=256 stub=1 variants=aes:ni,aes:ni+zeroize,aes:ni+hazmat est=85 desc="W: Aes128::new(key).decrypt_block(b) (AES-NI arm, aesimc-transformed keys) == FIPS-197 EqInvCipher; all keys and blocks"
ni_conf!(aes128_ni_enc, aes128_ni_dec, crate::Aes128, 16);
//@ harness name=aes192_ni_enc prop=C02,C03 tier=quick bits=320 stub=1 variants=aes:ni est=65 desc="W: Aes192 encrypt (AES-NI arm; 192-bit expansion with the shuffle() recombination) == FIPS-197; all keys and blocks"
//@ harness name=aes192_ni_dec prop=C02,C03 tier=quick bits=320 stub=1 variants=aes:ni est=75 desc="W: Aes192 decrypt (AES-NI arm) == FIPS-197 EqInvCipher; all keys and blocks"
ni_conf!(aes192_ni_enc, aes192_ni_dec, crate::Aes192, 24);
//@ harness name=aes256_ni_enc prop=C02,C03 tier=quick bits=384 stub=1 variants=aes:ni est=115 desc="W: Aes256 encrypt (AES-NI arm; 256-bit expansion with the extra SubWord step) == FIPS-197; all keys and blocks"
//@ harness name=aes256_ni_dec prop=C02,C03 tier=quick bits=384 stub=1 variants=aes:ni est=120 desc="W: Aes256 decrypt (AES-NI arm) == FIPS-197 EqInvCipher; all keys and blocks"
ni_conf!(aes256_ni_enc, aes256_ni_dec, crate::Aes256, 32);

//@ harness name=aes128enc_ni prop=C02,C12 tier=quick bits=256 stub=1 variants=aes:ni quick=C12 est=65 desc="W: Aes128Enc::new(key).encrypt_block == FIPS-197 Cipher (encrypt-only type, own constructor), AES-NI arm"
ni_conf_enc_only!(aes128enc_ni, crate::Aes128Enc, 16);
//@ harness name=aes128dec_ni prop=C02,C12 tier=quick bits=256 stub=1 variants=aes:ni quick=C12 est=80 desc="W: Aes128Dec::new(key).decrypt_block == FIPS-197 EqInvCipher (decrypt-only type, own constructor), AES-NI arm"
ni_conf_dec_only!(aes128dec_ni, crate::Aes128Dec, 16);
//@ harness name=aes192enc_ni prop=C02,C12 tier=thorough bits=320 stub=1 est=300 variants=aes:ni desc="W: Aes192Enc encrypt == FIPS-197, AES-NI arm"
ni_conf_enc_only!(aes192enc_ni, crate::Aes192Enc, 24);
//@ harness name=aes192dec_ni prop=C02,C12 tier=thorough bits=320 stub=1 est=300 variants=aes:ni desc="W: Aes192Dec decrypt == FIPS-197 EqInvCipher, AES-NI arm"
ni_conf_dec_only!(aes192dec_ni, crate::Aes192Dec, 24);
//@ harness name=aes256enc_ni prop=C02,C12 tier=thorough bits=384 stub=1 est=300 variants=aes:ni desc="W: Aes256Enc encrypt == FIPS-197, AES-NI arm"
ni_conf_enc_only!(aes256enc_ni, crate::Aes256Enc, 32);
//@ harness name=aes256dec_ni prop=C02,C12 tier=thorough bits=384 stub=1 est=300 variants=aes:ni desc="W: Aes256Dec decrypt == FIPS-197 EqInvCipher, AES-NI arm"
ni_conf_dec_only!(aes256dec_ni, crate::Aes256Dec, 32);

// ---- oracle-only lemmas: FIPS-197 5.3.5 — the two facts that make EqInvCipher equal InvCipher
// (FIPS-197 5.3.5: EqInvCipher == InvCipher because InvMixColumns is linear and InvShiftRows commutes with the bytewise
// InvSubBytes; one query per fact, each over one state column / one state where that suffices)
//@ harness name=fips_imc_linear prop=C02 tier=quick bits=64 est=35 desc="oracle lemma (FIPS-197 5.3.5): InvMixColumns(x ^ k) == InvMixColumns(x) ^ InvMixColumns(k) on a state whose first column is symbolic in x and k (columns are mixed independently by the same matrix); all 2^32 x 2^32 column values"
verif_harness! {
    name: fips_imc_linear,
    bytes: 8,
    unwind: 20,
    prop: |inp| {
        let mut x = [0u8; 16];
        let mut k = [0u8; 16];
        let mut i = 0;
        while i < 4 {
            x[i] = inp[i];
            k[i] = inp[4 + i];
            i += 1;
        }
        Some(ra::inv_mix_columns(&ra::xor(&x, &k)) == ra::xor(&ra::inv_mix_columns(&x), &ra::inv_mix_columns(&k)))
    }
}
//@ harness name=fips_mc_inverse prop=C02,C17 tier=quick bits=268 est=75 desc="oracle lemma, FIPS MixColumns M and InvMixColumns I are mutual inverses: (a) M(x^y) == M(x)^M(y) and I(x^y) == I(x)^I(y) for all 2^128 x 2^128 pairs, (b) I(M(e)) == e and M(I(e)) == e for every state e with a single non-zero byte (position and value symbolic); every state is the XOR of its 16 single-byte components, so (a)+(b) give I o M == M o I == id (the direct composition query is a wide-parity equivalence that does not finish)"
verif_harness! {
    name: fips_mc_inverse,
    bytes: 34,
    unwind: 70,
    prop: |inp| {
        let x: [u8; 16] = take(inp, 0);
        let y: [u8; 16] = take(inp, 16);
        let xy = ra::xor(&x, &y);
        vcheck!(ra::mix_columns(&xy) == ra::xor(&ra::mix_columns(&x), &ra::mix_columns(&y)));
        vcheck!(ra::inv_mix_columns(&xy) == ra::xor(&ra::inv_mix_columns(&x), &ra::inv_mix_columns(&y)));
        let j = inp[32] as usize;
        vassume!(j < 16);
        let mut e = [0u8; 16];
        e[j] = inp[33];
        vcheck!(ra::inv_mix_columns(&ra::mix_columns(&e)) == e);
        Some(ra::mix_columns(&ra::inv_mix_columns(&e)) == e)
    }
}
//@ harness name=fips_shiftrows_commute prop=C02 tier=quick bits=128 est=10 desc="oracle lemma: InvShiftRows and ShiftRows are mutually inverse, and InvShiftRows commutes with the bytewise InvSubBytes (it only moves bytes); all 2^128 states"
verif_harness! {
    name: fips_shiftrows_commute,
    bytes: 16,
    unwind: 20,
    prop: |inp| {
        let x: [u8; 16] = *inp;
        vcheck!(ra::inv_shift_rows(&ra::shift_rows(&x)) == x);
        vcheck!(ra::shift_rows(&ra::inv_shift_rows(&x)) == x);
        // InvShiftRows only moves bytes: applying a bytewise map before or after gives the same state.  The bytewise map
        // used is the real InvSubBytes table.
        Some(ra::sub_bytes_with(&ra::inv_shift_rows(&x), &ra::inv_sbox) == ra::inv_shift_rows(&ra::sub_bytes_with(&x, &ra::inv_sbox)))
    }
}
//@ harness name=fips_sbox_inverse prop=C02 tier=quick bits=8 est=10 desc="oracle lemma: InvSubBytes(SubBytes(x)) == x for all bytes (generated S-box tables are mutually inverse permutations)"
verif_harness! {
    name: fips_sbox_inverse,
    bytes: 1,
    unwind: 20,
    prop: |inp| {
        vcheck!(ra::inv_sbox(ra::sbox(inp[0])) == inp[0]);
        Some(ra::sbox(ra::inv_sbox(inp[0])) == inp[0])
    }
}

// ---- C13 for the AES types of this build: weak_key_test fails exactly when the upper half of the key is zero
macro_rules! aes_weak {
    ($name:ident, $ty:ty, $klen:expr) => {
        verif_harness! {
            name: $name,
            bytes: $klen,
            unwind: 40,
            prop: |inp| {
                let key: [u8; $klen] = *inp;
                let mut upper_zero = true;
                let mut i = 0;
                while i < $klen / 2 {
                    upper_zero &= key[i] == 0;
                    i += 1;
                }
                Some(<$ty as KeyInit>::weak_key_test(&key.into()).is_err() == upper_zero)
            }
        }
    };
}
//@ harness name=aes128_weak prop=C13 tier=quick bits=128 est=10 desc="Aes128::weak_key_test(k) fails <=> the first 8 key bytes are zero; all 2^128 keys"
aes_weak!(aes128_weak, crate::Aes128, 16);
//@ harness name=aes192_weak prop=C13 tier=quick bits=192 est=10 desc="Aes192::weak_key_test(k) fails <=> the first 12 key bytes are zero; all 2^192 keys"
aes_weak!(aes192_weak, crate::Aes192, 24);
//@ harness name=aes256_weak prop=C13 tier=quick bits=256 est=10 desc="Aes256::weak_key_test(k) fails <=> the first 16 key bytes are zero; all 2^256 keys"
aes_weak!(aes256_weak, crate::Aes256, 32);
//@ harness name=aes128enc_weak prop=C13 tier=quick bits=128 est=10 desc="Aes128Enc::weak_key_test: upper half zero, all keys"
aes_weak!(aes128enc_weak, crate::Aes128Enc, 16);
//@ harness name=aes128dec_weak prop=C13 tier=quick bits=128 est=10 desc="Aes128Dec::weak_key_test: upper half zero, all keys"
aes_weak!(aes128dec_weak, crate::Aes128Dec, 16);
//@ harness name=aes192enc_weak prop=C13 tier=quick bits=192 est=10 desc="Aes192Enc::weak_key_test: upper half zero, all keys"
aes_weak!(aes192enc_weak, crate::Aes192Enc, 24);
//@ harness name=aes192dec_weak prop=C13 tier=quick bits=192 est=10 desc="Aes192Dec::weak_key_test: upper half zero, all keys"
aes_weak!(aes192dec_weak, crate::Aes192Dec, 24);
//@ harness name=aes256enc_weak prop=C13 tier=quick bits=256 est=10 desc="Aes256Enc::weak_key_test: upper half zero, all keys"
aes_weak!(aes256enc_weak, crate::Aes256Enc, 32);
//@ harness name=aes256dec_weak prop=C13 tier=quick bits=256 est=10 desc="Aes256Dec::weak_key_test: upper half zero, all keys"
aes_weak!(aes256dec_weak, crate::Aes256Dec, 32);

// AES, ARMv8 Cryptography-Extensions backend (shadow variants "aes:armv8", "aes:armv8+zeroize", "aes:armv8+hazmat",
// plans/fam_g.py): cross-cutting properties of the autodetect types with the intrinsics arm = crate::armv8.
//   C12  conversions and clones        W queries, same abstraction as c02_arm.rs
//   C04  21/19/17-wide batch paths     instruction model in TAGGED mode (arm_model.rs header: sound over-approximation)
//   (C16 zeroize on drop: inner module harness/aes/auto_inner_arm.rs of crate::autodetect)
//   C17  armv8/hazmat.rs               CONCRETE instruction model vs the FIPS-197 round transformations of the oracle
// (never compiled: lets lib/bcv/shadow.py find the cuf1! invocations of the instruction model, which is copied into the
// shadow crate as src/verif_arch.rs and is not a harness file)
#[cfg(any())]
#[path = "/verif/harness/aes/arm_model.rs"]
mod scan_arm_model;
use super::ni_model;
use super::prelude::*;
use crate::verif_arch as va;
use cipher::{Block, BlockCipherDecrypt, BlockCipherEncrypt, KeyInit};
use refmodels::aes as ra;

macro_rules! arm_harness {
    ($name:ident, $bytes:expr, $unwind:expr, |$inp:ident| $body:block) => {
        verif_harness! {
            name: $name,
            bytes: $bytes,
            unwind: $unwind,
            stubs: [
                (core::arch::x86_64::__cpuid, ni_model::m_cpuid),
                (core::arch::x86_64::__cpuid_count, ni_model::m_cpuid_count),
                (core::arch::x86_64::_xgetbv, ni_model::m_xgetbv),
                (crate::armv8::expand::sub_word, crate::verif_arch::stub_sub_word)
            ],
            prop: |$inp| $body
        }
    };
}
fn enc<C: BlockCipherEncrypt<BlockSize = cipher::consts::U16>>(c: &C, blk: &[u8; 16]) -> [u8; 16] {
    let mut b: cipher::array::Array<u8, cipher::consts::U16> = (*blk).into();
    c.encrypt_block(&mut b);
    b.0
}
fn dec<C: BlockCipherDecrypt<BlockSize = cipher::consts::U16>>(c: &C, blk: &[u8; 16]) -> [u8; 16] {
    let mut b: cipher::array::Array<u8, cipher::consts::U16> = (*blk).into();
    c.decrypt_block(&mut b);
    b.0
}

// ------------------------------------------------------------------ C12: conversions and clones (ARMv8 arm)
// want_e / want_d: FIPS-197 Cipher / EqInvCipher of the oracle over the shared uninterpreted functions, computed once.
macro_rules! conv_set {
    ($pfx_val:ident, $pfx_ref:ident, $pfx_dec:ident, $pfx_clone:ident, $comb:ty, $enc:ty, $dec:ty, $klen:expr) => {
        arm_harness!($pfx_val, $klen + 16, 70, |inp| {
            ni_model::set_cpu(true);
            let key: [u8; $klen] = take(inp, 0);
            let blk: [u8; 16] = take(inp, $klen);
            let nr = $klen / 4 + 6;
            let rk = va::oracle_rk(&key);
            let want_e = va::oracle_enc_rk(&rk, nr, &blk);
            let want_d = va::oracle_dec_dw(&va::oracle_dw(&rk, nr), nr, &blk);
            let c = <$comb>::from(<$enc>::new(&key.into()));
            vcheck!(enc(&c, &blk) == want_e);
            Some(dec(&c, &blk) == want_d)
        });
        arm_harness!($pfx_ref, $klen + 16, 70, |inp| {
            ni_model::set_cpu(true);
            let key: [u8; $klen] = take(inp, 0);
            let blk: [u8; 16] = take(inp, $klen);
            let nr = $klen / 4 + 6;
            let rk = va::oracle_rk(&key);
            let want_e = va::oracle_enc_rk(&rk, nr, &blk);
            let want_d = va::oracle_dec_dw(&va::oracle_dw(&rk, nr), nr, &blk);
            let e = <$enc>::new(&key.into());
            let c = <$comb>::from(&e);
            vcheck!(enc(&c, &blk) == want_e);
            vcheck!(dec(&c, &blk) == want_d);
            // the source instance is still usable and unchanged in function
            Some(enc(&e, &blk) == want_e)
        });
        arm_harness!($pfx_dec, $klen + 16, 70, |inp| {
            ni_model::set_cpu(true);
            let key: [u8; $klen] = take(inp, 0);
            let blk: [u8; 16] = take(inp, $klen);
            let nr = $klen / 4 + 6;
            let rk = va::oracle_rk(&key);
            let want_d = va::oracle_dec_dw(&va::oracle_dw(&rk, nr), nr, &blk);
            let e = <$enc>::new(&key.into());
            let d1 = <$dec>::from(&e);
            vcheck!(dec(&d1, &blk) == want_d);
            let d2 = <$dec>::from(e);
            Some(dec(&d2, &blk) == want_d)
        });
        arm_harness!($pfx_clone, $klen + 16, 70, |inp| {
            ni_model::set_cpu(true);
            let key: [u8; $klen] = take(inp, 0);
            let blk: [u8; 16] = take(inp, $klen);
            let nr = $klen / 4 + 6;
            let rk = va::oracle_rk(&key);
            let want_e = va::oracle_enc_rk(&rk, nr, &blk);
            let want_d = va::oracle_dec_dw(&va::oracle_dw(&rk, nr), nr, &blk);
            // clone of a converted instance, clones of the halves (each with its own constructor)
            let c = <$comb>::from(&<$enc>::new(&key.into())).clone();
            vcheck!(enc(&c, &blk) == want_e);
            vcheck!(dec(&c, &blk) == want_d);
            let e = <$enc>::new(&key.into()).clone();
            vcheck!(enc(&e, &blk) == want_e);
            let d = <$dec>::new(&key.into()).clone();
            Some(dec(&d, &blk) == want_d)
        });
    };
}
//@ harness name=aes128_arm_from_enc_val prop=C12 tier=quick bits=256 stub=1 variants=aes:armv8 est=40 desc="Aes128::from(Aes128Enc::new(k)) (by value) encrypts and decrypts as FIPS-197 for all keys and blocks (inverse keys derived from the encryption keys by AESIMC), ARMv8 arm"
//@ harness name=aes128_arm_from_enc_ref prop=C12 tier=quick bits=256 stub=1 variants=aes:armv8 est=50 desc="Aes128::from(&enc) encrypts/decrypts as FIPS-197 and leaves enc working; all keys and blocks, ARMv8 arm"
//@ harness name=aes128_arm_dec_from_enc prop=C12 tier=quick bits=256 stub=1 variants=aes:armv8 est=95 desc="Aes128Dec::from(&enc) and Aes128Dec::from(enc) decrypt as FIPS-197; all keys and blocks, ARMv8 arm"
//@ harness name=aes128_arm_clones prop=C12 tier=thorough bits=256 stub=1 est=310 variants=aes:armv8 desc="clone of a converted Aes128, clone of Aes128Enc, clone of Aes128Dec compute FIPS-197 (hand-written Clone over the union arm selected by the token; derived Clone of the armv8 key arrays); all keys and blocks"
conv_set!(aes128_arm_from_enc_val, aes128_arm_from_enc_ref, aes128_arm_dec_from_enc, aes128_arm_clones, crate::Aes128, crate::Aes128Enc, crate::Aes128Dec, 16);
//@ harness name=aes192_arm_from_enc_val prop=C12 tier=quick bits=320 stub=1 variants=aes:armv8 est=50 desc="Aes192::from(Aes192Enc) conforms, all keys and blocks, ARMv8 arm"
//@ harness name=aes192_arm_from_enc_ref prop=C12 tier=quick bits=320 stub=1 variants=aes:armv8 est=75 desc="Aes192::from(&enc) conforms, all keys and blocks, ARMv8 arm"
//@ harness name=aes192_arm_dec_from_enc prop=C12 tier=quick bits=320 stub=1 variants=aes:armv8 est=120 desc="Aes192Dec::from(enc / &enc) conforms, ARMv8 arm"
//@ harness name=aes192_arm_clones prop=C12 tier=thorough bits=320 stub=1 est=460 variants=aes:armv8 desc="clones of Aes192 / Aes192Enc / Aes192Dec conform, ARMv8 arm"
conv_set!(aes192_arm_from_enc_val, aes192_arm_from_enc_ref, aes192_arm_dec_from_enc, aes192_arm_clones, crate::Aes192, crate::Aes192Enc, crate::Aes192Dec, 24);
//@ harness name=aes256_arm_from_enc_val prop=C12 tier=quick bits=384 stub=1 variants=aes:armv8 est=175 desc="Aes256::from(Aes256Enc) conforms, all keys and blocks, ARMv8 arm"
//@ harness name=aes256_arm_from_enc_ref prop=C12 tier=thorough bits=384 stub=1 est=310 variants=aes:armv8 desc="Aes256::from(&enc) conforms, all keys and blocks, ARMv8 arm"
//@ harness name=aes256_arm_dec_from_enc prop=C12 tier=quick bits=384 stub=1 variants=aes:armv8 est=175 need=4 desc="Aes256Dec::from(enc / &enc) conforms, ARMv8 arm"
//@ harness name=aes256_arm_clones prop=C12 tier=thorough bits=384 stub=1 est=670 variants=aes:armv8 desc="clones of Aes256 / Aes256Enc / Aes256Dec conform, ARMv8 arm"
conv_set!(aes256_arm_from_enc_val, aes256_arm_from_enc_ref, aes256_arm_dec_from_enc, aes256_arm_clones, crate::Aes256, crate::Aes256Enc, crate::Aes256Dec, 32);

// ------------------------------------------------------------------ C04: the W-wide ARMv8 batch paths (W = 21 / 19 / 17)
// n blocks; per-block reference = the single-block call on the same instance.  Two harness forms over the same n blocks:
//   ip   reference pass + in-place multi-block call on n blocks carved out of a byte buffer at offset `off` (symbolic
//        0..=15 in the small harnesses, the odd constant 7 in the large ones: the code under test never inspects
//        addresses, and vld1q_u8/vst1q_u8 have no alignment requirement), 0xC3 guard bytes before and after;
//   b2b  reference pass + buffer-to-buffer multi-block call: separate input unchanged, output as per block.
// The instruction model runs in TAGGED mode: the call of round r on block j of the multi-block pass is constrained to
// agree with the (r, j) call of the reference pass when their arguments agree (constant cost per call instead of the
// quadratic Ackermann log, which makes n = W + 1 = 22 blocks x 19 instructions x 2 passes feasible).  Checks are
// accumulated without early returns (keeps the path guards of the symbolic execution small).
macro_rules! arm_batch {
    (@common $inp:ident, $ty:ty, $klen:expr, $w:expr, $n:expr, $dec:expr, $c:ident, $r:ident) => {
        ni_model::set_cpu(true);
        const N: usize = $n;
        const W: usize = $w;
        const R: usize = $klen / 4 + 6;
        let key: [u8; $klen] = take($inp, 0);
        let $c = <$ty>::new(&key.into());
        // reference pass: N single-block calls
        va::tag::begin_pass(0, W, R);
        let mut $r = [[0u8; 16]; N];
        let mut j = 0;
        while j < N {
            let x: [u8; 16] = take($inp, $klen + 16 * j);
            let mut b: Block<$ty> = x.into();
            if $dec { $c.decrypt_block(&mut b) } else { $c.encrypt_block(&mut b) };
            $r[j] = b.0;
            j += 1;
        }
        va::tag::begin_pass(N / W, W, R);
    };
    (ip, $name:ident, $ty:ty, $klen:expr, $w:expr, $n:expr, $dec:expr, $off:expr) => {
        arm_harness!($name, $klen + 16 * $n + 1, 400, |inp| {
            arm_batch!(@common inp, $ty, $klen, $w, $n, $dec, c, r);
            let off: usize = $off(inp[$klen + 16 * N]);      // direct call (a fn pointer would make `off` symbolic for the solver)
            let mut good = true;
            let mut buf = [0xC3u8; 16 * N + 32];
            let mut j = 0;
            while j < 16 * N {
                buf[off + j] = inp[$klen + j];
                j += 1;
            }
            {
                let blocks: &mut [Block<$ty>] = unsafe { core::slice::from_raw_parts_mut(buf.as_mut_ptr().add(off) as *mut Block<$ty>, N) };
                if $dec { c.decrypt_blocks(blocks) } else { c.encrypt_blocks(blocks) };
            }
            va::tag::end();
            j = 0;
            while j < 16 * N + 32 {
                let want = if j >= off && j < off + 16 * N { r[(j - off) / 16][(j - off) % 16] } else { 0xC3 };
                good &= buf[j] == want;
                j += 1;
            }
            Some(good)
        });
    };
    (ipc, $name:ident, $ty:ty, $klen:expr, $w:expr, $n:expr, $dec:expr) => {
        arm_harness!($name, $klen + 16 * $n, 400, |inp| {
            arm_batch!(@common inp, $ty, $klen, $w, $n, $dec, c, r);
            // the N blocks sit at the odd offset 7 of a frame with 0xC3 guard bytes before and after
            let mut f = Frame::<N> { pre: [0xC3u8; 7], mid: [[0u8; 16]; N], post: [0xC3u8; 9] };
            let mut j = 0;
            while j < N {
                f.mid[j] = take(inp, $klen + 16 * j);
                j += 1;
            }
            {
                let blocks: &mut [Block<$ty>] = unsafe { core::slice::from_raw_parts_mut(f.mid.as_mut_ptr() as *mut Block<$ty>, N) };
                if $dec { c.decrypt_blocks(blocks) } else { c.encrypt_blocks(blocks) };
            }
            va::tag::end();
            let mut good = true;
            j = 0;
            while j < 7 {
                good &= f.pre[j] == 0xC3;
                j += 1;
            }
            j = 0;
            while j < 9 {
                good &= f.post[j] == 0xC3;
                j += 1;
            }
            j = 0;
            while j < N {
                let mut k = 0;
                while k < 16 {
                    good &= f.mid[j][k] == r[j][k];
                    k += 1;
                }
                j += 1;
            }
            Some(good)
        });
    };
    (b2b, $name:ident, $ty:ty, $klen:expr, $w:expr, $n:expr, $dec:expr) => {
        arm_harness!($name, $klen + 16 * $n, 400, |inp| {
            arm_batch!(@common inp, $ty, $klen, $w, $n, $dec, c, r);
            let mut ins: [Block<$ty>; N] = [[0u8; 16].into(); N];
            let mut outs: [Block<$ty>; N] = [[0xA5u8; 16].into(); N];
            let mut j = 0;
            while j < N {
                ins[j] = take::<16>(inp, $klen + 16 * j).into();
                j += 1;
            }
            let mut good = if $dec { c.decrypt_blocks_b2b(&ins, &mut outs).is_ok() } else { c.encrypt_blocks_b2b(&ins, &mut outs).is_ok() };
            va::tag::end();
            j = 0;
            while j < N {
                let mut k = 0;
                while k < 16 {
                    good &= ins[j].0[k] == inp[$klen + 16 * j + k];
                    good &= outs[j].0[k] == r[j][k];
                    k += 1;
                }
                j += 1;
            }
            Some(good)
        });
    };
}
/// N blocks at the odd byte offset 7 of a byte-aligned frame, guard bytes around (for the large in-place harnesses: one
/// flat [u8; 16 N + 32] buffer would be a > 64-element array, which CBMC handles through its array theory at a
/// prohibitive cost)
#[repr(C)]
struct Frame<const N: usize> {
    pre: [u8; 7],
    mid: [[u8; 16]; N],
    post: [u8; 9],
}
fn off_sym(b: u8) -> usize {
    (b & 15) as usize
}
//@ harness name=aes128_arm_batch22_enc_ip prop=C04,C20 tier=thorough bits=2944 stub=1 est=340 variants=aes:armv8 desc="Aes128 (ARMv8 arm, ParBlocksSize = 21) encrypt_blocks in place on 22 blocks (one full 21-wide encrypt_par batch + a tail of 1) at the odd offset 7 of a guarded frame equals 22 single-block calls; guard bytes around the buffer unchanged; all keys and contents"
arm_batch!(ipc, aes128_arm_batch22_enc_ip, crate::Aes128, 16, 21, 22, false);
//@ harness name=aes128_arm_batch22_enc_b2b prop=C04,C20 tier=thorough bits=2944 stub=1 est=340 variants=aes:armv8 desc="Aes128 (ARMv8 arm) encrypt_blocks_b2b on 22 blocks (21-wide batch + tail of 1) equals 22 single-block calls; the separate input is unchanged; all keys and contents"
arm_batch!(b2b, aes128_arm_batch22_enc_b2b, crate::Aes128, 16, 21, 22, false);
//@ harness name=aes128_arm_batch22_dec_ip prop=C04,C20 tier=thorough bits=2944 stub=1 est=360 variants=aes:armv8 desc="Aes128 (ARMv8 arm) decrypt_blocks in place on 22 blocks (21-wide decrypt_par batch + tail) at the odd offset 7 of a guarded frame equals 22 single-block calls; guards unchanged"
arm_batch!(ipc, aes128_arm_batch22_dec_ip, crate::Aes128, 16, 21, 22, true);
//@ harness name=aes128_arm_batch22_dec_b2b prop=C04,C20 tier=thorough bits=2944 stub=1 est=360 variants=aes:armv8 desc="Aes128 (ARMv8 arm) decrypt_blocks_b2b on 22 blocks equals 22 single-block calls; input unchanged"
arm_batch!(b2b, aes128_arm_batch22_dec_b2b, crate::Aes128, 16, 21, 22, true);
//@ harness name=aes128_arm_batch3_enc_ip prop=C04,C20 tier=quick bits=520 stub=1 variants=aes:armv8 est=110 desc="Aes128 (ARMv8 arm): 3 blocks (fewer than the parallel width: tail path only) at a symbolic buffer offset 0..15: encrypt_blocks in place equals three single-block calls; guards unchanged; all keys and contents"
arm_batch!(ip, aes128_arm_batch3_enc_ip, crate::Aes128, 16, 21, 3, false, off_sym);
//@ harness name=aes128_arm_batch3_enc_b2b prop=C04,C20 tier=quick bits=512 stub=1 variants=aes:armv8 est=50 desc="Aes128 (ARMv8 arm): encrypt_blocks_b2b on 3 blocks equals three single-block calls; input unchanged"
arm_batch!(b2b, aes128_arm_batch3_enc_b2b, crate::Aes128, 16, 21, 3, false);
//@ harness name=aes128_arm_batch3_dec_ip prop=C04,C20 tier=quick bits=520 stub=1 variants=aes:armv8 est=105 desc="as aes128_arm_batch3_enc_ip, decrypt"
arm_batch!(ip, aes128_arm_batch3_dec_ip, crate::Aes128, 16, 21, 3, true, off_sym);
//@ harness name=aes128_arm_batch3_dec_b2b prop=C04,C20 tier=quick bits=512 stub=1 variants=aes:armv8 est=50 desc="as aes128_arm_batch3_enc_b2b, decrypt"
arm_batch!(b2b, aes128_arm_batch3_dec_b2b, crate::Aes128, 16, 21, 3, true);
//@ harness name=aes128_arm_batch21_enc_ip prop=C04 tier=thorough bits=2816 stub=1 variants=aes:armv8 est=340 need=12 desc="as aes128_arm_batch22_enc_ip, n = 21 (exactly the parallel width, empty tail)"
arm_batch!(ipc, aes128_arm_batch21_enc_ip, crate::Aes128, 16, 21, 21, false);
//@ harness name=aes192_arm_batch20_enc_ip prop=C04,C20 tier=thorough bits=2752 stub=1 est=320 variants=aes:armv8 desc="Aes192 (ARMv8 arm, ParBlocksSize = 19): encrypt_blocks in place on 20 blocks (19-wide batch incl. the KEYS >= 13 rounds + tail of 1) at the odd offset 7 of a guarded frame equals 20 single-block calls"
arm_batch!(ipc, aes192_arm_batch20_enc_ip, crate::Aes192, 24, 19, 20, false);
//@ harness name=aes192_arm_batch20_dec_b2b prop=C04,C20 tier=thorough bits=2752 stub=1 est=380 variants=aes:armv8 desc="Aes192 (ARMv8 arm): decrypt_blocks_b2b on 20 blocks equals 20 single-block calls; input unchanged"
arm_batch!(b2b, aes192_arm_batch20_dec_b2b, crate::Aes192, 24, 19, 20, true);
//@ harness name=aes256_arm_batch18_enc_b2b prop=C04,C20 tier=thorough bits=2560 stub=1 est=420 variants=aes:armv8 desc="Aes256 (ARMv8 arm, ParBlocksSize = 17): encrypt_blocks_b2b on 18 blocks (17-wide batch incl. the KEYS == 15 rounds + tail of 1) equals 18 single-block calls; input unchanged"
arm_batch!(b2b, aes256_arm_batch18_enc_b2b, crate::Aes256, 32, 17, 18, false);
//@ harness name=aes256_arm_batch18_dec_ip prop=C04,C20 tier=thorough bits=2560 stub=1 est=420 variants=aes:armv8 desc="Aes256 (ARMv8 arm): decrypt_blocks in place on 18 blocks at the odd offset 7 of a guarded frame equals 18 single-block calls; guards unchanged"
arm_batch!(ipc, aes256_arm_batch18_dec_ip, crate::Aes256, 32, 17, 18, true);

// ------------------------------------------------------------------ C17: aes::hazmat on the aarch64 build
// CONCRETE instruction model (the round functions themselves are the subject, nothing is abstracted).  The CPU feature
// answer is symbolic where stated, so one query covers armv8/hazmat.rs and the fixsliced software arm of this build.
#[cfg(feature = "hazmat")]
use crate::hazmat;
macro_rules! hz_harness {
    ($name:ident, $bytes:expr, $unwind:expr, |$inp:ident| $body:block) => {
        #[cfg(feature = "hazmat")]
        verif_harness! {
            name: $name,
            bytes: $bytes,
            unwind: $unwind,
            stubs: [
                (core::arch::x86_64::__cpuid, ni_model::m_cpuid),
                (core::arch::x86_64::__cpuid_count, ni_model::m_cpuid_count),
                (core::arch::x86_64::_xgetbv, ni_model::m_xgetbv)
            ],
            prop: |$inp| $body
        }
    };
}

//@ harness name=hz_arm_cipher_round prop=C17,C03 tier=quick bits=257 stub=1 variants=aes:armv8+hazmat est=60 desc="hazmat::cipher_round(block, key) == MixColumns(ShiftRows(SubBytes(block))) ^ key for all 2^128 blocks x 2^128 keys, on either dispatch arm of the aarch64 build (CPU answer symbolic: armv8/hazmat.rs = AESE with zero key, AESMC, EOR under the concrete instruction model; or fixslice64 software)"
hz_harness!(hz_arm_cipher_round, 33, 40, |inp| {
    va::set_concrete(true);
    ni_model::set_cpu(inp[32] & 1 == 1);
    let blk: [u8; 16] = take(inp, 0);
    let key: [u8; 16] = take(inp, 16);
    let mut b = blk.into();
    hazmat::cipher_round(&mut b, &key.into());
    Some(b.0 == ra::xor(&ra::round_core(&blk), &key))
});

//@ harness name=hz_arm_equiv_inv_cipher_round prop=C17,C03 tier=quick bits=257 stub=1 variants=aes:armv8+hazmat est=210 desc="hazmat::equiv_inv_cipher_round(block, key) == InvMixColumns(InvShiftRows(InvSubBytes(block))) ^ key, all blocks and keys, either dispatch arm of the aarch64 build (armv8: AESD with zero key, AESIMC, EOR)"
hz_harness!(hz_arm_equiv_inv_cipher_round, 33, 40, |inp| {
    va::set_concrete(true);
    ni_model::set_cpu(inp[32] & 1 == 1);
    let blk: [u8; 16] = take(inp, 0);
    let key: [u8; 16] = take(inp, 16);
    let mut b = blk.into();
    hazmat::equiv_inv_cipher_round(&mut b, &key.into());
    Some(b.0 == ra::xor(&ra::inv_round_core(&blk), &key))
});

// (that MixColumns and InvMixColumns of the oracle are mutually inverse is the oracle lemma c02_ni::fips_eqinv_lemmas;
// together with the two equalities below it makes hazmat::mix_columns / inv_mix_columns mutually inverse)
//@ harness name=hz_arm_mix_columns prop=C17,C03 tier=quick bits=129 stub=1 variants=aes:armv8+hazmat est=20 desc="hazmat::mix_columns == FIPS-197 MixColumns for all 2^128 blocks, on either dispatch arm of the aarch64 build (CPU answer symbolic: armv8 = LD1, AESMC, ST1 under the concrete instruction model; or fixslice64 software)"
hz_harness!(hz_arm_mix_columns, 17, 40, |inp| {
    va::set_concrete(true);
    ni_model::set_cpu(inp[16] & 1 == 1);
    let blk: [u8; 16] = take(inp, 0);
    let mut b = blk.into();
    hazmat::mix_columns(&mut b);
    Some(b.0 == ra::mix_columns(&blk))
});
//@ harness name=hz_arm_inv_mix_columns prop=C17,C03 tier=quick bits=129 stub=1 variants=aes:armv8+hazmat est=65 desc="hazmat::inv_mix_columns == FIPS-197 InvMixColumns for all 2^128 blocks, on either dispatch arm of the aarch64 build (armv8 = AESIMC)"
hz_harness!(hz_arm_inv_mix_columns, 17, 40, |inp| {
    va::set_concrete(true);
    ni_model::set_cpu(inp[16] & 1 == 1);
    let blk: [u8; 16] = take(inp, 0);
    let mut c = blk.into();
    hazmat::inv_mix_columns(&mut c);
    Some(c.0 == ra::inv_mix_columns(&blk))
});

//@ harness name=hz_arm_cipher_round_par prop=C17,C04 tier=quick bits=2048 stub=1 variants=aes:armv8+hazmat est=270 need=10 desc="hazmat::cipher_round_par on 8 arbitrary blocks with 8 arbitrary round keys == eight independent cipher_round calls with the respective keys (armv8 arm)"
hz_harness!(hz_arm_cipher_round_par, 256, 40, |inp| {
    va::set_concrete(true);
    ni_model::set_cpu(true);
    let mut blocks = hazmat::Block8::default();
    let mut keys = hazmat::Block8::default();
    let mut i = 0;
    while i < 8 {
        blocks[i] = take::<16>(inp, 16 * i).into();
        keys[i] = take::<16>(inp, 128 + 16 * i).into();
        i += 1;
    }
    let singles = blocks.clone();
    hazmat::cipher_round_par(&mut blocks, &keys);
    i = 0;
    while i < 8 {
        let mut s = singles[i];
        hazmat::cipher_round(&mut s, &keys[i]);
        vcheck!(blocks[i] == s);
        i += 1;
    }
    Some(true)
});

//@ harness name=hz_arm_equiv_inv_cipher_round_par prop=C17,C04 tier=thorough bits=2048 stub=1 est=490 variants=aes:armv8+hazmat desc="hazmat::equiv_inv_cipher_round_par on 8 blocks / 8 keys == eight independent equiv_inv_cipher_round calls (armv8 arm)"
hz_harness!(hz_arm_equiv_inv_cipher_round_par, 256, 40, |inp| {
    va::set_concrete(true);
    ni_model::set_cpu(true);
    let mut blocks = hazmat::Block8::default();
    let mut keys = hazmat::Block8::default();
    let mut i = 0;
    while i < 8 {
        blocks[i] = take::<16>(inp, 16 * i).into();
        keys[i] = take::<16>(inp, 128 + 16 * i).into();
        i += 1;
    }
    let singles = blocks.clone();
    hazmat::equiv_inv_cipher_round_par(&mut blocks, &keys);
    i = 0;
    while i < 8 {
        let mut s = singles[i];
        hazmat::equiv_inv_cipher_round(&mut s, &keys[i]);
        vcheck!(blocks[i] == s);
        i += 1;
    }
    Some(true)
});

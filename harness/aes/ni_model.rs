// Models of the x86 environment for the aes crate (DESIGN.md 2.5): AES-NI intrinsics and CPUID.
//
// Under Kani the AES instructions cannot be executed; they are stubbed by these models, written from the Intel SDM
// pseudo-code.  Each model is "unkeyed round body, then XOR with the round key", and the unkeyed round bodies are
// *uninterpreted* 128-bit functions shared with the FIPS-197 oracle (W queries); the S-box inside AESKEYGENASSIST is an
// uninterpreted byte function shared with the oracle's SubWord.  Natively (replay) no stub applies: the real
// instructions of this host run, and the `uf` modules fall back to the oracle's concrete functions.
// The concrete meaning of the models (round body == FIPS-197 MixColumns(ShiftRows(SubBytes)) etc.) is validated natively
// against the real instructions by /verif/refmodels/validate (setup_cmd).
use super::prelude::*;
use core::arch::x86_64::*;
use refmodels::aes as ra;

pub fn to_u(x: __m128i) -> u128 {
    unsafe { core::mem::transmute(x) }
}
pub fn from_u(x: u128) -> __m128i {
    unsafe { core::mem::transmute(x) }
}
fn lift(f: fn(&ra::State) -> ra::State, x: u128) -> u128 {
    u128::from_le_bytes(f(&x.to_le_bytes()))
}
fn c_enc(x: u128) -> u128 {
    lift(ra::round_core, x)
}
fn c_last(x: u128) -> u128 {
    lift(ra::last_core, x)
}
fn c_dec(x: u128) -> u128 {
    lift(ra::inv_round_core, x)
}
fn c_declast(x: u128) -> u128 {
    lift(ra::inv_last_core, x)
}
fn c_imc(x: u128) -> u128 {
    lift(ra::inv_mix_columns, x)
}
// unkeyed round bodies as uninterpreted functions (capacity: both sides of a query together)
cuf1!(uf_enc, vuf_ni_uf_enc, u128, u128, c_enc);
cuf1!(uf_last, vuf_ni_uf_last, u128, u128, c_last);
cuf1!(uf_dec, vuf_ni_uf_dec, u128, u128, c_dec);
cuf1!(uf_declast, vuf_ni_uf_declast, u128, u128, c_declast);
cuf1!(uf_imc, vuf_ni_uf_imc, u128, u128, c_imc);
cuf1!(uf_sb, vuf_ni_uf_sb, u8, u8, ra::sbox);

// oracle-side adapters
pub fn o_enc(s: &ra::State) -> ra::State {
    uf_enc::call(u128::from_le_bytes(*s)).to_le_bytes()
}
pub fn o_last(s: &ra::State) -> ra::State {
    uf_last::call(u128::from_le_bytes(*s)).to_le_bytes()
}
pub fn o_dec(s: &ra::State) -> ra::State {
    uf_dec::call(u128::from_le_bytes(*s)).to_le_bytes()
}
pub fn o_declast(s: &ra::State) -> ra::State {
    uf_declast::call(u128::from_le_bytes(*s)).to_le_bytes()
}
pub fn o_imc(s: &ra::State) -> ra::State {
    uf_imc::call(u128::from_le_bytes(*s)).to_le_bytes()
}
pub fn o_subword(w: u32) -> u32 {
    let b = w.to_be_bytes();
    u32::from_be_bytes([uf_sb::call(b[0]), uf_sb::call(b[1]), uf_sb::call(b[2]), uf_sb::call(b[3])])
}

// ---- intrinsic models (Intel SDM vol. 2: AESENC, AESENCLAST, AESDEC, AESDECLAST, AESIMC, AESKEYGENASSIST)
pub fn m_aesenc(a: __m128i, round_key: __m128i) -> __m128i {
    from_u(uf_enc::call(to_u(a)) ^ to_u(round_key))
}
pub fn m_aesenclast(a: __m128i, round_key: __m128i) -> __m128i {
    from_u(uf_last::call(to_u(a)) ^ to_u(round_key))
}
pub fn m_aesdec(a: __m128i, round_key: __m128i) -> __m128i {
    from_u(uf_dec::call(to_u(a)) ^ to_u(round_key))
}
pub fn m_aesdeclast(a: __m128i, round_key: __m128i) -> __m128i {
    from_u(uf_declast::call(to_u(a)) ^ to_u(round_key))
}
pub fn m_aesimc(a: __m128i) -> __m128i {
    from_u(uf_imc::call(to_u(a)))
}
/// X3..X0 = the four dwords of a; result = [SubWord(X1), RotWord(SubWord(X1)) ^ RCON, SubWord(X3), RotWord(SubWord(X3)) ^ RCON]
/// (dword 0 first), SubWord bytewise, RotWord(x) = x rotated right by 8 bits (as a little-endian dword).
pub fn m_aeskeygenassist<const IMM8: i32>(a: __m128i) -> __m128i {
    let b = to_u(a).to_le_bytes();
    let s1 = [uf_sb::call(b[4]), uf_sb::call(b[5]), uf_sb::call(b[6]), uf_sb::call(b[7])];
    let s3 = [uf_sb::call(b[12]), uf_sb::call(b[13]), uf_sb::call(b[14]), uf_sb::call(b[15])];
    let x1 = u32::from_le_bytes(s1);
    let x3 = u32::from_le_bytes(s3);
    let rcon = (IMM8 as u32) & 0xff;
    let d = [x1, x1.rotate_right(8) ^ rcon, x3, x3.rotate_right(8) ^ rcon];
    let mut o = [0u8; 16];
    let mut i = 0;
    while i < 4 {
        let w = d[i].to_le_bytes();
        o[4 * i] = w[0];
        o[4 * i + 1] = w[1];
        o[4 * i + 2] = w[2];
        o[4 * i + 3] = w[3];
        i += 1;
    }
    from_u(u128::from_le_bytes(o))
}

// ---- two-phase variants for the batch harnesses (uf.rs uf1ab!): the single-block reference runs in phase A (logged), the
// multi-block subject in phase B (each call constrained against the phase-A log only)
uf1ab!(ab_enc, u128, u128, c_enc);
uf1ab!(ab_last, u128, u128, c_last);
uf1ab!(ab_dec, u128, u128, c_dec);
uf1ab!(ab_declast, u128, u128, c_declast);
pub fn ab_phase_b() {
    ab_enc::phase_b();
    ab_last::phase_b();
    ab_dec::phase_b();
    ab_declast::phase_b();
}
pub fn mab_aesenc(a: __m128i, round_key: __m128i) -> __m128i {
    from_u(ab_enc::call(to_u(a)) ^ to_u(round_key))
}
pub fn mab_aesenclast(a: __m128i, round_key: __m128i) -> __m128i {
    from_u(ab_last::call(to_u(a)) ^ to_u(round_key))
}
pub fn mab_aesdec(a: __m128i, round_key: __m128i) -> __m128i {
    from_u(ab_dec::call(to_u(a)) ^ to_u(round_key))
}
pub fn mab_aesdeclast(a: __m128i, round_key: __m128i) -> __m128i {
    from_u(ab_declast::call(to_u(a)) ^ to_u(round_key))
}

// ---- fully concrete intrinsic models (C17: the round functions themselves are the subject, nothing is abstracted)
pub fn c_aesenc(a: __m128i, round_key: __m128i) -> __m128i {
    from_u(c_enc(to_u(a)) ^ to_u(round_key))
}
pub fn c_aesdec(a: __m128i, round_key: __m128i) -> __m128i {
    from_u(c_dec(to_u(a)) ^ to_u(round_key))
}
pub fn c_aesimc(a: __m128i) -> __m128i {
    from_u(c_imc(to_u(a)))
}

// ---- models with the S-box an uninterpreted bijection pair (hazmat::mix_columns on the intrinsics arm is AESDECLAST then
// AESENC with zero keys: the S-box cancels against its inverse, which a solver cannot see through two concrete 256-entry
// tables composed sixteen times, but which is exactly the bijection axiom; ShiftRows / MixColumns stay concrete)
cuf_bij!(bij_sb, vuf_ni_bij_sb_f, vuf_ni_bij_sb_i, u8, ra::sbox, ra::inv_sbox);
fn bij_fwd(b: u8) -> u8 {
    bij_sb::fwd(b)
}
fn bij_inv(b: u8) -> u8 {
    bij_sb::inv(b)
}
pub fn b_aesenc(a: __m128i, round_key: __m128i) -> __m128i {
    let s = to_u(a).to_le_bytes();
    let r = ra::mix_columns(&ra::shift_rows(&ra::sub_bytes_with(&s, &bij_fwd)));
    from_u(u128::from_le_bytes(r) ^ to_u(round_key))
}
pub fn b_aesdeclast(a: __m128i, round_key: __m128i) -> __m128i {
    let s = to_u(a).to_le_bytes();
    let r = ra::sub_bytes_with(&ra::inv_shift_rows(&s), &bij_inv);
    from_u(u128::from_le_bytes(r) ^ to_u(round_key))
}

// ---- CPUID model: every leaf answers with the same register pattern, chosen by the harness before the first use.
// 0xFFFF_FFFF = every feature bit set (AES-NI + SSE2 + OS support present) -> intrinsics arm;
// 0 = nothing present -> software arm.  (cpufeatures ANDs specific bits of leaf 1 / 7 and XGETBV.)
#[cfg(kani)]
pub static mut CPU_ANSWER: u32 = 0xFFFF_FFFF;
#[cfg(kani)]
pub fn set_cpu(all: bool) {
    unsafe { CPU_ANSWER = if all { 0xFFFF_FFFF } else { 0 } };
}
#[cfg(not(kani))]
pub fn set_cpu(_all: bool) {}
#[cfg(kani)]
pub fn m_cpuid(_leaf: u32) -> CpuidResult {
    let v = unsafe { CPU_ANSWER };
    CpuidResult { eax: v, ebx: v, ecx: v, edx: v }
}
#[cfg(kani)]
pub fn m_cpuid_count(_leaf: u32, _sub: u32) -> CpuidResult {
    let v = unsafe { CPU_ANSWER };
    CpuidResult { eax: v, ebx: v, ecx: v, edx: v }
}
#[cfg(kani)]
pub fn m_xgetbv(_xcr: u32) -> u64 {
    let v = unsafe { CPU_ANSWER } as u64;
    v | (v << 32)
}
#[cfg(not(kani))]
pub fn m_cpuid(leaf: u32) -> CpuidResult {
    __cpuid(leaf)
}
#[cfg(not(kani))]
pub fn m_cpuid_count(leaf: u32, sub: u32) -> CpuidResult {
    __cpuid_count(leaf, sub)
}
#[cfg(not(kani))]
pub fn m_xgetbv(xcr: u32) -> u64 {
    unsafe { _xgetbv(xcr) }
}

// C17 (software share) -- crate::hazmat::* on the aes_force_soft builds (feature hazmat): the public functions dispatch
// straight to crate::soft::fixslice::hazmat (64-bit or 32-bit file, normal or compact form).
//   single-block forms: D, real S-box circuits, block and round key fully symbolic, vs the FIPS-197 round functions
//   (InvMixColumns / the column mixes through the byte forms imc_ks / mc_ks, tied to the FIPS matrices by fx_*_model);
//   8-block forms: W -- sub_bytes / inv_sub_bytes replaced by bitslice o bytewise uf o inv_bitslice on ALL lanes (leaf lemmas
//   fx_sub_bytes / fx_inv_sub_bytes), the oracle round gets the same uf; every output block i is compared with the FIPS
//   round of input block i under round key i, which (with the D results) is "eight independent single calls".
use super::prelude::*;
use crate::hazmat as hz;
#[cfg(verif_fix32)]
use crate::soft::fixslice::verif_inner_fix32_inner as fx;
#[cfg(not(verif_fix32))]
use crate::soft::fixslice::verif_inner_fix64_inner as fx;
use refmodels::aes as ra;

pub fn st_sb_all(s: &mut [fx::W]) {
    fx::stub_sb_all(s)
}
pub fn st_isb_all(s: &mut [fx::W]) {
    fx::stub_isb_all(s)
}
pub fn st_mc0_all(s: &mut [fx::W; 8]) {
    fx::stub_mc0_all(s)
}
pub fn st_imc0_all(s: &mut [fx::W; 8]) {
    fx::stub_imc0_all(s)
}

//@ harness name=hz_cipher_round prop=C17,C20 tier=quick bits=256 est=40 desc="D: hazmat::cipher_round(b, k) == MixColumns(ShiftRows(SubBytes(b))) XOR k (FIPS-197 oracle, generated S-box); all 2^128 blocks x 2^128 round keys; real fixsliced S-box circuit"
verif_harness! {
    name: hz_cipher_round,
    bytes: 32,
    unwind: 70,
    prop: |inp| {
        let blk: [u8; 16] = take(inp, 0);
        let key: [u8; 16] = take(inp, 16);
        let mut b: hz::Block = blk.into();
        hz::cipher_round(&mut b, &key.into());
        Some(b.0 == ra::xor(&ra::round_core(&blk), &key))
    }
}
//@ harness name=hz_equiv_inv_cipher_round prop=C17,C20 tier=quick bits=256 est=55 desc="D: hazmat::equiv_inv_cipher_round(b, k) == InvMixColumns(InvShiftRows(InvSubBytes(b))) XOR k; all blocks x all round keys; real inverse S-box circuit vs the generated inverse S-box table; InvMixColumns of the oracle in the byte form imc_ks(., 0), proved equal to the FIPS-197 matrix by fx_imc_model (the direct comparison with the 0e/0b/0d/09 matrix is a wide-parity equivalence that does not finish)"
verif_harness! {
    name: hz_equiv_inv_cipher_round,
    bytes: 32,
    unwind: 70,
    prop: |inp| {
        let blk: [u8; 16] = take(inp, 0);
        let key: [u8; 16] = take(inp, 16);
        let mut b: hz::Block = blk.into();
        hz::equiv_inv_cipher_round(&mut b, &key.into());
        Some(b.0 == ra::xor(&fx::o_imc(&ra::inv_shift_rows(&ra::sub_bytes_with(&blk, &ra::inv_sbox))), &key))
    }
}
//@ harness name=hz_mix_columns prop=C17,C20 tier=quick bits=128 est=25 desc="D: hazmat::mix_columns(b) == mc_ks(b, 0) and hazmat::inv_mix_columns(b) == imc_ks(b, 0) (structure-aligned byte forms; == FIPS MixColumns / InvMixColumns by fx_mc_model / fx_imc_model); all 2^128 blocks"
verif_harness! {
    name: hz_mix_columns,
    bytes: 16,
    unwind: 70,
    prop: |inp| {
        let blk: [u8; 16] = *inp;
        let mut m: hz::Block = blk.into();
        hz::mix_columns(&mut m);
        vcheck!(m.0 == fx::mc_ks(&blk, 0));
        let mut i: hz::Block = blk.into();
        hz::inv_mix_columns(&mut i);
        Some(i.0 == fx::imc_ks(&blk, 0))
    }
}
//@ harness name=hz_mix_inverse prop=C17 tier=quick bits=268 est=70 desc="oracle lemma, FIPS MixColumns M and InvMixColumns I are mutual inverses: (a) M(x^y) == M(x)^M(y) and I(x^y) == I(x)^I(y) for all 2^128 x 2^128 pairs, (b) I(M(e)) == e and M(I(e)) == e for every state e with a single non-zero byte (position and value symbolic); every state is the XOR of its 16 single-byte components, so (a)+(b) give I o M == M o I == id (the direct 128-bit composition query is a wide-parity equivalence that does not finish in 900 s).  With hz_mix_columns + fx_mc_model + fx_imc_model: hazmat::mix_columns / inv_mix_columns are the FIPS column mixes and mutual inverses"
verif_harness! {
    name: hz_mix_inverse,
    bytes: 34,
    unwind: 70,
    prop: |inp| {
        let x: [u8; 16] = take(inp, 0);
        let y: [u8; 16] = take(inp, 16);
        let xy = ra::xor(&x, &y);
        vcheck!(ra::mix_columns(&xy) == ra::xor(&ra::mix_columns(&x), &ra::mix_columns(&y)));
        vcheck!(ra::inv_mix_columns(&xy) == ra::xor(&ra::inv_mix_columns(&x), &ra::inv_mix_columns(&y)));
        let j = inp[32] as usize;
        vassume!(j < 16);
        let mut e = [0u8; 16];
        e[j] = inp[33];
        vcheck!(ra::inv_mix_columns(&ra::mix_columns(&e)) == e);
        Some(ra::mix_columns(&ra::inv_mix_columns(&e)) == e)
    }
}
fn blocks8(inp: &[u8], off: usize) -> ([[u8; 16]; 8], hz::Block8) {
    let mut x = [[0u8; 16]; 8];
    let mut a: hz::Block8 = Default::default();
    let mut i = 0;
    while i < 8 {
        x[i] = take(inp, off + 16 * i);
        a[i] = x[i].into();
        i += 1;
    }
    (x, a)
}
//@ harness name=hz_cipher_round_par prop=C17,C20 tier=quick bits=2048 stub=1 est=165 need=8 desc="W: hazmat::cipher_round_par(blocks, keys): output i == MixColumns(ShiftRows(SubBytes(block i))) XOR key i for i = 0..7 (eight independent single rounds, respective keys); all 8 blocks and 8 keys symbolic; S-box uninterpreted on every lane (shared with the oracle), mix_columns_0 replaced by its proved specification MixColumns per block; bitslice, shift_rows_1, sub_bytes_nots, key XOR real"
verif_harness! {
    name: hz_cipher_round_par,
    bytes: 256,
    unwind: 70,
    stubs: [(crate::soft::fixslice::sub_bytes, st_sb_all), (crate::soft::fixslice::mix_columns_0, st_mc0_all)],
    prop: |inp| {
        let (x, mut a) = blocks8(inp, 0);
        let (k, kk) = blocks8(inp, 128);
        hz::cipher_round_par(&mut a, &kk);
        let mut ok = true;
        let mut i = 0;
        while i < 8 {
            let e = ra::xor(&fx::o_mc(&ra::shift_rows(&ra::sub_bytes_with(&x[i], &fx::o_sb))), &k[i]);
            ok &= a[i].0 == e;
            i += 1;
        }
        Some(ok)
    }
}
//@ harness name=hz_equiv_inv_cipher_round_par prop=C17,C20 tier=quick bits=2048 stub=1 est=215 need=9 desc="W: hazmat::equiv_inv_cipher_round_par(blocks, keys): output i == InvMixColumns(InvShiftRows(InvSubBytes(block i))) XOR key i for i = 0..7; all 8 blocks and keys; inverse S-box uninterpreted on every lane (shared with the oracle), mix_columns_0 replaced by its proved specification MixColumns per block; bitslice, shift_rows_1, sub_bytes_nots, key XOR real"
verif_harness! {
    name: hz_equiv_inv_cipher_round_par,
    bytes: 256,
    unwind: 70,
    stubs: [(crate::soft::fixslice::inv_sub_bytes, st_isb_all), (crate::soft::fixslice::inv_mix_columns_0, st_imc0_all)],
    prop: |inp| {
        let (x, mut a) = blocks8(inp, 0);
        let (k, kk) = blocks8(inp, 128);
        hz::equiv_inv_cipher_round_par(&mut a, &kk);
        let mut ok = true;
        let mut i = 0;
        while i < 8 {
            let e = ra::xor(&fx::o_imc(&ra::inv_shift_rows(&ra::sub_bytes_with(&x[i], &fx::o_isb))), &k[i]);
            ok &= a[i].0 == e;
            i += 1;
        }
        Some(ok)
    }
}

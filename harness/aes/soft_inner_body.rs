// Shared body of the inner harness modules of the fixsliced AES backends (textually included by fix64_inner.rs and
// fix32_inner.rs, which define the word type `W`, the batch width `NB`, the bit position `pos(b, r, c)` of byte
// (row r, column c) of block b inside a bit-plane word, `w_from`, `WB` and the adapter `real_bitslice`).
// NOT a module of its own and not listed in any PLAN entry.
//
// Representation (from the comments of bitslice()/inv_bitslice() and the paper, eprint 2020/1123): the state is 8 words;
// word p holds bit p of every byte ("bit plane"); inside a word the bit of byte (r, c) of block b sits at pos(b, r, c) =
// 16r + 4c + b (64-bit, 4 blocks) resp. 8r + 2c + b (32-bit, 2 blocks).  Byte (r, c) of a block is block[r + 4c] (FIPS-197 3.4).
// Fixslicing keeps the state of round i "un-shifted" by phase(i) ShiftRows, see m_keys() below.

pub const COMPACT: bool = cfg!(aes_compact);

// ---------------------------------------------------------------------------------------------- byte-level model
/// byte i of block b of a bitsliced state (pure wire selection)
pub fn m_get(s: &[W], b: usize, i: usize) -> u8 {
    let sh = pos(b, i % 4, i / 4);
    let mut v = 0u8;
    let mut p = 0;
    while p < 8 {
        v |= (((s[p] >> sh) & 1) as u8) << p;
        p += 1;
    }
    v
}
pub fn m_put(s: &mut [W; 8], b: usize, i: usize, v: u8) {
    let sh = pos(b, i % 4, i / 4);
    let mut p = 0;
    while p < 8 {
        s[p] = (s[p] & !((1 as W) << sh)) | ((((v >> p) & 1) as W) << sh);
        p += 1;
    }
}
pub fn m_unslice(s: &[W]) -> [[u8; 16]; NB] {
    let mut o = [[0u8; 16]; NB];
    let mut b = 0;
    while b < NB {
        let mut i = 0;
        while i < 16 {
            o[b][i] = m_get(s, b, i);
            i += 1;
        }
        b += 1;
    }
    o
}
pub fn m_slice(x: &[[u8; 16]; NB]) -> [W; 8] {
    let mut s = [0 as W; 8];
    let mut b = 0;
    while b < NB {
        let mut i = 0;
        while i < 16 {
            m_put(&mut s, b, i, x[b][i]);
            i += 1;
        }
        b += 1;
    }
    s
}
pub fn eq_words(a: &[W], b: &[W]) -> bool {
    if a.len() != b.len() {
        return false;
    }
    let mut ok = true;
    let mut i = 0;
    while i < a.len() {
        ok &= a[i] == b[i];
        i += 1;
    }
    ok
}
pub fn eq_blocks(a: &BatchBlocks, m: &[[u8; 16]; NB]) -> bool {
    let mut ok = true;
    let mut b = 0;
    while b < NB {
        let mut i = 0;
        while i < 16 {
            ok &= a[b][i] == m[b][i];
            i += 1;
        }
        b += 1;
    }
    ok
}
pub fn state_of(inp: &[u8], off: usize) -> [W; 8] {
    let mut s = [0 as W; 8];
    let mut p = 0;
    while p < 8 {
        s[p] = w_from(inp, off + WB * p);
        p += 1;
    }
    s
}
pub fn blocks_of(inp: &[u8], off: usize) -> [[u8; 16]; NB] {
    let mut x = [[0u8; 16]; NB];
    let mut b = 0;
    while b < NB {
        x[b] = take(inp, off + 16 * b);
        b += 1;
    }
    x
}
fn sr_pow(x: &[u8; 16], k: usize) -> [u8; 16] {
    let mut s = *x;
    let mut j = 0;
    while j < k {
        s = ra::shift_rows(&s);
        j += 1;
    }
    s
}
fn isr_pow(x: &[u8; 16], k: usize) -> [u8; 16] {
    let mut s = *x;
    let mut j = 0;
    while j < k {
        s = ra::inv_shift_rows(&s);
        j += 1;
    }
    s
}
/// every block of `got` equals f applied to the corresponding block of `src`
fn blockwise<F: Fn(&[u8; 16]) -> [u8; 16]>(got: &[W], src: &[W], f: F) -> bool {
    let g = unslice_real(got);
    let s = unslice_real(src);
    let mut ok = true;
    let mut b = 0;
    while b < NB {
        ok &= g[b] == f(&s[b]);
        b += 1;
    }
    ok
}

/// Fixslice phase of round key r (0 <= r <= nr): the state entering round r+1 lacks phase(r) ShiftRows, i.e. the
/// implementation holds t_r = ShiftRows^-phase(r)(s_r) where s_r is the FIPS-197 state after round r.
/// normal form: r mod 4; compact form: r mod 2 (an explicit shift_rows_2 re-synchronises every second round);
/// the whitening key and the last round key are in phase 0.
pub fn phase(r: usize, nr: usize) -> usize {
    if r == 0 || r == nr {
        0
    } else if COMPACT {
        r % 2
    } else {
        r % 4
    }
}
/// SPECIFICATION of the fixsliced round-key format, as a function of the FIPS-197 round keys rk[0..=nr]:
/// words 8r..8r+8 = bitslice(k', k', .., k') (fast_slice == the crate's bitslice == the model placement m_slice, by fx_bitslice) with k' = InvShiftRows^phase(r)(rk[r]) XOR (0x63 in every byte if r >= 1)
/// (0x63 = the four NOTs that sub_bytes() omits, "sub_bytes_nots").
pub fn m_keys<const N: usize>(rk: &[[u8; 16]; 15], nr: usize) -> [W; N] {
    let mut out = [0 as W; N];
    let mut r = 0;
    while r <= nr {
        let mut k = isr_pow(&rk[r], phase(r, nr));
        if r >= 1 {
            let mut i = 0;
            while i < 16 {
                k[i] ^= 0x63;
                i += 1;
            }
        }
        let s = fast_slice(&[k; NB]);
        let mut p = 0;
        while p < 8 {
            out[8 * r + p] = s[p];
            p += 1;
        }
        r += 1;
    }
    out
}
/// round keys rk[0..=nr] from the primary input bytes
pub fn take_rk(inp: &[u8], off: usize, nr: usize) -> [[u8; 16]; 15] {
    let mut rk = [[0u8; 16]; 15];
    let mut r = 0;
    while r <= nr {
        rk[r] = take(inp, off + 16 * r);
        r += 1;
    }
    rk
}

// ---------------------------------------------------------------------------------------------- uninterpreted S-boxes
// A FAMILY of uninterpreted byte functions f_0 .. f_15 ("slots") stands for the S-box, and another one for the inverse
// S-box: slot = index of the S-box layer inside the query (round number, key-schedule step, or block number for the 8-block
// hazmat forms).  Implementation and oracle use the same f_slot in the same layer.  Allowing a different function per layer
// is a WEAKER hypothesis than one shared function (every tuple with f_0 = .. = f_15 = S-box is an instance), so a result
// proved for the family holds for the real S-box; it keeps every Ackermann table at <= 64 entries and the number of
// compared call pairs linear in the number of layers.  Layers are counted by static call counters (concrete during
// symbolic execution); natively every slot is the concrete S-box.
// Implementation (Ackermann's reduction as in harness/common/uf.rs, DESIGN.md 2.3): a call returns a fresh symbolic byte
// constrained to agree with every earlier call OF THE SAME SLOT on an equal argument.  The log of a slot (<= 32 entries:
// 16 implementation + 16 oracle calls) is copied out of / back into the static table once per call, so that the comparison
// loop runs on a local value (statics are reached through raw pointers, whose validity checks would dominate the query).
pub const SLOTS: usize = 16;
pub const SLOT_CAP: usize = 32;
#[derive(Clone, Copy)]
pub struct Slot {
    pub n: usize,
    pub inp: [u8; SLOT_CAP],
    pub out: [u8; SLOT_CAP],
}
pub const EMPTY_SLOT: Slot = Slot { n: 0, inp: [0; SLOT_CAP], out: [0; SLOT_CAP] };
#[cfg(kani)]
pub static mut TAB_S: [Slot; SLOTS] = [EMPTY_SLOT; SLOTS];
#[cfg(kani)]
pub static mut TAB_I: [Slot; SLOTS] = [EMPTY_SLOT; SLOTS];
#[cfg(kani)]
fn slot_call(mut t: Slot, x: u8) -> (Slot, u8) {
    let y: u8 = kani::any();
    let n = t.n;
    kani::assert(n < SLOT_CAP, "VERIF_UF_CAPACITY");
    let mut ok = true;
    let mut k = 0;
    while k < n {
        ok &= (t.inp[k] != x) | (t.out[k] == y);
        k += 1;
    }
    t.inp[n] = x;
    t.out[n] = y;
    t.n = n + 1;
    kani::assume(ok);
    (t, y)
}
#[cfg(kani)]
pub fn uf_sb_slot(slot: usize, x: u8) -> u8 {
    kani::assert(slot < SLOTS, "VERIF_UF_CAPACITY");
    let (t, y) = slot_call(unsafe { TAB_S[slot] }, x);
    unsafe {
        TAB_S[slot] = t;
    }
    y
}
#[cfg(kani)]
pub fn uf_isb_slot(slot: usize, x: u8) -> u8 {
    kani::assert(slot < SLOTS, "VERIF_UF_CAPACITY");
    let (t, y) = slot_call(unsafe { TAB_I[slot] }, x);
    unsafe {
        TAB_I[slot] = t;
    }
    y
}
#[cfg(not(kani))]
pub fn uf_sb_slot(_slot: usize, x: u8) -> u8 {
    ra::sbox(x)
}
#[cfg(not(kani))]
pub fn uf_isb_slot(_slot: usize, x: u8) -> u8 {
    ra::inv_sbox(x)
}
#[cfg(kani)]
pub static mut IMPL_LAYERS: usize = 0; // S-box layers executed by the implementation side so far (stub calls)
#[cfg(kani)]
pub static mut ORACLE_BYTES: usize = 0; // oracle-side S-box byte calls so far (16 per layer, 4 per SubWord)
fn impl_layer(_n: usize) -> usize {
    #[cfg(kani)]
    unsafe {
        let l = IMPL_LAYERS;
        IMPL_LAYERS = l + _n;
        return l;
    }
    #[cfg(not(kani))]
    0
}
fn oracle_byte() -> usize {
    #[cfg(kani)]
    unsafe {
        let n = ORACLE_BYTES;
        ORACLE_BYTES = n + 1;
        return n;
    }
    #[cfg(not(kani))]
    0
}
/// oracle-side S-box of a cipher / round query: 16 byte calls per layer
pub fn o_sb(x: u8) -> u8 {
    uf_sb_slot(oracle_byte() / 16, x)
}
pub fn o_isb(x: u8) -> u8 {
    uf_isb_slot(oracle_byte() / 16, x)
}
/// oracle-side SubWord of a key-expansion query: one layer per SubWord (4 byte calls)
pub fn o_subword(w: u32) -> u32 {
    let b = w.to_be_bytes();
    let mut o = [0u8; 4];
    let mut i = 0;
    while i < 4 {
        o[i] = uf_sb_slot(oracle_byte() / 4, b[i]);
        i += 1;
    }
    u32::from_be_bytes(o)
}

fn copy8(dst: &mut [W], src: &[W; 8]) {
    let mut p = 0;
    while p < 8 {
        dst[p] = src[p];
        p += 1;
    }
}
// Stub shapes: bitslice o F o inv_bitslice, written with the loop-free transcriptions fast_slice / fast_unslice of the
// crate's bitslice / inv_bitslice (same delta-swap algorithm on plain arrays).  fx_bitslice / fx_inv_bitslice prove, for all
// inputs, crate function == transcription == bit-by-bit model placement (m_slice / m_unslice), and that the pair is
// mutually inverse.  (The crate's own functions cost ~10^4 program steps per call through hybrid-array, the bit-by-bit model
// even more; a wiring query makes ~50 such calls.)
fn unslice_real(state: &[W]) -> [[u8; 16]; NB] {
    fast_unslice(state)
}
fn slice_real_into(state: &mut [W], y: &[[u8; 16]; NB]) {
    let out = fast_slice(y);
    copy8(state, &out);
}
/// bitslice o (f(lane, byte) on every byte of every lane) o inv_bitslice -- the shape of every S-box stub; with
/// f = S ^ 0x63 this is what the leaf lemma fx_sub_bytes proves sub_bytes() to be, with f = S^-1(. ^ 0x63) what
/// fx_inv_sub_bytes proves inv_sub_bytes() to be.
pub fn sbox_layer_with<F: Fn(usize, u8) -> u8>(state: &mut [W], f: F) {
    let x = unslice_real(state);
    let mut y = [[0u8; 16]; NB];
    let mut l = 0;
    while l < NB {
        let mut i = 0;
        while i < 16 {
            y[l][i] = f(l, x[l][i]);
            i += 1;
        }
        l += 1;
    }
    slice_real_into(state, &y);
}
/// Block lane whose bytes the `*_lane` stubs compute; every other lane is havocked (fresh unconstrained bytes at each
/// call), which is a superset of the real function's behaviour: a result proved under it does not depend on those lanes.
#[cfg(kani)]
pub static mut LANE: usize = 0;
pub fn set_lane(_l: usize) {
    #[cfg(kani)]
    unsafe {
        LANE = _l;
    }
}
/// block-wise layer restricted to one lane: lane LANE = f(block of lane LANE), the bits of all other lanes havoc
#[cfg(kani)]
fn lin_lane_with<F: Fn(&[u8; 16]) -> [u8; 16]>(state: &mut [W], f: F) {
    let lane = unsafe { LANE };
    let x = fast_unslice(state);
    let mut xb = [0u8; 16];
    let mut l = 0;
    while l < NB {
        if l == lane {
            xb = x[l];
        }
        l += 1;
    }
    let yb = f(&xb);
    let lw = fast_slice(&[yb; NB]); // every lane = yb; only the bits of lane LANE are kept
    let mask: W = LANE0_MASK << (lane as u32);
    let h: [W; 8] = kani::any();
    let mut p = 0;
    while p < 8 {
        state[p] = (h[p] & !mask) | (lw[p] & mask);
        p += 1;
    }
}
#[cfg(kani)]
fn one_lane_with<F: Fn(u8) -> u8>(state: &mut [W], f: F) {
    lin_lane_with(state, |xb| {
        let mut yb = [0u8; 16];
        let mut i = 0;
        while i < 16 {
            yb[i] = f(xb[i]);
            i += 1;
        }
        yb
    })
}
/// stub for sub_bytes: lane LANE = f_layer ^ 0x63 (16 calls), other lanes havoc
#[cfg(kani)]
pub fn stub_sb_lane(state: &mut [W]) {
    let slot = impl_layer(1);
    one_lane_with(state, |x| uf_sb_slot(slot, x) ^ 0x63)
}
/// stub for inv_sub_bytes: lane LANE = g_layer(. ^ 0x63) (16 calls), other lanes havoc
#[cfg(kani)]
pub fn stub_isb_lane(state: &mut [W]) {
    let slot = impl_layer(1);
    one_lane_with(state, |x| uf_isb_slot(slot, x ^ 0x63))
}
/// stub for sub_bytes, all lanes (16 * NB calls; one layer per lane = per block of the batch)
pub fn stub_sb_all(state: &mut [W]) {
    let slot = impl_layer(NB);
    sbox_layer_with(state, |l, x| uf_sb_slot(slot + l, x) ^ 0x63)
}
/// stub for inv_sub_bytes, all lanes
pub fn stub_isb_all(state: &mut [W]) {
    let slot = impl_layer(NB);
    sbox_layer_with(state, |l, x| uf_isb_slot(slot + l, x ^ 0x63))
}
/// stub for sub_bytes in key schedules, where all NB lanes are expected to hold the same block: 16 calls on lane 0; a byte
/// of another lane that EQUALS the corresponding byte of lane 0 gets lane 0's result, a byte that differs gets an arbitrary
/// value.  (An asserted precondition "argument replicated" was used first: Kani's assert also assumes, so a change that
/// breaks replication only in a lane surfaced as a failed precondition on a key for which the difference happens to be
/// harmless -- a counterexample that does not reproduce natively.  With per-byte havoc the arbitrary values reach the key
/// words exactly when a differing byte matters, and the final comparison fails on a key that reproduces.)
#[cfg(kani)]
pub fn stub_sb_rep(state: &mut [W]) {
    let slot = impl_layer(1);
    let x = unslice_real(state);
    let mut y = [[0u8; 16]; NB];
    let mut i = 0;
    while i < 16 {
        let v = uf_sb_slot(slot, x[0][i]) ^ 0x63;
        y[0][i] = v;
        let mut l = 1;
        while l < NB {
            let h: u8 = kani::any();
            y[l][i] = if x[l][i] == x[0][i] { v } else { h };
            l += 1;
        }
        i += 1;
    }
    slice_real_into(state, &y);
}

// ---------------------------------------------------------------------------------------------- access to private state
macro_rules! acc {
    ($mk:ident, $mke:ident, $mkd:ident, $k:ident, $ke:ident, $kd:ident, $inner_e:ident, $ty:ident, $tye:ident, $tyd:ident, $keys:ty) => {
        pub fn $mk(keys: $keys) -> crate::soft::$ty {
            crate::soft::$ty { keys }
        }
        pub fn $mke(keys: $keys) -> crate::soft::$tye {
            crate::soft::$tye { inner: $mk(keys) }
        }
        pub fn $mkd(keys: $keys) -> crate::soft::$tyd {
            crate::soft::$tyd { inner: $mk(keys) }
        }
        pub fn $k(c: &crate::soft::$ty) -> &$keys {
            &c.keys
        }
        pub fn $ke(c: &crate::soft::$tye) -> &$keys {
            &c.inner.keys
        }
        pub fn $kd(c: &crate::soft::$tyd) -> &$keys {
            &c.inner.keys
        }
    };
}
acc!(mk128, mk128e, mk128d, k128, k128e, k128d, inner128e, Aes128, Aes128Enc, Aes128Dec, FixsliceKeys128);
acc!(mk192, mk192e, mk192d, k192, k192e, k192d, inner192e, Aes192, Aes192Enc, Aes192Dec, FixsliceKeys192);
acc!(mk256, mk256e, mk256d, k256, k256e, k256d, inner256e, Aes256, Aes256Enc, Aes256Dec, FixsliceKeys256);
/// arbitrary (not necessarily replicated / reachable) key words from the primary input
pub fn words_of<const N: usize>(inp: &[u8], off: usize) -> [W; N] {
    let mut k = [0 as W; N];
    let mut i = 0;
    while i < N {
        k[i] = w_from(inp, off + WB * i);
        i += 1;
    }
    k
}

// ---------------------------------------------------------------------------------------------- leaf lemmas (D)
verif_harness! {
    name: fx_bitslice,
    bytes: 16 * NB,
    unwind: 70,
    prop: |inp| {
        let x = blocks_of(inp, 0);
        let mut s = [0 as W; 8];
        real_bitslice(&mut s, &x);
        vcheck!(eq_words(&s, &m_slice(&x)));
        vcheck!(eq_words(&s, &fast_slice(&x)));
        vcheck!(m_unslice(&s) == x);
        Some(eq_blocks(&inv_bitslice(&s), &x))
    }
}
verif_harness! {
    name: fx_inv_bitslice,
    bytes: 8 * WB,
    unwind: 70,
    prop: |inp| {
        let s = state_of(inp, 0);
        let y = inv_bitslice(&s);
        let m = m_unslice(&s);
        vcheck!(eq_blocks(&y, &m));
        vcheck!(fast_unslice(&s) == m);
        vcheck!(eq_words(&m_slice(&m), &s));
        let mut t = [0 as W; 8];
        real_bitslice(&mut t, &m);
        Some(eq_words(&t, &s))
    }
}
verif_harness! {
    name: fx_sub_bytes,
    bytes: 8 * WB,
    unwind: 70,
    prop: |inp| {
        let s = state_of(inp, 0);
        let mut t = s;
        sub_bytes(&mut t);
        let mut m = s;
        sbox_layer_with(&mut m, |_, x| ra::sbox(x) ^ 0x63);
        vcheck!(eq_words(&t, &m));
        // NOT convention: sub_bytes_nots XORs 0x63 into every byte, so nots(sub_bytes(.)) is the FIPS-197 SubBytes
        sub_bytes_nots(&mut t);
        let mut n = s;
        sbox_layer_with(&mut n, |_, x| ra::sbox(x));
        vcheck!(eq_words(&t, &n));
        let mut u = s;
        sub_bytes_nots(&mut u);
        let mut v = s;
        sbox_layer_with(&mut v, |_, x| x ^ 0x63);
        Some(eq_words(&u, &v))
    }
}
verif_harness! {
    name: fx_inv_sub_bytes,
    bytes: 8 * WB,
    unwind: 70,
    prop: |inp| {
        let s = state_of(inp, 0);
        let mut t = s;
        inv_sub_bytes(&mut t);
        let mut m = s;
        sbox_layer_with(&mut m, |_, x| ra::inv_sbox(x ^ 0x63));
        Some(eq_words(&t, &m))
    }
}
verif_harness! {
    name: fx_shift_rows,
    bytes: 16 * WB,
    unwind: 70,
    prop: |inp| {
        let s = state_of(inp, 0);
        let k = state_of(inp, 8 * WB);
        let mut t = s;
        shift_rows_2(&mut t);
        vcheck!(blockwise(&t, &s, |x| sr_pow(x, 2)));
        t = s;
        shift_rows_3(&mut t);
        vcheck!(blockwise(&t, &s, |x| sr_pow(x, 3)));
        t = s;
        inv_shift_rows_1(&mut t);
        vcheck!(blockwise(&t, &s, |x| isr_pow(x, 1)));
        t = s;
        inv_shift_rows_2(&mut t);
        vcheck!(blockwise(&t, &s, |x| isr_pow(x, 2)));
        #[cfg(any(not(aes_compact), feature = "hazmat"))]
        {
            t = s;
            shift_rows_1(&mut t);
            vcheck!(blockwise(&t, &s, |x| sr_pow(x, 1)));
        }
        #[cfg(not(aes_compact))]
        {
            t = s;
            inv_shift_rows_3(&mut t);
            vcheck!(blockwise(&t, &s, |x| isr_pow(x, 3)));
        }
        // add_round_key is the lane-wise XOR
        t = s;
        add_round_key(&mut t, &k);
        let a = unslice_real(&t);
        let x = unslice_real(&s);
        let y = unslice_real(&k);
        let mut b = 0;
        while b < NB {
            vcheck!(a[b] == ra::xor(&x[b], &y[b]));
            b += 1;
        }
        Some(true)
    }
}

// ---------------------------------------------------------------------------------------------- MixColumns layers
// define_mix_columns! is the Kaesper-Schwabe formulation; for fixslice phase k the "rotate rows by j" of the plain form
// becomes "rotate rows by j and columns by k*j":  (SR^-k o MC o SR^k)(a)[r][c] = SUM_j m_j * a[r+j][c+k*j].
// mc_ks / imc_ks transcribe the macro at the byte level (same XOR structure as the bit-plane code, so that the leaf lemmas
// L1 "real == bitslice o mc_ks o inv_bitslice" are structurally aligned); L2 ties them to the FIPS-197 matrices.
fn xt(v: u8) -> u8 {
    (v << 1) ^ (if v & 0x80 != 0 { 0x1b } else { 0 })
}
fn at(x: &[u8; 16], r: usize, c: usize) -> u8 {
    x[(r % 4) + 4 * (c % 4)]
}
pub fn mc_ks(a: &[u8; 16], k: usize) -> [u8; 16] {
    let mut b = [0u8; 16];
    let mut cc = [0u8; 16];
    let mut i = 0;
    while i < 16 {
        b[i] = at(a, i % 4 + 1, i / 4 + k); // first_rotate: rows by 1, columns by k
        cc[i] = a[i] ^ b[i];
        i += 1;
    }
    let mut o = [0u8; 16];
    i = 0;
    while i < 16 {
        o[i] = b[i] ^ xt(cc[i]) ^ at(&cc, i % 4 + 2, i / 4 + 2 * k); // second_rotate: rows by 2, columns by 2k
        i += 1;
    }
    o
}
pub fn imc_ks(a: &[u8; 16], k: usize) -> [u8; 16] {
    let mut cc = [0u8; 16];
    let mut d = [0u8; 16];
    let mut e = [0u8; 16];
    let mut i = 0;
    while i < 16 {
        cc[i] = a[i] ^ at(a, i % 4 + 1, i / 4 + k);
        d[i] = a[i] ^ xt(cc[i]);
        e[i] = cc[i] ^ xt(xt(d[i]));
        i += 1;
    }
    let mut o = [0u8; 16];
    i = 0;
    while i < 16 {
        o[i] = d[i] ^ e[i] ^ at(&e, i % 4 + 2, i / 4 + 2 * k);
        i += 1;
    }
    o
}
/// SPECIFICATION of mix_columns_k / inv_mix_columns_k: the FIPS-197 layer conjugated by k ShiftRows
pub fn mc_spec(x: &[u8; 16], k: usize) -> [u8; 16] {
    isr_pow(&ra::mix_columns(&sr_pow(x, k)), k)
}
pub fn imc_spec(x: &[u8; 16], k: usize) -> [u8; 16] {
    isr_pow(&ra::inv_mix_columns(&sr_pow(x, k)), k)
}
/// block-wise layer on all lanes: bitslice o (f on every block) o inv_bitslice
pub fn lin_all_with<F: Fn(&[u8; 16]) -> [u8; 16]>(state: &mut [W], f: F) {
    let x = unslice_real(state);
    let mut y = [[0u8; 16]; NB];
    let mut l = 0;
    while l < NB {
        y[l] = f(&x[l]);
        l += 1;
    }
    slice_real_into(state, &y);
}
// stubs for mix_columns_k / inv_mix_columns_k: exactly the right-hand sides of the leaf lemmas fx_mix_columns /
// fx_inv_mix_columns (L1); the oracle side of the wiring queries uses mc_ks(., 0) / imc_ks(., 0) as MixColumns /
// InvMixColumns, which fx_mc_model / fx_imc_model (L2) prove to be the FIPS-197 matrices.
pub fn stub_mc0_all(s: &mut State) {
    lin_all_with(&mut s[..], |x| mc_ks(x, 0))
}
pub fn stub_imc0_all(s: &mut State) {
    lin_all_with(&mut s[..], |x| imc_ks(x, 0))
}
#[cfg(kani)]
pub fn stub_mc0(s: &mut State) {
    lin_lane_with(&mut s[..], |x| mc_ks(x, 0))
}
#[cfg(kani)]
pub fn stub_mc1(s: &mut State) {
    lin_lane_with(&mut s[..], |x| mc_ks(x, 1))
}
#[cfg(kani)]
pub fn stub_mc2(s: &mut State) {
    lin_lane_with(&mut s[..], |x| mc_ks(x, 2))
}
#[cfg(kani)]
pub fn stub_mc3(s: &mut State) {
    lin_lane_with(&mut s[..], |x| mc_ks(x, 3))
}
#[cfg(kani)]
pub fn stub_imc0(s: &mut State) {
    lin_lane_with(&mut s[..], |x| imc_ks(x, 0))
}
#[cfg(kani)]
pub fn stub_imc1(s: &mut State) {
    lin_lane_with(&mut s[..], |x| imc_ks(x, 1))
}
#[cfg(kani)]
pub fn stub_imc2(s: &mut State) {
    lin_lane_with(&mut s[..], |x| imc_ks(x, 2))
}
#[cfg(kani)]
pub fn stub_imc3(s: &mut State) {
    lin_lane_with(&mut s[..], |x| imc_ks(x, 3))
}
/// MixColumns / InvMixColumns handed to the oracle in the wiring queries (== FIPS-197 by fx_mc_model / fx_imc_model)
pub fn o_mc(x: &[u8; 16]) -> [u8; 16] {
    mc_ks(x, 0)
}
pub fn o_imc(x: &[u8; 16]) -> [u8; 16] {
    imc_ks(x, 0)
}

verif_harness! {
    name: fx_mix_columns,
    bytes: 8 * WB,
    unwind: 70,
    prop: |inp| {
        // L1: mix_columns_k == bitslice o (block-wise mc_ks(., k)) o inv_bitslice, every lane, every compiled phase
        let s = state_of(inp, 0);
        let mut t = s;
        mix_columns_0(&mut t);
        vcheck!(blockwise(&t, &s, |x| mc_ks(x, 0)));
        t = s;
        mix_columns_1(&mut t);
        vcheck!(blockwise(&t, &s, |x| mc_ks(x, 1)));
        #[cfg(not(aes_compact))]
        {
            t = s;
            mix_columns_2(&mut t);
            vcheck!(blockwise(&t, &s, |x| mc_ks(x, 2)));
            t = s;
            mix_columns_3(&mut t);
            vcheck!(blockwise(&t, &s, |x| mc_ks(x, 3)));
        }
        Some(true)
    }
}
verif_harness! {
    name: fx_inv_mix_columns,
    bytes: 8 * WB,
    unwind: 70,
    prop: |inp| {
        let s = state_of(inp, 0);
        let mut t = s;
        inv_mix_columns_0(&mut t);
        vcheck!(blockwise(&t, &s, |x| imc_ks(x, 0)));
        t = s;
        inv_mix_columns_1(&mut t);
        vcheck!(blockwise(&t, &s, |x| imc_ks(x, 1)));
        #[cfg(not(aes_compact))]
        {
            t = s;
            inv_mix_columns_2(&mut t);
            vcheck!(blockwise(&t, &s, |x| imc_ks(x, 2)));
            t = s;
            inv_mix_columns_3(&mut t);
            vcheck!(blockwise(&t, &s, |x| imc_ks(x, 3)));
        }
        Some(true)
    }
}
verif_harness! {
    name: fx_mc_model,
    bytes: 16,
    unwind: 70,
    prop: |inp| {
        // L2 (byte level, one block): mc_ks(., k) is the k-fold ShiftRows conjugate of mc_ks(., 0), which is FIPS MixColumns
        let x: [u8; 16] = *inp;
        vcheck!(mc_ks(&x, 0) == ra::mix_columns(&x));
        let mut k = 1;
        while k < 4 {
            vcheck!(mc_ks(&x, k) == isr_pow(&mc_ks(&sr_pow(&x, k), 0), k));
            k += 1;
        }
        Some(true)
    }
}
verif_harness! {
    name: fx_imc_model,
    bytes: 16,
    unwind: 70,
    prop: |inp| {
        let x: [u8; 16] = *inp;
        let mut k = 1;
        while k < 4 {
            vcheck!(imc_ks(&x, k) == isr_pow(&imc_ks(&sr_pow(&x, k), 0), k));
            k += 1;
        }
        Some(imc_ks(&x, 0) == ra::inv_mix_columns(&x))
    }
}


// Shared body of the inner harness modules of the fixsliced AES backends (textually included by fix64_inner.rs and
// fix32_inner.rs, which define the word type `W`, the batch width `NB`, the bit position `pos(b, r, c)` of byte
// (row r, column c) of block b inside a bit-plane word, `w_from`, `WB` and the adapter `real_bitslice`).
// NOT a module of its own and not listed in any PLAN entry.
//
// Representation (from the comments of bitslice()/inv_bitslice() and the paper, eprint 2020/1123): the state is 8 words;
// word p holds bit p of every byte ("bit plane"); inside a word the bit of byte (r, c) of block b sits at pos(b, r, c) =
// 16r + 4c + b (64-bit, 4 blocks) resp. 8r + 2c + b (32-bit, 2 blocks).  Byte (r, c) of a block is block[r + 4c] (FIPS-197 3.4).
// Fixslicing keeps the state of round i "un-shifted" by phase(i) ShiftRows, see m_keys() below.

pub const COMPACT: bool = cfg!(aes_compact);

// ---------------------------------------------------------------------------------------------- byte-level model
/// byte i of block b of a bitsliced state (pure wire selection)
pub fn m_get(s: &[W], b: usize, i: usize) -> u8 {
    let sh = pos(b, i % 4, i / 4);
    let mut v = 0u8;
    let mut p = 0;
    while p < 8 {
        v |= (((s[p] >> sh) & 1) as u8) << p;
        p += 1;
    }
    v
}
pub fn m_put(s: &mut [W; 8], b: usize, i: usize, v: u8) {
    let sh = pos(b, i % 4, i / 4);
    let mut p = 0;
    while p < 8 {
        s[p] = (s[p] & !((1 as W) << sh)) | ((((v >> p) & 1) as W) << sh);
        p += 1;
    }
}
pub fn m_unslice(s: &[W]) -> [[u8; 16]; NB] {
    let mut o = [[0u8; 16]; NB];
    let mut b = 0;
    while b < NB {
        let mut i = 0;
        while i < 16 {
            o[b][i] = m_get(s, b, i);
            i += 1;
        }
        b += 1;
    }
    o
}
pub fn m_slice(x: &[[u8; 16]; NB]) -> [W; 8] {
    let mut s = [0 as W; 8];
    let mut b = 0;
    while b < NB {
        let mut i = 0;
        while i < 16 {
            m_put(&mut s, b, i, x[b][i]);
            i += 1;
        }
        b += 1;
    }
    s
}
pub fn eq_words(a: &[W], b: &[W]) -> bool {
    if a.len() != b.len() {
        return false;
    }
    let mut ok = true;
    let mut i = 0;
    while i < a.len() {
        ok &= a[i] == b[i];
        i += 1;
    }
    ok
}
pub fn eq_blocks(a: &BatchBlocks, m: &[[u8; 16]; NB]) -> bool {
    let mut ok = true;
    let mut b = 0;
    while b < NB {
        let mut i = 0;
        while i < 16 {
            ok &= a[b][i] == m[b][i];
            i += 1;
        }
        b += 1;
    }
    ok
}
pub fn state_of(inp: &[u8], off: usize) -> [W; 8] {
    let mut s = [0 as W; 8];
    let mut p = 0;
    while p < 8 {
        s[p] = w_from(inp, off + WB * p);
        p += 1;
    }
    s
}
pub fn blocks_of(inp: &[u8], off: usize) -> [[u8; 16]; NB] {
    let mut x = [[0u8; 16]; NB];
    let mut b = 0;
    while b < NB {
        x[b] = take(inp, off + 16 * b);
        b += 1;
    }
    x
}
fn sr_pow(x: &[u8; 16], k: usize) -> [u8; 16] {
    let mut s = *x;
    let mut j = 0;
    while j < k {
        s = ra::shift_rows(&s);
        j += 1;
    }
    s
}
fn isr_pow(x: &[u8; 16], k: usize) -> [u8; 16] {
    let mut s = *x;
    let mut j = 0;
    while j < k {
        s = ra::inv_shift_rows(&s);
        j += 1;
    }
    s
}
/// every block of `got` equals f applied to the corresponding block of `src`
fn blockwise<F: Fn(&[u8; 16]) -> [u8; 16]>(got: &[W], src: &[W], f: F) -> bool {
    let g = m_unslice(got);
    let s = m_unslice(src);
    let mut ok = true;
    let mut b = 0;
    while b < NB {
        ok &= g[b] == f(&s[b]);
        b += 1;
    }
    ok
}

/// Fixslice phase of round key r (0 <= r <= nr): the state entering round r+1 lacks phase(r) ShiftRows, i.e. the
/// implementation holds t_r = ShiftRows^-phase(r)(s_r) where s_r is the FIPS-197 state after round r.
/// normal form: r mod 4; compact form: r mod 2 (an explicit shift_rows_2 re-synchronises every second round);
/// the whitening key and the last round key are in phase 0.
pub fn phase(r: usize, nr: usize) -> usize {
    if r == 0 || r == nr {
        0
    } else if COMPACT {
        r % 2
    } else {
        r % 4
    }
}
/// SPECIFICATION of the fixsliced round-key format, as a function of the FIPS-197 round keys rk[0..=nr]:
/// words 8r..8r+8 = bitslice(k', k', .., k') with k' = InvShiftRows^phase(r)(rk[r]) XOR (0x63 in every byte if r >= 1)
/// (0x63 = the four NOTs that sub_bytes() omits, "sub_bytes_nots").
pub fn m_keys<const N: usize>(rk: &[[u8; 16]; 15], nr: usize) -> [W; N] {
    let mut out = [0 as W; N];
    let mut r = 0;
    while r <= nr {
        let mut k = isr_pow(&rk[r], phase(r, nr));
        if r >= 1 {
            let mut i = 0;
            while i < 16 {
                k[i] ^= 0x63;
                i += 1;
            }
        }
        let s = m_slice(&[k; NB]);
        let mut p = 0;
        while p < 8 {
            out[8 * r + p] = s[p];
            p += 1;
        }
        r += 1;
    }
    out
}
/// round keys rk[0..=nr] from the primary input bytes
pub fn take_rk(inp: &[u8], off: usize, nr: usize) -> [[u8; 16]; 15] {
    let mut rk = [[0u8; 16]; 15];
    let mut r = 0;
    while r <= nr {
        rk[r] = take(inp, off + 16 * r);
        r += 1;
    }
    rk
}

// ---------------------------------------------------------------------------------------------- uninterpreted S-boxes
// capacity 512 byte-calls each (implementation side + oracle side of one query)
uf1!(uf_sb, u8, u8, [B0 B1 B2 B3 B4 B5 B6 B7], ra::sbox);
uf1!(uf_isb, u8, u8, [B0 B1 B2 B3 B4 B5 B6 B7], ra::inv_sbox);
pub fn o_subword(w: u32) -> u32 {
    let b = w.to_be_bytes();
    u32::from_be_bytes([uf_sb::call(b[0]), uf_sb::call(b[1]), uf_sb::call(b[2]), uf_sb::call(b[3])])
}

fn copy8(dst: &mut [W], src: &[W; 8]) {
    let mut p = 0;
    while p < 8 {
        dst[p] = src[p];
        p += 1;
    }
}
/// bitslice o (bytewise f on every lane) o inv_bitslice -- the shape of every S-box stub; with f = S ^ 0x63 this is
/// what the leaf lemma fx_sub_bytes proves sub_bytes() to be, with f = S^-1(. ^ 0x63) what fx_inv_sub_bytes proves.
pub fn sbox_layer_with<F: Fn(u8) -> u8>(state: &mut [W], f: F) {
    let mut out = [0 as W; 8];
    let mut l = 0;
    while l < NB {
        let mut i = 0;
        while i < 16 {
            m_put(&mut out, l, i, f(m_get(state, l, i)));
            i += 1;
        }
        l += 1;
    }
    copy8(state, &out);
}
/// Block lane whose bytes the `*_lane` stubs compute; every other lane is havocked (fresh unconstrained bits at each
/// call), which is a superset of the real function's behaviour: a result proved under it does not depend on those lanes.
#[cfg(kani)]
pub static mut LANE: usize = 0;
pub fn set_lane(_l: usize) {
    #[cfg(kani)]
    unsafe {
        LANE = _l;
    }
}
#[cfg(kani)]
fn one_lane_with<F: Fn(u8) -> u8>(state: &mut [W], f: F) {
    let lane = unsafe { LANE };
    let mut out: [W; 8] = kani::any();
    let mut i = 0;
    while i < 16 {
        let mut x = 0u8;
        let mut l = 0;
        while l < NB {
            if l == lane {
                x = m_get(state, l, i);
            }
            l += 1;
        }
        let y = f(x);
        l = 0;
        while l < NB {
            if l == lane {
                m_put(&mut out, l, i, y);
            }
            l += 1;
        }
        i += 1;
    }
    copy8(state, &out);
}
/// stub for sub_bytes: lane LANE = uf_sb ^ 0x63 (16 calls), other lanes havoc
#[cfg(kani)]
pub fn stub_sb_lane(state: &mut [W]) {
    one_lane_with(state, |x| uf_sb::call(x) ^ 0x63)
}
/// stub for inv_sub_bytes: lane LANE = uf_isb(. ^ 0x63) (16 calls), other lanes havoc
#[cfg(kani)]
pub fn stub_isb_lane(state: &mut [W]) {
    one_lane_with(state, |x| uf_isb::call(x ^ 0x63))
}
/// stub for sub_bytes, all lanes (16 * NB calls)
pub fn stub_sb_all(state: &mut [W]) {
    sbox_layer_with(state, |x| uf_sb::call(x) ^ 0x63)
}
/// stub for inv_sub_bytes, all lanes
pub fn stub_isb_all(state: &mut [W]) {
    sbox_layer_with(state, |x| uf_isb::call(x ^ 0x63))
}
/// stub for sub_bytes in key schedules, where all NB lanes hold the same block: 16 calls on lane 0, result replicated.
/// That the argument is replicated is a proof obligation of the query (not an assumption).
#[cfg(kani)]
pub fn stub_sb_rep(state: &mut [W]) {
    let mut rep = true;
    let mut out = [0 as W; 8];
    let mut i = 0;
    while i < 16 {
        let x = m_get(state, 0, i);
        let mut l = 1;
        while l < NB {
            rep &= m_get(state, l, i) == x;
            l += 1;
        }
        let y = uf_sb::call(x) ^ 0x63;
        l = 0;
        while l < NB {
            m_put(&mut out, l, i, y);
            l += 1;
        }
        i += 1;
    }
    kani::assert(rep, "VERIF_STUB_PRECONDITION sub_bytes argument replicated over the lanes");
    copy8(state, &out);
}

// ---------------------------------------------------------------------------------------------- access to private state
macro_rules! acc {
    ($mk:ident, $mke:ident, $mkd:ident, $k:ident, $ke:ident, $kd:ident, $inner_e:ident, $ty:ident, $tye:ident, $tyd:ident, $keys:ty) => {
        pub fn $mk(keys: $keys) -> crate::soft::$ty {
            crate::soft::$ty { keys }
        }
        pub fn $mke(keys: $keys) -> crate::soft::$tye {
            crate::soft::$tye { inner: $mk(keys) }
        }
        pub fn $mkd(keys: $keys) -> crate::soft::$tyd {
            crate::soft::$tyd { inner: $mk(keys) }
        }
        pub fn $k(c: &crate::soft::$ty) -> &$keys {
            &c.keys
        }
        pub fn $ke(c: &crate::soft::$tye) -> &$keys {
            &c.inner.keys
        }
        pub fn $kd(c: &crate::soft::$tyd) -> &$keys {
            &c.inner.keys
        }
    };
}
acc!(mk128, mk128e, mk128d, k128, k128e, k128d, inner128e, Aes128, Aes128Enc, Aes128Dec, FixsliceKeys128);
acc!(mk192, mk192e, mk192d, k192, k192e, k192d, inner192e, Aes192, Aes192Enc, Aes192Dec, FixsliceKeys192);
acc!(mk256, mk256e, mk256d, k256, k256e, k256d, inner256e, Aes256, Aes256Enc, Aes256Dec, FixsliceKeys256);
/// arbitrary (not necessarily replicated / reachable) key words from the primary input
pub fn words_of<const N: usize>(inp: &[u8], off: usize) -> [W; N] {
    let mut k = [0 as W; N];
    let mut i = 0;
    while i < N {
        k[i] = w_from(inp, off + WB * i);
        i += 1;
    }
    k
}

// ---------------------------------------------------------------------------------------------- leaf lemmas (D)
verif_harness! {
    name: fx_bitslice,
    bytes: 16 * NB,
    unwind: 70,
    prop: |inp| {
        let x = blocks_of(inp, 0);
        let mut s = [0 as W; 8];
        real_bitslice(&mut s, &x);
        vcheck!(eq_words(&s, &m_slice(&x)));
        vcheck!(m_unslice(&s) == x);
        Some(eq_blocks(&inv_bitslice(&s), &x))
    }
}
verif_harness! {
    name: fx_inv_bitslice,
    bytes: 8 * WB,
    unwind: 70,
    prop: |inp| {
        let s = state_of(inp, 0);
        let y = inv_bitslice(&s);
        let m = m_unslice(&s);
        vcheck!(eq_blocks(&y, &m));
        vcheck!(eq_words(&m_slice(&m), &s));
        let mut t = [0 as W; 8];
        real_bitslice(&mut t, &m);
        Some(eq_words(&t, &s))
    }
}
verif_harness! {
    name: fx_sub_bytes,
    bytes: 8 * WB,
    unwind: 70,
    prop: |inp| {
        let s = state_of(inp, 0);
        let mut t = s;
        sub_bytes(&mut t);
        let mut m = s;
        sbox_layer_with(&mut m, |x| ra::sbox(x) ^ 0x63);
        vcheck!(eq_words(&t, &m));
        // NOT convention: sub_bytes_nots XORs 0x63 into every byte, so nots(sub_bytes(.)) is the FIPS-197 SubBytes
        sub_bytes_nots(&mut t);
        let mut n = s;
        sbox_layer_with(&mut n, ra::sbox);
        vcheck!(eq_words(&t, &n));
        let mut u = s;
        sub_bytes_nots(&mut u);
        let mut v = s;
        sbox_layer_with(&mut v, |x| x ^ 0x63);
        Some(eq_words(&u, &v))
    }
}
verif_harness! {
    name: fx_inv_sub_bytes,
    bytes: 8 * WB,
    unwind: 70,
    prop: |inp| {
        let s = state_of(inp, 0);
        let mut t = s;
        inv_sub_bytes(&mut t);
        let mut m = s;
        sbox_layer_with(&mut m, |x| ra::inv_sbox(x ^ 0x63));
        Some(eq_words(&t, &m))
    }
}
verif_harness! {
    name: fx_shift_rows,
    bytes: 16 * WB,
    unwind: 70,
    prop: |inp| {
        let s = state_of(inp, 0);
        let k = state_of(inp, 8 * WB);
        let mut t = s;
        shift_rows_2(&mut t);
        vcheck!(blockwise(&t, &s, |x| sr_pow(x, 2)));
        t = s;
        shift_rows_3(&mut t);
        vcheck!(blockwise(&t, &s, |x| sr_pow(x, 3)));
        t = s;
        inv_shift_rows_1(&mut t);
        vcheck!(blockwise(&t, &s, |x| isr_pow(x, 1)));
        t = s;
        inv_shift_rows_2(&mut t);
        vcheck!(blockwise(&t, &s, |x| isr_pow(x, 2)));
        #[cfg(any(not(aes_compact), feature = "hazmat"))]
        {
            t = s;
            shift_rows_1(&mut t);
            vcheck!(blockwise(&t, &s, |x| sr_pow(x, 1)));
        }
        #[cfg(not(aes_compact))]
        {
            t = s;
            inv_shift_rows_3(&mut t);
            vcheck!(blockwise(&t, &s, |x| isr_pow(x, 3)));
        }
        // add_round_key is the lane-wise XOR
        t = s;
        add_round_key(&mut t, &k);
        let a = m_unslice(&t);
        let x = m_unslice(&s);
        let y = m_unslice(&k);
        let mut b = 0;
        while b < NB {
            vcheck!(a[b] == ra::xor(&x[b], &y[b]));
            b += 1;
        }
        Some(true)
    }
}
verif_harness! {
    name: fx_mix_columns,
    bytes: 8 * WB,
    unwind: 70,
    prop: |inp| {
        // mix_columns_k == ShiftRows^-k o MixColumns o ShiftRows^k on every block (k = fixslice phase)
        let s = state_of(inp, 0);
        let mut t = s;
        mix_columns_0(&mut t);
        vcheck!(blockwise(&t, &s, |x| ra::mix_columns(x)));
        t = s;
        mix_columns_1(&mut t);
        vcheck!(blockwise(&t, &s, |x| isr_pow(&ra::mix_columns(&sr_pow(x, 1)), 1)));
        #[cfg(not(aes_compact))]
        {
            t = s;
            mix_columns_2(&mut t);
            vcheck!(blockwise(&t, &s, |x| isr_pow(&ra::mix_columns(&sr_pow(x, 2)), 2)));
            t = s;
            mix_columns_3(&mut t);
            vcheck!(blockwise(&t, &s, |x| isr_pow(&ra::mix_columns(&sr_pow(x, 3)), 3)));
        }
        Some(true)
    }
}
verif_harness! {
    name: fx_inv_mix_columns,
    bytes: 8 * WB,
    unwind: 70,
    prop: |inp| {
        let s = state_of(inp, 0);
        let mut t = s;
        inv_mix_columns_0(&mut t);
        vcheck!(blockwise(&t, &s, |x| ra::inv_mix_columns(x)));
        t = s;
        inv_mix_columns_1(&mut t);
        vcheck!(blockwise(&t, &s, |x| isr_pow(&ra::inv_mix_columns(&sr_pow(x, 1)), 1)));
        #[cfg(not(aes_compact))]
        {
            t = s;
            inv_mix_columns_2(&mut t);
            vcheck!(blockwise(&t, &s, |x| isr_pow(&ra::inv_mix_columns(&sr_pow(x, 2)), 2)));
            t = s;
            inv_mix_columns_3(&mut t);
            vcheck!(blockwise(&t, &s, |x| isr_pow(&ra::inv_mix_columns(&sr_pow(x, 3)), 3)));
        }
        Some(true)
    }
}
verif_harness! {
    name: fx_keyformat,
    bytes: 16 * 15,
    unwind: 70,
    prop: |inp| {
        // the key-format specification m_keys is injective on rk[0..=nr] and replicated over the lanes: un-bitslicing
        // any lane of words 8r..8r+8 and undoing phase / NOTs gives back rk[r] (nr = 14 covers 10 and 12 as prefixes
        // except for the phase of the last key, which is 0 like that of the even rounds checked here for nr = 10, 12)
        let rk = take_rk(inp, 0, 14);
        let mut ok = true;
        let mut n = 10;
        while n <= 14 {
            let ks: [W; 120] = m_keys::<120>(&rk, n);
            let mut r = 0;
            while r <= n {
                let u = m_unslice(&ks[8 * r..8 * r + 8]);
                let mut b = 0;
                while b < NB {
                    let mut k = sr_pow(&u[b], phase(r, n));
                    if r >= 1 {
                        let mut i = 0;
                        while i < 16 {
                            k[i] ^= 0x63;
                            i += 1;
                        }
                    }
                    ok &= k == rk[r];
                    b += 1;
                }
                r += 1;
            }
            n += 2;
        }
        Some(ok)
    }
}

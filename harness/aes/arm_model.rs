// Model of the AArch64 environment for the `aes` crate's ARMv8 Cryptography-Extensions backend
// (aes/src/armv8.rs, armv8/{expand,encdec,hazmat}.rs).
//
// This file is copied INTO the shadow crate as `src/verif_arch.rs` (variants "aes:armv8*", plans/fam_g.py); the
// `use core::arch::aarch64::*` imports of the four armv8 source files are redirected to `crate::verif_arch::aarch64::*`,
// so that the backend -- never compiled on an x86-64 host otherwise -- compiles and is executed symbolically here.
//
// Instruction semantics: Arm Architecture Reference Manual (DDI 0487), A64 Advanced SIMD: AESE, AESD, AESMC, AESIMC, EOR,
// LD1/ST1 (one register, 16 bytes), DUP, UMOV.  Byte i of a 128-bit vector is state byte i in FIPS-197 input order
// (state[r][c] = byte r + 4c):
//     AESE  Vd, Vn : Vd = AESSubBytes(AESShiftRows(Vd EOR Vn))          (SubBytes and ShiftRows commute)
//     AESD  Vd, Vn : Vd = AESInvSubBytes(AESInvShiftRows(Vd EOR Vn))
//     AESMC Vd, Vn : Vd = AESMixColumns(Vn)         AESIMC Vd, Vn : Vd = AESInvMixColumns(Vn)
// The model is TRUSTED (it cannot be validated against hardware on this host).  What ties it to FIPS-197:
//   * its concrete meaning is, by definition, refmodels::aes::{last_core, inv_last_core, mix_columns, inv_mix_columns}
//     (oracle validated natively against the repository's KATs and FIPS-197 vectors);
//   * harnesses c02_arm::arm_aese_order / arm_aesd_order prove the Arm-ARM operation order equal to these functions
//     through the LD1 / AESE|AESD / ST1 entry points; the C17 harnesses (x_arm.rs) tie AESE+AESMC / AESD+AESIMC to the
//     FIPS-197 round functions;
//   * one-off native anchor (2026-10-04, dev and release profile): FIPS-197 Appendix C.1/C.2/C.3 vectors through
//     Aes128/192/256 of this shadow (intrinsics arm live, real sub_word), both directions, and a 22-block
//     encrypt_blocks/decrypt_blocks call (21-wide batch + tail) reproduce the standard's ciphertexts;
//   * a vector is a u128 whose little-endian bytes are the 16 lanes; lane order, LD1/ST1 byte order and the u32 lane
//     view are those of a little-endian AArch64 (and of this x86-64 host, on which the shadow runs).
//
// Three evaluation modes of the four AES instructions (selected at run time by the harness; natively, i.e. in the replay
// of a solver counterexample, always CONCRETE):
//   CONCRETE  the FIPS-197 functions of the oracle (leaf lemmas, C17, KAT);
//   UF        (default under Kani) uninterpreted 128-bit functions (back-end function symbols, cuf.rs), shared with the oracle
//             through the `o_*` adapters below (W queries: C02, C03, C12);
//   TAGGED    (C04 batches) every call is given a tag (round, block) computed from its position in the call sequence
//             that the harness announced (`tag::begin_pass`), and its result is constrained ONLY against the first
//             earlier call with the same tag: `x == x0 -> y == y0` (encoded as y = (x == x0) ? y0 : fresh).
// Soundness of UF and TAGGED: every constraint ever imposed on the results has the form "two calls of the same
// instruction with equal arguments return equal results", which the concrete instruction satisfies; so the set of
// behaviours explored is a superset of the concrete behaviour whatever the tagging scheme is, and a property proved
// holds for the concrete functions.  A wrong tagging scheme (e.g. if the batch code issued its instructions in another
// order) can only make a proof FAIL with a spurious counterexample (which then does not reproduce natively), never pass.
#![allow(non_camel_case_types, missing_docs, dead_code, unused, unsafe_op_in_unsafe_fn, unreachable_pub, clippy::all)]

#[macro_use]
#[path = "/verif/harness/common/cuf.rs"]
mod cuf;

use refmodels::aes as ra;

fn lift(f: fn(&ra::State) -> ra::State, x: u128) -> u128 {
    u128::from_le_bytes(f(&x.to_le_bytes()))
}
/// ShiftRows(SubBytes(x)) -- the unkeyed part of AESE
pub fn c_srsb(x: u128) -> u128 {
    lift(ra::last_core, x)
}
/// InvShiftRows(InvSubBytes(x)) -- the unkeyed part of AESD
pub fn c_isrsb(x: u128) -> u128 {
    lift(ra::inv_last_core, x)
}
pub fn c_mc(x: u128) -> u128 {
    lift(ra::mix_columns, x)
}
pub fn c_imc(x: u128) -> u128 {
    lift(ra::inv_mix_columns, x)
}

// back-end uninterpreted functions (harness/common/cuf.rs).  This file is not a harness file: lib/bcv/shadow.py finds these
// invocations (to generate the C wrappers) through the never-compiled `#[cfg(any())] #[path = ".../arm_model.rs"] mod`
// line that every ARM harness file carries.
cuf1!(uf_srsb, vuf_arm_srsb, u128, u128, c_srsb);
cuf1!(uf_isrsb, vuf_arm_isrsb, u128, u128, c_isrsb);
cuf1!(uf_mc, vuf_arm_mc, u128, u128, c_mc);
cuf1!(uf_imc, vuf_arm_imc, u128, u128, c_imc);
cuf1!(uf_sb, vuf_arm_sb, u8, u8, ra::sbox);

// ---- mode switches
#[cfg(kani)]
pub static mut CONCRETE: bool = false;
/// Under Kani: evaluate the AES instructions with the concrete FIPS-197 functions (true) or abstractly (false).
/// Natively the instructions are always concrete.
pub fn set_concrete(on: bool) {
    #[cfg(kani)]
    unsafe {
        CONCRETE = on;
    }
}

#[cfg(kani)]
pub mod tag {
    //! TAGGED mode (see the file header).  A "pass" is one multi-block call (or a sequence of single-block calls) over
    //! n = Q*W + t blocks with R AESE/AESD and R-1 AESMC/AESIMC instructions per block, issued in the order
    //!   for each of the Q full batches: round-major, block-minor (encdec.rs encrypt_par/decrypt_par);
    //!   then for each remaining block: all its rounds (encdec.rs encrypt/decrypt).
    //! Call number k of an instruction within the pass is mapped to (round, block) accordingly.
    pub const MAXR: usize = 14;
    pub const MAXB: usize = 24;
    pub static mut ON: bool = false;
    pub static mut Q: usize = 0;
    pub static mut W: usize = 1;
    pub static mut R: usize = 10;

    fn slot(k: usize, per_block: usize) -> (usize, usize) {
        unsafe {
            let full = Q * W * per_block;
            if k < full {
                let kk = k % (W * per_block);
                (kk / W, (k / (W * per_block)) * W + kk % W)
            } else {
                let kk = k - full;
                (kk % per_block, Q * W + kk / per_block)
            }
        }
    }

    macro_rules! tagged {
        ($f:ident, $t:ident, $per:expr) => {
            pub mod $t {
                pub static mut K: usize = 0;
                pub static mut SEEN: [[bool; 24]; 14] = [[false; 24]; 14];
                pub static mut IN: [[u128; 24]; 14] = [[0; 24]; 14];
                pub static mut OUT: [[u128; 24]; 14] = [[0; 24]; 14];
            }
            pub fn $f(x: u128) -> u128 {
                unsafe {
                    let (r, b) = slot($t::K, $per);
                    $t::K += 1;
                    kani::assert(r < MAXR && b < MAXB, "VERIF_UF_CAPACITY");
                    let fresh: u128 = kani::any();
                    if $t::SEEN[r][b] {
                        // x == x0 -> y == y0, written as a selection (no assumption: path guards stay small)
                        let mask = 0u128.wrapping_sub(($t::IN[r][b] == x) as u128);
                        ($t::OUT[r][b] & mask) | (fresh & !mask)
                    } else {
                        $t::SEEN[r][b] = true;
                        $t::IN[r][b] = x;
                        $t::OUT[r][b] = fresh;
                        fresh
                    }
                }
            }
        };
    }
    tagged!(srsb, t_srsb, R);
    tagged!(isrsb, t_isrsb, R);
    tagged!(mc, t_mc, R - 1);
    tagged!(imc, t_imc, R - 1);

    /// Announce a pass over `q` full batches of width `w` followed by single blocks, `r` = number of rounds (10/12/14).
    pub fn begin_pass(q: usize, w: usize, r: usize) {
        unsafe {
            ON = true;
            Q = q;
            W = w;
            R = r;
            t_srsb::K = 0;
            t_isrsb::K = 0;
            t_mc::K = 0;
            t_imc::K = 0;
        }
    }
    pub fn end() {
        unsafe {
            ON = false;
        }
    }
}
#[cfg(not(kani))]
pub mod tag {
    pub fn begin_pass(_q: usize, _w: usize, _r: usize) {}
    pub fn end() {}
}

macro_rules! dispatch {
    ($f:ident, $conc:ident, $ufm:ident, $tagf:ident) => {
        pub fn $f(x: u128) -> u128 {
            #[cfg(kani)]
            unsafe {
                if CONCRETE {
                    return $conc(x);
                }
                if tag::ON {
                    return tag::$tagf(x);
                }
            }
            $ufm::call(x)
        }
    };
}
dispatch!(f_srsb, c_srsb, uf_srsb, srsb);
dispatch!(f_isrsb, c_isrsb, uf_isrsb, isrsb);
dispatch!(f_mc, c_mc, uf_mc, mc);
dispatch!(f_imc, c_imc, uf_imc, imc);

// ---- oracle-side adapters: the same functions on the oracle's byte-array state
pub fn o_srsb(s: &ra::State) -> ra::State {
    f_srsb(u128::from_le_bytes(*s)).to_le_bytes()
}
pub fn o_isrsb(s: &ra::State) -> ra::State {
    f_isrsb(u128::from_le_bytes(*s)).to_le_bytes()
}
pub fn o_mc(s: &ra::State) -> ra::State {
    f_mc(u128::from_le_bytes(*s)).to_le_bytes()
}
pub fn o_imc(s: &ra::State) -> ra::State {
    f_imc(u128::from_le_bytes(*s)).to_le_bytes()
}
/// FIPS-197 full round body MixColumns(ShiftRows(SubBytes(s))) composed of the two shared functions
pub fn o_round(s: &ra::State) -> ra::State {
    o_mc(&o_srsb(s))
}
/// EqInvCipher round body InvMixColumns(InvShiftRows(InvSubBytes(s)))
pub fn o_inv_round(s: &ra::State) -> ra::State {
    o_imc(&o_isrsb(s))
}
/// byte S-box of the key schedule: uninterpreted under Kani (unless CONCRETE), FIPS S-box natively
pub fn f_sb(x: u8) -> u8 {
    #[cfg(kani)]
    unsafe {
        if CONCRETE {
            return ra::sbox(x);
        }
    }
    uf_sb::call(x)
}
/// SubWord of the oracle (big-endian words), bytewise through the shared byte function
pub fn o_subword(w: u32) -> u32 {
    let b = w.to_be_bytes();
    u32::from_be_bytes([f_sb(b[0]), f_sb(b[1]), f_sb(b[2]), f_sb(b[3])])
}
/// Replacement of armv8::expand::sub_word in W queries: the byte function on the four bytes of the (native-endian
/// = little-endian) column.  Leaf lemma c02_arm::arm_sub_word_leaf: the real sub_word (DUP + AESE with a zero key +
/// UMOV lane 0, concrete instruction semantics) computes exactly this with the FIPS S-box.
pub unsafe fn stub_sub_word(input: u32) -> u32 {
    let b = input.to_le_bytes();
    u32::from_le_bytes([f_sb(b[0]), f_sb(b[1]), f_sb(b[2]), f_sb(b[3])])
}
/// FIPS-197 round keys / Cipher / EqInvCipher over the shared functions
pub fn oracle_rk(key: &[u8]) -> [ra::State; ra::MAX_RK] {
    ra::key_expansion_with(key, key.len() / 4, o_subword)
}
pub fn oracle_enc_rk(rk: &[ra::State; ra::MAX_RK], nr: usize, blk: &[u8; 16]) -> [u8; 16] {
    ra::cipher_with(rk, nr, blk, o_round, o_srsb)
}
pub fn oracle_dw(rk: &[ra::State; ra::MAX_RK], nr: usize) -> [ra::State; ra::MAX_RK] {
    ra::eq_inv_keys_with(rk, nr, o_imc)
}
pub fn oracle_dec_dw(dw: &[ra::State; ra::MAX_RK], nr: usize, blk: &[u8; 16]) -> [u8; 16] {
    ra::eq_inv_cipher_with(dw, nr, blk, o_inv_round, o_isrsb)
}
pub fn oracle_enc(key: &[u8], blk: &[u8; 16]) -> [u8; 16] {
    oracle_enc_rk(&oracle_rk(key), key.len() / 4 + 6, blk)
}
pub fn oracle_dec(key: &[u8], blk: &[u8; 16]) -> [u8; 16] {
    let nr = key.len() / 4 + 6;
    oracle_dec_dw(&oracle_dw(&oracle_rk(key), nr), nr, blk)
}

/// Stand-in for `core::arch::aarch64`: exactly the types and intrinsics the armv8 backend uses.
/// Signatures as in core::arch::aarch64 except `vgetq_lane_u32`, whose lane is a const generic there (passed in
/// argument position through the compiler-internal `rustc_legacy_const_generics`); here it is an ordinary argument, so
/// that the unmodified call `vgetq_lane_u32(v, 0)` compiles.
pub mod aarch64 {
    use super::{f_imc, f_isrsb, f_mc, f_srsb};

    /// 128-bit vector of 16 byte lanes; lane i = byte i of the little-endian u128 = memory byte i.
    #[derive(Clone, Copy)]
    #[repr(C, align(16))]
    pub struct uint8x16_t(pub u128);
    /// 128-bit vector of 4 word lanes; lane i = bits 32i..32i+31.
    #[derive(Clone, Copy)]
    #[repr(C, align(16))]
    pub struct uint32x4_t(pub u128);

    /// LD1 {Vt.16B}, [Xn]: 16 bytes from memory, no alignment requirement
    pub unsafe fn vld1q_u8(ptr: *const u8) -> uint8x16_t {
        uint8x16_t(u128::from_le_bytes(core::ptr::read_unaligned(ptr as *const [u8; 16])))
    }
    /// ST1 {Vt.16B}, [Xn]
    pub unsafe fn vst1q_u8(ptr: *mut u8, a: uint8x16_t) {
        core::ptr::write_unaligned(ptr as *mut [u8; 16], a.0.to_le_bytes())
    }
    /// EOR Vd.16B, Vn.16B, Vm.16B
    pub unsafe fn veorq_u8(a: uint8x16_t, b: uint8x16_t) -> uint8x16_t {
        uint8x16_t(a.0 ^ b.0)
    }
    /// AESE
    pub unsafe fn vaeseq_u8(data: uint8x16_t, key: uint8x16_t) -> uint8x16_t {
        uint8x16_t(f_srsb(data.0 ^ key.0))
    }
    /// AESD
    pub unsafe fn vaesdq_u8(data: uint8x16_t, key: uint8x16_t) -> uint8x16_t {
        uint8x16_t(f_isrsb(data.0 ^ key.0))
    }
    /// AESMC
    pub unsafe fn vaesmcq_u8(data: uint8x16_t) -> uint8x16_t {
        uint8x16_t(f_mc(data.0))
    }
    /// AESIMC
    pub unsafe fn vaesimcq_u8(data: uint8x16_t) -> uint8x16_t {
        uint8x16_t(f_imc(data.0))
    }
    /// DUP Vd.16B, Wn
    pub unsafe fn vdupq_n_u8(value: u8) -> uint8x16_t {
        uint8x16_t(u128::from_le_bytes([value; 16]))
    }
    /// DUP Vd.4S, Wn
    pub unsafe fn vdupq_n_u32(value: u32) -> uint32x4_t {
        let v = value as u128;
        uint32x4_t(v | (v << 32) | (v << 64) | (v << 96))
    }
    /// no instruction: same 128 bits (little-endian lane numbering)
    pub unsafe fn vreinterpretq_u8_u32(a: uint32x4_t) -> uint8x16_t {
        uint8x16_t(a.0)
    }
    pub unsafe fn vreinterpretq_u32_u8(a: uint8x16_t) -> uint32x4_t {
        uint32x4_t(a.0)
    }
    /// UMOV Wd, Vn.S[lane]
    pub unsafe fn vgetq_lane_u32(v: uint32x4_t, lane: i32) -> u32 {
        assert!(lane >= 0 && lane < 4);
        (v.0 >> (32 * lane as u32)) as u32
    }
}

// des crate: cross-cutting per-type harnesses (C04, C13, C15, C16, C19, C20) from the generic generators.
use super::prelude::*;
use super::generic;
use crate::{Des, TdesEde2, TdesEde3, TdesEee2, TdesEee3};

//@ harness name=des_debug prop=C19 tier=quick bits=1024 est=10 desc="Debug of Des on an arbitrary state: constant text starting with the type identifier"
g_debug!(des_debug, Des, "Des", generic::always);
//@ harness name=tdes_ede3_debug prop=C19 tier=quick bits=3072 est=10 desc="Debug of TdesEde3 on an arbitrary state: constant text starting with the type identifier"
g_debug!(tdes_ede3_debug, TdesEde3, "TdesEde3", generic::always);
//@ harness name=tdes_ede2_debug prop=C19 tier=quick bits=2048 est=15 desc="Debug of TdesEde2 on an arbitrary state: constant text starting with the type identifier"
g_debug!(tdes_ede2_debug, TdesEde2, "TdesEde2", generic::always);
//@ harness name=tdes_eee3_debug prop=C19 tier=quick bits=3072 est=10 desc="Debug of TdesEee3 on an arbitrary state: constant text starting with the type identifier"
g_debug!(tdes_eee3_debug, TdesEee3, "TdesEee3", generic::always);
//@ harness name=tdes_eee2_debug prop=C19 tier=quick bits=2048 est=15 desc="Debug of TdesEee2 on an arbitrary state: constant text starting with the type identifier"
g_debug!(tdes_eee2_debug, TdesEee2, "TdesEee2", generic::always);

//@ harness name=des_algname prop=C19 tier=quick bits=0 est=15 desc="AlgorithmName of Des names the algorithm"
g_algname!(des_algname, Des, ["des"]);
//@ harness name=tdes_ede3_algname prop=C19 tier=quick bits=0 est=15 desc="AlgorithmName of TdesEde3 names algorithm and variant"
g_algname!(tdes_ede3_algname, TdesEde3, ["des", "ede3"]);
//@ harness name=tdes_ede2_algname prop=C19 tier=quick bits=0 est=15 desc="AlgorithmName of TdesEde2 names algorithm and variant"
g_algname!(tdes_ede2_algname, TdesEde2, ["des", "ede2"]);
//@ harness name=tdes_eee3_algname prop=C19 tier=quick bits=0 est=15 desc="AlgorithmName of TdesEee3 names algorithm and variant"
g_algname!(tdes_eee3_algname, TdesEee3, ["des", "eee3"]);
//@ harness name=tdes_eee2_algname prop=C19 tier=quick bits=0 est=15 desc="AlgorithmName of TdesEee2 names algorithm and variant"
g_algname!(tdes_eee2_algname, TdesEee2, ["des", "eee2"]);

//@ harness name=des_zeroize prop=C16 tier=quick bits=1024 variants=des+zeroize est=10 desc="drop of an arbitrary-state Des leaves every byte of its storage zero"
g_zeroize!(des_zeroize, Des, generic::always, generic::none);
//@ harness name=tdes_ede3_zeroize prop=C16 tier=quick bits=3072 variants=des+zeroize est=30 desc="drop of an arbitrary-state TdesEde3 leaves every byte of its storage zero"
g_zeroize!(tdes_ede3_zeroize, TdesEde3, generic::always, generic::none);
//@ harness name=tdes_ede2_zeroize prop=C16 tier=quick bits=2048 variants=des+zeroize est=20 desc="drop of an arbitrary-state TdesEde2 leaves every byte of its storage zero"
g_zeroize!(tdes_ede2_zeroize, TdesEde2, generic::always, generic::none);
//@ harness name=tdes_eee3_zeroize prop=C16 tier=quick bits=3072 variants=des+zeroize est=25 desc="drop of an arbitrary-state TdesEee3 leaves every byte of its storage zero"
g_zeroize!(tdes_eee3_zeroize, TdesEee3, generic::always, generic::none);
//@ harness name=tdes_eee2_zeroize prop=C16 tier=quick bits=2048 variants=des+zeroize est=20 desc="drop of an arbitrary-state TdesEee2 leaves every byte of its storage zero"
g_zeroize!(tdes_eee2_zeroize, TdesEee2, generic::always, generic::none);

// Abstractions used by the routing / state-immutability harnesses below (what the cipher computes is not their subject;
// it is decided by c05.rs):
//  * Des blocks harnesses: the cipher function f is an uninterpreted function (real IP/FP/rounds);
//  * TDES harnesses: single DES (Des::encrypt / Des::decrypt) is an uninterpreted function KEYED by the whole subkey array
//    of the instance it is called on (a few dozen logged calls instead of several hundred f calls).
fn conc_f(r: u64, k: u64) -> u64 {
    (refmodels::des::f((r >> 32) as u32, k >> 16) as u64) << 32
}
cuf2!(xf, vuf_dx_xf, u64, u64, u64, conc_f);
pub fn stub_xf(input: u64, key: u64) -> u64 {
    xf::call(input & 0xFFFF_FFFF_0000_0000, key) & 0xFFFF_FFFF_0000_0000
}

#[cfg(kani)]
mod kd {
    // entry j: direction D[j] (0 = encrypt, 1 = decrypt) under subkey array K[j] maps X[j] to Y[j]
    pub static mut K: [[u64; 16]; 64] = [[0; 16]; 64];
    pub static mut D: [u8; 64] = [0; 64];
    pub static mut X: [u64; 64] = [0; 64];
    pub static mut Y: [u64; 64] = [0; 64];
    pub static mut N: usize = 0;
}
#[cfg(kani)]
fn kd_call(dir: u8, keys: &[u64; 16], x: u64) -> u64 {
    unsafe {
        let y: u64 = kani::any();
        let n = kd::N;
        kani::assert(n < 64, "VERIF_UF_CAPACITY");
        let (ks, ds, xs, ys) = (kd::K, kd::D, kd::X, kd::Y);
        let mut ok = true;
        let mut j = 0;
        while j < n {
            let mut same = ds[j] == dir && xs[j] == x;
            let mut w = 0;
            while w < 16 {
                same &= ks[j][w] == keys[w];
                w += 1;
            }
            ok &= !same | (ys[j] == y);
            j += 1;
        }
        kani::assume(ok);
        kd::K[n] = *keys;
        kd::D[n] = dir;
        kd::X[n] = x;
        kd::Y[n] = y;
        kd::N = n + 1;
        y
    }
}
fn kd_native(d: &Des, x: u64, decrypt: bool) -> u64 {
    let mut ks = [0u64; 16];
    let mut i = 0;
    while i < 16 {
        ks[i] = d.keys[i] >> 16;
        i += 1;
    }
    refmodels::des::crypt_with(x, &ks, decrypt, refmodels::des::f)
}
pub fn stub_kd_enc(d: &Des, x: u64) -> u64 {
    #[cfg(kani)]
    return kd_call(0, &d.keys, x);
    #[cfg(not(kani))]
    return kd_native(d, x, false);
}
pub fn stub_kd_dec(d: &Des, x: u64) -> u64 {
    #[cfg(kani)]
    return kd_call(1, &d.keys, x);
    #[cfg(not(kani))]
    return kd_native(d, x, true);
}

/// state validity for the Des / TDES harnesses: every subkey word has its 16 low (ignored) bits zero, as in every state a
/// constructor produces
pub fn canon(b: &[u8]) -> bool {
    let mut ok = true;
    let mut w = 0;
    while 8 * w + 1 < b.len() {
        ok &= (b[8 * w] | b[8 * w + 1]) == 0;
        w += 1;
    }
    ok
}

//@ harness name=des_frame prop=C15,C20 tier=quick bits=1088 est=95 need=4 desc="encrypt_block/decrypt_block on an arbitrary Des state and block return (no panic/overflow) and leave the instance bytes unchanged; nothing abstracted"
g_frame!(des_frame, Des, 8, canon);
//@ harness name=tdes_ede3_frame prop=C15,C20 tier=quick bits=3136 stub=1 est=35 desc="encrypt/decrypt on an arbitrary TdesEde3 state: total, instance unchanged (single DES uninterpreted, keyed by the subkey array)"
g_frame!(tdes_ede3_frame, TdesEde3, 8, canon, stubs: [(crate::des::Des::encrypt, stub_kd_enc), (crate::des::Des::decrypt, stub_kd_dec)]);
//@ harness name=tdes_ede2_frame prop=C15,C20 tier=quick bits=2112 stub=1 est=30 desc="encrypt/decrypt on an arbitrary TdesEde2 state: total, instance unchanged (single DES uninterpreted, keyed by the subkey array)"
g_frame!(tdes_ede2_frame, TdesEde2, 8, canon, stubs: [(crate::des::Des::encrypt, stub_kd_enc), (crate::des::Des::decrypt, stub_kd_dec)]);
//@ harness name=tdes_eee3_frame prop=C15,C20 tier=quick bits=3136 stub=1 est=40 desc="encrypt/decrypt on an arbitrary TdesEee3 state: total, instance unchanged (single DES uninterpreted, keyed by the subkey array)"
g_frame!(tdes_eee3_frame, TdesEee3, 8, canon, stubs: [(crate::des::Des::encrypt, stub_kd_enc), (crate::des::Des::decrypt, stub_kd_dec)]);
//@ harness name=tdes_eee2_frame prop=C15,C20 tier=quick bits=2112 stub=1 est=35 desc="encrypt/decrypt on an arbitrary TdesEee2 state: total, instance unchanged (single DES uninterpreted, keyed by the subkey array)"
g_frame!(tdes_eee2_frame, TdesEee2, 8, canon, stubs: [(crate::des::Des::encrypt, stub_kd_enc), (crate::des::Des::decrypt, stub_kd_dec)]);

// C15: mixed-direction history on one instance and construction history (see generic.rs)
//@ harness name=des_mixed prop=C15 tier=quick bits=1152 stub=1 est=145 need=6 desc="Des: on one arbitrary-state instance the history enc(x); dec(x); dec(y); enc(y) returns for dec(x) and enc(y) what a pristine instance with the same state returns; instance bytes unchanged (cipher function f uninterpreted; IP/FP/rounds real; totality with nothing abstracted is des_frame)"
g_mixed!(des_mixed, Des, 8, canon, stubs: [(crate::utils::f, stub_xf)]);
//@ harness name=tdes_ede3_mixed prop=C15,C20 tier=quick bits=3200 stub=1 est=90 need=6 desc="TdesEde3: mixed-direction history enc(x); dec(x); dec(y); enc(y) agrees with a pristine instance; instance bytes unchanged (f uninterpreted)"
g_mixed!(tdes_ede3_mixed, TdesEde3, 8, canon, stubs: [(crate::des::Des::encrypt, stub_kd_enc), (crate::des::Des::decrypt, stub_kd_dec)]);
//@ harness name=tdes_eee2_mixed prop=C15,C20 tier=quick bits=2176 stub=1 est=85 need=5 desc="TdesEee2: mixed-direction history agrees with a pristine instance; instance bytes unchanged (f uninterpreted)"
g_mixed!(tdes_eee2_mixed, TdesEee2, 8, canon, stubs: [(crate::des::Des::encrypt, stub_kd_enc), (crate::des::Des::decrypt, stub_kd_dec)]);
//@ harness name=des_ctor_history prop=C15 tier=quick bits=192 est=25 desc="Des: history new(k2) in a fresh process, new(k1), new(k2), new(k3), new(k1): both constructions from k2 give the same subkeys and both from k1 do, all keys k1, k2, k3"
g_ctor_history!(des_ctor_history, Des, 8, generic::none);
//@ harness name=tdes_ede3_ctor_history prop=C15 tier=thorough bits=576 est=1500 mem=24 desc="TdesEde3: construction history new(k2); new(k1); new(k2); new(k3); new(k1) gives the same state for equal keys, all keys"
g_ctor_history!(tdes_ede3_ctor_history, TdesEde3, 24, generic::none);

// C04: every block count n = 0, 1, 2 (enumerated), all block contents and all states symbolic; one harness per direction.
//@ disabled-harness reason=thorough_measuring_run:_no_results_(rc=1):_ttps://github.com/model-checking/kani/iss name=des_blocks_enc prop=C04,C20 tier=thorough bits=1152 stub=1 desc="Des encrypt: multi-block in place / multi-block b2b (n = 0,1,2) / single b2b equal per-block in-place calls; separate input unchanged; blocks >= n and mismatched-length outputs untouched; arbitrary state (f uninterpreted)"
g_blocks1!(des_blocks_enc, Des, 8, 2, canon, enc, stubs: [(crate::utils::f, stub_xf)]);
//@ disabled-harness reason=thorough_measuring_run:_timeout_after_600s name=des_blocks_dec prop=C04,C20 tier=thorough bits=1152 stub=1 desc="Des decrypt: same as des_blocks_enc"
g_blocks1!(des_blocks_dec, Des, 8, 2, canon, dec, stubs: [(crate::utils::f, stub_xf)]);
//@ harness name=tdes_ede3_blocks_enc prop=C04,C20 tier=thorough bits=3200 stub=1 est=520 need=13 desc="TdesEde3 encrypt: multi-block / b2b calls equal per-block calls (n = 0,1,2); arbitrary state (f uninterpreted)"
g_blocks1!(tdes_ede3_blocks_enc, TdesEde3, 8, 2, canon, enc, stubs: [(crate::des::Des::encrypt, stub_kd_enc), (crate::des::Des::decrypt, stub_kd_dec)]);
//@ disabled-harness reason=thorough_measuring_run:_no_results_(rc=1):_//github.com/model-checking/kani/issues/n name=tdes_ede3_blocks_dec prop=C04,C20 tier=thorough bits=3200 stub=1 desc="TdesEde3 decrypt: multi-block / b2b calls equal per-block calls (n = 0,1,2); arbitrary state (f uninterpreted)"
g_blocks1!(tdes_ede3_blocks_dec, TdesEde3, 8, 2, canon, dec, stubs: [(crate::des::Des::encrypt, stub_kd_enc), (crate::des::Des::decrypt, stub_kd_dec)]);
//@ disabled-harness reason=thorough_measuring_run:_no_results_(rc=1):_//github.com/model-checking/kani/issues/n name=tdes_ede2_blocks_enc prop=C04,C20 tier=thorough bits=2176 stub=1 desc="TdesEde2 encrypt: multi-block / b2b calls equal per-block calls; arbitrary state (f uninterpreted)"
g_blocks1!(tdes_ede2_blocks_enc, TdesEde2, 8, 2, canon, enc, stubs: [(crate::des::Des::encrypt, stub_kd_enc), (crate::des::Des::decrypt, stub_kd_dec)]);
//@ disabled-harness reason=thorough_measuring_run:_no_results_(rc=1):_//github.com/model-checking/kani/issues/n name=tdes_ede2_blocks_dec prop=C04,C20 tier=thorough bits=2176 stub=1 desc="TdesEde2 decrypt: multi-block / b2b calls equal per-block calls; arbitrary state (f uninterpreted)"
g_blocks1!(tdes_ede2_blocks_dec, TdesEde2, 8, 2, canon, dec, stubs: [(crate::des::Des::encrypt, stub_kd_enc), (crate::des::Des::decrypt, stub_kd_dec)]);
//@ harness name=tdes_eee3_blocks_enc prop=C04,C20 tier=thorough bits=3200 stub=1 est=525 need=13 desc="TdesEee3 encrypt: multi-block / b2b calls equal per-block calls; arbitrary state (f uninterpreted)"
g_blocks1!(tdes_eee3_blocks_enc, TdesEee3, 8, 2, canon, enc, stubs: [(crate::des::Des::encrypt, stub_kd_enc), (crate::des::Des::decrypt, stub_kd_dec)]);
//@ harness name=tdes_eee3_blocks_dec prop=C04,C20 tier=thorough bits=3200 stub=1 est=535 need=13 desc="TdesEee3 decrypt: multi-block / b2b calls equal per-block calls; arbitrary state (f uninterpreted)"
g_blocks1!(tdes_eee3_blocks_dec, TdesEee3, 8, 2, canon, dec, stubs: [(crate::des::Des::encrypt, stub_kd_enc), (crate::des::Des::decrypt, stub_kd_dec)]);
//@ disabled-harness reason=thorough_measuring_run:_no_results_(rc=1):_//github.com/model-checking/kani/issues/n name=tdes_eee2_blocks_enc prop=C04,C20 tier=thorough bits=2176 stub=1 desc="TdesEee2 encrypt: multi-block / b2b calls equal per-block calls; arbitrary state (f uninterpreted)"
g_blocks1!(tdes_eee2_blocks_enc, TdesEee2, 8, 2, canon, enc, stubs: [(crate::des::Des::encrypt, stub_kd_enc), (crate::des::Des::decrypt, stub_kd_dec)]);
//@ disabled-harness reason=thorough_measuring_run:_no_results_(rc=1):_/github.com/model-checking/kani/issues/ne name=tdes_eee2_blocks_dec prop=C04,C20 tier=thorough bits=2176 stub=1 desc="TdesEee2 decrypt: multi-block / b2b calls equal per-block calls; arbitrary state (f uninterpreted)"
g_blocks1!(tdes_eee2_blocks_dec, TdesEee2, 8, 2, canon, dec, stubs: [(crate::des::Des::encrypt, stub_kd_enc), (crate::des::Des::decrypt, stub_kd_dec)]);

// ---- quick forms (two block computations each, see generic.rs g_b2b1 / g_frame2)
//@ harness name=des_b2b_enc prop=C04,C20 tier=quick bits=1152 stub=1 est=20 desc="Des encrypt: single-block b2b into an output buffer pre-filled with arbitrary bytes equals the in-place call; input unchanged; arbitrary canonical state (f uninterpreted)"
g_b2b1!(des_b2b_enc, Des, 8, canon, enc, stubs: [(crate::utils::f, stub_xf)]);
//@ harness name=des_b2b_dec prop=C04,C20 tier=quick bits=1152 stub=1 est=20 desc="Des decrypt: as des_b2b_enc"
g_b2b1!(des_b2b_dec, Des, 8, canon, dec, stubs: [(crate::utils::f, stub_xf)]);
//@ harness name=tdes_ede3_b2b_enc prop=C04,C20 tier=quick bits=3200 stub=1 est=25 desc="TdesEde3 enc: single-block b2b into an output buffer pre-filled with arbitrary bytes equals the in-place call; input unchanged; arbitrary canonical state (single DES uninterpreted, keyed by the subkey array)"
g_b2b1!(tdes_ede3_b2b_enc, TdesEde3, 8, canon, enc, stubs: [(crate::des::Des::encrypt, stub_kd_enc), (crate::des::Des::decrypt, stub_kd_dec)]);
//@ harness name=tdes_ede3_frame2_enc prop=C15,C20 tier=quick bits=3136 stub=1 est=25 desc="TdesEde3 enc: the same call twice on one arbitrary-canonical-state instance gives the same result and leaves every byte of the instance unchanged (single DES uninterpreted, keyed by the subkey array)"
g_frame2!(tdes_ede3_frame2_enc, TdesEde3, 8, canon, enc, stubs: [(crate::des::Des::encrypt, stub_kd_enc), (crate::des::Des::decrypt, stub_kd_dec)]);
//@ harness name=tdes_ede3_b2b_dec prop=C04,C20 tier=quick bits=3200 stub=1 est=25 desc="TdesEde3 dec: single-block b2b into an output buffer pre-filled with arbitrary bytes equals the in-place call; input unchanged; arbitrary canonical state (single DES uninterpreted, keyed by the subkey array)"
g_b2b1!(tdes_ede3_b2b_dec, TdesEde3, 8, canon, dec, stubs: [(crate::des::Des::encrypt, stub_kd_enc), (crate::des::Des::decrypt, stub_kd_dec)]);
//@ harness name=tdes_ede3_frame2_dec prop=C15,C20 tier=quick bits=3136 stub=1 est=30 desc="TdesEde3 dec: the same call twice on one arbitrary-canonical-state instance gives the same result and leaves every byte of the instance unchanged (single DES uninterpreted, keyed by the subkey array)"
g_frame2!(tdes_ede3_frame2_dec, TdesEde3, 8, canon, dec, stubs: [(crate::des::Des::encrypt, stub_kd_enc), (crate::des::Des::decrypt, stub_kd_dec)]);
//@ harness name=tdes_ede2_b2b_enc prop=C04,C20 tier=quick bits=3200 stub=1 est=25 desc="TdesEde2 enc: single-block b2b into an output buffer pre-filled with arbitrary bytes equals the in-place call; input unchanged; arbitrary canonical state (single DES uninterpreted, keyed by the subkey array)"
g_b2b1!(tdes_ede2_b2b_enc, TdesEde2, 8, canon, enc, stubs: [(crate::des::Des::encrypt, stub_kd_enc), (crate::des::Des::decrypt, stub_kd_dec)]);
//@ harness name=tdes_ede2_frame2_enc prop=C15,C20 tier=quick bits=3136 stub=1 est=35 desc="TdesEde2 enc: the same call twice on one arbitrary-canonical-state instance gives the same result and leaves every byte of the instance unchanged (single DES uninterpreted, keyed by the subkey array)"
g_frame2!(tdes_ede2_frame2_enc, TdesEde2, 8, canon, enc, stubs: [(crate::des::Des::encrypt, stub_kd_enc), (crate::des::Des::decrypt, stub_kd_dec)]);
//@ harness name=tdes_ede2_b2b_dec prop=C04,C20 tier=quick bits=3200 stub=1 est=20 desc="TdesEde2 dec: single-block b2b into an output buffer pre-filled with arbitrary bytes equals the in-place call; input unchanged; arbitrary canonical state (single DES uninterpreted, keyed by the subkey array)"
g_b2b1!(tdes_ede2_b2b_dec, TdesEde2, 8, canon, dec, stubs: [(crate::des::Des::encrypt, stub_kd_enc), (crate::des::Des::decrypt, stub_kd_dec)]);
//@ harness name=tdes_ede2_frame2_dec prop=C15,C20 tier=quick bits=3136 stub=1 est=35 desc="TdesEde2 dec: the same call twice on one arbitrary-canonical-state instance gives the same result and leaves every byte of the instance unchanged (single DES uninterpreted, keyed by the subkey array)"
g_frame2!(tdes_ede2_frame2_dec, TdesEde2, 8, canon, dec, stubs: [(crate::des::Des::encrypt, stub_kd_enc), (crate::des::Des::decrypt, stub_kd_dec)]);
//@ harness name=tdes_eee3_b2b_enc prop=C04,C20 tier=quick bits=3200 stub=1 est=20 desc="TdesEee3 enc: single-block b2b into an output buffer pre-filled with arbitrary bytes equals the in-place call; input unchanged; arbitrary canonical state (single DES uninterpreted, keyed by the subkey array)"
g_b2b1!(tdes_eee3_b2b_enc, TdesEee3, 8, canon, enc, stubs: [(crate::des::Des::encrypt, stub_kd_enc), (crate::des::Des::decrypt, stub_kd_dec)]);
//@ harness name=tdes_eee3_frame2_enc prop=C15,C20 tier=quick bits=3136 stub=1 est=35 desc="TdesEee3 enc: the same call twice on one arbitrary-canonical-state instance gives the same result and leaves every byte of the instance unchanged (single DES uninterpreted, keyed by the subkey array)"
g_frame2!(tdes_eee3_frame2_enc, TdesEee3, 8, canon, enc, stubs: [(crate::des::Des::encrypt, stub_kd_enc), (crate::des::Des::decrypt, stub_kd_dec)]);
//@ harness name=tdes_eee3_b2b_dec prop=C04,C20 tier=quick bits=3200 stub=1 est=25 desc="TdesEee3 dec: single-block b2b into an output buffer pre-filled with arbitrary bytes equals the in-place call; input unchanged; arbitrary canonical state (single DES uninterpreted, keyed by the subkey array)"
g_b2b1!(tdes_eee3_b2b_dec, TdesEee3, 8, canon, dec, stubs: [(crate::des::Des::encrypt, stub_kd_enc), (crate::des::Des::decrypt, stub_kd_dec)]);
//@ harness name=tdes_eee3_frame2_dec prop=C15,C20 tier=quick bits=3136 stub=1 est=35 desc="TdesEee3 dec: the same call twice on one arbitrary-canonical-state instance gives the same result and leaves every byte of the instance unchanged (single DES uninterpreted, keyed by the subkey array)"
g_frame2!(tdes_eee3_frame2_dec, TdesEee3, 8, canon, dec, stubs: [(crate::des::Des::encrypt, stub_kd_enc), (crate::des::Des::decrypt, stub_kd_dec)]);
//@ harness name=tdes_eee2_b2b_enc prop=C04,C20 tier=quick bits=3200 stub=1 est=20 desc="TdesEee2 enc: single-block b2b into an output buffer pre-filled with arbitrary bytes equals the in-place call; input unchanged; arbitrary canonical state (single DES uninterpreted, keyed by the subkey array)"
g_b2b1!(tdes_eee2_b2b_enc, TdesEee2, 8, canon, enc, stubs: [(crate::des::Des::encrypt, stub_kd_enc), (crate::des::Des::decrypt, stub_kd_dec)]);
//@ harness name=tdes_eee2_frame2_enc prop=C15,C20 tier=quick bits=3136 stub=1 est=35 desc="TdesEee2 enc: the same call twice on one arbitrary-canonical-state instance gives the same result and leaves every byte of the instance unchanged (single DES uninterpreted, keyed by the subkey array)"
g_frame2!(tdes_eee2_frame2_enc, TdesEee2, 8, canon, enc, stubs: [(crate::des::Des::encrypt, stub_kd_enc), (crate::des::Des::decrypt, stub_kd_dec)]);
//@ harness name=tdes_eee2_b2b_dec prop=C04,C20 tier=quick bits=3200 stub=1 est=25 desc="TdesEee2 dec: single-block b2b into an output buffer pre-filled with arbitrary bytes equals the in-place call; input unchanged; arbitrary canonical state (single DES uninterpreted, keyed by the subkey array)"
g_b2b1!(tdes_eee2_b2b_dec, TdesEee2, 8, canon, dec, stubs: [(crate::des::Des::encrypt, stub_kd_enc), (crate::des::Des::decrypt, stub_kd_dec)]);
//@ harness name=tdes_eee2_frame2_dec prop=C15,C20 tier=quick bits=3136 stub=1 est=30 desc="TdesEee2 dec: the same call twice on one arbitrary-canonical-state instance gives the same result and leaves every byte of the instance unchanged (single DES uninterpreted, keyed by the subkey array)"
g_frame2!(tdes_eee2_frame2_dec, TdesEee2, 8, canon, dec, stubs: [(crate::des::Des::encrypt, stub_kd_enc), (crate::des::Des::decrypt, stub_kd_dec)]);

// C13 — weak-key screening, DES family (in-crate: also compares constructor states).
use super::prelude::*;
use crate::{Des, TdesEde2, TdesEde3, TdesEee2, TdesEee3};
use cipher::KeyInit;
use refmodels::des as rd;

fn part(k: &[u8], i: usize) -> u64 {
    u64::from_be_bytes(take::<8>(k, 8 * i))
}
fn same_des_key(a: u64, b: u64) -> bool {
    (a & rd::PARITY_MASK) == (b & rd::PARITY_MASK)
}

//@ harness name=des_weak_exact tier=quick bits=64 est=10 desc="Des::weak_key_test(k) fails <=> k equals one of the 64 NIST keys modulo the parity bits; all 2^64 keys"
verif_harness! {
    name: des_weak_exact,
    bytes: 8,
    unwind: 66,
    prop: |inp| {
        let key = *inp;
        let r = <Des as KeyInit>::weak_key_test(&key.into());
        Some(r.is_err() == rd::is_nist_weak(u64::from_be_bytes(key)))
    }
}

fn tdes_expect(k: &[u8], parts: usize) -> bool {
    let mut weak = false;
    let mut i = 0;
    while i < parts {
        weak |= rd::is_nist_weak(part(k, i));
        let mut j = 0;
        while j < i {
            weak |= same_des_key(part(k, i), part(k, j));
            j += 1;
        }
        i += 1;
    }
    weak
}

//@ harness name=tdes_ede3_weak_exact prop=C13 tier=quick bits=192 est=25 desc="TdesEde3::weak_key_test fails <=> some 8-byte part is a NIST key (mod parity) or two parts are the same DES key (mod parity); all 2^192 keys"
verif_harness! {
    name: tdes_ede3_weak_exact,
    bytes: 24,
    unwind: 66,
    prop: |inp| {
        let key = *inp;
        Some(<TdesEde3 as KeyInit>::weak_key_test(&key.into()).is_err() == tdes_expect(&key, 3))
    }
}
//@ harness name=tdes_eee3_weak_exact prop=C13 tier=quick bits=192 est=25 desc="TdesEee3::weak_key_test: same predicate as Ede3; all 2^192 keys"
verif_harness! {
    name: tdes_eee3_weak_exact,
    bytes: 24,
    unwind: 66,
    prop: |inp| {
        let key = *inp;
        Some(<TdesEee3 as KeyInit>::weak_key_test(&key.into()).is_err() == tdes_expect(&key, 3))
    }
}
//@ harness name=tdes_ede2_weak_exact prop=C13 tier=quick bits=128 est=20 desc="TdesEde2::weak_key_test fails <=> a part is a NIST key or both parts are the same DES key (mod parity); all 2^128 keys"
verif_harness! {
    name: tdes_ede2_weak_exact,
    bytes: 16,
    unwind: 66,
    prop: |inp| {
        let key = *inp;
        Some(<TdesEde2 as KeyInit>::weak_key_test(&key.into()).is_err() == tdes_expect(&key, 2))
    }
}
//@ harness name=tdes_eee2_weak_exact prop=C13 tier=quick bits=128 est=15 desc="TdesEee2::weak_key_test: same predicate as Ede2; all 2^128 keys"
verif_harness! {
    name: tdes_eee2_weak_exact,
    bytes: 16,
    unwind: 66,
    prop: |inp| {
        let key = *inp;
        Some(<TdesEee2 as KeyInit>::weak_key_test(&key.into()).is_err() == tdes_expect(&key, 2))
    }
}

// new_checked: fails exactly when weak_key_test does, else same state as new (key schedule run for real twice).
fn state_eq<T>(a: &T, b: &T) -> bool {
    let pa = a as *const T as *const u8;
    let pb = b as *const T as *const u8;
    let mut i = 0;
    while i < core::mem::size_of::<T>() {
        if unsafe { *pa.add(i) != *pb.add(i) } {
            return false;
        }
        i += 1;
    }
    true
}
//@ harness name=des_new_checked prop=C13 tier=quick bits=64 est=45 desc="Des::new_checked(k) is Err <=> weak_key_test(k) is Err, and on Ok its subkeys equal Des::new(k)'s; all 2^64 keys"
verif_harness! {
    name: des_new_checked,
    bytes: 8,
    unwind: 130,
    prop: |inp| {
        let key = *inp;
        let weak = <Des as KeyInit>::weak_key_test(&key.into()).is_err();
        match <Des as KeyInit>::new_checked(&key.into()) {
            Err(_) => Some(weak),
            Ok(c) => Some(!weak && state_eq(&c, &Des::new(&key.into()))),
        }
    }
}
//@ harness name=tdes_ede3_new_checked prop=C13 tier=thorough mem=24 est=900 bits=192 desc="TdesEde3::new_checked(k) is Err <=> weak_key_test(k) is Err, and on Ok its state equals new(k)'s; all 2^192 keys"
verif_harness! {
    name: tdes_ede3_new_checked,
    bytes: 24,
    unwind: 400,
    prop: |inp| {
        let key = *inp;
        let weak = <TdesEde3 as KeyInit>::weak_key_test(&key.into()).is_err();
        match <TdesEde3 as KeyInit>::new_checked(&key.into()) {
            Err(_) => Some(weak),
            Ok(c) => Some(!weak && state_eq(&c, &TdesEde3::new(&key.into()))),
        }
    }
}

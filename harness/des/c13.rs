// C13 — weak-key screening, DES family (in-crate: also compares constructor states).
use super::prelude::*;
use crate::{Des, TdesEde2, TdesEde3, TdesEee2, TdesEee3};
use cipher::KeyInit;
use refmodels::des as rd;

fn part(k: &[u8], i: usize) -> u64 {
    u64::from_be_bytes(take::<8>(k, 8 * i))
}
fn same_des_key(a: u64, b: u64) -> bool {
    (a & rd::PARITY_MASK) == (b & rd::PARITY_MASK)
}

//@ harness name=des_weak_exact tier=quick bits=64 desc="Des::weak_key_test(k) fails <=> k equals one of the 64 NIST keys modulo the parity bits; all 2^64 keys"
verif_harness! {
    name: des_weak_exact,
    bytes: 8,
    unwind: 66,
    prop: |inp| {
        let key = *inp;
        let r = <Des as KeyInit>::weak_key_test(&key.into());
        Some(r.is_err() == rd::is_nist_weak(u64::from_be_bytes(key)))
    }
}

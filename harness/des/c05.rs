// C05 — DES / Triple-DES conformance to FIPS 46-3 / SP 800-67 and the key relations; C01 round trips (des crate).
// L: every bit-trick permutation and the round function vs the oracle's table walks, over the full 64-bit input.
// W: Des::new + encrypt/decrypt vs oracle with the cipher function f uninterpreted on both sides;
//    TDES compositions with Des::encrypt / Des::decrypt uninterpreted (keyed by a digest of the subkey array).
// D: the full direct query (thorough tier).
use super::generic;
use super::prelude::*;
use crate::utils;
use crate::{Des, TdesEde2, TdesEde3, TdesEee2, TdesEee3};
use cipher::{BlockCipherDecrypt, BlockCipherEncrypt, KeyInit};
use refmodels::des as rd;

// ---------------------------------------------------------------- leaf lemmas (D, 64 symbolic bits each)

//@ harness name=des_leaf_ip_fp prop=C05,C20 tier=quick bits=64 est=10 desc="L: utils::ip / utils::fp (delta swaps) == FIPS 46-3 IP / IP^-1 bit tables, all 2^64 inputs"
verif_harness! {
    name: des_leaf_ip_fp,
    bytes: 8,
    unwind: 70,
    prop: |inp| {
        let x = take_u64(inp, 0);
        vcheck!(utils::ip(x) == rd::permute(x, 64, &rd::IP));
        vcheck!(utils::fp(x) == rd::permute(x, 64, &rd::FP));
        Some(true)
    }
}

//@ harness name=des_leaf_round prop=C05,C20 tier=quick bits=112 est=10 desc="L: utils::round(input, key) == one Feistel round (L,R) -> (R, L ^ f(R,K)) with the oracle's E, S-boxes (row=b1b6, col=b2..b5) and P; input 64 bits, 48-bit subkey in the crate's left-aligned layout"
verif_harness! {
    name: des_leaf_round,
    bytes: 14,
    unwind: 70,
    prop: |inp| {
        let x = take_u64(inp, 0);
        let k48 = take_u64(inp, 6) >> 16; // 48 symbolic bits, right aligned
        let got = utils::round(x, k48 << 16);
        let l = (x >> 32) as u32;
        let r = x as u32;
        let exp = ((r as u64) << 32) | (l ^ rd::f(r, k48)) as u64;
        Some(got == exp)
    }
}

//@ harness name=des_leaf_gen_keys prop=C05,C20 tier=quick bits=64 mem=30 est=15 desc="L: utils::gen_keys(key) == FIPS 46-3 key schedule (PC1, 28-bit rotations by SHIFTS, PC2) for all 2^64 keys; multiply-and-mask PC2 carries its no-overflow obligations"
verif_harness! {
    name: des_leaf_gen_keys,
    bytes: 8,
    unwind: 70,
    prop: |inp| {
        let k = take_u64(inp, 0);
        let got = utils::gen_keys(k);
        let exp = rd::key_schedule(k);
        let mut i = 0;
        while i < 16 {
            vcheck!(got[i] == exp[i] << 16);
            i += 1;
        }
        Some(true)
    }
}

//@ harness name=des_parity_ignored prop=C05 tier=quick bits=72 est=15 desc="gen_keys(k) == gen_keys(k ^ m) for every m within 0x0101010101010101: the eight parity bits never influence the subkeys"
verif_harness! {
    name: des_parity_ignored,
    bytes: 9,
    unwind: 70,
    prop: |inp| {
        let k = take_u64(inp, 0);
        let mut m = 0u64;
        let mut i = 0;
        while i < 8 {
            m |= (((inp[8] >> i) & 1) as u64) << (8 * i);
            i += 1;
        }
        let a = utils::gen_keys(k);
        let b = utils::gen_keys(k ^ m);
        i = 0;
        while i < 16 {
            vcheck!(a[i] == b[i]);
            i += 1;
        }
        Some(true)
    }
}

// ---------------------------------------------------------------- wiring with f uninterpreted

fn conc_f(r: u64, k: u64) -> u64 {
    // concrete meaning of the stubbed utils::f in the crate's layout: R left-aligned, K left-aligned (<<16), result left-aligned
    (rd::f((r >> 32) as u32, k >> 16) as u64) << 32
}
cuf2!(uf_f, vuf_c05_uf_f, u64, u64, u64, conc_f);
pub fn stub_f(input: u64, key: u64) -> u64 {
    // the real f only depends on the top 32 bits of `input`; the abstraction keeps that (otherwise the oracle,
    // which passes a clean R, could not share the function)
    uf_f::call(input & 0xFFFF_FFFF_0000_0000, key) & 0xFFFF_FFFF_0000_0000
}
fn oracle_f(r: u32, k48: u64) -> u32 {
    (uf_f::call((r as u64) << 32, k48 << 16) >> 32) as u32
}

//@ harness name=des_wire_enc prop=C05 tier=quick bits=128 stub=1 est=30 desc="W: Des::new(key).encrypt_block(b) == FIPS 46-3 encryption, all keys and blocks; real IP/FP/key schedule/round wiring, cipher function f uninterpreted (shared with the oracle)"
verif_harness! {
    name: des_wire_enc,
    bytes: 16,
    unwind: 70,
    stubs: [(crate::utils::f, stub_f)],
    prop: |inp| {
        let key: [u8; 8] = take(inp, 0);
        let blk: [u8; 8] = take(inp, 8);
        let c = Des::new(&key.into());
        let mut b = blk.into();
        c.encrypt_block(&mut b);
        let ks = rd::key_schedule(u64::from_be_bytes(key));
        let e = rd::crypt_with(u64::from_be_bytes(blk), &ks, false, oracle_f);
        Some(b.0 == e.to_be_bytes())
    }
}

//@ harness name=des_wire_dec prop=C05 tier=quick bits=128 stub=1 est=25 desc="W: Des::new(key).decrypt_block(b) == FIPS 46-3 decryption (reversed subkeys), all keys and blocks, f uninterpreted"
verif_harness! {
    name: des_wire_dec,
    bytes: 16,
    unwind: 70,
    stubs: [(crate::utils::f, stub_f)],
    prop: |inp| {
        let key: [u8; 8] = take(inp, 0);
        let blk: [u8; 8] = take(inp, 8);
        let c = Des::new(&key.into());
        let mut b = blk.into();
        c.decrypt_block(&mut b);
        let ks = rd::key_schedule(u64::from_be_bytes(key));
        let e = rd::crypt_with(u64::from_be_bytes(blk), &ks, true, oracle_f);
        Some(b.0 == e.to_be_bytes())
    }
}

//@ harness name=des_direct_enc prop=C05 tier=thorough bits=128 est=2300 cap=7200 mem=12 desc="D: Des::new(key).encrypt_block(b) == textbook FIPS 46-3 oracle with nothing abstracted, all 2^64 keys x all 2^64 blocks (measured 2218 s)"
verif_harness! {
    name: des_direct_enc,
    bytes: 16,
    unwind: 70,
    prop: |inp| {
        let key: [u8; 8] = take(inp, 0);
        let blk: [u8; 8] = take(inp, 8);
        let c = Des::new(&key.into());
        let mut b = blk.into();
        c.encrypt_block(&mut b);
        Some(b.0 == rd::encrypt(u64::from_be_bytes(key), u64::from_be_bytes(blk)).to_be_bytes())
    }
}

//@ harness name=des_roundtrip prop=C01 tier=thorough bits=128 est=200 desc="D: decrypt(encrypt(b)) == b and encrypt(decrypt(b)) == b through Des::new on all keys and blocks, nothing abstracted"
verif_harness! {
    name: des_roundtrip,
    bytes: 16,
    unwind: 70,
    prop: |inp| {
        let key: [u8; 8] = take(inp, 0);
        let blk: [u8; 8] = take(inp, 8);
        let c = Des::new(&key.into());
        let mut b = blk.into();
        c.encrypt_block(&mut b);
        c.decrypt_block(&mut b);
        vcheck!(b.0 == blk);
        c.decrypt_block(&mut b);
        c.encrypt_block(&mut b);
        Some(b.0 == blk)
    }
}

// ---------------------------------------------------------------- Triple DES: composition with single DES uninterpreted
// Des::encrypt / Des::decrypt are replaced by an uninterpreted bijection pair *per subkey array*.  The subkey array
// (16 words) is reduced to the key it was derived from: in these harnesses every Des instance comes from
// gen_keys(part_i), and keys[0] together with keys[1] determine... not the key in general, so instead the harness
// tags each part's instance by construction: stubbed gen_keys returns an array whose every word is the 64-bit part
// itself, so that the stubbed Des::encrypt can read the part back.  The real gen_keys is decided by des_leaf_gen_keys.

pub fn stub_gen_keys(key: u64) -> [u64; 16] {
    [key & rd::PARITY_MASK; 16]
}
fn conc_e(k: u64, x: u64) -> u64 {
    rd::encrypt(k, x)
}
fn conc_d(k: u64, x: u64) -> u64 {
    rd::decrypt(k, x)
}
cuf2!(uf_e, vuf_c05_uf_e, u64, u64, u64, conc_e);
cuf2!(uf_d, vuf_c05_uf_d, u64, u64, u64, conc_d);
pub fn stub_des_encrypt(d: &Des, data: u64) -> u64 {
    uf_e::call(d.keys[0], data)
}
pub fn stub_des_decrypt(d: &Des, data: u64) -> u64 {
    uf_d::call(d.keys[0], data)
}
fn kp(key: &[u8], i: usize) -> u64 {
    u64::from_be_bytes(take::<8>(key, 8 * i)) & rd::PARITY_MASK
}

macro_rules! tdes_wire {
    ($name:ident, $ty:ty, $klen:expr, $e:expr, $d:expr) => {
        verif_harness! {
            name: $name,
            bytes: $klen + 8,
            unwind: 70,
            stubs: [(crate::utils::gen_keys, stub_gen_keys), (crate::des::Des::encrypt, stub_des_encrypt), (crate::des::Des::decrypt, stub_des_decrypt)],
            prop: |inp| {
                let key: [u8; $klen] = take(inp, 0);
                let blk: [u8; 8] = take(inp, $klen);
                let x = u64::from_be_bytes(blk);
                let c = <$ty>::new(&key.into());
                let mut b = blk.into();
                c.encrypt_block(&mut b);
                let enc: fn(&[u8], u64) -> u64 = $e;
                vcheck!(b.0 == enc(&key, x).to_be_bytes());
                let mut b2 = blk.into();
                c.decrypt_block(&mut b2);
                let dec: fn(&[u8], u64) -> u64 = $d;
                Some(b2.0 == dec(&key, x).to_be_bytes())
            }
        }
    };
}
fn ue(k: u64, x: u64) -> u64 {
    uf_e::call(k, x)
}
fn ud(k: u64, x: u64) -> u64 {
    uf_d::call(k, x)
}

//@ harness name=tdes_ede3_wire prop=C05 tier=quick bits=256 stub=1 est=15 desc="W: TdesEde3 == SP 800-67 E_k3(D_k2(E_k1(.))) and its inverse, key split in order into 8-byte parts; single-DES encrypt/decrypt uninterpreted per key part; all 2^192 keys, all blocks"
tdes_wire!(tdes_ede3_wire, TdesEde3, 24, |k, x| ue(kp(k, 2), ud(kp(k, 1), ue(kp(k, 0), x))), |k, x| ud(kp(k, 0), ue(kp(k, 1), ud(kp(k, 2), x))));
//@ harness name=tdes_ede2_wire prop=C05 tier=quick bits=192 stub=1 est=15 desc="W: TdesEde2 == E_k1(D_k2(E_k1(.))) (three-key form with the first part repeated) and inverse; all 2^128 keys, all blocks"
tdes_wire!(tdes_ede2_wire, TdesEde2, 16, |k, x| ue(kp(k, 0), ud(kp(k, 1), ue(kp(k, 0), x))), |k, x| ud(kp(k, 0), ue(kp(k, 1), ud(kp(k, 0), x))));
//@ harness name=tdes_eee3_wire prop=C05 tier=quick bits=256 stub=1 est=15 desc="W: TdesEee3 == E_k3(E_k2(E_k1(.))) and inverse D_k1(D_k2(D_k3(.))); all 2^192 keys, all blocks"
tdes_wire!(tdes_eee3_wire, TdesEee3, 24, |k, x| ue(kp(k, 2), ue(kp(k, 1), ue(kp(k, 0), x))), |k, x| ud(kp(k, 0), ud(kp(k, 1), ud(kp(k, 2), x))));
//@ harness name=tdes_eee2_wire prop=C05 tier=quick bits=192 stub=1 est=15 desc="W: TdesEee2 == E_k1(E_k2(E_k1(.))) and inverse; all 2^128 keys, all blocks"
tdes_wire!(tdes_eee2_wire, TdesEee2, 16, |k, x| ue(kp(k, 0), ue(kp(k, 1), ue(kp(k, 0), x))), |k, x| ud(kp(k, 0), ud(kp(k, 1), ud(kp(k, 0), x))));

// Round trips of the four TDES types (C01), decomposed (the direct form with every one of the 192 cipher-function calls in
// one uninterpreted-function log needed 1.25 M program steps and ran out of memory):
//   (1) des_state_roundtrip: single DES on an ARBITRARY subkey array is invertible in both orders (Feistel network, f
//       uninterpreted: any function works);
//   (2) tdes_*_roundtrip: the TDES types on an arbitrary state (two or three arbitrary subkey arrays) with
//       Des::encrypt / Des::decrypt replaced by an uninterpreted KEYED BIJECTION PAIR -- keyed by the whole subkey array
//       of the instance they are called on -- which is exactly what (1) establishes about them.  Decides the composition
//       order of decryption against encryption and which instance is used where.

//@ harness name=des_state_roundtrip prop=C01,C20 tier=quick bits=1088 stub=1 est=45 desc="W: single DES on an arbitrary subkey array: decrypt(encrypt(x)) == x and encrypt(decrypt(x)) == x for all blocks (real IP/FP/round wiring and subkey order, f uninterpreted)"
verif_harness! {
    name: des_state_roundtrip,
    bytes: 128 + 8,
    unwind: 140,
    stubs: [(crate::utils::f, stub_f96)],
    prop: |inp| {
        let mut d = Des { keys: [0u64; 16] };
        let mut i = 0;
        while i < 16 {
            d.keys[i] = take_u64(inp, 8 * i);
            i += 1;
        }
        let x = take_u64(inp, 128);
        vcheck!(d.decrypt(d.encrypt(x)) == x);
        Some(d.encrypt(d.decrypt(x)) == x)
    }
}

// keyed bijection log: entry j says  E_{K[j]}(A[j]) = B[j]  (equivalently D_{K[j]}(B[j]) = A[j])
#[cfg(kani)]
mod kb {
    pub static mut K: [[u64; 16]; 16] = [[0; 16]; 16];
    pub static mut A: [u64; 16] = [0; 16];
    pub static mut B: [u64; 16] = [0; 16];
    pub static mut N: usize = 0;
}
#[cfg(kani)]
fn kb_link(keys: &[u64; 16], a: u64, b: u64) {
    unsafe {
        let n = kb::N;
        kani::assert(n < 16, "VERIF_UF_CAPACITY");
        let (ks, aa, bb) = (kb::K, kb::A, kb::B);
        let mut ok = true;
        let mut j = 0;
        while j < n {
            let mut same = true;
            let mut w = 0;
            while w < 16 {
                same &= ks[j][w] == keys[w];
                w += 1;
            }
            // under the same key the logged pairs form a partial injective map
            ok &= !same | ((aa[j] == a) == (bb[j] == b));
            j += 1;
        }
        kani::assume(ok);
        kb::K[n] = *keys;
        kb::A[n] = a;
        kb::B[n] = b;
        kb::N = n + 1;
    }
}
pub fn stub_des_enc_bij(d: &Des, x: u64) -> u64 {
    #[cfg(kani)]
    {
        let y: u64 = kani::any();
        kb_link(&d.keys, x, y);
        return y;
    }
    #[cfg(not(kani))]
    return rd_state_crypt(d, x, false);
}
pub fn stub_des_dec_bij(d: &Des, y: u64) -> u64 {
    #[cfg(kani)]
    {
        let x: u64 = kani::any();
        kb_link(&d.keys, x, y);
        return x;
    }
    #[cfg(not(kani))]
    return rd_state_crypt(d, y, true);
}
/// native meaning of the stubs (never used under Kani): the oracle's DEA on the instance's subkey array
#[allow(dead_code)]
fn rd_state_crypt(d: &Des, x: u64, decrypt: bool) -> u64 {
    let mut ks = [0u64; 16];
    let mut i = 0;
    while i < 16 {
        ks[i] = d.keys[i] >> 16;
        i += 1;
    }
    rd::crypt_with(x, &ks, decrypt, rd::f)
}

macro_rules! tdes_roundtrip {
    ($name:ident, $ty:ident { $($f:ident),+ }, $n:expr) => {
        verif_harness! {
            name: $name,
            bytes: $n * 128 + 8,
            unwind: 400,
            stubs: [(crate::des::Des::encrypt, stub_des_enc_bij), (crate::des::Des::decrypt, stub_des_dec_bij)],
            prop: |inp| {
                // the fields of the TDES structs are private to crate::tdes; an arbitrary state is built in place from
                // symbolic bytes (every byte pattern is a valid state: two or three arrays of sixteen u64 subkeys)
                vassume!(core::mem::size_of::<$ty>() == $n * 128);
                // canonical subkeys: the 16 low bits of every subkey word are zero, as in every state a constructor
                // produces (gen_keys); the real rounds ignore those bits, so without this a solver counterexample that
                // separates two subkey arrays only in ignored bits would not reproduce natively
                let mut w = 0;
                let mut canon = true;
                while w < $n * 16 {
                    canon &= (inp[8 * w] | inp[8 * w + 1]) == 0;
                    w += 1;
                }
                vassume!(canon);
                let mut slot = core::mem::MaybeUninit::<$ty>::uninit();
                generic::fill(&mut slot, &inp[..$n * 128]);
                let c = generic::as_ref(&slot);
                let blk: [u8; 8] = take(inp, $n * 128);
                let mut b = blk.into();
                c.encrypt_block(&mut b);
                c.decrypt_block(&mut b);
                vcheck!(b.0 == blk);
                let mut b2 = blk.into();
                c.decrypt_block(&mut b2);
                c.encrypt_block(&mut b2);
                Some(b2.0 == blk)
            }
        }
    };
}
cuf2!(uf_f96, vuf_c05_uf_f96, u64, u64, u64, conc_f);
pub fn stub_f96(input: u64, key: u64) -> u64 {
    uf_f96::call(input & 0xFFFF_FFFF_0000_0000, key) & 0xFFFF_FFFF_0000_0000
}
//@ harness name=tdes_ede3_roundtrip prop=C01 tier=quick bits=3136 stub=1 est=30 desc="W: TdesEde3 dec(enc(b)) == b and enc(dec(b)) == b on an arbitrary state (three arbitrary canonical subkey arrays: the 16 ignored low bits zero), all blocks; single DES an uninterpreted keyed bijection pair (justified by des_state_roundtrip)"
tdes_roundtrip!(tdes_ede3_roundtrip, TdesEde3 { d1, d2, d3 }, 3);
//@ harness name=tdes_eee3_roundtrip prop=C01 tier=quick bits=3136 stub=1 est=30 desc="W: TdesEee3 round trip both orders on an arbitrary state; single DES an uninterpreted keyed bijection pair"
tdes_roundtrip!(tdes_eee3_roundtrip, TdesEee3 { d1, d2, d3 }, 3);
//@ harness name=tdes_ede2_roundtrip prop=C01 tier=quick bits=2112 stub=1 est=30 desc="W: TdesEde2 round trip both orders on an arbitrary state; single DES an uninterpreted keyed bijection pair"
tdes_roundtrip!(tdes_ede2_roundtrip, TdesEde2 { d1, d2 }, 2);
//@ harness name=tdes_eee2_roundtrip prop=C01 tier=quick bits=2112 stub=1 est=25 desc="W: TdesEee2 round trip both orders on an arbitrary state; single DES an uninterpreted keyed bijection pair"
tdes_roundtrip!(tdes_eee2_roundtrip, TdesEee2 { d1, d2 }, 2);

// ---------------------------------------------------------------- key relations (real code on both sides)

//@ harness name=tdes_ede3_equal_parts_is_des prop=C05 tier=quick bits=128 stub=1 est=40 desc="TdesEde3 with all three parts equal computes single Des with that key (both directions), all keys and blocks; real key schedules; single DES on a subkey array an uninterpreted keyed bijection pair on both sides (justified by des_state_roundtrip)"
verif_harness! {
    name: tdes_ede3_equal_parts_is_des,
    bytes: 16,
    unwind: 140,
    stubs: [(crate::des::Des::encrypt, stub_des_enc_bij), (crate::des::Des::decrypt, stub_des_dec_bij)],
    prop: |inp| {
        let k: [u8; 8] = take(inp, 0);
        let blk: [u8; 8] = take(inp, 8);
        let mut k3 = [0u8; 24];
        let mut i = 0;
        while i < 24 {
            k3[i] = k[i % 8];
            i += 1;
        }
        let t = TdesEde3::new(&k3.into());
        let d = Des::new(&k.into());
        let mut a = blk.into();
        let mut b = blk.into();
        t.encrypt_block(&mut a);
        d.encrypt_block(&mut b);
        vcheck!(a == b);
        let mut a = blk.into();
        let mut b = blk.into();
        t.decrypt_block(&mut a);
        d.decrypt_block(&mut b);
        Some(a == b)
    }
}

//@ harness name=des_complementation prop=C05 tier=quick bits=112 est=15 desc="complementation at the round level with the real round function: round(!x, !k) == !round(x, k) for all inputs and 48-bit subkeys (with gen_keys(!key) == !gen_keys(key) on the 48 key bits this gives Des(!k).enc(!p) == !Des(k).enc(p))"
verif_harness! {
    name: des_complementation,
    bytes: 22,
    unwind: 70,
    prop: |inp| {
        const K48: u64 = 0xFFFF_FFFF_FFFF_0000;
        let x = take_u64(inp, 0);
        let k = take_u64(inp, 6) & K48;
        vcheck!(utils::round(!x, !k & K48) == !utils::round(x, k));
        let key = take_u64(inp, 14);
        let a = utils::gen_keys(key);
        let b = utils::gen_keys(!key);
        let mut i = 0;
        while i < 16 {
            vcheck!(b[i] == !a[i] & K48);
            i += 1;
        }
        Some(true)
    }
}

// SM4: conformance to GB/T 32907 (C06) and round trip (C01).  L+W: leaf lemmas for t / t_prime over all 2^32
// inputs, wiring of the real key schedule and the real 32-round loops with t / t_prime uninterpreted.
use super::prelude::*;
use crate::Sm4;
use cipher::{BlockCipherDecrypt, BlockCipherEncrypt, KeyInit};
use refmodels::sm4 as r;

cuf1!(uf_t, vuf_sm4c_uf_t, u32, u32, r::t);
cuf1!(uf_tp, vuf_sm4c_uf_tp, u32, u32, r::t_prime);
pub fn stub_t(v: u32) -> u32 {
    uf_t::call(v)
}
pub fn stub_tp(v: u32) -> u32 {
    uf_tp::call(v)
}

//@ harness name=sm4_leaf_t prop=C06,C20 tier=quick bits=32 est=10 desc="L: crate::t(x) == oracle T(x) = L(tau(x)) and crate::t_prime(x) == oracle T'(x) for all 2^32 x (S-box table vs oracle table, rotations)"
verif_harness! {
    name: sm4_leaf_t,
    bytes: 4,
    prop: |inp| {
        let x = take_u32(inp, 0);
        vcheck!(crate::t(x) == r::t(x));
        vcheck!(crate::t_prime(x) == r::t_prime(x));
        Some(true)
    }
}

//@ harness name=sm4_wire_enc prop=C06 tier=quick bits=256 stub=1 est=45 desc="W: Sm4::new(key).encrypt_block(b) == oracle key schedule + 32 rounds, all keys, all blocks, t/t_prime uninterpreted (shared with the oracle)"
verif_harness! {
    name: sm4_wire_enc,
    bytes: 32,
    unwind: 140,
    stubs: [(crate::t, stub_t), (crate::t_prime, stub_tp)],
    prop: |inp| {
        let key: [u8; 16] = take(inp, 0);
        let blk: [u8; 16] = take(inp, 16);
        let c = Sm4::new(&key.into());
        let mut b = blk.into();
        c.encrypt_block(&mut b);
        let rk = r::key_schedule_with(&key, uf_tp::call);
        let e = r::crypt_with(&rk, &blk, false, uf_t::call);
        Some(b.0 == e)
    }
}

//@ harness name=sm4_wire_dec prop=C06 tier=quick bits=256 stub=1 est=30 desc="W: Sm4::new(key).decrypt_block(b) == oracle decryption (reversed round keys), all keys, all blocks, t/t_prime uninterpreted"
verif_harness! {
    name: sm4_wire_dec,
    bytes: 32,
    unwind: 140,
    stubs: [(crate::t, stub_t), (crate::t_prime, stub_tp)],
    prop: |inp| {
        let key: [u8; 16] = take(inp, 0);
        let blk: [u8; 16] = take(inp, 16);
        let c = Sm4::new(&key.into());
        let mut b = blk.into();
        c.decrypt_block(&mut b);
        let rk = r::key_schedule_with(&key, uf_tp::call);
        let e = r::crypt_with(&rk, &blk, true, uf_t::call);
        Some(b.0 == e)
    }
}

//@ harness name=sm4_roundtrip_ed prop=C01 tier=quick bits=1152 stub=1 est=45 desc="W: dec(enc(b)) == b on an arbitrary round-key state (superset of all keys), all blocks, t uninterpreted (any function works for a Feistel network)"
verif_harness! {
    name: sm4_roundtrip_ed,
    bytes: 128 + 16,
    unwind: 70,
    stubs: [(crate::t, stub_t)],
    prop: |inp| {
        let (c, blk) = arb_state(inp);
        let mut b = blk.into();
        c.encrypt_block(&mut b);
        c.decrypt_block(&mut b);
        Some(b.0 == blk)
    }
}

//@ harness name=sm4_roundtrip_de prop=C01 tier=quick bits=1152 stub=1 est=40 desc="W: enc(dec(b)) == b on an arbitrary round-key state, all blocks, t uninterpreted"
verif_harness! {
    name: sm4_roundtrip_de,
    bytes: 128 + 16,
    unwind: 70,
    stubs: [(crate::t, stub_t)],
    prop: |inp| {
        let (c, blk) = arb_state(inp);
        let mut b = blk.into();
        c.decrypt_block(&mut b);
        c.encrypt_block(&mut b);
        Some(b.0 == blk)
    }
}

fn arb_state(inp: &[u8; 144]) -> (Sm4, [u8; 16]) {
    let mut rk = [0u32; 32];
    let mut i = 0;
    while i < 32 {
        rk[i] = take_u32(inp, 4 * i);
        i += 1;
    }
    (Sm4 { rk }, take(inp, 128))
}

// Uninterpreted functions by Ackermann's reduction (DESIGN.md 2.3 / 10.2).
//
// Under Kani, `call(x)` returns a fresh symbolic value constrained to agree with every earlier call on equal
// arguments; the (argument, result) log lives in `static mut` scalar arrays.  Each table must stay <= 64 entries
// (CBMC's field-sensitivity limit; larger arrays fall into the array theory and the query explodes), so bigger
// logs are declared with several banks.  Capacity overflow is a proof obligation ("VERIF_UF_CAPACITY").
// Natively (replay), `call` is the concrete function.
//
// Encoding notes (each one measured):
//  * ONE kani::assume per call (the conjunction of all consistency constraints): CBMC re-encodes the conjunction of all
//    earlier assumptions for every later VCC, so one assume per table entry gave 10^8 clauses.
//  * every bank is copied into a LOCAL array once per call and the comparison loop runs over the local: each access to a
//    `static mut` goes through a raw pointer and carries pointer-validity obligations, which dominated the program size.
//  * the number of calls must be concrete during symbolic execution (no data-dependent number of calls, no symbolic
//    block counts around stubbed code), else the counter N and with it every table index becomes symbolic.
//
// Soundness: a property proved with leaf := arbitrary function u on BOTH sides holds for the concrete leaf too.
// A counterexample under u may be spurious -> it is replayed natively with the concrete leaf before reporting.

/// One-argument uninterpreted function with banks: uf1!(modname, ArgTy, ResTy, [BANK0 BANK1 ...], concrete_path)
#[allow(unused_macros)]
macro_rules! uf1 {
    ($m:ident, $A:ty, $B:ty, [$($bank:ident)+], $concrete:path) => {
        pub mod $m {
            #[allow(unused_imports)]
            use super::*;
            pub const BANK: usize = 64;
            $(
                #[cfg(kani)]
                pub mod $bank {
                    pub static mut IN: [$A; 64] = [0; 64];
                    pub static mut OUT: [$B; 64] = [0; 64];
                }
            )+
            #[cfg(kani)]
            pub static mut N: usize = 0;
            #[cfg(kani)]
            pub fn call(x: $A) -> $B {
                unsafe {
                    let y: $B = kani::any();
                    let n = N;
                    let mut base = 0usize;
                    let mut stored = false;
                    let mut ok = true;
                    $(
                        {
                            if base < n {
                                let ins: [$A; 64] = $bank::IN;
                                let outs: [$B; 64] = $bank::OUT;
                                let mut k = 0;
                                while k < 64 && base + k < n {
                                    ok &= (ins[k] != x) | (y == outs[k]);
                                    k += 1;
                                }
                            }
                            if !stored && n >= base && n < base + 64 {
                                $bank::IN[n - base] = x;
                                $bank::OUT[n - base] = y;
                                stored = true;
                            }
                            base += 64;
                        }
                    )+
                    kani::assert(stored, "VERIF_UF_CAPACITY");
                    kani::assume(ok);
                    N = n + 1;
                    y
                }
            }
            #[cfg(not(kani))]
            pub fn call(x: $A) -> $B {
                $concrete(x)
            }
        }
    };
}

/// Two-argument uninterpreted function (e.g. keyed leaf f(x, k)).
#[allow(unused_macros)]
macro_rules! uf2 {
    ($m:ident, $A0:ty, $A1:ty, $B:ty, [$($bank:ident)+], $concrete:path) => {
        pub mod $m {
            #[allow(unused_imports)]
            use super::*;
            $(
                #[cfg(kani)]
                pub mod $bank {
                    pub static mut IN0: [$A0; 64] = [0; 64];
                    pub static mut IN1: [$A1; 64] = [0; 64];
                    pub static mut OUT: [$B; 64] = [0; 64];
                }
            )+
            #[cfg(kani)]
            pub static mut N: usize = 0;
            #[cfg(kani)]
            pub fn call(x0: $A0, x1: $A1) -> $B {
                unsafe {
                    let y: $B = kani::any();
                    let n = N;
                    let mut base = 0usize;
                    let mut stored = false;
                    let mut ok = true;
                    $(
                        {
                            if base < n {
                                let in0: [$A0; 64] = $bank::IN0;
                                let in1: [$A1; 64] = $bank::IN1;
                                let outs: [$B; 64] = $bank::OUT;
                                let mut k = 0;
                                while k < 64 && base + k < n {
                                    ok &= (in0[k] != x0) | (in1[k] != x1) | (y == outs[k]);
                                    k += 1;
                                }
                            }
                            if !stored && n >= base && n < base + 64 {
                                $bank::IN0[n - base] = x0;
                                $bank::IN1[n - base] = x1;
                                $bank::OUT[n - base] = y;
                                stored = true;
                            }
                            base += 64;
                        }
                    )+
                    kani::assert(stored, "VERIF_UF_CAPACITY");
                    kani::assume(ok);
                    N = n + 1;
                    y
                }
            }
            #[cfg(not(kani))]
            pub fn call(x0: $A0, x1: $A1) -> $B {
                $concrete(x0, x1)
            }
        }
    };
}

/// Uninterpreted bijection pair (fwd, inv) on one type: fwd and inv are mutually inverse permutations.
/// Every call is logged as a pair (a, b) meaning fwd(a) = b / inv(b) = a; a new call is constrained to be
/// consistent with all earlier pairs as a partial *injective* map.
#[allow(unused_macros)]
macro_rules! uf_bij {
    ($m:ident, $A:ty, [$($bank:ident)+], $fwd:path, $inv:path) => {
        pub mod $m {
            #[allow(unused_imports)]
            use super::*;
            $(
                #[cfg(kani)]
                pub mod $bank {
                    pub static mut A: [$A; 64] = [0; 64];
                    pub static mut B: [$A; 64] = [0; 64];
                }
            )+
            #[cfg(kani)]
            pub static mut N: usize = 0;
            #[cfg(kani)]
            fn link(a: $A, b: $A) {
                unsafe {
                    let n = N;
                    let mut base = 0usize;
                    let mut stored = false;
                    let mut ok = true;
                    $(
                        {
                            if base < n {
                                let aa: [$A; 64] = $bank::A;
                                let bb: [$A; 64] = $bank::B;
                                let mut k = 0;
                                while k < 64 && base + k < n {
                                    ok &= (aa[k] == a) == (bb[k] == b);
                                    k += 1;
                                }
                            }
                            if !stored && n >= base && n < base + 64 {
                                $bank::A[n - base] = a;
                                $bank::B[n - base] = b;
                                stored = true;
                            }
                            base += 64;
                        }
                    )+
                    kani::assert(stored, "VERIF_UF_CAPACITY");
                    kani::assume(ok);
                    N = n + 1;
                }
            }
            #[cfg(kani)]
            pub fn fwd(a: $A) -> $A {
                let b: $A = kani::any();
                link(a, b);
                b
            }
            #[cfg(kani)]
            pub fn inv(b: $A) -> $A {
                let a: $A = kani::any();
                link(a, b);
                a
            }
            #[cfg(not(kani))]
            pub fn fwd(a: $A) -> $A {
                $fwd(a)
            }
            #[cfg(not(kani))]
            pub fn inv(b: $A) -> $A {
                $inv(b)
            }
        }
    };
}

// ---- asymmetric two-phase uninterpreted function (reference phase A / subject phase B)
//
// uf1ab!(modname, ArgTy, ResTy, concrete_path): calls made in phase A (the default; at most 16) are logged and kept
// mutually consistent; after `modname::phase_b()` every call returns a fresh value constrained to agree with every
// phase-A entry on equal arguments, and is NOT logged: consistency among phase-B calls is dropped.  The constraint set is
// a subset of the functional-consistency constraints, each of which is true of the real function, so proofs remain sound
// (a dropped constraint can only yield a spurious counterexample, which native replay rejects).  Use: compute the small
// reference (one block) in phase A, then run the large subject (a 10- or 19-block batch) in phase B: n_A * n_B
// constraints instead of (n_A + n_B)^2 / 2.  The log is 16 scalar statics selected by comparing a concrete counter with
// constants (no arrays, no pointers).
#[allow(unused_macros)]
macro_rules! uf1ab {
    ($m:ident, $A:ty, $B:ty, $concrete:path) => {
        uf1ab!(@impl [e00 e01 e02 e03 e04 e05 e06 e07 e08 e09 e10 e11 e12 e13 e14 e15], $m, $A, $B, $concrete);
    };
    (@impl [$($e:ident)+], $m:ident, $A:ty, $B:ty, $concrete:path) => {
        pub mod $m {
            #[allow(unused_imports)]
            use super::*;
            $(
                #[cfg(kani)]
                #[allow(non_upper_case_globals)]
                pub mod $e {
                    pub static mut I: $A = 0;
                    pub static mut O: $B = 0;
                }
            )+
            #[cfg(kani)]
            pub static mut N: usize = 0;
            #[cfg(kani)]
            pub static mut PHASE_B: bool = false;
            pub fn phase_b() {
                #[cfg(kani)]
                unsafe {
                    PHASE_B = true;
                }
            }
            #[cfg(kani)]
            pub fn call(x: $A) -> $B {
                unsafe {
                    let y: $B = kani::any();
                    let n = N;
                    let log = !PHASE_B;
                    let mut idx = 0usize;
                    let mut stored = !log;
                    let mut ok = true;
                    $(
                        if idx < n {
                            ok &= ($e::I != x) | (y == $e::O);
                        } else if log && idx == n {
                            $e::I = x;
                            $e::O = y;
                            stored = true;
                        }
                        idx += 1;
                    )+
                    let _ = idx;
                    kani::assert(stored, "VERIF_UF_CAPACITY");
                    kani::assume(ok);
                    if log {
                        N = n + 1;
                    }
                    y
                }
            }
            #[cfg(not(kani))]
            pub fn call(x: $A) -> $B {
                $concrete(x)
            }
        }
    };
}

// Shared by every harness file (included as `mod prelude` by the generated verif_kani.rs).
//
// A harness is a pure function `prop(&[u8; N]) -> Option<bool>` over its *primary* symbolic inputs:
//   None        an assumption (documented precondition / bound) does not hold for this input
//   Some(true)  the property holds for this input
//   Some(false) the property is violated by this input
// Under Kani `check()` draws the N bytes with kani::any(), asserts Some(true) and covers reachability.
// Natively (cfg(verif_native)) the very same `prop` is called by the replay driver on the bytes of a
// solver counterexample (first N nondet bytes of Kani's concrete playback) -- with the real leaves and the
// concrete oracle leaves, since #[kani::stub] does nothing outside Kani and `uf` modules fall back to the
// concrete function under cfg(not(kani)).

#[allow(unused_macros)]
macro_rules! verif_harness {
    (
        name: $name:ident,
        bytes: $n:expr,
        $(unwind: $unw:expr,)?
        $(stubs: [$(($orig:path, $repl:path)),* $(,)?],)?
        prop: |$inp:ident| $body:block
    ) => {
        pub mod $name {
            #[allow(unused_imports)]
            use super::*;
            pub const N: usize = $n;
            #[allow(unused_mut, unused_variables, unreachable_code)]
            pub fn prop($inp: &[u8; N]) -> Option<bool> $body
            #[cfg(kani)]
            #[kani::proof]
            $(#[kani::unwind($unw)])?
            $($(#[kani::stub($orig, $repl)])*)?
            pub fn check() {
                let inp: [u8; N] = kani::any();
                if let Some(ok) = prop(&inp) {
                    kani::assert(ok, "VERIF_PROPERTY");
                    kani::cover!(true, "VERIF_REACHABLE");
                }
            }
        }
    };
}

#[allow(unused_macros)]
macro_rules! vassume {
    ($c:expr) => {
        if !($c) {
            return None;
        }
    };
}

#[allow(unused_macros)]
macro_rules! vcheck {
    ($c:expr) => {
        if !($c) {
            return Some(false);
        }
    };
}

/// Fixed-width readers over the primary input bytes.
#[allow(dead_code)]
pub fn take<const K: usize>(inp: &[u8], off: usize) -> [u8; K] {
    let mut o = [0u8; K];
    let mut i = 0;
    while i < K {
        o[i] = inp[off + i];
        i += 1;
    }
    o
}
#[allow(dead_code)]
pub fn take_u16(inp: &[u8], off: usize) -> u16 {
    u16::from_le_bytes(take::<2>(inp, off))
}
#[allow(dead_code)]
pub fn take_u32(inp: &[u8], off: usize) -> u32 {
    u32::from_le_bytes(take::<4>(inp, off))
}
#[allow(dead_code)]
pub fn take_u64(inp: &[u8], off: usize) -> u64 {
    u64::from_le_bytes(take::<8>(inp, off))
}
#[allow(dead_code)]
pub fn take_u128(inp: &[u8], off: usize) -> u128 {
    u128::from_le_bytes(take::<16>(inp, off))
}

/// Fixed-capacity fmt sink (C19).
#[allow(dead_code)]
pub struct Sink<const CAP: usize> {
    pub buf: [u8; CAP],
    pub len: usize,
    pub overflow: bool,
}
#[allow(dead_code)]
impl<const CAP: usize> Sink<CAP> {
    pub fn new() -> Self {
        Self { buf: [0u8; CAP], len: 0, overflow: false }
    }
    pub fn as_bytes(&self) -> &[u8] {
        &self.buf[..self.len]
    }
}
impl<const CAP: usize> core::fmt::Write for Sink<CAP> {
    fn write_str(&mut self, s: &str) -> core::fmt::Result {
        // trip count bounded by CAP + 1 whatever the (possibly unconstrained, on infeasible dispatch paths) length
        // of `s`, so that a large harness-wide unwind bound cannot blow this loop up
        let bytes = s.as_bytes();
        if bytes.len() > CAP {
            self.overflow = true;
        }
        let mut i = 0;
        while i < CAP && i < bytes.len() {
            if self.len < CAP {
                self.buf[self.len] = bytes[i];
                self.len += 1;
            } else {
                self.overflow = true;
            }
            i += 1;
        }
        Ok(())
    }
}

// Uninterpreted functions decided by the back end itself (DESIGN.md 10.5).
//
// cuf1!/cuf2!/cuf_bij! declare a leaf as an uninterpreted function symbol of CBMC: under Kani, `call(x)` is a call to the
// C wrapper `<csym>` (generated into <shadow>/verif_uf.c by lib/bcv/shadow.py from the macro invocations it finds in the
// harness sources, compiled by goto-cc and linked with `-Z c-ffi --c-lib`), whose body is the single expression
// `__CPROVER_uninterpreted_<csym>(x)`.  CBMC turns that into a function-application term and adds the functional
// consistency constraints (equal arguments => equal results, every pair of applications) during propositional reduction --
// no log tables, loops or static state in the program, so a leaf call costs a handful of program steps instead of several
// thousand (uf.rs: 162 calls = 0.86 M steps; here 8 k), and the number of calls need not be concrete.
// Natively (replay), `call` is the concrete function.
//
// The pairwise constraints themselves remain: keep a query under ~100 applications of a 128-bit-argument leaf
// (72 calls: 2.5 M clauses, 34 s; 162 calls: 12.5 M clauses, solver does not finish).
//
// Soundness: a property proved with leaf := arbitrary function u on BOTH sides holds for the concrete leaf too.
// A counterexample under u may be spurious -> it is replayed natively with the concrete leaf before reporting.
//
// Syntax (the C symbol must be unique within one shadow crate; convention vuf_<crate>_<file>_<name>):
//   cuf1!(modname, csym, ArgTy, ResTy, concrete_path);
//   cuf2!(modname, csym, Arg0Ty, Arg1Ty, ResTy, concrete_path);
//   cuf_bij!(modname, csym_fwd, csym_inv, Ty, concrete_fwd, concrete_inv);
// Types: u8 u16 u32 u64 u128 usize.

#[allow(unused_macros)]
macro_rules! cuf1 {
    ($m:ident, $c:ident, $A:ty, $B:ty, $concrete:path) => {
        pub mod $m {
            #[allow(unused_imports)]
            use super::*;
            #[cfg(kani)]
            #[allow(improper_ctypes)]
            unsafe extern "C" {
                fn $c(x: $A) -> $B;
            }
            #[cfg(kani)]
            pub fn call(x: $A) -> $B {
                unsafe { $c(x) }
            }
            #[cfg(not(kani))]
            pub fn call(x: $A) -> $B {
                $concrete(x)
            }
        }
    };
}

#[allow(unused_macros)]
macro_rules! cuf2 {
    ($m:ident, $c:ident, $A0:ty, $A1:ty, $B:ty, $concrete:path) => {
        pub mod $m {
            #[allow(unused_imports)]
            use super::*;
            #[cfg(kani)]
            #[allow(improper_ctypes)]
            unsafe extern "C" {
                fn $c(x0: $A0, x1: $A1) -> $B;
            }
            #[cfg(kani)]
            pub fn call(x0: $A0, x1: $A1) -> $B {
                unsafe { $c(x0, x1) }
            }
            #[cfg(not(kani))]
            pub fn call(x0: $A0, x1: $A1) -> $B {
                $concrete(x0, x1)
            }
        }
    };
}

/// Uninterpreted bijection pair: fwd and inv are uninterpreted functions constrained, at every application, to be
/// mutually inverse at the applied point (inv(fwd(a)) == a, fwd(inv(b)) == b).
#[allow(unused_macros)]
macro_rules! cuf_bij {
    ($m:ident, $cf:ident, $ci:ident, $A:ty, $fwd:path, $inv:path) => {
        pub mod $m {
            #[allow(unused_imports)]
            use super::*;
            #[cfg(kani)]
            #[allow(improper_ctypes)]
            unsafe extern "C" {
                fn $cf(x: $A) -> $A;
                fn $ci(x: $A) -> $A;
            }
            #[cfg(kani)]
            pub fn fwd(a: $A) -> $A {
                unsafe {
                    let b = $cf(a);
                    kani::assume($ci(b) == a);
                    b
                }
            }
            #[cfg(kani)]
            pub fn inv(b: $A) -> $A {
                unsafe {
                    let a = $ci(b);
                    kani::assume($cf(a) == b);
                    a
                }
            }
            #[cfg(not(kani))]
            pub fn fwd(a: $A) -> $A {
                $fwd(a)
            }
            #[cfg(not(kani))]
            pub fn inv(b: $A) -> $A {
                $inv(b)
            }
        }
    };
}

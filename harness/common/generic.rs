// Generic, per-type harness generators for the cross-cutting properties (C04, C13, C15, C16, C19, C20).
// Each macro expands to one verif_harness! block; the `//@ harness` meta line is written next to the invocation.
//
// Arbitrary-state instances are built IN PLACE from symbolic bytes (never moved as a typed value), because Kani
// models padding bytes of moved structs as fresh nondeterministic values: with in-place construction every byte of
// the instance's storage, padding included, has the value the harness wrote.

use core::mem::{size_of, MaybeUninit};

/// Write `b[..size_of::<T>()]` over the storage of `slot`.
pub fn fill<T>(slot: &mut MaybeUninit<T>, b: &[u8]) {
    // one block copy (a single array update for CBMC) instead of size_of::<T>() individual symbolic stores
    assert!(b.len() >= size_of::<T>());
    unsafe { core::ptr::copy_nonoverlapping(b.as_ptr(), slot.as_mut_ptr() as *mut u8, size_of::<T>()) };
}
/// Read byte i of the storage of `slot`.
pub fn peek<T>(slot: &MaybeUninit<T>, i: usize) -> u8 {
    unsafe { *(slot.as_ptr() as *const u8).add(i) }
}
pub fn as_ref<T>(slot: &MaybeUninit<T>) -> &T {
    unsafe { &*slot.as_ptr() }
}

/// ASCII case-insensitive "text starts with ident, followed by a non-identifier character or the end".
pub fn starts_with_ident(text: &[u8], ident: &[u8]) -> bool {
    if text.len() < ident.len() {
        return false;
    }
    let mut i = 0;
    while i < ident.len() {
        if text[i].to_ascii_lowercase() != ident[i].to_ascii_lowercase() {
            return false;
        }
        i += 1;
    }
    if text.len() == ident.len() {
        return true;
    }
    let c = text[ident.len()];
    !(c.is_ascii_alphanumeric() || c == b'_')
}
/// ASCII case-insensitive substring test.
pub fn contains_ci(text: &[u8], pat: &[u8]) -> bool {
    if pat.len() > text.len() {
        return false;
    }
    let mut s = 0;
    while s + pat.len() <= text.len() {
        let mut ok = true;
        let mut i = 0;
        while i < pat.len() {
            if text[s + i].to_ascii_lowercase() != pat[i].to_ascii_lowercase() {
                ok = false;
            }
            i += 1;
        }
        if ok {
            return true;
        }
        s += 1;
    }
    false
}

pub struct AlgName<T>(pub core::marker::PhantomData<T>);
impl<T: cipher::AlgorithmName> core::fmt::Display for AlgName<T> {
    fn fmt(&self, f: &mut core::fmt::Formatter<'_>) -> core::fmt::Result {
        T::write_alg_name(f)
    }
}

/// C19 Debug: output on an arbitrary-state instance equals the output on the all-zero-bytes instance (so it cannot
/// depend on key material) and starts with the type's identifier.
#[allow(unused_macros)]
macro_rules! g_debug {
    ($name:ident, $ty:ty, $ident:expr, $valid:expr) => {
        verif_harness! {
            name: $name,
            bytes: core::mem::size_of::<$ty>(),
            unwind: 5000,
            prop: |inp| {
                use core::fmt::Write;
                let valid = generic::as_valid($valid);
                vassume!(valid(&inp[..]));
                let mut a = core::mem::MaybeUninit::<$ty>::uninit();
                generic::fill(&mut a, &inp[..]);
                let zero = [0u8; core::mem::size_of::<$ty>()];
                let mut z = core::mem::MaybeUninit::<$ty>::uninit();
                generic::fill(&mut z, &zero);
                let mut s1 = Sink::<64>::new();
                let mut s2 = Sink::<64>::new();
                vcheck!(write!(s1, "{:?}", generic::as_ref(&a)).is_ok());
                vcheck!(write!(s2, "{:?}", generic::as_ref(&z)).is_ok());
                vcheck!(!s1.overflow && s1.len > 0);
                vcheck!(s1.len == s2.len);
                let mut i = 0;
                while i < s1.len {
                    vcheck!(s1.buf[i] == s2.buf[i]);
                    i += 1;
                }
                Some(generic::starts_with_ident(s1.as_bytes(), $ident.as_bytes()))
            }
        }
    };
}

/// C19 AlgorithmName: the written name contains every listed parameter string (ASCII case-insensitive).
#[allow(unused_macros)]
macro_rules! g_algname {
    ($name:ident, $ty:ty, [$($part:expr),+]) => {
        verif_harness! {
            name: $name,
            bytes: 1,
            unwind: 80,
            prop: |inp| {
                use core::fmt::Write;
                let mut s = Sink::<64>::new();
                vcheck!(write!(s, "{}", generic::AlgName::<$ty>(core::marker::PhantomData)).is_ok());
                vcheck!(!s.overflow && s.len > 0);
                $( vcheck!(generic::contains_ci(s.as_bytes(), $part.as_bytes())); )+
                Some(true)
            }
        }
    };
}

/// C13 "never fails" clause: weak_key_test(k) is Ok for every key of the type's key size.
#[allow(unused_macros)]
macro_rules! g_never_weak {
    ($name:ident, $ty:ty, $klen:expr) => {
        verif_harness! {
            name: $name,
            bytes: $klen,
            unwind: 70,
            prop: |inp| {
                let key: [u8; $klen] = *inp;
                Some(<$ty as cipher::KeyInit>::weak_key_test(&key.into()).is_ok())
            }
        }
    };
}

/// C13 checked constructor: new_checked(k) fails exactly when weak_key_test(k) does; on success its state bytes
/// equal those of new(k).
#[allow(unused_macros)]
macro_rules! g_new_checked {
    ($name:ident, $ty:ty, $klen:expr $(, stubs: [$(($o:path, $r:path)),*])?) => {
        verif_harness! {
            name: $name,
            bytes: $klen,
            unwind: 70,
            $(stubs: [$(($o, $r)),*],)?
            prop: |inp| {
                let key: [u8; $klen] = *inp;
                let weak = <$ty as cipher::KeyInit>::weak_key_test(&key.into()).is_err();
                match <$ty as cipher::KeyInit>::new_checked(&key.into()) {
                    Err(_) => Some(weak),
                    Ok(c) => {
                        vcheck!(!weak);
                        let a = core::mem::MaybeUninit::new(c);
                        let b = core::mem::MaybeUninit::new(<$ty as cipher::KeyInit>::new(&key.into()));
                        let mut i = 0;
                        while i < core::mem::size_of::<$ty>() {
                            vcheck!(generic::peek(&a, i) == generic::peek(&b, i));
                            i += 1;
                        }
                        Some(true)
                    }
                }
            }
        }
    };
}

/// C16: after drop_in_place of an arbitrary-state instance every byte of its storage outside `exempt` reads zero.
/// `valid`: representation invariant on the raw bytes; `exempt(i)`: byte i is padding / carries no key data by type.
#[allow(unused_macros)]
macro_rules! g_zeroize {
    ($name:ident, $ty:ty, $valid:expr, $exempt:expr) => {
        verif_harness! {
            name: $name,
            bytes: core::mem::size_of::<$ty>(),
            unwind: 5000,
            prop: |inp| {
                let valid = generic::as_valid($valid);
                let exempt = generic::as_idx($exempt);
                vassume!(valid(&inp[..]));
                let mut a = core::mem::MaybeUninit::<$ty>::uninit();
                generic::fill(&mut a, &inp[..]);
                unsafe { core::ptr::drop_in_place(a.as_mut_ptr()) };
                // branch-free accumulation: OR of every non-exempt byte must be zero
                let mut acc = 0u8;
                let mut i = 0;
                while i < core::mem::size_of::<$ty>() {
                    if !exempt(i) {
                        acc |= generic::peek(&a, i);
                    }
                    i += 1;
                }
                Some(acc == 0)
            }
        }
    };
}

/// C15 frame + C20 totality: on an arbitrary valid state and block, encrypt_block and decrypt_block return and leave
/// every byte of the instance unchanged.
#[allow(unused_macros)]
macro_rules! g_frame {
    ($name:ident, $ty:ty, $bs:expr, $valid:expr $(, stubs: [$(($o:path, $r:path)),*])?) => {
        verif_harness! {
            name: $name,
            bytes: core::mem::size_of::<$ty>() + $bs,
            unwind: 5000,
            $(stubs: [$(($o, $r)),*],)?
            prop: |inp| {
                use cipher::{BlockCipherDecrypt, BlockCipherEncrypt};
                const S: usize = core::mem::size_of::<$ty>();
                let valid = generic::as_valid($valid);
                vassume!(valid(&inp[..S]));
                let mut a = core::mem::MaybeUninit::<$ty>::uninit();
                generic::fill(&mut a, &inp[..S]);
                let blk: [u8; $bs] = take(&inp[..], S);
                let mut b = blk.into();
                generic::as_ref(&a).encrypt_block(&mut b);
                let mut b2 = blk.into();
                generic::as_ref(&a).decrypt_block(&mut b2);
                let mut diff = 0u8;
                let mut i = 0;
                while i < S {
                    diff |= generic::peek(&a, i) ^ inp[i];
                    i += 1;
                }
                Some(diff == 0)
            }
        }
    };
}

/// C04 for backends of parallel width 1: buffer-to-buffer and multi-block calls equal the in-place single-block call;
/// the separate input buffer is unchanged; guard bytes around the output are unchanged.  n blocks, n symbolic 0..=2.
#[allow(unused_macros)]
macro_rules! g_blocks {
    ($name:ident, $ty:ty, $bs:expr, $valid:expr $(, stubs: [$(($o:path, $r:path)),*])?) => {
        verif_harness! {
            name: $name,
            bytes: core::mem::size_of::<$ty>() + 2 * $bs + 2,
            unwind: 5000,
            $(stubs: [$(($o, $r)),*],)?
            prop: |inp| {
                use cipher::{BlockCipherDecrypt, BlockCipherEncrypt, Block};
                const S: usize = core::mem::size_of::<$ty>();
                let valid = generic::as_valid($valid);
                vassume!(valid(&inp[..S]));
                let mut a = core::mem::MaybeUninit::<$ty>::uninit();
                generic::fill(&mut a, &inp[..S]);
                let c = generic::as_ref(&a);
                let n = inp[S + 2 * $bs] as usize;
                let dec = inp[S + 2 * $bs + 1] & 1 == 1;
                vassume!(n <= 2);
                let x0: [u8; $bs] = take(&inp[..], S);
                let x1: [u8; $bs] = take(&inp[..], S + $bs);
                // reference: in-place single-block calls
                let mut r0: Block<$ty> = x0.into();
                let mut r1: Block<$ty> = x1.into();
                if dec { c.decrypt_block(&mut r0); c.decrypt_block(&mut r1); } else { c.encrypt_block(&mut r0); c.encrypt_block(&mut r1); }
                // b2b multi-block with guard blocks (0xA5) after the n designated output blocks
                let ins: [Block<$ty>; 2] = [x0.into(), x1.into()];
                let mut outs: [Block<$ty>; 2] = [[0xA5u8; $bs].into(), [0xA5u8; $bs].into()];
                let ok = if dec { c.decrypt_blocks_b2b(&ins[..n], &mut outs[..n]).is_ok() } else { c.encrypt_blocks_b2b(&ins[..n], &mut outs[..n]).is_ok() };
                vcheck!(ok);
                vcheck!(ins[0].0 == x0 && ins[1].0 == x1);
                if n >= 1 { vcheck!(outs[0] == r0); } else { vcheck!(outs[0].0 == [0xA5u8; $bs]); }
                if n >= 2 { vcheck!(outs[1] == r1); } else { vcheck!(outs[1].0 == [0xA5u8; $bs]); }
                // in-place multi-block
                let mut bl: [Block<$ty>; 2] = [x0.into(), x1.into()];
                if dec { c.decrypt_blocks(&mut bl[..n]); } else { c.encrypt_blocks(&mut bl[..n]); }
                if n >= 1 { vcheck!(bl[0] == r0); } else { vcheck!(bl[0].0 == x0); }
                if n >= 2 { vcheck!(bl[1] == r1); } else { vcheck!(bl[1].0 == x1); }
                // single-block b2b
                let mut o: Block<$ty> = [0u8; $bs].into();
                let i0: Block<$ty> = x0.into();
                if dec { c.decrypt_block_b2b(&i0, &mut o); } else { c.encrypt_block_b2b(&i0, &mut o); }
                vcheck!(i0.0 == x0);
                Some(o == r0)
            }
        }
    };
}

/// C11: new_from_slice(&buf[..len]) succeeds exactly for the accepted lengths and otherwise returns the error (no
/// panic); buf and len symbolic, len in 0..=MAX.  Heavy key schedules may be stubbed: only the verdict is observed.
#[allow(unused_macros)]
macro_rules! g_keylen {
    ($name:ident, $ty:ty, $max:expr, $accepted:expr $(, stubs: [$(($o:path, $r:path)),*])?) => {
        verif_harness! {
            name: $name,
            bytes: $max + 2,
            unwind: $max + 3,
            $(stubs: [$(($o, $r)),*],)?
            prop: |inp| {
                let len = take_u16(&inp[..], $max) as usize;
                vassume!(len <= $max);
                let accepted = generic::as_idx($accepted);
                let r = <$ty as cipher::KeyInit>::new_from_slice(&inp[..len]);
                let ok = r.is_ok();
                // no Drop: on zeroize builds dropping a 4 kB Blowfish costs a volatile-write loop that dominates the query
                core::mem::forget(r);
                Some(ok == accepted(len))
            }
        }
    };
}

/// C11 length contract for types that use the DEFAULT KeyInit::new_from_slice (slice -> fixed array, then Self::new): the
/// verdict depends on the length only, so the length is symbolic (0..=MAX) and the key CONTENT is the constant zero
/// string -- the key schedule that runs on the accepting path is then a concrete computation instead of a second copy of
/// the conformance query (ARIA, IDEA, SM4, Kuznyechik, RC5 ... constructors on a symbolic key: 200-900 s each, several out
/// of memory).  A content-dependent rejection would be outside what this harness sees; none of these types overrides
/// new_from_slice (the generator emits the symbolic-content form for every type that does).
#[allow(unused_macros)]
macro_rules! g_keylen0 {
    ($name:ident, $ty:ty, $max:expr, $accepted:expr) => {
        verif_harness! {
            name: $name,
            bytes: 2,
            unwind: 400,
            prop: |inp| {
                let len = take_u16(&inp[..], 0) as usize;
                vassume!(len <= $max);
                let accepted = generic::as_idx($accepted);
                let buf = [0u8; $max];
                // (pinning the length to one value per path was tried: 301 unrolled constructor calls are far heavier than one
                // call with a symbolic-length slice)
                let r = <$ty as cipher::KeyInit>::new_from_slice(&buf[..len]);
                let ok = r.is_ok();
                core::mem::forget(r);
                Some(ok == accepted(len))
            }
        }
    };
}

/// C11 constructor pair: a fixed-size key and the same bytes passed as a slice yield the same cipher (state bytes equal).
#[allow(unused_macros)]
macro_rules! g_new_eq_slice {
    ($name:ident, $ty:ty, $klen:expr, $exempt:expr $(, stubs: [$(($o:path, $r:path)),*])?) => {
        verif_harness! {
            name: $name,
            bytes: $klen,
            unwind: 5000,
            $(stubs: [$(($o, $r)),*],)?
            prop: |inp| {
                let key: [u8; $klen] = *inp;
                // padding bytes of moved values are nondeterministic under Kani: compare the non-exempt (field) bytes
                let exempt = generic::as_idx($exempt);
                let a = core::mem::MaybeUninit::new(<$ty as cipher::KeyInit>::new(&key.into()));
                let b = match <$ty as cipher::KeyInit>::new_from_slice(&key[..]) {
                    Ok(c) => core::mem::MaybeUninit::new(c),
                    Err(_) => return Some(false),
                };
                let mut diff = 0u8;
                let mut i = 0;
                while i < core::mem::size_of::<$ty>() {
                    if !exempt(i) {
                        diff |= generic::peek(&a, i) ^ generic::peek(&b, i);
                    }
                    i += 1;
                }
                Some(diff == 0)
            }
        }
    };
}

// ---- single-direction forms (for encrypt-only / decrypt-only types, and to split work across solver processes)
#[allow(unused_macros)]
macro_rules! g_dir {
    (enc, block, $c:expr, $b:expr) => { cipher::BlockCipherEncrypt::encrypt_block($c, $b) };
    (dec, block, $c:expr, $b:expr) => { cipher::BlockCipherDecrypt::decrypt_block($c, $b) };
    (enc, blocks, $c:expr, $b:expr) => { cipher::BlockCipherEncrypt::encrypt_blocks($c, $b) };
    (dec, blocks, $c:expr, $b:expr) => { cipher::BlockCipherDecrypt::decrypt_blocks($c, $b) };
    (enc, block_b2b, $c:expr, $i:expr, $o:expr) => { cipher::BlockCipherEncrypt::encrypt_block_b2b($c, $i, $o) };
    (dec, block_b2b, $c:expr, $i:expr, $o:expr) => { cipher::BlockCipherDecrypt::decrypt_block_b2b($c, $i, $o) };
    (enc, blocks_b2b, $c:expr, $i:expr, $o:expr) => { cipher::BlockCipherEncrypt::encrypt_blocks_b2b($c, $i, $o) };
    (dec, blocks_b2b, $c:expr, $i:expr, $o:expr) => { cipher::BlockCipherDecrypt::decrypt_blocks_b2b($c, $i, $o) };
}

/// C15 frame + C20 totality, one direction: the call returns on an arbitrary valid state and block and leaves every
/// byte of the instance unchanged.
#[allow(unused_macros)]
macro_rules! g_frame1 {
    ($name:ident, $ty:ty, $bs:expr, $valid:expr, $dir:ident $(, stubs: [$(($o:path, $r:path)),*])?) => {
        verif_harness! {
            name: $name,
            bytes: core::mem::size_of::<$ty>() + 2 * $bs,
            unwind: 5000,
            $(stubs: [$(($o, $r)),*],)?
            prop: |inp| {
                const S: usize = core::mem::size_of::<$ty>();
                let valid = generic::as_valid($valid);
                vassume!(valid(&inp[..S]));
                let mut a = core::mem::MaybeUninit::<$ty>::uninit();
                generic::fill(&mut a, &inp[..S]);
                let x: [u8; $bs] = take(&inp[..], S);
                let y: [u8; $bs] = take(&inp[..], S + $bs);
                // history on one instance: op(x); op(y); op(x) -- the first and the third result must agree (no hidden
                // state in the instance, in a static or behind interior mutability), and the instance bytes are unchanged
                let mut b1: cipher::Block<$ty> = x.into();
                g_dir!($dir, block, generic::as_ref(&a), &mut b1);
                let mut b2: cipher::Block<$ty> = y.into();
                g_dir!($dir, block, generic::as_ref(&a), &mut b2);
                let mut b3: cipher::Block<$ty> = x.into();
                g_dir!($dir, block, generic::as_ref(&a), &mut b3);
                vcheck!(b1 == b3);
                let mut diff = 0u8;
                let mut i = 0;
                while i < S {
                    diff |= generic::peek(&a, i) ^ inp[i];
                    i += 1;
                }
                Some(diff == 0)
            }
        }
    };
}

/// C20 totality with NOTHING abstracted: one call on an arbitrary valid state and block returns (every overflow, bounds,
/// shift, unwrap and debug assertion on that path is a proof obligation) and leaves the instance unchanged.  Used where
/// the history / routing harnesses run with an uninterpreted leaf.
#[allow(unused_macros)]
macro_rules! g_total {
    ($name:ident, $ty:ty, $bs:expr, $valid:expr, $dir:ident) => {
        verif_harness! {
            name: $name,
            bytes: core::mem::size_of::<$ty>() + $bs,
            unwind: 5000,
            prop: |inp| {
                const S: usize = core::mem::size_of::<$ty>();
                let valid = generic::as_valid($valid);
                vassume!(valid(&inp[..S]));
                let mut a = core::mem::MaybeUninit::<$ty>::uninit();
                generic::fill(&mut a, &inp[..S]);
                let x: [u8; $bs] = take(&inp[..], S);
                let mut b: cipher::Block<$ty> = x.into();
                g_dir!($dir, block, generic::as_ref(&a), &mut b);
                let mut diff = 0u8;
                let mut i = 0;
                while i < S {
                    diff |= generic::peek(&a, i) ^ inp[i];
                    i += 1;
                }
                Some(diff == 0)
            }
        }
    };
}

/// C15, mixed directions on one instance: after enc(x) the call dec(x) (same block value), and after dec(y) the call
/// enc(y), give what a pristine instance with the same state gives -- catches per-instance or global memoisation keyed on
/// too little; the instance bytes are unchanged afterwards.
#[allow(unused_macros)]
macro_rules! g_mixed {
    ($name:ident, $ty:ty, $bs:expr, $valid:expr $(, stubs: [$(($o:path, $r:path)),*])?) => {
        verif_harness! {
            name: $name,
            bytes: core::mem::size_of::<$ty>() + 2 * $bs,
            unwind: 5000,
            $(stubs: [$(($o, $r)),*],)?
            prop: |inp| {
                const S: usize = core::mem::size_of::<$ty>();
                let valid = generic::as_valid($valid);
                vassume!(valid(&inp[..S]));
                let mut a = core::mem::MaybeUninit::<$ty>::uninit();
                generic::fill(&mut a, &inp[..S]);
                let mut fresh = core::mem::MaybeUninit::<$ty>::uninit();
                generic::fill(&mut fresh, &inp[..S]);
                let x: [u8; $bs] = take(&inp[..], S);
                let y: [u8; $bs] = take(&inp[..], S + $bs);
                // reference results on the pristine instance, one call each on its own copy of the state
                let mut rx: cipher::Block<$ty> = x.into();
                g_dir!(dec, block, generic::as_ref(&fresh), &mut rx);
                let mut fresh2 = core::mem::MaybeUninit::<$ty>::uninit();
                generic::fill(&mut fresh2, &inp[..S]);
                let mut ry: cipher::Block<$ty> = y.into();
                g_dir!(enc, block, generic::as_ref(&fresh2), &mut ry);
                // history on `a`: enc(x); dec(x); dec(y); enc(y)
                let mut t: cipher::Block<$ty> = x.into();
                g_dir!(enc, block, generic::as_ref(&a), &mut t);
                let mut dx: cipher::Block<$ty> = x.into();
                g_dir!(dec, block, generic::as_ref(&a), &mut dx);
                vcheck!(dx == rx);
                let mut t2: cipher::Block<$ty> = y.into();
                g_dir!(dec, block, generic::as_ref(&a), &mut t2);
                let mut ey: cipher::Block<$ty> = y.into();
                g_dir!(enc, block, generic::as_ref(&a), &mut ey);
                vcheck!(ey == ry);
                let mut diff = 0u8;
                let mut i = 0;
                while i < S {
                    diff |= generic::peek(&a, i) ^ inp[i];
                    i += 1;
                }
                Some(diff == 0)
            }
        }
    };
}

/// C15, construction history: new(k2) in a fresh process, new(k1), new(k2), new(k3), new(k1): both constructions from k2
/// yield the same state and both constructions from k1 do -- catches process-wide caches of key schedules keyed on too
/// little (including one-entry caches that need an eviction to show).  Heavy key schedules may be replaced by a cheap
/// key-dependent stub: the subject is what the constructor does around the schedule.
#[allow(unused_macros)]
macro_rules! g_ctor_history {
    ($name:ident, $ty:ty, $klen:expr, $exempt:expr $(, stubs: [$(($o:path, $r:path)),*])?) => {
        verif_harness! {
            name: $name,
            bytes: 3 * $klen,
            unwind: 5000,
            $(stubs: [$(($o, $r)),*],)?
            prop: |inp| {
                let k1: [u8; $klen] = take(&inp[..], 0);
                let k2: [u8; $klen] = take(&inp[..], $klen);
                let k3: [u8; $klen] = take(&inp[..], 2 * $klen);
                let exempt = generic::as_idx($exempt);
                // history: new(k2) [fresh process]; new(k1); new(k2); new(k3); new(k1).  The two constructions from k2
                // must agree (the first is the fresh-process truth), and so must the two from k1 (one directly after
                // k2, one after an unrelated third key has been through: a one-entry cache keyed on too little shows here)
                let a = core::mem::MaybeUninit::new(<$ty as cipher::KeyInit>::new(&k2.into()));
                let b = core::mem::MaybeUninit::new(<$ty as cipher::KeyInit>::new(&k1.into()));
                let c = core::mem::MaybeUninit::new(<$ty as cipher::KeyInit>::new(&k2.into()));
                let e = core::mem::MaybeUninit::new(<$ty as cipher::KeyInit>::new(&k3.into()));
                let d = core::mem::MaybeUninit::new(<$ty as cipher::KeyInit>::new(&k1.into()));
                let _ = &e;
                // one block copy of each instance's storage into a plain byte array (per-byte reads through a raw pointer
                // carry six pointer obligations each; Blowfish has 4168 bytes)
                const S: usize = core::mem::size_of::<$ty>();
                let ba: [u8; S] = unsafe { core::ptr::read(a.as_ptr() as *const [u8; S]) };
                let bb: [u8; S] = unsafe { core::ptr::read(b.as_ptr() as *const [u8; S]) };
                let bc: [u8; S] = unsafe { core::ptr::read(c.as_ptr() as *const [u8; S]) };
                let bd: [u8; S] = unsafe { core::ptr::read(d.as_ptr() as *const [u8; S]) };
                let mut diff = 0u8;
                let mut i = 0;
                while i < S {
                    if !exempt(i) {
                        diff |= (ba[i] ^ bc[i]) | (bb[i] ^ bd[i]);
                    }
                    i += 1;
                }
                Some(diff == 0)
            }
        }
    };
}

/// C04, one direction, NB blocks available, n symbolic in 0..=NB: multi-block in-place, multi-block b2b (with the
/// separate input unchanged and the output blocks >= n untouched) and single-block b2b all equal the in-place
/// single-block call applied to each block.
#[allow(unused_macros)]
macro_rules! g_blocks1 {
    ($name:ident, $ty:ty, $bs:expr, $nb:expr, $valid:expr, $dir:ident $(, stubs: [$(($o:path, $r:path)),*])?) => {
        verif_harness! {
            name: $name,
            bytes: core::mem::size_of::<$ty>() + $nb * $bs + 1,
            unwind: 5000,
            $(stubs: [$(($o, $r)),*],)?
            prop: |inp| {
                use cipher::Block;
                const S: usize = core::mem::size_of::<$ty>();
                const NB: usize = $nb;
                let valid = generic::as_valid($valid);
                vassume!(valid(&inp[..S]));
                let mut a = core::mem::MaybeUninit::<$ty>::uninit();
                generic::fill(&mut a, &inp[..S]);
                let c = generic::as_ref(&a);
                let mut x = [[0u8; $bs]; NB];
                let mut r: [Block<$ty>; NB] = [[0u8; $bs].into(); NB];
                let mut j = 0;
                while j < NB {
                    x[j] = take(&inp[..], S + j * $bs);
                    r[j] = x[j].into();
                    g_dir!($dir, block, c, &mut r[j]);      // reference: in-place single-block call
                    j += 1;
                }
                // every block count n = 0..=NB, enumerated concretely (a symbolic n would make the call counters of
                // uninterpreted-function logs symbolic); the block CONTENTS and the state are symbolic in every case
                let mut n = 0;
                while n <= NB {
                    // multi-block b2b
                    let mut ins: [Block<$ty>; NB] = [[0u8; $bs].into(); NB];
                    let mut outs: [Block<$ty>; NB] = [[0xA5u8; $bs].into(); NB];
                    j = 0;
                    while j < NB {
                        ins[j] = x[j].into();
                        j += 1;
                    }
                    vcheck!(g_dir!($dir, blocks_b2b, c, &ins[..n], &mut outs[..n]).is_ok());
                    j = 0;
                    while j < NB {
                        vcheck!(ins[j].0 == x[j]);
                        if j < n { vcheck!(outs[j] == r[j]); } else { vcheck!(outs[j].0 == [0xA5u8; $bs]); }
                        j += 1;
                    }
                    // multi-block in place
                    let mut bl: [Block<$ty>; NB] = ins;
                    g_dir!($dir, blocks, c, &mut bl[..n]);
                    j = 0;
                    while j < NB {
                        if j < n { vcheck!(bl[j] == r[j]); } else { vcheck!(bl[j].0 == x[j]); }
                        j += 1;
                    }
                    n += 1;
                }
                // mismatched lengths are rejected and write nothing
                if NB >= 2 {
                    let ins: [Block<$ty>; NB] = [[0u8; $bs].into(); NB];
                    let mut outs: [Block<$ty>; NB] = [[0xA5u8; $bs].into(); NB];
                    vcheck!(g_dir!($dir, blocks_b2b, c, &ins[..1], &mut outs[..2]).is_err());
                    vcheck!(outs[0].0 == [0xA5u8; $bs] && outs[1].0 == [0xA5u8; $bs]);
                }
                // single-block b2b
                let i0: Block<$ty> = x[0].into();
                let mut o: Block<$ty> = [0u8; $bs].into();
                g_dir!($dir, block_b2b, c, &i0, &mut o);
                vcheck!(i0.0 == x[0]);
                Some(o == r[0])
            }
        }
    };
}

/// C04 split in three queries (used where the cipher runs with an uninterpreted leaf: the pairwise consistency
/// constraints grow with the square of the number of leaf applications, so each query holds at most 2*NB block
/// computations).  Together the three parts state exactly what g_blocks1 states.
///   part b2b:     multi-block b2b with n = NB equals the per-block in-place reference; input unchanged; n = 0 and
///                 mismatched lengths write nothing
///   part inplace: multi-block in place with n = NB (and n = 0) equals the reference
///   part short:   n = NB-1 (b2b and in place: blocks >= n untouched) and the single-block b2b call
#[allow(unused_macros)]
macro_rules! g_blocks_part {
    ($name:ident, $ty:ty, $bs:expr, $nb:expr, $valid:expr, $dir:ident, $part:ident $(, stubs: [$(($o:path, $r:path)),*])?) => {
        verif_harness! {
            name: $name,
            bytes: core::mem::size_of::<$ty>() + $nb * $bs + 1,
            unwind: 5000,
            $(stubs: [$(($o, $r)),*],)?
            prop: |inp| {
                use cipher::Block;
                const S: usize = core::mem::size_of::<$ty>();
                const NB: usize = $nb;
                let valid = generic::as_valid($valid);
                vassume!(valid(&inp[..S]));
                let mut a = core::mem::MaybeUninit::<$ty>::uninit();
                generic::fill(&mut a, &inp[..S]);
                let c = generic::as_ref(&a);
                let mut x = [[0u8; $bs]; NB];
                let mut j = 0;
                while j < NB {
                    x[j] = take(&inp[..], S + j * $bs);
                    j += 1;
                }
                g_blocks_part!(@body $part, $ty, $bs, $dir, c, x)
            }
        }
    };
    (@refs $ty:ty, $bs:expr, $dir:ident, $c:ident, $x:ident, $upto:expr) => {{
        let mut r: [cipher::Block<$ty>; NB] = [[0u8; $bs].into(); NB];
        let mut j = 0;
        while j < $upto {
            r[j] = $x[j].into();
            g_dir!($dir, block, $c, &mut r[j]);      // reference: in-place single-block call
            j += 1;
        }
        r
    }};
    (@body b2b, $ty:ty, $bs:expr, $dir:ident, $c:ident, $x:ident) => {{
        let r = g_blocks_part!(@refs $ty, $bs, $dir, $c, $x, NB);
        let mut ins: [Block<$ty>; NB] = [[0u8; $bs].into(); NB];
        let mut outs: [Block<$ty>; NB] = [[0xA5u8; $bs].into(); NB];
        let mut j = 0;
        while j < NB {
            ins[j] = $x[j].into();
            j += 1;
        }
        // n = 0 writes nothing
        vcheck!(g_dir!($dir, blocks_b2b, $c, &ins[..0], &mut outs[..0]).is_ok());
        j = 0;
        while j < NB {
            vcheck!(outs[j].0 == [0xA5u8; $bs]);
            j += 1;
        }
        // mismatched lengths are rejected and write nothing
        if NB >= 2 {
            vcheck!(g_dir!($dir, blocks_b2b, $c, &ins[..1], &mut outs[..2]).is_err());
            vcheck!(outs[0].0 == [0xA5u8; $bs] && outs[1].0 == [0xA5u8; $bs]);
        }
        vcheck!(g_dir!($dir, blocks_b2b, $c, &ins[..], &mut outs[..]).is_ok());
        let mut ok = true;
        j = 0;
        while j < NB {
            ok &= (ins[j].0 == $x[j]) & (outs[j] == r[j]);
            j += 1;
        }
        Some(ok)
    }};
    (@body inplace, $ty:ty, $bs:expr, $dir:ident, $c:ident, $x:ident) => {{
        let r = g_blocks_part!(@refs $ty, $bs, $dir, $c, $x, NB);
        let mut bl: [Block<$ty>; NB] = [[0u8; $bs].into(); NB];
        let mut j = 0;
        while j < NB {
            bl[j] = $x[j].into();
            j += 1;
        }
        g_dir!($dir, blocks, $c, &mut bl[..0]);
        j = 0;
        while j < NB {
            vcheck!(bl[j].0 == $x[j]);
            j += 1;
        }
        g_dir!($dir, blocks, $c, &mut bl[..]);
        let mut ok = true;
        j = 0;
        while j < NB {
            ok &= bl[j] == r[j];
            j += 1;
        }
        Some(ok)
    }};
    (@body short, $ty:ty, $bs:expr, $dir:ident, $c:ident, $x:ident) => {{
        const M: usize = NB - 1;
        let r = g_blocks_part!(@refs $ty, $bs, $dir, $c, $x, M);
        let mut ins: [Block<$ty>; NB] = [[0u8; $bs].into(); NB];
        let mut outs: [Block<$ty>; NB] = [[0xA5u8; $bs].into(); NB];
        let mut j = 0;
        while j < NB {
            ins[j] = $x[j].into();
            j += 1;
        }
        vcheck!(g_dir!($dir, blocks_b2b, $c, &ins[..M], &mut outs[..M]).is_ok());
        let mut ok = true;
        j = 0;
        while j < NB {
            ok &= ins[j].0 == $x[j];
            if j < M { ok &= outs[j] == r[j]; } else { ok &= outs[j].0 == [0xA5u8; $bs]; }
            j += 1;
        }
        let mut bl: [Block<$ty>; NB] = ins;
        g_dir!($dir, blocks, $c, &mut bl[..M]);
        j = 0;
        while j < NB {
            if j < M { ok &= bl[j] == r[j]; } else { ok &= bl[j].0 == $x[j]; }
            j += 1;
        }
        // single-block b2b
        let i0: Block<$ty> = $x[0].into();
        let mut o: Block<$ty> = [0u8; $bs].into();
        g_dir!($dir, block_b2b, $c, &i0, &mut o);
        ok &= i0.0 == $x[0];
        if M >= 1 { ok &= o == r[0]; }
        Some(ok)
    }};
}

/// C04, quick form for parallel width 1 (two block computations instead of nine): the single-block b2b call with the
/// output buffer pre-filled with ARBITRARY bytes equals the in-place call on the same block, and the separate input is
/// unchanged.  For these types the multi-block entry points are the `cipher` crate's loop over this very call, so what a
/// type can get wrong is here: reading through the output side, writing the input, depending on what the output held.
#[allow(unused_macros)]
macro_rules! g_b2b1 {
    ($name:ident, $ty:ty, $bs:expr, $valid:expr, $dir:ident $(, stubs: [$(($o:path, $r:path)),*])?) => {
        verif_harness! {
            name: $name,
            bytes: core::mem::size_of::<$ty>() + 2 * $bs,
            unwind: 5000,
            $(stubs: [$(($o, $r)),*],)?
            prop: |inp| {
                const S: usize = core::mem::size_of::<$ty>();
                let valid = generic::as_valid($valid);
                vassume!(valid(&inp[..S]));
                let mut a = core::mem::MaybeUninit::<$ty>::uninit();
                generic::fill(&mut a, &inp[..S]);
                let c = generic::as_ref(&a);
                let x: [u8; $bs] = take(&inp[..], S);
                let g: [u8; $bs] = take(&inp[..], S + $bs);
                let mut r: cipher::Block<$ty> = x.into();
                g_dir!($dir, block, c, &mut r);
                let i0: cipher::Block<$ty> = x.into();
                let mut o: cipher::Block<$ty> = g.into();
                g_dir!($dir, block_b2b, c, &i0, &mut o);
                Some((i0.0 == x) & (o == r))
            }
        }
    };
}

/// C15 / C20, quick form (two block computations): the same call twice on one arbitrary-state instance gives the same
/// result, returns normally, and leaves every byte of the instance unchanged.
#[allow(unused_macros)]
macro_rules! g_frame2 {
    ($name:ident, $ty:ty, $bs:expr, $valid:expr, $dir:ident $(, stubs: [$(($o:path, $r:path)),*])?) => {
        verif_harness! {
            name: $name,
            bytes: core::mem::size_of::<$ty>() + $bs,
            unwind: 5000,
            $(stubs: [$(($o, $r)),*],)?
            prop: |inp| {
                const S: usize = core::mem::size_of::<$ty>();
                let valid = generic::as_valid($valid);
                vassume!(valid(&inp[..S]));
                let mut a = core::mem::MaybeUninit::<$ty>::uninit();
                generic::fill(&mut a, &inp[..S]);
                let x: [u8; $bs] = take(&inp[..], S);
                let mut b1: cipher::Block<$ty> = x.into();
                g_dir!($dir, block, generic::as_ref(&a), &mut b1);
                let mut b2: cipher::Block<$ty> = x.into();
                g_dir!($dir, block, generic::as_ref(&a), &mut b2);
                let after: [u8; S] = unsafe { core::ptr::read(a.as_ptr() as *const [u8; S]) };
                let mut diff = 0u8;
                let mut i = 0;
                while i < S {
                    diff |= after[i] ^ inp[i];
                    i += 1;
                }
                Some((b1 == b2) & (diff == 0))
            }
        }
    };
}

/// C15 mixed directions, one half (see g_mixed): after $first(x) on the instance, $second(x) returns what a pristine
/// instance with the same state returns; instance bytes unchanged.
#[allow(unused_macros)]
macro_rules! g_mixed_half {
    ($name:ident, $ty:ty, $bs:expr, $valid:expr, $first:ident, $second:ident $(, stubs: [$(($o:path, $r:path)),*])?) => {
        verif_harness! {
            name: $name,
            bytes: core::mem::size_of::<$ty>() + $bs,
            unwind: 5000,
            $(stubs: [$(($o, $r)),*],)?
            prop: |inp| {
                const S: usize = core::mem::size_of::<$ty>();
                let valid = generic::as_valid($valid);
                vassume!(valid(&inp[..S]));
                let mut a = core::mem::MaybeUninit::<$ty>::uninit();
                generic::fill(&mut a, &inp[..S]);
                let mut fresh = core::mem::MaybeUninit::<$ty>::uninit();
                generic::fill(&mut fresh, &inp[..S]);
                let x: [u8; $bs] = take(&inp[..], S);
                let mut rx: cipher::Block<$ty> = x.into();
                g_dir!($second, block, generic::as_ref(&fresh), &mut rx);
                let mut t: cipher::Block<$ty> = x.into();
                g_dir!($first, block, generic::as_ref(&a), &mut t);
                let mut dx: cipher::Block<$ty> = x.into();
                g_dir!($second, block, generic::as_ref(&a), &mut dx);
                vcheck!(dx == rx);
                let mut diff = 0u8;
                let mut i = 0;
                while i < S {
                    diff |= generic::peek(&a, i) ^ inp[i];
                    i += 1;
                }
                Some(diff == 0)
            }
        }
    };
}

/// Give a closure passed as a macro argument its signature (so that `|b| ...` needs no annotations) WITHOUT turning it
/// into a function pointer: CBMC treats a call through a `fn` pointer as a choice among all type-compatible functions.
pub fn as_valid<F: Fn(&[u8]) -> bool>(f: F) -> F {
    f
}
pub fn as_idx<F: Fn(usize) -> bool>(f: F) -> F {
    f
}
pub fn always(_: &[u8]) -> bool {
    true
}
pub fn none(_: usize) -> bool {
    false
}

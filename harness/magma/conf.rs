// Magma / GOST 28147-89 (crate `magma`): conformance to GOST R 34.12-2015 "Magma" and to the 32-round GOST 28147-89
// network over each bundled S-box set and over user-supplied sets (C07), round trips (C01), no panic / overflow (C20).
//
// Shapes: L  = leaf lemmas (gen_exp_sbox over a symbolic nibble table; apply_sbox / g of a concrete set vs the oracle's
//              nibble-wise t / g over all 2^32 / 2^64 arguments),
//         D  = the public API (KeyInit::new + encrypt_block / decrypt_block) on a fully symbolic key and block vs the
//              oracle (a different program: nibble tables, explicit round-key index schedule, one loop of 32 rounds).
// "User-supplied" sets: two `impl Sbox` types defined here (one of permutations, one of arbitrary 4-bit tables) that are
// not part of the crate, plus the symbolic-table lemma on gen_exp_sbox which quantifies over all 16^128 tables.
use super::prelude::*;
use crate::sboxes::{CryptoProA, CryptoProB, CryptoProC, CryptoProD, Sbox, SboxExt, Tc26, TestSbox};
use crate::Gost89;
use cipher::{BlockCipherDecrypt, BlockCipherEncrypt, KeyInit};
use refmodels::gost as r;

pub enum UserA {}
impl Sbox for UserA {
    const NAME: &'static str = "UserA";
    const SBOX: [[u8; 16]; 8] = r::USER_A;
}
pub enum UserB {}
impl Sbox for UserB {
    const NAME: &'static str = "UserB";
    const SBOX: [[u8; 16]; 8] = r::USER_B;
}

// ---------------------------------------------------------------------------------------------------------- leaves

//@ harness name=magma_gen_exp_sbox prop=C07,C20 tier=quick bits=512 est=25 desc="L: gen_exp_sbox on a symbolic 8x16 table of 4-bit values (all 16^128 tables): every expanded entry out[i][j + 16k] == sbox[2i][j] + 16*sbox[2i+1][k], i.e. low nibble through table 2i and high nibble through table 2i+1; no overflow, no out-of-bounds"
verif_harness! {
    name: magma_gen_exp_sbox,
    bytes: 64 + 2,
    unwind: 18,
    prop: |inp| {
        // 128 nibbles packed two per byte
        let mut sb = [[0u8; 16]; 8];
        let mut i = 0;
        while i < 8 {
            let mut j = 0;
            while j < 8 {
                let b = inp[8 * i + j];
                sb[i][2 * j] = b & 0xF;
                sb[i][2 * j + 1] = b >> 4;
                j += 1;
            }
            i += 1;
        }
        let e = crate::sboxes::gen_exp_sbox(&sb);
        // one symbolic position of the expanded table (all 4 x 256 positions)
        let t = (inp[64] & 3) as usize;
        let c = inp[65] as usize;
        let lo = sb[2 * t][c & 0xF];
        let hi = sb[2 * t + 1][c >> 4];
        vcheck!(e[t][c] & 0xF == lo);
        vcheck!(e[t][c] >> 4 == hi);
        // and the expanded table drives the oracle's nibble-wise t for a symbolic word built around that position
        Some(e[t][c] == lo | (hi << 4))
    }
}

fn leaf<S: Sbox>(inp: &[u8; 8], sb: &r::Sboxes) -> Option<bool> {
    let a = take_u32(inp, 0);
    let k = take_u32(inp, 4);
    vcheck!(S::apply_sbox(a) == r::t(sb, a));
    Some(S::g(a, k) == r::g(sb, a, k))
}

//@ harness name=magma_leaf_tc26 prop=C07,C20 tier=quick bits=64 est=10 desc="L: Tc26: apply_sbox(a) == oracle t(a) (eight 4-bit substitutions pi_0..pi_7) and g(a,k) == t(a+k)<<<11 for all a, k"
verif_harness! {
    name: magma_leaf_tc26,
    bytes: 8,
    prop: |inp| { leaf::<Tc26>(inp, &r::TC26) }
}
//@ harness name=magma_leaf_test prop=C07,C20 tier=quick bits=64 est=10 desc="L: TestSbox: apply_sbox / g vs oracle t / g for all a, k"
verif_harness! {
    name: magma_leaf_test,
    bytes: 8,
    prop: |inp| { leaf::<TestSbox>(inp, &r::TEST) }
}
//@ harness name=magma_leaf_cpa prop=C07,C20 tier=quick bits=64 est=10 desc="L: CryptoProA: apply_sbox / g vs oracle t / g for all a, k"
verif_harness! {
    name: magma_leaf_cpa,
    bytes: 8,
    prop: |inp| { leaf::<CryptoProA>(inp, &r::CRYPTOPRO_A) }
}
//@ harness name=magma_leaf_cpb prop=C07,C20 tier=quick bits=64 est=10 desc="L: CryptoProB: apply_sbox / g vs oracle t / g for all a, k"
verif_harness! {
    name: magma_leaf_cpb,
    bytes: 8,
    prop: |inp| { leaf::<CryptoProB>(inp, &r::CRYPTOPRO_B) }
}
//@ harness name=magma_leaf_cpc prop=C07,C20 tier=quick bits=64 est=10 desc="L: CryptoProC: apply_sbox / g vs oracle t / g for all a, k"
verif_harness! {
    name: magma_leaf_cpc,
    bytes: 8,
    prop: |inp| { leaf::<CryptoProC>(inp, &r::CRYPTOPRO_C) }
}
//@ harness name=magma_leaf_cpd prop=C07,C20 tier=quick bits=64 est=10 desc="L: CryptoProD: apply_sbox / g vs oracle t / g for all a, k"
verif_harness! {
    name: magma_leaf_cpd,
    bytes: 8,
    prop: |inp| { leaf::<CryptoProD>(inp, &r::CRYPTOPRO_D) }
}
//@ harness name=magma_leaf_usera prop=C07,C20 tier=quick bits=64 est=10 desc="L: user-supplied set A (eight permutations not bundled with the crate): apply_sbox / g vs oracle t / g for all a, k"
verif_harness! {
    name: magma_leaf_usera,
    bytes: 8,
    prop: |inp| { leaf::<UserA>(inp, &r::USER_A) }
}
//@ harness name=magma_leaf_userb prop=C07,C20 tier=quick bits=64 est=10 desc="L: user-supplied set B (eight arbitrary, non-bijective 4-bit tables): apply_sbox / g vs oracle t / g for all a, k"
verif_harness! {
    name: magma_leaf_userb,
    bytes: 8,
    prop: |inp| { leaf::<UserB>(inp, &r::USER_B) }
}

// ---------------------------------------------------------------------------------------------------------- direct

fn d_enc<S: Sbox>(inp: &[u8; 40], sb: &r::Sboxes) -> Option<bool> {
    let key: [u8; 32] = take(inp, 0);
    let blk: [u8; 8] = take(inp, 32);
    let c = Gost89::<S>::new(&key.into());
    let mut b = blk.into();
    c.encrypt_block(&mut b);
    Some(b.0 == r::encrypt(sb, &key, &blk))
}
fn d_dec<S: Sbox>(inp: &[u8; 40], sb: &r::Sboxes) -> Option<bool> {
    let key: [u8; 32] = take(inp, 0);
    let blk: [u8; 8] = take(inp, 32);
    let c = Gost89::<S>::new(&key.into());
    let mut b = blk.into();
    c.decrypt_block(&mut b);
    Some(b.0 == r::decrypt(sb, &key, &blk))
}
fn d_rt<S: Sbox>(inp: &[u8; 40], enc_first: bool) -> Option<bool> {
    let key: [u8; 32] = take(inp, 0);
    let blk: [u8; 8] = take(inp, 32);
    let c = Gost89::<S>::new(&key.into());
    let mut b = blk.into();
    if enc_first {
        c.encrypt_block(&mut b);
        c.decrypt_block(&mut b);
    } else {
        c.decrypt_block(&mut b);
        c.encrypt_block(&mut b);
    }
    Some(b.0 == blk)
}

//@ harness name=magma_d_enc_tc26 prop=C07,C20 tier=quick bits=320 est=95 desc="D: Magma::new(key).encrypt_block(b) == oracle GOST R 34.12-2015 Magma encryption, all 2^256 keys, all 2^64 blocks"
verif_harness! {
    name: magma_d_enc_tc26,
    bytes: 40,
    unwind: 34,
    prop: |inp| { d_enc::<Tc26>(inp, &r::TC26) }
}
//@ harness name=magma_d_dec_tc26 prop=C07,C20 tier=quick bits=320 est=170 desc="D: Magma::new(key).decrypt_block(b) == oracle Magma decryption, all keys, all blocks"
verif_harness! {
    name: magma_d_dec_tc26,
    bytes: 40,
    unwind: 34,
    prop: |inp| { d_dec::<Tc26>(inp, &r::TC26) }
}
//@ harness name=magma_rt_ed_tc26 prop=C01,C20 tier=quick bits=320 est=215 desc="D: Magma dec(enc(b)) == b incl. key loading, all keys, all blocks"
verif_harness! {
    name: magma_rt_ed_tc26,
    bytes: 40,
    unwind: 34,
    prop: |inp| { d_rt::<Tc26>(inp, true) }
}
//@ harness name=magma_rt_de_tc26 prop=C01,C20 tier=thorough bits=320 est=130 desc="D: Magma enc(dec(b)) == b incl. key loading, all keys, all blocks"
verif_harness! {
    name: magma_rt_de_tc26,
    bytes: 40,
    unwind: 34,
    prop: |inp| { d_rt::<Tc26>(inp, false) }
}

// ---------------------------------------------------------------------------------------------------------- the other sets

//@ harness name=magma_d_enc_test prop=C07,C20 tier=thorough bits=320 est=120 desc="D: Gost89<TestSbox>::new(key).encrypt_block(b) == oracle 32-round GOST 28147-89 encryption over TestSbox, all 2^256 keys, all 2^64 blocks"
verif_harness! {
    name: magma_d_enc_test,
    bytes: 40,
    unwind: 34,
    prop: |inp| { d_enc::<TestSbox>(inp, &r::TEST) }
}
//@ harness name=magma_d_dec_test prop=C07,C20 tier=thorough bits=320 est=160 desc="D: Gost89<TestSbox>::new(key).decrypt_block(b) == oracle GOST 28147-89 decryption over TestSbox, all keys, all blocks"
verif_harness! {
    name: magma_d_dec_test,
    bytes: 40,
    unwind: 34,
    prop: |inp| { d_dec::<TestSbox>(inp, &r::TEST) }
}
//@ harness name=magma_rt_ed_test prop=C01,C20 tier=thorough bits=320 est=220 desc="D: Gost89<TestSbox> dec(enc(b)) == b incl. key loading, all keys, all blocks"
verif_harness! {
    name: magma_rt_ed_test,
    bytes: 40,
    unwind: 34,
    prop: |inp| { d_rt::<TestSbox>(inp, true) }
}
//@ harness name=magma_rt_de_test prop=C01,C20 tier=thorough bits=320 est=140 desc="D: Gost89<TestSbox> enc(dec(b)) == b incl. key loading, all keys, all blocks"
verif_harness! {
    name: magma_rt_de_test,
    bytes: 40,
    unwind: 34,
    prop: |inp| { d_rt::<TestSbox>(inp, false) }
}
//@ harness name=magma_d_enc_cpa prop=C07,C20 tier=thorough bits=320 est=120 desc="D: Gost89<CryptoProA>::new(key).encrypt_block(b) == oracle 32-round GOST 28147-89 encryption over CryptoProA, all 2^256 keys, all 2^64 blocks"
verif_harness! {
    name: magma_d_enc_cpa,
    bytes: 40,
    unwind: 34,
    prop: |inp| { d_enc::<CryptoProA>(inp, &r::CRYPTOPRO_A) }
}
//@ harness name=magma_d_dec_cpa prop=C07,C20 tier=thorough bits=320 est=160 desc="D: Gost89<CryptoProA>::new(key).decrypt_block(b) == oracle GOST 28147-89 decryption over CryptoProA, all keys, all blocks"
verif_harness! {
    name: magma_d_dec_cpa,
    bytes: 40,
    unwind: 34,
    prop: |inp| { d_dec::<CryptoProA>(inp, &r::CRYPTOPRO_A) }
}
//@ harness name=magma_rt_ed_cpa prop=C01,C20 tier=thorough bits=320 est=220 desc="D: Gost89<CryptoProA> dec(enc(b)) == b incl. key loading, all keys, all blocks"
verif_harness! {
    name: magma_rt_ed_cpa,
    bytes: 40,
    unwind: 34,
    prop: |inp| { d_rt::<CryptoProA>(inp, true) }
}
//@ harness name=magma_rt_de_cpa prop=C01,C20 tier=thorough bits=320 est=140 desc="D: Gost89<CryptoProA> enc(dec(b)) == b incl. key loading, all keys, all blocks"
verif_harness! {
    name: magma_rt_de_cpa,
    bytes: 40,
    unwind: 34,
    prop: |inp| { d_rt::<CryptoProA>(inp, false) }
}
//@ harness name=magma_d_enc_cpb prop=C07,C20 tier=thorough bits=320 est=120 desc="D: Gost89<CryptoProB>::new(key).encrypt_block(b) == oracle 32-round GOST 28147-89 encryption over CryptoProB, all 2^256 keys, all 2^64 blocks"
verif_harness! {
    name: magma_d_enc_cpb,
    bytes: 40,
    unwind: 34,
    prop: |inp| { d_enc::<CryptoProB>(inp, &r::CRYPTOPRO_B) }
}
//@ harness name=magma_d_dec_cpb prop=C07,C20 tier=thorough bits=320 est=160 desc="D: Gost89<CryptoProB>::new(key).decrypt_block(b) == oracle GOST 28147-89 decryption over CryptoProB, all keys, all blocks"
verif_harness! {
    name: magma_d_dec_cpb,
    bytes: 40,
    unwind: 34,
    prop: |inp| { d_dec::<CryptoProB>(inp, &r::CRYPTOPRO_B) }
}
//@ harness name=magma_rt_ed_cpb prop=C01,C20 tier=thorough bits=320 est=220 desc="D: Gost89<CryptoProB> dec(enc(b)) == b incl. key loading, all keys, all blocks"
verif_harness! {
    name: magma_rt_ed_cpb,
    bytes: 40,
    unwind: 34,
    prop: |inp| { d_rt::<CryptoProB>(inp, true) }
}
//@ harness name=magma_rt_de_cpb prop=C01,C20 tier=thorough bits=320 est=140 desc="D: Gost89<CryptoProB> enc(dec(b)) == b incl. key loading, all keys, all blocks"
verif_harness! {
    name: magma_rt_de_cpb,
    bytes: 40,
    unwind: 34,
    prop: |inp| { d_rt::<CryptoProB>(inp, false) }
}
//@ harness name=magma_d_enc_cpc prop=C07,C20 tier=thorough bits=320 est=120 desc="D: Gost89<CryptoProC>::new(key).encrypt_block(b) == oracle 32-round GOST 28147-89 encryption over CryptoProC, all 2^256 keys, all 2^64 blocks"
verif_harness! {
    name: magma_d_enc_cpc,
    bytes: 40,
    unwind: 34,
    prop: |inp| { d_enc::<CryptoProC>(inp, &r::CRYPTOPRO_C) }
}
//@ harness name=magma_d_dec_cpc prop=C07,C20 tier=thorough bits=320 est=160 desc="D: Gost89<CryptoProC>::new(key).decrypt_block(b) == oracle GOST 28147-89 decryption over CryptoProC, all keys, all blocks"
verif_harness! {
    name: magma_d_dec_cpc,
    bytes: 40,
    unwind: 34,
    prop: |inp| { d_dec::<CryptoProC>(inp, &r::CRYPTOPRO_C) }
}
//@ harness name=magma_rt_ed_cpc prop=C01,C20 tier=thorough bits=320 est=220 desc="D: Gost89<CryptoProC> dec(enc(b)) == b incl. key loading, all keys, all blocks"
verif_harness! {
    name: magma_rt_ed_cpc,
    bytes: 40,
    unwind: 34,
    prop: |inp| { d_rt::<CryptoProC>(inp, true) }
}
//@ harness name=magma_rt_de_cpc prop=C01,C20 tier=thorough bits=320 est=140 desc="D: Gost89<CryptoProC> enc(dec(b)) == b incl. key loading, all keys, all blocks"
verif_harness! {
    name: magma_rt_de_cpc,
    bytes: 40,
    unwind: 34,
    prop: |inp| { d_rt::<CryptoProC>(inp, false) }
}
//@ harness name=magma_d_enc_cpd prop=C07,C20 tier=thorough bits=320 est=120 desc="D: Gost89<CryptoProD>::new(key).encrypt_block(b) == oracle 32-round GOST 28147-89 encryption over CryptoProD, all 2^256 keys, all 2^64 blocks"
verif_harness! {
    name: magma_d_enc_cpd,
    bytes: 40,
    unwind: 34,
    prop: |inp| { d_enc::<CryptoProD>(inp, &r::CRYPTOPRO_D) }
}
//@ harness name=magma_d_dec_cpd prop=C07,C20 tier=thorough bits=320 est=160 desc="D: Gost89<CryptoProD>::new(key).decrypt_block(b) == oracle GOST 28147-89 decryption over CryptoProD, all keys, all blocks"
verif_harness! {
    name: magma_d_dec_cpd,
    bytes: 40,
    unwind: 34,
    prop: |inp| { d_dec::<CryptoProD>(inp, &r::CRYPTOPRO_D) }
}
//@ harness name=magma_rt_ed_cpd prop=C01,C20 tier=thorough bits=320 est=220 desc="D: Gost89<CryptoProD> dec(enc(b)) == b incl. key loading, all keys, all blocks"
verif_harness! {
    name: magma_rt_ed_cpd,
    bytes: 40,
    unwind: 34,
    prop: |inp| { d_rt::<CryptoProD>(inp, true) }
}
//@ harness name=magma_rt_de_cpd prop=C01,C20 tier=thorough bits=320 est=140 desc="D: Gost89<CryptoProD> enc(dec(b)) == b incl. key loading, all keys, all blocks"
verif_harness! {
    name: magma_rt_de_cpd,
    bytes: 40,
    unwind: 34,
    prop: |inp| { d_rt::<CryptoProD>(inp, false) }
}
//@ harness name=magma_d_enc_usera prop=C07,C20 tier=thorough bits=320 est=120 desc="D: Gost89<UserA>::new(key).encrypt_block(b) == oracle 32-round GOST 28147-89 encryption over user-supplied set A (permutations), all 2^256 keys, all 2^64 blocks"
verif_harness! {
    name: magma_d_enc_usera,
    bytes: 40,
    unwind: 34,
    prop: |inp| { d_enc::<UserA>(inp, &r::USER_A) }
}
//@ harness name=magma_d_dec_usera prop=C07,C20 tier=thorough bits=320 est=160 desc="D: Gost89<UserA>::new(key).decrypt_block(b) == oracle GOST 28147-89 decryption over user-supplied set A (permutations), all keys, all blocks"
verif_harness! {
    name: magma_d_dec_usera,
    bytes: 40,
    unwind: 34,
    prop: |inp| { d_dec::<UserA>(inp, &r::USER_A) }
}
//@ harness name=magma_d_enc_userb prop=C07,C20 tier=thorough bits=320 est=120 desc="D: Gost89<UserB>::new(key).encrypt_block(b) == oracle 32-round GOST 28147-89 encryption over user-supplied set B (arbitrary 4-bit tables), all 2^256 keys, all 2^64 blocks"
verif_harness! {
    name: magma_d_enc_userb,
    bytes: 40,
    unwind: 34,
    prop: |inp| { d_enc::<UserB>(inp, &r::USER_B) }
}
//@ harness name=magma_d_dec_userb prop=C07,C20 tier=thorough bits=320 est=160 desc="D: Gost89<UserB>::new(key).decrypt_block(b) == oracle GOST 28147-89 decryption over user-supplied set B (arbitrary 4-bit tables), all keys, all blocks"
verif_harness! {
    name: magma_d_dec_userb,
    bytes: 40,
    unwind: 34,
    prop: |inp| { d_dec::<UserB>(inp, &r::USER_B) }
}

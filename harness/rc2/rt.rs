// RC2 round trip (C01) by L + W (the direct query over enc o dec, see conf.rs rc2_roundtrip_*, needs > 15 min):
//   L  rc2_leaf_mix_inv    on arbitrary round keys, every word state r and every quarter m = 0..15:
//                          reverse_mix(mix(r, j = 4m), j = 4m+3) == r and mix(reverse_mix(r, 4m+3), 4m) == r, with the
//                          exact effect on the key counter j (mix: j += 4; reverse_mix: j -= 4, wrapping below 0)
//   L  rc2_leaf_mash_inv   reverse_mash(mash(r)) == r and mash(reverse_mash(r)) == r on arbitrary round keys
//   W  rc2_roundtrip_w_*   real encrypt_block / decrypt_block (load/store of the four LE words, loop structure, mash placement
//                          after rounds 5 and 11, counter handling) with mix/reverse_mix and mash/reverse_mash replaced by
//                          uninterpreted mutually inverse bijections (mix keyed by the quarter m)
use super::prelude::*;
use crate::Rc2;
use cipher::{BlockCipherDecrypt, BlockCipherEncrypt};

fn arb_keys(inp: &[u8]) -> Rc2 {
    let mut keys = [0u16; 64];
    let mut i = 0;
    while i < 64 {
        keys[i] = take_u16(inp, 2 * i);
        i += 1;
    }
    Rc2 { keys }
}
fn words(inp: &[u8], off: usize) -> [u16; 4] {
    [take_u16(inp, off), take_u16(inp, off + 2), take_u16(inp, off + 4), take_u16(inp, off + 6)]
}

//@ harness name=rc2_leaf_mix_inv prop=C01,C20 tier=quick bits=1092 est=45 desc="L: on arbitrary round keys, all word states r, all quarters m in 0..16: mix(r, j=4m) leaves j = 4m+4 and reverse_mix(., j=4m+3) restores r leaving j = 4m-1 (wrapping); conversely mix(reverse_mix(r, 4m+3), 4m) == r; key indices in range"
verif_harness! {
    name: rc2_leaf_mix_inv,
    bytes: 137,
    unwind: 66,
    prop: |inp| {
        let c = arb_keys(inp);
        let r0 = words(inp, 128);
        let m = inp[136] as usize;
        vassume!(m < 16);
        // reverse_mix o mix
        let mut r = r0;
        let mut j = 4 * m;
        c.mix(&mut r, &mut j);
        vcheck!(j == 4 * m + 4);
        j = 4 * m + 3;
        c.reverse_mix(&mut r, &mut j);
        vcheck!(j == (4 * m).wrapping_sub(1));
        vcheck!(r == r0);
        // mix o reverse_mix
        let mut r = r0;
        let mut j = 4 * m + 3;
        c.reverse_mix(&mut r, &mut j);
        j = 4 * m;
        c.mix(&mut r, &mut j);
        vcheck!(r == r0);
        Some(true)
    }
}

//@ harness name=rc2_leaf_mash_inv prop=C01,C20 tier=quick bits=1088 est=15 desc="L: on arbitrary round keys and all word states r: reverse_mash(mash(r)) == r and mash(reverse_mash(r)) == r; key indices (r & 63) in range"
verif_harness! {
    name: rc2_leaf_mash_inv,
    bytes: 136,
    unwind: 66,
    prop: |inp| {
        let c = arb_keys(inp);
        let r0 = words(inp, 128);
        let mut r = r0;
        c.mash(&mut r);
        c.reverse_mash(&mut r);
        vcheck!(r == r0);
        let mut r = r0;
        c.reverse_mash(&mut r);
        c.mash(&mut r);
        vcheck!(r == r0);
        Some(true)
    }
}

fn id128(x: u128) -> u128 {
    x
}
fn id64(x: u64) -> u64 {
    x
}
// (quarter m << 64 | state) -> (m << 64 | state'): mix / reverse_mix as one uninterpreted bijection pair
uf_bij!(bx, u128, [B0], id128, id128);
// mash / reverse_mash
uf_bij!(bm, u64, [B0], id64, id64);
pub static mut BAD: bool = false;

fn pack(r: &[u16; 4]) -> u64 {
    (r[0] as u64) | ((r[1] as u64) << 16) | ((r[2] as u64) << 32) | ((r[3] as u64) << 48)
}
fn unpack(v: u64, r: &mut [u16; 4]) {
    r[0] = v as u16;
    r[1] = (v >> 16) as u16;
    r[2] = (v >> 32) as u16;
    r[3] = (v >> 48) as u16;
}
pub fn stub_mix(_c: &Rc2, r: &mut [u16; 4], j: &mut usize) {
    if *j % 4 != 0 || *j >= 64 {
        unsafe { BAD = true };
        return;
    }
    let m = (*j / 4) as u128;
    let b = bx::fwd((m << 64) | pack(r) as u128);
    #[cfg(kani)]
    kani::assume(b >> 64 == m);
    unpack(b as u64, r);
    *j += 4;
}
pub fn stub_reverse_mix(_c: &Rc2, r: &mut [u16; 4], j: &mut usize) {
    if *j % 4 != 3 || *j >= 64 {
        unsafe { BAD = true };
        return;
    }
    let m = (*j / 4) as u128;
    let a = bx::inv((m << 64) | pack(r) as u128);
    #[cfg(kani)]
    kani::assume(a >> 64 == m);
    unpack(a as u64, r);
    *j = j.wrapping_sub(4);
}
pub fn stub_mash(_c: &Rc2, r: &mut [u16; 4]) {
    let b = bm::fwd(pack(r));
    unpack(b, r);
}
pub fn stub_reverse_mash(_c: &Rc2, r: &mut [u16; 4]) {
    let a = bm::inv(pack(r));
    unpack(a, r);
}

//@ harness name=rc2_roundtrip_w_ed prop=C01 tier=quick bits=64 stub=1 est=30 desc="W: decrypt_block(encrypt_block(b)) == b for all blocks on any round-key state: real block load/store and round sequencing (16 mix quarters with mash after the 5th and 11th; mirrored for decryption), mix/reverse_mix and mash/reverse_mash uninterpreted mutually inverse bijections (rc2_leaf_mix_inv, rc2_leaf_mash_inv)"
verif_harness! {
    name: rc2_roundtrip_w_ed,
    bytes: 136,
    unwind: 66,
    stubs: [(crate::Rc2::mix, stub_mix), (crate::Rc2::reverse_mix, stub_reverse_mix), (crate::Rc2::mash, stub_mash), (crate::Rc2::reverse_mash, stub_reverse_mash)],
    prop: |inp| {
        let c = arb_keys(inp);
        let blk: [u8; 8] = take(inp, 128);
        let mut b = blk.into();
        c.encrypt_block(&mut b);
        c.decrypt_block(&mut b);
        Some(b.0 == blk && !unsafe { BAD })
    }
}

//@ harness name=rc2_roundtrip_w_de prop=C01 tier=quick bits=64 stub=1 est=30 desc="W: encrypt_block(decrypt_block(b)) == b for all blocks on any round-key state; leaves uninterpreted mutually inverse bijections as in rc2_roundtrip_w_ed"
verif_harness! {
    name: rc2_roundtrip_w_de,
    bytes: 136,
    unwind: 66,
    stubs: [(crate::Rc2::mix, stub_mix), (crate::Rc2::reverse_mix, stub_reverse_mix), (crate::Rc2::mash, stub_mash), (crate::Rc2::reverse_mash, stub_reverse_mash)],
    prop: |inp| {
        let c = arb_keys(inp);
        let blk: [u8; 8] = take(inp, 128);
        let mut b = blk.into();
        c.decrypt_block(&mut b);
        c.encrypt_block(&mut b);
        Some(b.0 == blk && !unsafe { BAD })
    }
}

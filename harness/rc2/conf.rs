// RC2: conformance to RFC 2268 (C09), dev-profile obligations incl. all table indices (C20); round trip: rt.rs.
// Data path: D on an arbitrary round-key state.  Key expansion: panic-freedom for all (T, T1) + W wiring of the constructors
// (conformance of the expansion itself did not finish in any formulation, see the comment below).
use super::prelude::*;
use crate::Rc2;
use cipher::{BlockCipherDecrypt, BlockCipherEncrypt, KeyInit};
use refmodels::rc2 as r;

fn expand_conf(key: &[u8; 128], len: usize, t1: usize) -> bool {
    let k = Rc2::expand_key(&key[..len], t1);
    let e = r::expand_key(key, len, t1);
    let mut ok = true;
    let mut i = 0;
    while i < 64 {
        ok &= k[i] == e[i];
        i += 1;
    }
    ok
}

// Conformance of Rc2::expand_key to RFC 2268 is NOT decided by a solver query in this suite.  Tried and dropped:
//   * T and T1 symbolic (every buffer access a symbolic-index access on a 128-byte array, 256 chained PITABLE look-ups per
//     side: 29 M clauses, 10-14 GB): index-guarded oracle + CaDiCaL 900 s, RFC-loop oracle + Kissat 1800 s -- no answer;
//   * T and T1 concrete ((8, 64) and (16, 128)), all key bytes symbolic: 900 s -- no answer (the 128-byte buffers are 1024
//     bits wide, just above CBMC's array-flattening threshold, so both sides go through the array theory and the two
//     256-step look-up chains are not recognised as the same circuit).
// What is decided: absence of any panic/overflow for ALL (T, T1) (rc2_expand_safe), the constructors' wiring around
// expand_key (rc2_new_from_slice, rc2_new_eff_w), the data path and the round trip on an arbitrary round-key state.
// The oracle's expand_key is validated natively against the RFC 2268 vectors and the repository's vectors (all T1 variants).
//@ harness name=rc2_expand_safe prop=C20 tier=thorough bits=1042 est=570 desc="D: Rc2::expand_key(key[..T], T1) raises no dev-profile obligation (no index out of range in key_buffer / PI_TABLE, no arithmetic overflow incl. 2u32.pow, no slice-length mismatch) for every key length T in 1..=128, every effective key length T1 in 1..=1024 and all key bytes; no oracle involved"
verif_harness! {
    name: rc2_expand_safe,
    bytes: 131,
    unwind: 130,
    prop: |inp| {
        let key: [u8; 128] = take(inp, 0);
        let len = inp[128] as usize;
        let t1 = take_u16(inp, 129) as usize;
        vassume!(1 <= len && len <= 128);
        vassume!(1 <= t1 && t1 <= 1024);
        let k = Rc2::expand_key(&key[..len], t1);
        // use the result so that nothing is sliced away
        Some(k[0] == k[0])
    }
}

// ---- effective key length: every T1, fixed keys ------------------------------------------------------------------
// The T8 / TM arithmetic ("TM = 255 MOD 2^(8 + T1 - 8*T8)") and the position 128 - T8 at which the backward pass starts are
// data independent: they are decided here for every T1 with two fixed keys (lengths 8 and 13).  T1 is symbolic but pinned
// to one value per path, so that each path is a concrete run of both expansions; the solver query covers all of them.
fn t1_sweep<const LO: usize, const HI: usize, const KL: usize>(inp: &[u8]) -> Option<bool> {
    let t1 = take_u16(inp, 0) as usize;
    vassume!(LO <= t1 && t1 <= HI);
    let mut key = [0u8; 128];
    let mut i = 0;
    while i < 13 {
        key[i] = (0x3Bu8).wrapping_mul(i as u8 + 1) ^ 0xA5;
        i += 1;
    }
    let mut t = LO;
    while t <= HI {
        if t == t1 {
            return Some(expand_conf(&key, KL, t));
        }
        t += 1;
    }
    None
}
//@ harness name=rc2_expand_t1_12 prop=C09,C20 cbmc_args=--max-field-sensitivity-array-size;160 tier=quick bits=16 est=120 need=11 desc="D: Rc2::expand_key(K, T1) == RFC 2268 key expansion for every effective key length T1 in 1..=12 (every residue mod 8, T8 = 1 and 2) with a fixed 8-byte key: decides the effective-length mask TM = 255 mod 2^(8 + T1 - 8*T8), T8 and the start of the backward pass for these T1; the key-dependent look-up chain is decided for this key only (each T1 is a concrete run of both expansions, ~50 k program steps each; field sensitivity raised to 160 elements so that the 128-byte buffer stays concrete)"
verif_harness! {
    name: rc2_expand_t1_12,
    bytes: 2,
    unwind: 140,
    prop: |inp| { t1_sweep::<1, 12, 8>(&inp[..]) }
}
//@ harness name=rc2_expand_t1_13k prop=C09,C20 cbmc_args=--max-field-sensitivity-array-size;160 tier=thorough bits=16 est=300 mem=30 desc="as rc2_expand_t1_12 with a 13-byte key (length not a power of two), T1 in 1..=16"
verif_harness! {
    name: rc2_expand_t1_13k,
    bytes: 2,
    unwind: 140,
    prop: |inp| { t1_sweep::<1, 16, 13>(&inp[..]) }
}
//@ harness name=rc2_expand_t1_40 prop=C09,C20 cbmc_args=--max-field-sensitivity-array-size;160 tier=thorough bits=16 est=600 mem=30 desc="as rc2_expand_t1_12 for every T1 in 13..=40"
verif_harness! {
    name: rc2_expand_t1_40,
    bytes: 2,
    unwind: 140,
    prop: |inp| { t1_sweep::<13, 40, 8>(&inp[..]) }
}
//@ harness name=rc2_expand_t1_top prop=C09,C20 cbmc_args=--max-field-sensitivity-array-size;160 tier=thorough bits=16 est=300 mem=30 desc="as rc2_expand_t1_12 for every T1 in 1009..=1024 (T8 = 127, 128: the backward pass is empty or one step)"
verif_harness! {
    name: rc2_expand_t1_top,
    bytes: 2,
    unwind: 140,
    prop: |inp| { t1_sweep::<1009, 1024, 8>(&inp[..]) }
}

// ---- constructors: wiring around expand_key, which is replaced by an uninterpreted function of (key bytes, T1) ------
// Two calls at most: the stub records the arguments of each call; the second call returns the first call's (arbitrary,
// drawn from the harness input) result iff its arguments are equal to the first call's, else another arbitrary value.
pub mod xk {
    pub static mut N: usize = 0;
    pub static mut LEN: [usize; 2] = [0; 2];
    pub static mut T1: [usize; 2] = [0; 2];
    pub static mut KEY: [[u8; 130]; 2] = [[0; 130]; 2];
    pub static mut VAL: [[u16; 64]; 2] = [[0; 64]; 2];
    pub static mut OK: bool = true;
}
pub fn stub_expand_key(key: &[u8], t1: usize) -> [u16; 64] {
    unsafe {
        let j = xk::N;
        if j >= 2 || key.len() > 130 {
            xk::OK = false;
            return [0; 64];
        }
        xk::N = j + 1;
        xk::LEN[j] = key.len();
        xk::T1[j] = t1;
        let mut same = j == 1 && xk::LEN[0] == key.len() && xk::T1[0] == t1;
        let mut i = 0;
        while i < 130 {
            if i < key.len() {
                xk::KEY[j][i] = key[i];
                if j == 1 {
                    same &= xk::KEY[0][i] == key[i];
                }
            }
            i += 1;
        }
        if same {
            xk::VAL[0]
        } else {
            xk::VAL[j]
        }
    }
}

//@ harness name=rc2_new_from_slice prop=C09,C20 tier=quick bits=3096 stub=1 est=205 desc="W: Rc2::new_from_slice(k), len symbolic 0..=130, is Err exactly for len 0 or > 128 and otherwise holds expand_key(k, 8*len) -- the same round keys as new_with_eff_key_len(k, 8*len) (which holds expand_key(k, t1) for any t1); expand_key uninterpreted (its conformance for all (len, t1) is rc2_expand_*)"
verif_harness! {
    name: rc2_new_from_slice,
    bytes: 131 + 256,
    unwind: 133,
    stubs: [(crate::Rc2::expand_key, stub_expand_key)],
    prop: |inp| {
        let buf: [u8; 130] = take(inp, 0);
        let len = inp[130] as usize;
        vassume!(len <= 130);
        #[cfg(kani)]
        unsafe {
            xk::N = 0;
            xk::OK = true;
            let mut j = 0;
            while j < 2 {
                let mut i = 0;
                while i < 64 {
                    xk::VAL[j][i] = take_u16(inp, 131 + 128 * j + 2 * i);
                    i += 1;
                }
                j += 1;
            }
        }
        let c = match Rc2::new_from_slice(&buf[..len]) {
            Err(_) => return Some(len == 0 || len > 128),
            Ok(c) => c,
        };
        vcheck!(1 <= len && len <= 128);
        let d = Rc2::new_with_eff_key_len(&buf[..len], 8 * len);
        let mut ok = true;
        let mut i = 0;
        while i < 64 {
            ok &= c.keys[i] == d.keys[i];
            i += 1;
        }
        #[cfg(kani)]
        unsafe {
            // the constructor made exactly one call, with (k, 8*len), and stored that call's result
            ok &= xk::OK && xk::N == 2 && xk::LEN[0] == len && xk::T1[0] == 8 * len;
            i = 0;
            while i < 130 {
                if i < len {
                    ok &= xk::KEY[0][i] == buf[i];
                }
                i += 1;
            }
            i = 0;
            while i < 64 {
                ok &= c.keys[i] == xk::VAL[0][i];
                i += 1;
            }
        }
        #[cfg(not(kani))]
        {
            let key: [u8; 128] = take(&buf, 0);
            let e = r::expand_key(&key, len, 8 * len);
            i = 0;
            while i < 64 {
                ok &= c.keys[i] == e[i];
                i += 1;
            }
        }
        Some(ok)
    }
}

//@ harness name=rc2_new_eff_w prop=C09 tier=quick bits=3112 stub=1 est=20 desc="W: Rc2::new_with_eff_key_len(k, t1) holds exactly expand_key(k, t1): key length symbolic 1..=128, t1 symbolic 1..=1024, arguments passed unchanged; expand_key uninterpreted"
verif_harness! {
    name: rc2_new_eff_w,
    bytes: 131 + 2 + 128,
    unwind: 133,
    stubs: [(crate::Rc2::expand_key, stub_expand_key)],
    prop: |inp| {
        let buf: [u8; 130] = take(inp, 0);
        let len = inp[130] as usize;
        let t1 = take_u16(inp, 131) as usize;
        vassume!(1 <= len && len <= 128);
        vassume!(1 <= t1 && t1 <= 1024);
        #[cfg(kani)]
        unsafe {
            xk::N = 0;
            xk::OK = true;
            let mut i = 0;
            while i < 64 {
                xk::VAL[0][i] = take_u16(inp, 133 + 2 * i);
                i += 1;
            }
        }
        let c = Rc2::new_with_eff_key_len(&buf[..len], t1);
        let mut ok = true;
        let mut i = 0;
        #[cfg(kani)]
        unsafe {
            ok &= xk::OK && xk::N == 1 && xk::LEN[0] == len && xk::T1[0] == t1;
            while i < 130 {
                if i < len {
                    ok &= xk::KEY[0][i] == buf[i];
                }
                i += 1;
            }
            i = 0;
            while i < 64 {
                ok &= c.keys[i] == xk::VAL[0][i];
                i += 1;
            }
        }
        #[cfg(not(kani))]
        {
            let key: [u8; 128] = take(&buf, 0);
            let e = r::expand_key(&key, len, t1);
            while i < 64 {
                ok &= c.keys[i] == e[i];
                i += 1;
            }
        }
        Some(ok)
    }
}

fn arb_state(inp: &[u8; 136]) -> (Rc2, [u8; 8]) {
    let mut keys = [0u16; 64];
    let mut i = 0;
    while i < 64 {
        keys[i] = take_u16(inp, 2 * i);
        i += 1;
    }
    (Rc2 { keys }, take(inp, 128))
}

//@ harness name=rc2_conf_enc prop=C09,C20 tier=quick bits=1088 est=140 desc="D: encrypt_block on an arbitrary round-key state K[0..63] (superset of all keys / effective lengths) == RFC 2268 encryption (5 mix, mash, 6 mix, mash, 5 mix), all blocks; mash indices in range"
verif_harness! {
    name: rc2_conf_enc,
    bytes: 136,
    unwind: 66,
    prop: |inp| {
        let (c, blk) = arb_state(inp);
        let mut b = blk.into();
        c.encrypt_block(&mut b);
        Some(b.0 == r::encrypt_k(&c.keys, &blk))
    }
}

//@ harness name=rc2_conf_dec prop=C09,C20 tier=quick bits=1088 est=150 desc="D: decrypt_block on an arbitrary round-key state == RFC 2268 decryption (r-mix / r-mash), all blocks; j never leaves 0..=63 where it is used"
verif_harness! {
    name: rc2_conf_dec,
    bytes: 136,
    unwind: 66,
    prop: |inp| {
        let (c, blk) = arb_state(inp);
        let mut b = blk.into();
        c.decrypt_block(&mut b);
        Some(b.0 == r::decrypt_k(&c.keys, &blk))
    }
}

// Round trip (C01): see rt.rs (L+W).  The direct query dec(enc(b)) == b on an arbitrary round-key state did not finish in 900 s.

// RC2 key expansion for SYMBOLIC keys (variant rc2:route, lib/bcv/plans/rc2_route.py): conformance to RFC 2268 section 2 (C09),
// dev-profile obligations (C20).  The direct queries of conf.rs (256 chained PITABLE look-ups per side) never answered.  Here
// the three look-ups of the real expand_key go through `crate::vpi` (shadow substitution; index expressions untouched):
//   L  rc2_leaf_pi           the crate's PI_TABLE == PITABLE of RFC 2268, every index
//   W  rc2_expand_w_<T>_<T1>  real Rc2::expand_key(key[..T], T1) == the RFC's three steps for ALL key bytes at a fixed key
//                            length T and effective length T1, every index < 256, with PITABLE abstracted:
// Abstraction of the table (module plog).  A back-end uninterpreted function (cuf1!) was tried first: ~250 applications per
// side = 115 k pairwise consistency constraints, no answer in 840 s.  Both expansions make their look-ups in the same order
// (forward pass, masked byte, backward pass), so the k-th look-up of the oracle is paired with the k-th look-up of the real
// code only: pass 1 (real code) answers every look-up with a fresh arbitrary byte and logs (index, answer); the k-th look-up
// of pass 2 (oracle) returns the logged answer if its index equals the logged index, a fresh arbitrary byte otherwise.  The
// real table is one of the behaviours this admits (same index => same answer at matching positions is all that is required of
// it), so equality of the two results under the abstraction implies equality for the real table.  A counterexample under the
// abstraction may be spurious: it is replayed natively with the real table before it is reported.
// T1-dependence for every T1 of stated ranges: rc2_expand_t1_* (conf.rs, fixed keys); constructors: rc2_new_* (conf.rs).
use super::prelude::*;
use crate::Rc2;
use refmodels::rc2 as r;

//@ harness name=rc2_leaf_pi prop=C09,C20 tier=quick bits=8 est=5 desc="L: crate::consts::PI_TABLE[i] == PITABLE of RFC 2268 for every i"
verif_harness! {
    name: rc2_leaf_pi,
    bytes: 1,
    unwind: 4,
    prop: |inp| {
        let i = inp[0] as usize;
        Some(crate::vpi(i) == r::PITABLE[i])
    }
}

pub mod plog {
    pub static mut PHASE: u8 = 0; // 0: pass 1 (logging), 1: pass 2 (constrained by the log)
    pub static mut N: usize = 0;
    pub static mut ARG: [u8; 256] = [0; 256];
    pub static mut RES: [u8; 256] = [0; 256];
    pub static mut OK: bool = true;
}
#[cfg(kani)]
fn pi_abs(i: u8) -> u8 {
    unsafe {
        let k = plog::N;
        if k >= 256 {
            plog::OK = false;
            return 0;
        }
        plog::N = k + 1;
        let fresh: u8 = kani::any();
        if plog::PHASE == 0 {
            plog::ARG[k] = i;
            plog::RES[k] = fresh;
            fresh
        } else if plog::ARG[k] == i {
            plog::RES[k]
        } else {
            fresh
        }
    }
}
#[cfg(not(kani))]
fn pi_abs(i: u8) -> u8 {
    r::PITABLE[i as usize]
}
pub fn stub_pi(i: usize) -> u8 {
    if i >= 256 {
        unsafe { plog::OK = false };
    }
    pi_abs(i as u8)
}

fn expand_w<const KL: usize, const T1: usize>(inp: &[u8; 128]) -> Option<bool> {
    unsafe {
        plog::PHASE = 0;
        plog::N = 0;
        plog::OK = true;
    }
    let mut key = [0u8; 128];
    let mut i = 0;
    while i < KL {
        key[i] = inp[i];
        i += 1;
    }
    let k = Rc2::expand_key(&key[..KL], T1);
    let n1 = unsafe { plog::N };
    unsafe {
        plog::PHASE = 1;
        plog::N = 0;
    }
    let e = r::expand_key_with(&key, KL, T1, pi_abs);
    // natively (replay) the real code does not go through the log: n1 = 0 there
    let mut ok = unsafe { plog::OK && (plog::N == n1 || n1 == 0) };
    i = 0;
    while i < 64 {
        ok &= k[i] == e[i];
        i += 1;
    }
    Some(ok)
}

fn expand_ws<const KL: usize>(inp: &[u8; 130]) -> Option<bool> {
    unsafe {
        plog::PHASE = 0;
        plog::N = 0;
        plog::OK = true;
    }
    let t1 = take_u16(inp, 128) as usize;
    vassume!(1 <= t1 && t1 <= 1024);
    let mut key = [0u8; 128];
    let mut i = 0;
    while i < KL {
        key[i] = inp[i];
        i += 1;
    }
    let k = Rc2::expand_key(&key[..KL], t1);
    let n1 = unsafe { plog::N };
    unsafe {
        plog::PHASE = 1;
        plog::N = 0;
    }
    let e = r::expand_key_with(&key, KL, t1, pi_abs);
    let mut ok = unsafe { plog::OK && (plog::N == n1 || n1 == 0) };
    i = 0;
    while i < 64 {
        ok &= k[i] == e[i];
        i += 1;
    }
    Some(ok)
}
//@ disabled-harness reason=never_finished:_no_answer_in_900_s_(symbolic_T1_makes_every_buffer_access_of_the_backward_pass_a_symbolic-index_access) name=rc2_expand_ws_8 prop=C09,C20 cbmc_args=--max-field-sensitivity-array-size;300 tier=thorough bits=80 stub=1 desc="W: Rc2::expand_key(key, T1) == RFC 2268 key expansion for ALL 8-byte keys and EVERY effective key length T1 in 1..=1024 (symbolic: T8, TM, the position of the masked byte and the length of the backward pass all symbolic); PITABLE abstracted with position-paired look-ups"
verif_harness! {
    name: rc2_expand_ws_8,
    bytes: 130,
    unwind: 140,
    stubs: [(crate::vpi, stub_pi)],
    prop: |inp| { expand_ws::<8>(inp) }
}

macro_rules! expand_w {
    ($name:ident, $kl:expr, $t1:expr) => {
        verif_harness! {
            name: $name,
            bytes: 128,
            unwind: 140,
            stubs: [(crate::vpi, stub_pi)],
            prop: |inp| { expand_w::<$kl, $t1>(inp) }
        }
    };
}
//@ harness name=rc2_expand_w_8_64 prop=C09,C20 cbmc_args=--max-field-sensitivity-array-size;300 tier=quick bits=64 stub=1 est=45 desc="W: Rc2::expand_key(key, 64) == RFC 2268 key expansion (forward pass L[i] = PITABLE[L[i-1] + L[i-T]], masked byte L[128-T8] = PITABLE[L[128-T8] & TM], backward pass L[i] = PITABLE[L[i+1] ^ L[i+T8]], K[i] = L[2i] + 256 L[2i+1]) for ALL 8-byte keys, T1 = 64; PITABLE abstracted with position-paired look-ups (see file header)"
expand_w!(rc2_expand_w_8_64, 8, 64);
//@ harness name=rc2_expand_w_16_128 prop=C09,C20 cbmc_args=--max-field-sensitivity-array-size;300 tier=quick bits=128 stub=1 est=40 desc="W: as rc2_expand_w_8_64 for ALL 16-byte keys, T1 = 128"
expand_w!(rc2_expand_w_16_128, 16, 128);
//@ harness name=rc2_expand_w_5_40 prop=C09,C20 cbmc_args=--max-field-sensitivity-array-size;300 tier=quick bits=40 stub=1 est=45 desc="W: as rc2_expand_w_8_64 for ALL 5-byte keys, T1 = 40 (export-grade length of the RFC's examples)"
expand_w!(rc2_expand_w_5_40, 5, 40);
//@ harness name=rc2_expand_w_13_100 prop=C09,C20 cbmc_args=--max-field-sensitivity-array-size;300 tier=quick bits=104 stub=1 est=40 desc="W: as rc2_expand_w_8_64 for ALL 13-byte keys, T1 = 100 (T8 = 13, TM = 0x0f: effective length not a multiple of 8, key length not a power of two)"
expand_w!(rc2_expand_w_13_100, 13, 100);
//@ harness name=rc2_expand_w_128_1024 prop=C09,C20 cbmc_args=--max-field-sensitivity-array-size;300 tier=quick bits=1024 stub=1 est=15 desc="W: as rc2_expand_w_8_64 for ALL 128-byte keys, T1 = 1024 (empty forward and backward passes, one masked look-up)"
expand_w!(rc2_expand_w_128_1024, 128, 1024);
//@ harness name=rc2_expand_w_1_1 prop=C09,C20 cbmc_args=--max-field-sensitivity-array-size;300 tier=quick bits=8 stub=1 est=50 desc="W: as rc2_expand_w_8_64 for ALL 1-byte keys, T1 = 1 (T8 = 1, TM = 1: both passes at full length)"
expand_w!(rc2_expand_w_1_1, 1, 1);

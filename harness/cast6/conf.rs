// CAST-256 (crate cast6): conformance to RFC 2612 for 128/160/192/224/256-bit keys (C08), round trip (C01),
// panic freedom (C20).
// L: forward_quad, reverse_quad, forward_octave (f1/f2/f3, S1..S4) on their full input spaces vs the oracle;
//    reverse_quad(m, r) is the inverse of forward_quad(m, r) for every (m, r).
// W: key_schedule / new_from_slice for the five key lengths with forward_octave uninterpreted (the oracle generates
//    Tm/Tr by the RFC's recurrence, so the repository's TM/TR tables are checked too); the 12 quad-rounds of
//    encrypt_block / decrypt_block on an arbitrary (masking, rotate) state with the quads uninterpreted; round trips
//    with the quads as uninterpreted *keyed* bijections (Q(m, r) and QBAR(m, r) mutually inverse for each (m, r)).
//
// The shared uf2!/uf_bij! macros take at most two integer arguments of <= 128 bits; a quad has 288 argument bits
// and an octave 576, so this file defines n-ary single-bank variants locally (same Ackermann encoding, scalar
// tables of 64 entries, same VERIF_UF_CAPACITY obligation, concrete function natively).
use super::prelude::*;
use crate::Cast6;
use cipher::{BlockCipherDecrypt, BlockCipherEncrypt, KeyInit};
use refmodels::cast6 as r;

/// n-ary uninterpreted function, one bank of 64 logged calls: ufn!(module, (arg: Ty, ...) -> ResTy, concrete_path)
macro_rules! ufn {
    ($m:ident, ($($a:ident : $AT:ty),+) -> $B:ty, $concrete:path) => {
        #[allow(non_upper_case_globals)]
        pub mod $m {
            #[allow(unused_imports)]
            use super::*;
            #[cfg(kani)]
            pub mod t {
                $(pub static mut $a: [$AT; 64] = [0; 64];)+
                pub static mut OUT: [$B; 64] = [0; 64];
            }
            #[cfg(kani)]
            pub static mut N: usize = 0;
            #[cfg(kani)]
            pub fn call($($a: $AT),+) -> $B {
                unsafe {
                    let y: $B = kani::any();
                    let n = N;
                    let mut ok = true;
                    let mut k = 0;
                    while k < 64 && k < n {
                        ok &= $((t::$a[k] != $a))|+ | (y == t::OUT[k]);
                        k += 1;
                    }
                    kani::assert(n < 64, "VERIF_UF_CAPACITY");
                    if n < 64 {
                        $(t::$a[n] = $a;)+
                        t::OUT[n] = y;
                    }
                    kani::assume(ok);
                    N = n + 1;
                    y
                }
            }
            #[cfg(not(kani))]
            pub fn call($($a: $AT),+) -> $B {
                $concrete($($a),+)
            }
        }
    };
}

fn p4(w: &[u32; 4]) -> u128 {
    (w[0] as u128) | ((w[1] as u128) << 32) | ((w[2] as u128) << 64) | ((w[3] as u128) << 96)
}
fn u4(v: u128) -> [u32; 4] {
    [v as u32, (v >> 32) as u32, (v >> 64) as u32, (v >> 96) as u32]
}
fn words4(inp: &[u8], off: usize) -> [u32; 4] {
    [take_u32(inp, off), take_u32(inp, off + 4), take_u32(inp, off + 8), take_u32(inp, off + 12)]
}

// ---- quads as uninterpreted functions of (beta, m, r)
fn qf_native(b: u128, m: u128, rr: u32) -> u128 {
    let mut x = u4(b);
    r::forward_quad(&mut x, &u4(m), &rr.to_le_bytes());
    p4(&x)
}
fn qr_native(b: u128, m: u128, rr: u32) -> u128 {
    let mut x = u4(b);
    r::reverse_quad(&mut x, &u4(m), &rr.to_le_bytes());
    p4(&x)
}
ufn!(uf_qf, (b: u128, m: u128, rr: u32) -> u128, qf_native);
ufn!(uf_qr, (b: u128, m: u128, rr: u32) -> u128, qr_native);
pub fn stub_qf(beta: &mut [u32; 4], m: &[u32; 4], rr: &[u8; 4]) {
    *beta = u4(uf_qf::call(p4(beta), p4(m), u32::from_le_bytes(*rr)));
}
pub fn stub_qr(beta: &mut [u32; 4], m: &[u32; 4], rr: &[u8; 4]) {
    *beta = u4(uf_qr::call(p4(beta), p4(m), u32::from_le_bytes(*rr)));
}

// ---- octave as a pair of uninterpreted functions (low / high half of the result) of (kappa, tm[8], tr[8])
fn oct_native(kl: u128, kh: u128, ml: u128, mh: u128, rr: u64) -> [u32; 8] {
    let (a, b, c, d) = (u4(kl), u4(kh), u4(ml), u4(mh));
    let mut kappa = [a[0], a[1], a[2], a[3], b[0], b[1], b[2], b[3]];
    let tm = [c[0], c[1], c[2], c[3], d[0], d[1], d[2], d[3]];
    r::forward_octave(&mut kappa, &tm, &rr.to_le_bytes());
    kappa
}
fn oct_lo_native(kl: u128, kh: u128, ml: u128, mh: u128, rr: u64) -> u128 {
    let k = oct_native(kl, kh, ml, mh, rr);
    p4(&[k[0], k[1], k[2], k[3]])
}
fn oct_hi_native(kl: u128, kh: u128, ml: u128, mh: u128, rr: u64) -> u128 {
    let k = oct_native(kl, kh, ml, mh, rr);
    p4(&[k[4], k[5], k[6], k[7]])
}
ufn!(uf_oct_lo, (kl: u128, kh: u128, ml: u128, mh: u128, rr: u64) -> u128, oct_lo_native);
ufn!(uf_oct_hi, (kl: u128, kh: u128, ml: u128, mh: u128, rr: u64) -> u128, oct_hi_native);
/// Stub of forward_octave; m and r must have length 8 (checked: a shorter slice panics here exactly as the
/// original would on m[7] / r[7]).
pub fn stub_oct(kappa: &mut [u32; 8], m: &[u32], rr: &[u8]) {
    let kl = p4(&[kappa[0], kappa[1], kappa[2], kappa[3]]);
    let kh = p4(&[kappa[4], kappa[5], kappa[6], kappa[7]]);
    let ml = p4(&[m[0], m[1], m[2], m[3]]);
    let mh = p4(&[m[4], m[5], m[6], m[7]]);
    let rv = u64::from_le_bytes([rr[0], rr[1], rr[2], rr[3], rr[4], rr[5], rr[6], rr[7]]);
    let lo = u4(uf_oct_lo::call(kl, kh, ml, mh, rv));
    let hi = u4(uf_oct_hi::call(kl, kh, ml, mh, rv));
    *kappa = [lo[0], lo[1], lo[2], lo[3], hi[0], hi[1], hi[2], hi[3]];
}

// ---- quads as uninterpreted keyed bijections: for each key (m, r), fwd(., m, r) and inv(., m, r) are mutually
//      inverse permutations of the 128-bit state (leaf lemma c6_leaf_quad_inv).  One bank of 64 logged pairs.
pub mod qbij {
    #[allow(unused_imports)]
    use super::*;
    #[cfg(kani)]
    pub mod t {
        pub static mut KM: [u128; 64] = [0; 64];
        pub static mut KR: [u32; 64] = [0; 64];
        pub static mut A: [u128; 64] = [0; 64];
        pub static mut B: [u128; 64] = [0; 64];
    }
    #[cfg(kani)]
    pub static mut N: usize = 0;
    #[cfg(kani)]
    fn link(km: u128, kr: u32, a: u128, b: u128) {
        unsafe {
            let n = N;
            let mut ok = true;
            let mut k = 0;
            while k < 64 && k < n {
                ok &= (t::KM[k] != km) | (t::KR[k] != kr) | ((t::A[k] == a) == (t::B[k] == b));
                k += 1;
            }
            kani::assert(n < 64, "VERIF_UF_CAPACITY");
            if n < 64 {
                t::KM[n] = km;
                t::KR[n] = kr;
                t::A[n] = a;
                t::B[n] = b;
            }
            kani::assume(ok);
            N = n + 1;
        }
    }
    #[cfg(kani)]
    pub fn fwd(a: u128, km: u128, kr: u32) -> u128 {
        let b: u128 = kani::any();
        link(km, kr, a, b);
        b
    }
    #[cfg(kani)]
    pub fn inv(b: u128, km: u128, kr: u32) -> u128 {
        let a: u128 = kani::any();
        link(km, kr, a, b);
        a
    }
    #[cfg(not(kani))]
    pub fn fwd(a: u128, km: u128, kr: u32) -> u128 {
        qf_native(a, km, kr)
    }
    #[cfg(not(kani))]
    pub fn inv(b: u128, km: u128, kr: u32) -> u128 {
        qr_native(b, km, kr)
    }
}
pub fn bij_qf(beta: &mut [u32; 4], m: &[u32; 4], rr: &[u8; 4]) {
    *beta = u4(qbij::fwd(p4(beta), p4(m), u32::from_le_bytes(*rr)));
}
pub fn bij_qr(beta: &mut [u32; 4], m: &[u32; 4], rr: &[u8; 4]) {
    *beta = u4(qbij::inv(p4(beta), p4(m), u32::from_le_bytes(*rr)));
}

//@ harness name=c6_leaf_quad_fwd prop=C08,C20 tier=quick bits=288 est=120 desc="L: forward_quad(beta, m, r) == RFC 2612 Q (f1, f2, f3, f1 with S1..S4) for every 128-bit beta, every masking key m, every rotation key r (all u8 values)"
verif_harness! {
    name: c6_leaf_quad_fwd,
    bytes: 36,
    unwind: 20,
    prop: |inp| {
        let mut b = words4(inp, 0);
        let m = words4(inp, 16);
        let rr: [u8; 4] = take(inp, 32);
        let mut e = b;
        crate::forward_quad(&mut b, &m, &rr);
        r::forward_quad(&mut e, &m, &rr);
        Some(b == e)
    }
}

//@ harness name=c6_leaf_quad_rev prop=C08,C20 tier=quick bits=288 est=120 desc="L: reverse_quad(beta, m, r) == RFC 2612 QBAR for every beta, m, r"
verif_harness! {
    name: c6_leaf_quad_rev,
    bytes: 36,
    unwind: 20,
    prop: |inp| {
        let mut b = words4(inp, 0);
        let m = words4(inp, 16);
        let rr: [u8; 4] = take(inp, 32);
        let mut e = b;
        crate::reverse_quad(&mut b, &m, &rr);
        r::reverse_quad(&mut e, &m, &rr);
        Some(b == e)
    }
}

//@ harness name=c6_leaf_quad_inv prop=C01 tier=quick bits=288 est=120 desc="L: reverse_quad(forward_quad(beta)) == beta and forward_quad(reverse_quad(beta)) == beta under the same (m, r), for every beta, m, r (justifies the keyed uninterpreted bijections of the round-trip harnesses)"
verif_harness! {
    name: c6_leaf_quad_inv,
    bytes: 36,
    unwind: 20,
    prop: |inp| {
        let b0 = words4(inp, 0);
        let m = words4(inp, 16);
        let rr: [u8; 4] = take(inp, 32);
        let mut b = b0;
        crate::forward_quad(&mut b, &m, &rr);
        crate::reverse_quad(&mut b, &m, &rr);
        vcheck!(b == b0);
        crate::reverse_quad(&mut b, &m, &rr);
        crate::forward_quad(&mut b, &m, &rr);
        Some(b == b0)
    }
}

//@ harness name=c6_leaf_octave prop=C08,C20 tier=quick bits=576 est=200 desc="L: forward_octave(kappa, m[8], r[8]) == RFC 2612 W for every 256-bit kappa and every 8 masking / 8 rotation constants"
verif_harness! {
    name: c6_leaf_octave,
    bytes: 72,
    unwind: 40,
    prop: |inp| {
        let (a, b, c, d) = (words4(inp, 0), words4(inp, 16), words4(inp, 32), words4(inp, 48));
        let mut k = [a[0], a[1], a[2], a[3], b[0], b[1], b[2], b[3]];
        let m = [c[0], c[1], c[2], c[3], d[0], d[1], d[2], d[3]];
        let rr: [u8; 8] = take(inp, 64);
        let mut e = k;
        crate::forward_octave(&mut k, &m, &rr);
        r::forward_octave(&mut e, &m, &rr);
        Some(k == e)
    }
}

//@ harness name=c6_key_schedule prop=C08,C20 tier=quick bits=259 stub=1 est=200 desc="W: Cast6::new_from_slice(key[..len]) for symbolic len in {16,20,24,28,32}, every key: masking/rotate == RFC 2612 key schedule of the zero-padded key (24 octaves, Tm/Tr generated from Cm, Mm, Cr, Mr; Kr = 5 LSBs of A,C,E,G; Km = H,F,D,B); forward_octave uninterpreted (shared)"
verif_harness! {
    name: c6_key_schedule,
    bytes: 33,
    unwind: 70,
    stubs: [(crate::forward_octave, stub_oct)],
    prop: |inp| {
        let key: [u8; 32] = take(inp, 0);
        let len = inp[32] as usize;
        vassume!(len == 16 || len == 20 || len == 24 || len == 28 || len == 32);
        let c = match Cast6::new_from_slice(&key[..len]) {
            Ok(c) => c,
            Err(_) => return Some(false),
        };
        let (km, kr) = r::key_schedule_with(&r::pad_key(&key, len), stub_oct);
        let mut i = 0;
        while i < 12 {
            vcheck!(c.masking[i] == km[i]);
            vcheck!(c.rotate[i] == kr[i]);
            i += 1;
        }
        Some(true)
    }
}

fn arb_state(inp: &[u8; 256]) -> (Cast6, [[u32; 4]; 12], [[u8; 4]; 12], [u8; 16]) {
    let mut km = [[0u32; 4]; 12];
    let mut kr = [[0u8; 4]; 12];
    let mut i = 0;
    while i < 12 {
        km[i] = words4(inp, 16 * i);
        kr[i] = take(inp, 192 + 4 * i);
        i += 1;
    }
    (Cast6 { masking: km, rotate: kr }, km, kr, take(inp, 240))
}

//@ harness name=c6_wire_enc prop=C08,C20 tier=quick bits=2048 stub=1 est=100 desc="W: encrypt_block on an arbitrary (masking, rotate) state (superset of all keys), every block == RFC 2612: Q_0..Q_5 then QBAR_6..QBAR_11, big-endian words; quads uninterpreted (shared)"
verif_harness! {
    name: c6_wire_enc,
    bytes: 256,
    unwind: 30,
    stubs: [(crate::forward_quad, stub_qf), (crate::reverse_quad, stub_qr)],
    prop: |inp| {
        let (c, km, kr, blk) = arb_state(inp);
        let mut b = blk.into();
        c.encrypt_block(&mut b);
        Some(b.0 == r::encrypt_with(&km, &kr, &blk, stub_qf, stub_qr))
    }
}

//@ harness name=c6_wire_dec prop=C08,C20 tier=quick bits=2048 stub=1 est=100 desc="W: decrypt_block on an arbitrary (masking, rotate) state, every block == RFC 2612 decryption: Q_11..Q_6 then QBAR_5..QBAR_0; quads uninterpreted (shared)"
verif_harness! {
    name: c6_wire_dec,
    bytes: 256,
    unwind: 30,
    stubs: [(crate::forward_quad, stub_qf), (crate::reverse_quad, stub_qr)],
    prop: |inp| {
        let (c, km, kr, blk) = arb_state(inp);
        let mut b = blk.into();
        c.decrypt_block(&mut b);
        Some(b.0 == r::decrypt_with(&km, &kr, &blk, stub_qf, stub_qr))
    }
}

//@ harness name=c6_roundtrip_ed prop=C01 tier=quick bits=2048 stub=1 est=100 desc="W: decrypt(encrypt(b)) == b on an arbitrary (masking, rotate) state (superset of all keys of the five lengths), every block; forward_quad / reverse_quad are uninterpreted keyed bijections, mutually inverse per (m, r) (leaf lemma c6_leaf_quad_inv)"
verif_harness! {
    name: c6_roundtrip_ed,
    bytes: 256,
    unwind: 30,
    stubs: [(crate::forward_quad, bij_qf), (crate::reverse_quad, bij_qr)],
    prop: |inp| {
        let (c, _km, _kr, blk) = arb_state(inp);
        let mut b = blk.into();
        c.encrypt_block(&mut b);
        c.decrypt_block(&mut b);
        Some(b.0 == blk)
    }
}

//@ harness name=c6_roundtrip_de prop=C01 tier=quick bits=2048 stub=1 est=100 desc="W: encrypt(decrypt(b)) == b on an arbitrary (masking, rotate) state, every block; quads as uninterpreted keyed bijections"
verif_harness! {
    name: c6_roundtrip_de,
    bytes: 256,
    unwind: 30,
    stubs: [(crate::forward_quad, bij_qf), (crate::reverse_quad, bij_qr)],
    prop: |inp| {
        let (c, _km, _kr, blk) = arb_state(inp);
        let mut b = blk.into();
        c.decrypt_block(&mut b);
        c.encrypt_block(&mut b);
        Some(b.0 == blk)
    }
}

// CAST-256 (crate cast6): conformance to RFC 2612 for 128/160/192/224/256-bit keys (C08), round trip (C01),
// panic freedom (C20).
// L: forward_quad, reverse_quad, forward_octave (f1/f2/f3, S1..S4) on their full input spaces vs the RFC's equations
//    (cut points, one or two round functions per harness); QBAR(m, r) is the inverse of Q(m, r) for every (m, r)
//    (shown on the quad-round structure with f1/f2/f3 uninterpreted).
// W: key_schedule for every 256-bit key with forward_octave uninterpreted (the oracle generates Tm/Tr by the RFC's
//    recurrence, so the repository's TM/TR tables are checked too); new_from_slice for the five key lengths
//    (zero padding, exactly one key_schedule call, key_schedule replaced by a recorder); the 12 quad-rounds of
//    encrypt_block / decrypt_block on an arbitrary (masking, rotate) state with the quads uninterpreted; round trips
//    with the quads as uninterpreted *keyed* bijections (Q(m, r) and QBAR(m, r) mutually inverse for each (m, r)).
//
// The shared uf2!/uf_bij! macros take at most two integer arguments of <= 128 bits; a quad has 288 argument bits
// and an octave 576, so this file defines n-ary single-bank variants locally (same Ackermann encoding, scalar
// tables of 64 entries, same VERIF_UF_CAPACITY obligation, concrete function natively).
use super::prelude::*;
use crate::Cast6;
use cipher::{BlockCipherDecrypt, BlockCipherEncrypt, KeyInit};
use refmodels::cast6 as r;

/// n-ary uninterpreted function, one bank of 64 logged calls: ufn!(module, (arg: Ty, ...) -> ResTy, concrete_path)
macro_rules! ufn {
    ($m:ident, ($($a:ident : $AT:ty),+) -> $B:ty, $concrete:path) => {
        #[allow(non_upper_case_globals)]
        pub mod $m {
            #[allow(unused_imports)]
            use super::*;
            #[cfg(kani)]
            pub mod t {
                $(pub static mut $a: [$AT; 64] = [0; 64];)+
                pub static mut OUT: [$B; 64] = [0; 64];
            }
            #[cfg(kani)]
            pub static mut N: usize = 0;
            #[cfg(kani)]
            pub fn call($($a: $AT),+) -> $B {
                unsafe {
                    let y: $B = kani::any();
                    let n = N;
                    let mut ok = true;
                    let mut k = 0;
                    while k < 64 && k < n {
                        ok &= $((t::$a[k] != $a))|+ | (y == t::OUT[k]);
                        k += 1;
                    }
                    kani::assert(n < 64, "VERIF_UF_CAPACITY");
                    if n < 64 {
                        $(t::$a[n] = $a;)+
                        t::OUT[n] = y;
                    }
                    kani::assume(ok);
                    N = n + 1;
                    y
                }
            }
            #[cfg(not(kani))]
            pub fn call($($a: $AT),+) -> $B {
                $concrete($($a),+)
            }
        }
    };
}

fn p4(w: &[u32; 4]) -> u128 {
    (w[0] as u128) | ((w[1] as u128) << 32) | ((w[2] as u128) << 64) | ((w[3] as u128) << 96)
}
fn u4(v: u128) -> [u32; 4] {
    [v as u32, (v >> 32) as u32, (v >> 64) as u32, (v >> 96) as u32]
}
fn words4(inp: &[u8], off: usize) -> [u32; 4] {
    [take_u32(inp, off), take_u32(inp, off + 4), take_u32(inp, off + 8), take_u32(inp, off + 12)]
}

// ---- quads as uninterpreted functions of (beta, m, r)
fn qf_native(b: u128, m: u128, rr: u32) -> u128 {
    let mut x = u4(b);
    r::forward_quad(&mut x, &u4(m), &rr.to_le_bytes());
    p4(&x)
}
fn qr_native(b: u128, m: u128, rr: u32) -> u128 {
    let mut x = u4(b);
    r::reverse_quad(&mut x, &u4(m), &rr.to_le_bytes());
    p4(&x)
}
ufn!(uf_qf, (b: u128, m: u128, rr: u32) -> u128, qf_native);
ufn!(uf_qr, (b: u128, m: u128, rr: u32) -> u128, qr_native);
pub fn stub_qf(beta: &mut [u32; 4], m: &[u32; 4], rr: &[u8; 4]) {
    *beta = u4(uf_qf::call(p4(beta), p4(m), u32::from_le_bytes(*rr)));
}
pub fn stub_qr(beta: &mut [u32; 4], m: &[u32; 4], rr: &[u8; 4]) {
    *beta = u4(uf_qr::call(p4(beta), p4(m), u32::from_le_bytes(*rr)));
}

// ---- octave as a pair of uninterpreted functions (low / high half of the result) of (kappa, tm[8], tr[8])
fn oct_native(kl: u128, kh: u128, ml: u128, mh: u128, rr: u64) -> [u32; 8] {
    let (a, b, c, d) = (u4(kl), u4(kh), u4(ml), u4(mh));
    let mut kappa = [a[0], a[1], a[2], a[3], b[0], b[1], b[2], b[3]];
    let tm = [c[0], c[1], c[2], c[3], d[0], d[1], d[2], d[3]];
    r::forward_octave(&mut kappa, &tm, &rr.to_le_bytes());
    kappa
}
fn oct_lo_native(kl: u128, kh: u128, ml: u128, mh: u128, rr: u64) -> u128 {
    let k = oct_native(kl, kh, ml, mh, rr);
    p4(&[k[0], k[1], k[2], k[3]])
}
fn oct_hi_native(kl: u128, kh: u128, ml: u128, mh: u128, rr: u64) -> u128 {
    let k = oct_native(kl, kh, ml, mh, rr);
    p4(&[k[4], k[5], k[6], k[7]])
}
ufn!(uf_oct_lo, (kl: u128, kh: u128, ml: u128, mh: u128, rr: u64) -> u128, oct_lo_native);
ufn!(uf_oct_hi, (kl: u128, kh: u128, ml: u128, mh: u128, rr: u64) -> u128, oct_hi_native);
/// Stub of forward_octave; m and r must have length 8 (checked: a shorter slice panics here exactly as the
/// original would on m[7] / r[7]).
pub fn stub_oct(kappa: &mut [u32; 8], m: &[u32], rr: &[u8]) {
    let kl = p4(&[kappa[0], kappa[1], kappa[2], kappa[3]]);
    let kh = p4(&[kappa[4], kappa[5], kappa[6], kappa[7]]);
    let ml = p4(&[m[0], m[1], m[2], m[3]]);
    let mh = p4(&[m[4], m[5], m[6], m[7]]);
    let rv = u64::from_le_bytes([rr[0], rr[1], rr[2], rr[3], rr[4], rr[5], rr[6], rr[7]]);
    let lo = u4(uf_oct_lo::call(kl, kh, ml, mh, rv));
    let hi = u4(uf_oct_hi::call(kl, kh, ml, mh, rv));
    *kappa = [lo[0], lo[1], lo[2], lo[3], hi[0], hi[1], hi[2], hi[3]];
}

// ---- quads as uninterpreted keyed bijections: for each key (m, r), fwd(., m, r) and inv(., m, r) are mutually
//      inverse permutations of the 128-bit state (leaf lemma c6_leaf_quad_inv).  One bank of 64 logged pairs.
pub mod qbij {
    #[allow(unused_imports)]
    use super::*;
    #[cfg(kani)]
    pub mod t {
        pub static mut KM: [u128; 64] = [0; 64];
        pub static mut KR: [u32; 64] = [0; 64];
        pub static mut A: [u128; 64] = [0; 64];
        pub static mut B: [u128; 64] = [0; 64];
    }
    #[cfg(kani)]
    pub static mut N: usize = 0;
    #[cfg(kani)]
    fn link(km: u128, kr: u32, a: u128, b: u128) {
        unsafe {
            let n = N;
            let mut ok = true;
            let mut k = 0;
            while k < 64 && k < n {
                ok &= (t::KM[k] != km) | (t::KR[k] != kr) | ((t::A[k] == a) == (t::B[k] == b));
                k += 1;
            }
            kani::assert(n < 64, "VERIF_UF_CAPACITY");
            if n < 64 {
                t::KM[n] = km;
                t::KR[n] = kr;
                t::A[n] = a;
                t::B[n] = b;
            }
            kani::assume(ok);
            N = n + 1;
        }
    }
    #[cfg(kani)]
    pub fn fwd(a: u128, km: u128, kr: u32) -> u128 {
        let b: u128 = kani::any();
        link(km, kr, a, b);
        b
    }
    #[cfg(kani)]
    pub fn inv(b: u128, km: u128, kr: u32) -> u128 {
        let a: u128 = kani::any();
        link(km, kr, a, b);
        a
    }
    #[cfg(not(kani))]
    pub fn fwd(a: u128, km: u128, kr: u32) -> u128 {
        qf_native(a, km, kr)
    }
    #[cfg(not(kani))]
    pub fn inv(b: u128, km: u128, kr: u32) -> u128 {
        qr_native(b, km, kr)
    }
}
pub fn bij_qf(beta: &mut [u32; 4], m: &[u32; 4], rr: &[u8; 4]) {
    *beta = u4(qbij::fwd(p4(beta), p4(m), u32::from_le_bytes(*rr)));
}
pub fn bij_qr(beta: &mut [u32; 4], m: &[u32; 4], rr: &[u8; 4]) {
    *beta = u4(qbij::inv(p4(beta), p4(m), u32::from_le_bytes(*rr)));
}

// The leaf lemmas compare each output word of the real function with the RFC's defining equation evaluated by the
// oracle's f1/f2/f3 on the *real function's own* earlier output words ("cut points").  The four (eight) equations
// together are exactly BETA' = Q(BETA) (KAPPA' = W(KAPPA)) of the RFC, i.e. equality with r::forward_quad /
// r::reverse_quad / r::forward_octave, but every equation is a depth-1 comparison of one round function.
// Each quad harness checks two of the equations, each octave harness one (one round function comparison costs the
// solver one to two minutes: 32-bit add/sub chains around four 256-entry table lookups).
fn fwd_rel(x: &[u32; 4], y: &[u32; 4], m: &[u32; 4], rr: &[u8; 4], part: usize) -> bool {
    // C' = C ^ f1(D); B' = B ^ f2(C'); A' = A ^ f3(B'); D' = D ^ f1(A')
    if part == 0 {
        (y[2] == x[2] ^ r::f1(x[3], m[0], rr[0])) & (y[1] == x[1] ^ r::f2(y[2], m[1], rr[1]))
    } else {
        (y[0] == x[0] ^ r::f3(y[1], m[2], rr[2])) & (y[3] == x[3] ^ r::f1(y[0], m[3], rr[3]))
    }
}
fn rev_rel(x: &[u32; 4], y: &[u32; 4], m: &[u32; 4], rr: &[u8; 4], part: usize) -> bool {
    // D' = D ^ f1(A); A' = A ^ f3(B); B' = B ^ f2(C); C' = C ^ f1(D')
    if part == 0 {
        (y[3] == x[3] ^ r::f1(x[0], m[3], rr[3])) & (y[0] == x[0] ^ r::f3(x[1], m[2], rr[2]))
    } else {
        (y[1] == x[1] ^ r::f2(x[2], m[1], rr[1])) & (y[2] == x[2] ^ r::f1(y[3], m[0], rr[0]))
    }
}
fn quad_prop(inp: &[u8; 36], fwd: bool, part: usize) -> Option<bool> {
    let x = words4(inp, 0);
    let m = words4(inp, 16);
    let rr: [u8; 4] = take(inp, 32);
    let mut y = x;
    if fwd {
        crate::forward_quad(&mut y, &m, &rr);
        Some(fwd_rel(&x, &y, &m, &rr, part))
    } else {
        crate::reverse_quad(&mut y, &m, &rr);
        Some(rev_rel(&x, &y, &m, &rr, part))
    }
}

//@ harness name=c6_leaf_quad_fwd_a prop=C08,C01,C20 tier=quick bits=288 est=115 desc="L: forward_quad(beta, m, r) vs RFC 2612 Q, equations C' = C ^ f1(D, Km0, Kr0) and B' = B ^ f2(C', Km1, Kr1) (f1/f2 with S1..S4), every 128-bit beta, every masking key m, every rotation key r (all u8 values)"
verif_harness! {
    name: c6_leaf_quad_fwd_a,
    bytes: 36,
    unwind: 20,
    prop: |inp| { quad_prop(inp, true, 0) }
}

//@ harness name=c6_leaf_quad_fwd_b prop=C08,C01,C20 tier=quick bits=288 est=195 desc="L: forward_quad vs RFC 2612 Q, equations A' = A ^ f3(B', Km2, Kr2) and D' = D ^ f1(A', Km3, Kr3), every beta, m, r; with _a: forward_quad == Q"
verif_harness! {
    name: c6_leaf_quad_fwd_b,
    bytes: 36,
    unwind: 20,
    prop: |inp| { quad_prop(inp, true, 1) }
}

//@ harness name=c6_leaf_quad_rev_a prop=C08,C01,C20 tier=quick bits=288 est=165 desc="L: reverse_quad(beta, m, r) vs RFC 2612 QBAR, equations D' = D ^ f1(A, Km3, Kr3) and A' = A ^ f3(B, Km2, Kr2), every beta, m, r"
verif_harness! {
    name: c6_leaf_quad_rev_a,
    bytes: 36,
    unwind: 20,
    prop: |inp| { quad_prop(inp, false, 0) }
}

//@ harness name=c6_leaf_quad_rev_b prop=C08,C01,C20 tier=quick bits=288 est=150 desc="L: reverse_quad vs RFC 2612 QBAR, equations B' = B ^ f2(C, Km1, Kr1) and C' = C ^ f1(D', Km0, Kr0), every beta, m, r; with _a: reverse_quad == QBAR"
verif_harness! {
    name: c6_leaf_quad_rev_b,
    bytes: 36,
    unwind: 20,
    prop: |inp| { quad_prop(inp, false, 1) }
}

// f1/f2/f3 as uninterpreted functions of (data, masking key, rotation key): the quad-round structure is invertible
// for any round functions.
ufn!(uf_f1, (d: u32, km: u32, kr: u8) -> u32, r::f1);
ufn!(uf_f2, (d: u32, km: u32, kr: u8) -> u32, r::f2);
ufn!(uf_f3, (d: u32, km: u32, kr: u8) -> u32, r::f3);

//@ harness name=c6_leaf_quad_inv prop=C01 tier=quick bits=288 est=10 desc="L (structure, on the oracle's quad-rounds with f1/f2/f3 uninterpreted): QBAR(Q(beta)) == beta and Q(QBAR(beta)) == beta under the same (m, r), every beta, m, r.  With c6_leaf_quad_fwd/_rev (real forward_quad/reverse_quad == Q/QBAR) this makes the real quads mutually inverse per (m, r) -- the assumption of the keyed bijections in the round-trip harnesses"
verif_harness! {
    name: c6_leaf_quad_inv,
    bytes: 36,
    unwind: 20,
    prop: |inp| {
        let b0 = words4(inp, 0);
        let m = words4(inp, 16);
        let rr: [u8; 4] = take(inp, 32);
        let mut b = b0;
        r::forward_quad_with(&mut b, &m, &rr, uf_f1::call, uf_f2::call, uf_f3::call);
        r::reverse_quad_with(&mut b, &m, &rr, uf_f1::call, uf_f2::call, uf_f3::call);
        vcheck!(b == b0);
        r::reverse_quad_with(&mut b, &m, &rr, uf_f1::call, uf_f2::call, uf_f3::call);
        r::forward_quad_with(&mut b, &m, &rr, uf_f1::call, uf_f2::call, uf_f3::call);
        Some(b == b0)
    }
}

fn oct_prop(inp: &[u8; 72], part: usize) -> Option<bool> {
    let (a, b, c, d) = (words4(inp, 0), words4(inp, 16), words4(inp, 32), words4(inp, 48));
    let x = [a[0], a[1], a[2], a[3], b[0], b[1], b[2], b[3]];
    let m = [c[0], c[1], c[2], c[3], d[0], d[1], d[2], d[3]];
    let rr: [u8; 8] = take(inp, 64);
    let mut y = x;
    crate::forward_octave(&mut y, &m, &rr);
    // G ^= f1(H); F ^= f2(G); E ^= f3(F); D ^= f1(E); C ^= f2(D); B ^= f3(C); A ^= f1(B); H ^= f2(A)
    Some(match part {
        0 => y[6] == x[6] ^ r::f1(x[7], m[0], rr[0]),
        1 => y[5] == x[5] ^ r::f2(y[6], m[1], rr[1]),
        2 => y[4] == x[4] ^ r::f3(y[5], m[2], rr[2]),
        3 => y[3] == x[3] ^ r::f1(y[4], m[3], rr[3]),
        4 => y[2] == x[2] ^ r::f2(y[3], m[4], rr[4]),
        5 => y[1] == x[1] ^ r::f3(y[2], m[5], rr[5]),
        6 => y[0] == x[0] ^ r::f1(y[1], m[6], rr[6]),
        _ => y[7] == x[7] ^ r::f2(y[0], m[7], rr[7]),
    })
}

//@ harness name=c6_leaf_octave_0 prop=C08,C20 tier=thorough bits=576 est=330 desc="L: forward_octave(kappa, m[8], r[8]) vs RFC 2612 W, equation G' = G ^ f1(H, Tm0, Tr0) (primed = output words of the real function), every 256-bit kappa, every 8 masking / 8 rotation constants"
verif_harness! {
    name: c6_leaf_octave_0,
    bytes: 72,
    unwind: 40,
    prop: |inp| { oct_prop(inp, 0) }
}

//@ harness name=c6_leaf_octave_1 prop=C08,C20 tier=thorough bits=576 est=650 desc="L: forward_octave(kappa, m[8], r[8]) vs RFC 2612 W, equation F' = F ^ f2(G', Tm1, Tr1) (primed = output words of the real function), every 256-bit kappa, every 8 masking / 8 rotation constants"
verif_harness! {
    name: c6_leaf_octave_1,
    bytes: 72,
    unwind: 40,
    prop: |inp| { oct_prop(inp, 1) }
}

//@ harness name=c6_leaf_octave_2 prop=C08,C20 tier=thorough bits=576 est=230 desc="L: forward_octave(kappa, m[8], r[8]) vs RFC 2612 W, equation E' = E ^ f3(F', Tm2, Tr2) (primed = output words of the real function), every 256-bit kappa, every 8 masking / 8 rotation constants"
verif_harness! {
    name: c6_leaf_octave_2,
    bytes: 72,
    unwind: 40,
    prop: |inp| { oct_prop(inp, 2) }
}

//@ harness name=c6_leaf_octave_3 prop=C08,C20 tier=thorough bits=576 est=225 desc="L: forward_octave(kappa, m[8], r[8]) vs RFC 2612 W, equation D' = D ^ f1(E', Tm3, Tr3) (primed = output words of the real function), every 256-bit kappa, every 8 masking / 8 rotation constants"
verif_harness! {
    name: c6_leaf_octave_3,
    bytes: 72,
    unwind: 40,
    prop: |inp| { oct_prop(inp, 3) }
}

//@ harness name=c6_leaf_octave_4 prop=C08,C20 tier=thorough bits=576 est=325 desc="L: forward_octave(kappa, m[8], r[8]) vs RFC 2612 W, equation C' = C ^ f2(D', Tm4, Tr4) (primed = output words of the real function), every 256-bit kappa, every 8 masking / 8 rotation constants"
verif_harness! {
    name: c6_leaf_octave_4,
    bytes: 72,
    unwind: 40,
    prop: |inp| { oct_prop(inp, 4) }
}

//@ harness name=c6_leaf_octave_5 prop=C08,C20 tier=thorough bits=576 est=240 desc="L: forward_octave(kappa, m[8], r[8]) vs RFC 2612 W, equation B' = B ^ f3(C', Tm5, Tr5) (primed = output words of the real function), every 256-bit kappa, every 8 masking / 8 rotation constants"
verif_harness! {
    name: c6_leaf_octave_5,
    bytes: 72,
    unwind: 40,
    prop: |inp| { oct_prop(inp, 5) }
}

//@ harness name=c6_leaf_octave_6 prop=C08,C20 tier=thorough bits=576 est=165 desc="L: forward_octave(kappa, m[8], r[8]) vs RFC 2612 W, equation A' = A ^ f1(B', Tm6, Tr6) (primed = output words of the real function), every 256-bit kappa, every 8 masking / 8 rotation constants"
verif_harness! {
    name: c6_leaf_octave_6,
    bytes: 72,
    unwind: 40,
    prop: |inp| { oct_prop(inp, 6) }
}

//@ harness name=c6_leaf_octave_7 prop=C08,C20 tier=thorough bits=576 est=445 desc="L: forward_octave(kappa, m[8], r[8]) vs RFC 2612 W, equation H' = H ^ f2(A', Tm7, Tr7) (primed = output words of the real function), every 256-bit kappa, every 8 masking / 8 rotation constants; the eight harnesses c6_leaf_octave_0..7 together: forward_octave == W"
verif_harness! {
    name: c6_leaf_octave_7,
    bytes: 72,
    unwind: 40,
    prop: |inp| { oct_prop(inp, 7) }
}

//@ harness name=c6_key_schedule prop=C08,C20 tier=quick bits=256 stub=1 est=255 need=7 desc="W: Cast6::key_schedule(256-bit key) on a zeroed state, every key: masking/rotate == RFC 2612 key schedule (24 octaves, Tm/Tr generated from Cm, Mm, Cr, Mr -- checks the TM/TR tables; Kr = 5 LSBs of A,C,E,G; Km = H,F,D,B; big-endian words); forward_octave uninterpreted (shared)"
verif_harness! {
    name: c6_key_schedule,
    bytes: 32,
    unwind: 70,
    stubs: [(crate::forward_octave, stub_oct)],
    prop: |inp| {
        let key: [u8; 32] = take(inp, 0);
        let mut c = Cast6 { masking: [[0u32; 4]; 12], rotate: [[0u8; 4]; 12] };
        c.key_schedule(&key);
        let (km, kr) = r::key_schedule_with(&key, stub_oct);
        let mut i = 0;
        while i < 12 {
            vcheck!(c.masking[i] == km[i]);
            vcheck!(c.rotate[i] == kr[i]);
            i += 1;
        }
        Some(true)
    }
}

// new_from_slice = zero-padding + key_schedule: key_schedule is replaced by a recorder that logs the key it is
// given (and whether the state it starts from is zeroed, as in c6_key_schedule) and produces an arbitrary
// (masking, rotate) value taken from the primary inputs.
#[cfg(kani)]
pub mod ksr {
    pub static mut KEY: [u8; 32] = [0; 32];
    pub static mut CALLS: usize = 0;
    pub static mut ZEROED: bool = false;
    pub static mut RET_M: [[u32; 4]; 12] = [[0; 4]; 12];
    pub static mut RET_R: [[u8; 4]; 12] = [[0; 4]; 12];
}
#[cfg(kani)]
pub fn rec_ks(c: &mut Cast6, key: &[u8; 32]) {
    unsafe {
        ksr::CALLS += 1;
        ksr::KEY = *key;
        let mut z = true;
        let mut i = 0;
        while i < 12 {
            let mut j = 0;
            while j < 4 {
                z &= c.masking[i][j] == 0 && c.rotate[i][j] == 0;
                j += 1;
            }
            i += 1;
        }
        ksr::ZEROED = z;
        c.masking = ksr::RET_M;
        c.rotate = ksr::RET_R;
    }
}
#[cfg(not(kani))]
pub fn rec_ks(c: &mut Cast6, key: &[u8; 32]) {
    c.key_schedule(key)
}

//@ harness name=c6_new_from_slice prop=C08,C20 tier=quick bits=259 stub=1 est=20 desc="W: Cast6::new_from_slice(key[..len]) for symbolic len in {16,20,24,28,32}, every key: key_schedule is called exactly once, on a zeroed state, with the key zero-padded to 256 bits, and its result is returned unchanged (key_schedule replaced by a recorder returning an arbitrary state); with c6_key_schedule: conformance for the five key lengths"
verif_harness! {
    name: c6_new_from_slice,
    bytes: 273,
    unwind: 40,
    stubs: [(crate::Cast6::key_schedule, rec_ks)],
    prop: |inp| {
        let key: [u8; 32] = take(inp, 0);
        let len = inp[32] as usize;
        vassume!(len == 16 || len == 20 || len == 24 || len == 28 || len == 32);
        let padded = r::pad_key(&key, len);
        let mut em = [[0u32; 4]; 12];
        let mut er = [[0u8; 4]; 12];
        #[cfg(kani)]
        {
            let mut i = 0;
            while i < 12 {
                em[i] = words4(inp, 33 + 16 * i);
                er[i] = take(inp, 225 + 4 * i);
                i += 1;
            }
            unsafe {
                ksr::RET_M = em;
                ksr::RET_R = er;
            }
        }
        // native replay: the real key_schedule runs (stubs do not exist there)
        #[cfg(not(kani))]
        {
            let mut t = Cast6 { masking: em, rotate: er };
            t.key_schedule(&padded);
            em = t.masking;
            er = t.rotate;
        }
        let c = match Cast6::new_from_slice(&key[..len]) {
            Ok(c) => c,
            Err(_) => return Some(false),
        };
        #[cfg(kani)]
        unsafe {
            vcheck!(ksr::CALLS == 1 && ksr::ZEROED);
            let seen: [u8; 32] = ksr::KEY;
            vcheck!(seen == padded);
        }
        let mut i = 0;
        while i < 12 {
            vcheck!(c.masking[i] == em[i]);
            vcheck!(c.rotate[i] == er[i]);
            i += 1;
        }
        Some(true)
    }
}

fn arb_state(inp: &[u8; 256]) -> (Cast6, [[u32; 4]; 12], [[u8; 4]; 12], [u8; 16]) {
    let mut km = [[0u32; 4]; 12];
    let mut kr = [[0u8; 4]; 12];
    let mut i = 0;
    while i < 12 {
        km[i] = words4(inp, 16 * i);
        kr[i] = take(inp, 192 + 4 * i);
        i += 1;
    }
    (Cast6 { masking: km, rotate: kr }, km, kr, take(inp, 240))
}

//@ harness name=c6_wire_enc prop=C08,C20 tier=quick bits=2048 stub=1 est=25 desc="W: encrypt_block on an arbitrary (masking, rotate) state (superset of all keys), every block == RFC 2612: Q_0..Q_5 then QBAR_6..QBAR_11, big-endian words; quads uninterpreted (shared)"
verif_harness! {
    name: c6_wire_enc,
    bytes: 256,
    unwind: 30,
    stubs: [(crate::forward_quad, stub_qf), (crate::reverse_quad, stub_qr)],
    prop: |inp| {
        let (c, km, kr, blk) = arb_state(inp);
        let mut b = blk.into();
        c.encrypt_block(&mut b);
        Some(b.0 == r::encrypt_with(&km, &kr, &blk, stub_qf, stub_qr))
    }
}

//@ harness name=c6_wire_dec prop=C08,C20 tier=quick bits=2048 stub=1 est=25 desc="W: decrypt_block on an arbitrary (masking, rotate) state, every block == RFC 2612 decryption: Q_11..Q_6 then QBAR_5..QBAR_0; quads uninterpreted (shared)"
verif_harness! {
    name: c6_wire_dec,
    bytes: 256,
    unwind: 30,
    stubs: [(crate::forward_quad, stub_qf), (crate::reverse_quad, stub_qr)],
    prop: |inp| {
        let (c, km, kr, blk) = arb_state(inp);
        let mut b = blk.into();
        c.decrypt_block(&mut b);
        Some(b.0 == r::decrypt_with(&km, &kr, &blk, stub_qf, stub_qr))
    }
}

//@ harness name=c6_roundtrip_ed prop=C01 tier=quick bits=2048 stub=1 est=35 desc="W: decrypt(encrypt(b)) == b on an arbitrary (masking, rotate) state (superset of all keys of the five lengths), every block; forward_quad / reverse_quad are uninterpreted keyed bijections, mutually inverse per (m, r) (leaf lemma c6_leaf_quad_inv)"
verif_harness! {
    name: c6_roundtrip_ed,
    bytes: 256,
    unwind: 30,
    stubs: [(crate::forward_quad, bij_qf), (crate::reverse_quad, bij_qr)],
    prop: |inp| {
        let (c, _km, _kr, blk) = arb_state(inp);
        let mut b = blk.into();
        c.encrypt_block(&mut b);
        c.decrypt_block(&mut b);
        Some(b.0 == blk)
    }
}

//@ harness name=c6_roundtrip_de prop=C01 tier=quick bits=2048 stub=1 est=35 desc="W: encrypt(decrypt(b)) == b on an arbitrary (masking, rotate) state, every block; quads as uninterpreted keyed bijections"
verif_harness! {
    name: c6_roundtrip_de,
    bytes: 256,
    unwind: 30,
    stubs: [(crate::forward_quad, bij_qf), (crate::reverse_quad, bij_qr)],
    prop: |inp| {
        let (c, _km, _kr, blk) = arb_state(inp);
        let mut b = blk.into();
        c.decrypt_block(&mut b);
        c.encrypt_block(&mut b);
        Some(b.0 == blk)
    }
}

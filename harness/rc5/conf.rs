// RC5: conformance to Rivest's RC5-w/r/b (C10), round trip (C01), no panic / overflow incl. the data-dependent
// rotates of every word type (C20).  Oracle: refmodels::rc5 (runtime word size w, u128 arithmetic reduced mod 2^w).
//
// Shape L + W with the leaf kept concrete:
//   rc5_leaf_ops_<w>   L: the four word operations of the real code (primitives::Word::{wrapping_add, wrapping_sub,
//                      rotate_left, rotate_right} for u8/u16/u32/u64/u128) equal the oracle's own (`Canon(w)`: addition
//                      mod 2^w, rotation by the low lg(w) bits of the count) for EVERY pair of arguments, in particular
//                      for every data-dependent rotation count (no panic, no overflow)
//   the other harnesses run the oracle with the leaf operations `Nat` = the real Word operations (extensionally equal
//   to Canon(w) by the leaf lemma), so that both sides of the equivalence have the same gate structure at the leaves
//   and the solver only has to establish the wiring (key schedule steps, round structure, indices, byte order).
//
// RC5<W, R, B> is generic at the type level, so every harness set is instantiated for concrete (W, R, B):
//   *_ks      symbolic key of B bytes:  key_into_words == step 1 (L), initialize_expanded_key_table == step 2 (S),
//             KeyInit::new(key).key_table (= substitute_key = mix_in(S, L)) == step 3, of Rivest's section 4.3
//   *_rounds  ARBITRARY key table (superset of all keys) + symbolic block: encrypt_block / decrypt_block == oracle
//   *_rt      arbitrary key table + symbolic block: dec(enc(b)) == b and enc(dec(b)) == b
// The b = 0 instantiation has its own harness (rc5_b0_new_total) and nothing else depends on it.
use super::prelude::*;
use crate::RC5;
use cipher::consts::{U0, U1, U3, U4, U5, U7, U8, U9, U12, U16, U17, U24, U28, U32, U255};
use cipher::{Array, BlockCipherDecrypt, BlockCipherEncrypt, KeyInit};
use core::marker::PhantomData;
use crate::primitives::Word;
use refmodels::rc5 as r;
use refmodels::rc5::Ops;

macro_rules! rc5_inst {
    ($m:ident, $W:ty, $R:ty, $B:ty, w = $w:expr, t = $t:expr, c = $c:expr, b = $b:expr) => {
        pub mod $m {
            use super::*;
            pub type C = RC5<$W, $R, $B>;
            pub const WB: usize = $w / 8;
            pub const T: usize = $t;

            /// the real leaf operations, on words carried in u128
            #[derive(Clone, Copy)]
            pub struct Nat;
            impl r::Ops for Nat {
                fn add(&self, x: u128, y: u128) -> u128 {
                    <$W as Word>::wrapping_add(x as $W, y as $W) as u128
                }
                fn sub(&self, x: u128, y: u128) -> u128 {
                    <$W as Word>::wrapping_sub(x as $W, y as $W) as u128
                }
                fn rotl(&self, x: u128, y: u128) -> u128 {
                    <$W as Word>::rotate_left(x as $W, y as $W) as u128
                }
                fn rotr(&self, x: u128, y: u128) -> u128 {
                    <$W as Word>::rotate_right(x as $W, y as $W) as u128
                }
            }
            /// leaf lemma: Nat == Canon(w) on all arguments
            pub fn leaf(x: u128, y: u128) -> Option<bool> {
                let c = r::Canon($w);
                vcheck!(Nat.add(x, y) == c.add(x, y));
                vcheck!(Nat.sub(x, y) == c.sub(x, y));
                vcheck!(Nat.rotl(x, y) == c.rotl(x, y));
                vcheck!(Nat.rotr(x, y) == c.rotr(x, y));
                Some(true)
            }

            /// key schedule, steps 1-3, on the symbolic key inp[0..b]
            pub fn ks(inp: &[u8]) -> Option<bool> {
                let key: [u8; $b] = take(inp, 0);
                let mut k = cipher::Key::<C>::default();
                k.copy_from_slice(&key);
                // step 1
                let kw = C::key_into_words(&k);
                let l = r::key_to_words_with::<{ $c }, Nat>($w, &key, Nat);
                vcheck!(kw.len() == $c);
                let mut i = 0;
                while i < $c {
                    vcheck!(kw[i] as u128 == l[i]);
                    i += 1;
                }
                // step 2
                let s0i = C::initialize_expanded_key_table();
                let s0 = r::init_table_with::<{ $t }, Nat>($w, Nat);
                vcheck!(s0i.len() == $t);
                i = 0;
                while i < $t {
                    vcheck!(s0i[i] as u128 == s0[i]);
                    i += 1;
                }
                // step 3 through the public constructor
                let c = C::new(&k);
                let s = r::mix_with::<{ $t }, { $c }, Nat>(s0, l, Nat);
                i = 0;
                while i < $t {
                    vcheck!(c.key_table[i] as u128 == s[i]);
                    i += 1;
                }
                Some(true)
            }

            /// cipher on an arbitrary key table inp[0..t*w/8], block inp[t*w/8..]
            pub fn arb(inp: &[u8]) -> (C, [u128; T], [u8; 2 * WB]) {
                let mut s = [0u128; T];
                let mut tab: [$W; T] = [0; T];
                let mut i = 0;
                while i < T {
                    tab[i] = <$W>::from_le_bytes(take::<{ WB }>(inp, WB * i));
                    s[i] = tab[i] as u128;
                    i += 1;
                }
                (C { key_table: Array(tab), _key_size: PhantomData }, s, take(inp, WB * T))
            }
            fn same(a: &[u8], b: &[u8; 2 * WB]) -> bool {
                let mut ok = a.len() == 2 * WB;
                let mut i = 0;
                while i < 2 * WB {
                    ok &= a[i] == b[i];
                    i += 1;
                }
                ok
            }

            pub fn rounds(inp: &[u8]) -> Option<bool> {
                let (c, s, blk) = arb(inp);
                let mut b = cipher::Block::<C>::default();
                b.copy_from_slice(&blk);
                c.encrypt_block(&mut b);
                let mut e = blk;
                r::crypt_block_with($w, &s, &mut e, false, Nat);
                vcheck!(same(&b, &e));
                b.copy_from_slice(&blk);
                c.decrypt_block(&mut b);
                e = blk;
                r::crypt_block_with($w, &s, &mut e, true, Nat);
                vcheck!(same(&b, &e));
                Some(true)
            }

            pub fn rt(inp: &[u8]) -> Option<bool> {
                let (c, _s, blk) = arb(inp);
                let mut b = cipher::Block::<C>::default();
                b.copy_from_slice(&blk);
                c.encrypt_block(&mut b);
                c.decrypt_block(&mut b);
                vcheck!(same(&b, &blk));
                c.decrypt_block(&mut b);
                c.encrypt_block(&mut b);
                vcheck!(same(&b, &blk));
                Some(true)
            }
        }
    };
}

// the six instantiations of rc5/tests/mod.rs
rc5_inst!(i8_12_4, u8, U12, U4, w = 8, t = 26, c = 4, b = 4);
rc5_inst!(i16_16_8, u16, U16, U8, w = 16, t = 34, c = 4, b = 8);
rc5_inst!(i32_12_16, u32, U12, U16, w = 32, t = 26, c = 4, b = 16);
rc5_inst!(i32_16_16, u32, U16, U16, w = 32, t = 34, c = 4, b = 16);
rc5_inst!(i64_24_24, u64, U24, U24, w = 64, t = 50, c = 3, b = 24);
rc5_inst!(i128_28_32, u128, U28, U32, w = 128, t = 58, c = 2, b = 32);
// edge instantiations: r = 0 / r = 1 / r = 255, key lengths that are not a multiple of the word size
rc5_inst!(i8_0_1, u8, U0, U1, w = 8, t = 2, c = 1, b = 1);
rc5_inst!(i16_1_3, u16, U1, U3, w = 16, t = 4, c = 2, b = 3);
rc5_inst!(i32_12_5, u32, U12, U5, w = 32, t = 26, c = 2, b = 5);
rc5_inst!(i64_24_9, u64, U24, U9, w = 64, t = 50, c = 2, b = 9);
rc5_inst!(i128_28_17, u128, U28, U17, w = 128, t = 58, c = 2, b = 17);
rc5_inst!(i32_255_7, u32, U255, U7, w = 32, t = 512, c = 2, b = 7);

// ------------------------------------------------------------------ leaf lemmas (one per word type)

//@ harness name=rc5_leaf_ops_8 prop=C10,C20 tier=quick bits=256 est=60 desc="L: <u8 as Word>::{wrapping_add, wrapping_sub, rotate_left, rotate_right}(x, n) == oracle arithmetic mod 2^8 / rotation by n mod 8, all x, all n (every data-dependent count)"
verif_harness! {
    name: rc5_leaf_ops_8,
    bytes: 32,
    unwind: 20,
    prop: |inp| { i8_12_4::leaf(take_u128(inp, 0), take_u128(inp, 16)) }
}
//@ harness name=rc5_leaf_ops_16 prop=C10,C20 tier=quick bits=256 est=60 desc="L: <u16 as Word> add / sub / rotate_left / rotate_right == oracle arithmetic mod 2^16 / rotation by n mod 16, all x, all n"
verif_harness! {
    name: rc5_leaf_ops_16,
    bytes: 32,
    unwind: 20,
    prop: |inp| { i16_16_8::leaf(take_u128(inp, 0), take_u128(inp, 16)) }
}
//@ harness name=rc5_leaf_ops_32 prop=C10,C20 tier=quick bits=256 est=60 desc="L: <u32 as Word> add / sub / rotate_left / rotate_right == oracle arithmetic mod 2^32 / rotation by n mod 32, all x, all n"
verif_harness! {
    name: rc5_leaf_ops_32,
    bytes: 32,
    unwind: 20,
    prop: |inp| { i32_12_16::leaf(take_u128(inp, 0), take_u128(inp, 16)) }
}
//@ harness name=rc5_leaf_ops_64 prop=C10,C20 tier=quick bits=256 est=60 desc="L: <u64 as Word> add / sub / rotate_left / rotate_right == oracle arithmetic mod 2^64 / rotation by n mod 64, all x, all n"
verif_harness! {
    name: rc5_leaf_ops_64,
    bytes: 32,
    unwind: 20,
    prop: |inp| { i64_24_24::leaf(take_u128(inp, 0), take_u128(inp, 16)) }
}
//@ harness name=rc5_leaf_ops_128 prop=C10,C20 tier=quick bits=256 est=60 desc="L: <u128 as Word> add / sub / rotate_left / rotate_right == oracle arithmetic mod 2^128 / rotation by n mod 128, all x, all n"
verif_harness! {
    name: rc5_leaf_ops_128,
    bytes: 32,
    unwind: 20,
    prop: |inp| { i128_28_32::leaf(take_u128(inp, 0), take_u128(inp, 16)) }
}

// ------------------------------------------------------------------ b = 0 (known defect F4)

//@ harness name=rc5_b0_new_total prop=C10,C20 tier=quick bits=64 est=60 desc="D: RC5::<u32,U12,U0>::new(&Default::default()) returns (b = 0 is accepted by the type bounds; Rivest: c = max(1, ceil(8b/w)) = 1) and then encrypts a symbolic block like the oracle RC5-32/12/0.  EXPECTED VIOLATION on the unchanged tree: mix_in indexes the empty key_as_words (index out of bounds, and `% 0`)"
verif_harness! {
    name: rc5_b0_new_total,
    bytes: 8,
    unwind: 90,
    prop: |inp| {
        let blk: [u8; 8] = take(inp, 0);
        let c = RC5::<u32, U12, U0>::new(&Default::default());
        let mut b = cipher::Block::<RC5<u32, U12, U0>>::default();
        b.copy_from_slice(&blk);
        c.encrypt_block(&mut b);
        let s = r::expand_key::<26, 1>(32, &[]);
        let mut e = blk;
        r::crypt_block(32, &s, &mut e, false);
        vcheck!(b[..] == e[..]);
        c.decrypt_block(&mut b);
        Some(b[..] == blk[..])
    }
}

// ------------------------------------------------------------------ RC5-8/12/4

//@ harness name=rc5_8_12_4_ks prop=C10,C20 tier=quick bits=32 est=60 desc="W(leaf ops shared): RC5<u8,U12,U4>: key_into_words, initialize_expanded_key_table, new(key).key_table == Rivest steps 1-3, all 2^32 keys"
verif_harness! {
    name: rc5_8_12_4_ks,
    bytes: 4,
    unwind: 180,
    prop: |inp| { i8_12_4::ks(inp) }
}
//@ harness name=rc5_8_12_4_rounds prop=C10,C20 tier=quick bits=224 est=60 desc="W(leaf ops shared): RC5<u8,U12,U4>: encrypt_block and decrypt_block == oracle on an arbitrary 26-word key table, all blocks (u8 rotate_left/right by data-dependent counts)"
verif_harness! {
    name: rc5_8_12_4_rounds,
    bytes: 28,
    unwind: 180,
    prop: |inp| { i8_12_4::rounds(inp) }
}
//@ harness name=rc5_8_12_4_rt prop=C01,C20 tier=quick bits=224 est=60 desc="W(leaf ops shared): RC5<u8,U12,U4>: dec(enc(b)) == b and enc(dec(b)) == b on an arbitrary key table, all blocks"
verif_harness! {
    name: rc5_8_12_4_rt,
    bytes: 28,
    unwind: 180,
    prop: |inp| { i8_12_4::rt(inp) }
}

// ------------------------------------------------------------------ RC5-16/16/8

//@ harness name=rc5_16_16_8_ks prop=C10,C20 tier=quick bits=64 est=60 desc="W(leaf ops shared): RC5<u16,U16,U8>: key schedule steps 1-3 == Rivest, all 2^64 keys"
verif_harness! {
    name: rc5_16_16_8_ks,
    bytes: 8,
    unwind: 180,
    prop: |inp| { i16_16_8::ks(inp) }
}
//@ harness name=rc5_16_16_8_rounds prop=C10,C20 tier=quick bits=576 est=60 desc="W(leaf ops shared): RC5<u16,U16,U8>: encrypt_block and decrypt_block == oracle on an arbitrary 34-word key table, all blocks"
verif_harness! {
    name: rc5_16_16_8_rounds,
    bytes: 72,
    unwind: 180,
    prop: |inp| { i16_16_8::rounds(inp) }
}
//@ harness name=rc5_16_16_8_rt prop=C01,C20 tier=quick bits=576 est=60 desc="W(leaf ops shared): RC5<u16,U16,U8>: both round trips on an arbitrary key table, all blocks"
verif_harness! {
    name: rc5_16_16_8_rt,
    bytes: 72,
    unwind: 180,
    prop: |inp| { i16_16_8::rt(inp) }
}

// ------------------------------------------------------------------ RC5-32/12/16

//@ harness name=rc5_32_12_16_ks prop=C10,C20 tier=quick bits=128 est=60 desc="W(leaf ops shared): RC5<u32,U12,U16>: key schedule steps 1-3 == Rivest, all 2^128 keys"
verif_harness! {
    name: rc5_32_12_16_ks,
    bytes: 16,
    unwind: 180,
    prop: |inp| { i32_12_16::ks(inp) }
}
//@ harness name=rc5_32_12_16_rounds prop=C10,C20 tier=quick bits=896 est=60 desc="W(leaf ops shared): RC5<u32,U12,U16>: encrypt_block and decrypt_block == oracle on an arbitrary 26-word key table, all blocks"
verif_harness! {
    name: rc5_32_12_16_rounds,
    bytes: 112,
    unwind: 180,
    prop: |inp| { i32_12_16::rounds(inp) }
}
//@ harness name=rc5_32_12_16_rt prop=C01,C20 tier=quick bits=896 est=60 desc="W(leaf ops shared): RC5<u32,U12,U16>: both round trips on an arbitrary key table, all blocks"
verif_harness! {
    name: rc5_32_12_16_rt,
    bytes: 112,
    unwind: 180,
    prop: |inp| { i32_12_16::rt(inp) }
}

// ------------------------------------------------------------------ RC5-32/16/16

//@ harness name=rc5_32_16_16_ks prop=C10,C20 tier=quick bits=128 est=60 desc="W(leaf ops shared): RC5<u32,U16,U16>: key schedule steps 1-3 == Rivest, all 2^128 keys"
verif_harness! {
    name: rc5_32_16_16_ks,
    bytes: 16,
    unwind: 180,
    prop: |inp| { i32_16_16::ks(inp) }
}
//@ harness name=rc5_32_16_16_rounds prop=C10,C20 tier=quick bits=1152 est=60 desc="W(leaf ops shared): RC5<u32,U16,U16>: encrypt_block and decrypt_block == oracle on an arbitrary 34-word key table, all blocks"
verif_harness! {
    name: rc5_32_16_16_rounds,
    bytes: 144,
    unwind: 180,
    prop: |inp| { i32_16_16::rounds(inp) }
}
//@ harness name=rc5_32_16_16_rt prop=C01,C20 tier=quick bits=1152 est=60 desc="W(leaf ops shared): RC5<u32,U16,U16>: both round trips on an arbitrary key table, all blocks"
verif_harness! {
    name: rc5_32_16_16_rt,
    bytes: 144,
    unwind: 180,
    prop: |inp| { i32_16_16::rt(inp) }
}

// ------------------------------------------------------------------ RC5-64/24/24

//@ harness name=rc5_64_24_24_ks prop=C10,C20 tier=quick bits=192 est=60 desc="W(leaf ops shared): RC5<u64,U24,U24>: key schedule steps 1-3 == Rivest, all 2^192 keys"
verif_harness! {
    name: rc5_64_24_24_ks,
    bytes: 24,
    unwind: 180,
    prop: |inp| { i64_24_24::ks(inp) }
}
//@ harness name=rc5_64_24_24_rounds prop=C10,C20 tier=quick bits=3328 est=60 desc="W(leaf ops shared): RC5<u64,U24,U24>: encrypt_block and decrypt_block == oracle on an arbitrary 50-word key table, all blocks (u64 rotates: n % 64)"
verif_harness! {
    name: rc5_64_24_24_rounds,
    bytes: 416,
    unwind: 180,
    prop: |inp| { i64_24_24::rounds(inp) }
}
//@ harness name=rc5_64_24_24_rt prop=C01,C20 tier=quick bits=3328 est=60 desc="W(leaf ops shared): RC5<u64,U24,U24>: both round trips on an arbitrary key table, all blocks"
verif_harness! {
    name: rc5_64_24_24_rt,
    bytes: 416,
    unwind: 180,
    prop: |inp| { i64_24_24::rt(inp) }
}

// ------------------------------------------------------------------ RC5-128/28/32

//@ harness name=rc5_128_28_32_ks prop=C10,C20 tier=quick bits=256 est=60 desc="W(leaf ops shared): RC5<u128,U28,U32>: key schedule steps 1-3 == Rivest, all 2^256 keys"
verif_harness! {
    name: rc5_128_28_32_ks,
    bytes: 32,
    unwind: 180,
    prop: |inp| { i128_28_32::ks(inp) }
}
//@ harness name=rc5_128_28_32_rounds prop=C10,C20 tier=quick bits=7680 est=60 desc="W(leaf ops shared): RC5<u128,U28,U32>: encrypt_block and decrypt_block == oracle on an arbitrary 58-word key table, all blocks (u128 rotates: n % 128)"
verif_harness! {
    name: rc5_128_28_32_rounds,
    bytes: 960,
    unwind: 180,
    prop: |inp| { i128_28_32::rounds(inp) }
}
//@ harness name=rc5_128_28_32_rt prop=C01,C20 tier=quick bits=7680 est=60 desc="W(leaf ops shared): RC5<u128,U28,U32>: both round trips on an arbitrary key table, all blocks"
verif_harness! {
    name: rc5_128_28_32_rt,
    bytes: 960,
    unwind: 180,
    prop: |inp| { i128_28_32::rt(inp) }
}

// ------------------------------------------------------------------ RC5-8/0/1  (r = 0: key whitening only)

//@ harness name=rc5_8_0_1_ks prop=C10,C20 tier=quick bits=8 est=60 desc="W(leaf ops shared): RC5<u8,U0,U1>: key schedule steps 1-3 == Rivest, all 256 keys"
verif_harness! {
    name: rc5_8_0_1_ks,
    bytes: 1,
    unwind: 180,
    prop: |inp| { i8_0_1::ks(inp) }
}
//@ harness name=rc5_8_0_1_rounds prop=C10,C20 tier=quick bits=32 est=60 desc="W(leaf ops shared): RC5<u8,U0,U1> (r = 0): encrypt_block and decrypt_block == oracle on an arbitrary 2-word key table, all blocks"
verif_harness! {
    name: rc5_8_0_1_rounds,
    bytes: 4,
    unwind: 180,
    prop: |inp| { i8_0_1::rounds(inp) }
}
//@ harness name=rc5_8_0_1_rt prop=C01,C20 tier=quick bits=32 est=60 desc="W(leaf ops shared): RC5<u8,U0,U1> (r = 0): both round trips on an arbitrary key table, all blocks"
verif_harness! {
    name: rc5_8_0_1_rt,
    bytes: 4,
    unwind: 180,
    prop: |inp| { i8_0_1::rt(inp) }
}

// ------------------------------------------------------------------ RC5-16/1/3

//@ harness name=rc5_16_1_3_ks prop=C10,C20 tier=quick bits=24 est=60 desc="W(leaf ops shared): RC5<u16,U1,U3>: key schedule steps 1-3 == Rivest (b not a multiple of w/8), all 2^24 keys"
verif_harness! {
    name: rc5_16_1_3_ks,
    bytes: 3,
    unwind: 180,
    prop: |inp| { i16_1_3::ks(inp) }
}
//@ harness name=rc5_16_1_3_rounds prop=C10,C20 tier=quick bits=96 est=60 desc="W(leaf ops shared): RC5<u16,U1,U3>: encrypt_block and decrypt_block == oracle on an arbitrary 4-word key table, all blocks"
verif_harness! {
    name: rc5_16_1_3_rounds,
    bytes: 12,
    unwind: 180,
    prop: |inp| { i16_1_3::rounds(inp) }
}
//@ harness name=rc5_16_1_3_rt prop=C01,C20 tier=quick bits=96 est=60 desc="W(leaf ops shared): RC5<u16,U1,U3>: both round trips on an arbitrary key table, all blocks"
verif_harness! {
    name: rc5_16_1_3_rt,
    bytes: 12,
    unwind: 180,
    prop: |inp| { i16_1_3::rt(inp) }
}

// ------------------------------------------------------------------ RC5-32/12/5

//@ harness name=rc5_32_12_5_ks prop=C10,C20 tier=quick bits=40 est=60 desc="W(leaf ops shared): RC5<u32,U12,U5>: key schedule steps 1-3 == Rivest (b = 5: partial last key word), all 2^40 keys"
verif_harness! {
    name: rc5_32_12_5_ks,
    bytes: 5,
    unwind: 180,
    prop: |inp| { i32_12_5::ks(inp) }
}
//@ harness name=rc5_32_12_5_rounds prop=C10,C20 tier=quick bits=896 est=60 desc="W(leaf ops shared): RC5<u32,U12,U5>: encrypt_block and decrypt_block == oracle on an arbitrary 26-word key table, all blocks"
verif_harness! {
    name: rc5_32_12_5_rounds,
    bytes: 112,
    unwind: 180,
    prop: |inp| { i32_12_5::rounds(inp) }
}
//@ harness name=rc5_32_12_5_rt prop=C01,C20 tier=quick bits=896 est=60 desc="W(leaf ops shared): RC5<u32,U12,U5>: both round trips on an arbitrary key table, all blocks"
verif_harness! {
    name: rc5_32_12_5_rt,
    bytes: 112,
    unwind: 180,
    prop: |inp| { i32_12_5::rt(inp) }
}

// ------------------------------------------------------------------ RC5-64/24/9

//@ harness name=rc5_64_24_9_ks prop=C10,C20 tier=quick bits=72 est=60 desc="W(leaf ops shared): RC5<u64,U24,U9>: key schedule steps 1-3 == Rivest (b = 9), all 2^72 keys"
verif_harness! {
    name: rc5_64_24_9_ks,
    bytes: 9,
    unwind: 180,
    prop: |inp| { i64_24_9::ks(inp) }
}
//@ harness name=rc5_64_24_9_rounds prop=C10,C20 tier=quick bits=3328 est=60 desc="W(leaf ops shared): RC5<u64,U24,U9>: encrypt_block and decrypt_block == oracle on an arbitrary 50-word key table, all blocks"
verif_harness! {
    name: rc5_64_24_9_rounds,
    bytes: 416,
    unwind: 180,
    prop: |inp| { i64_24_9::rounds(inp) }
}
//@ harness name=rc5_64_24_9_rt prop=C01,C20 tier=quick bits=3328 est=60 desc="W(leaf ops shared): RC5<u64,U24,U9>: both round trips on an arbitrary key table, all blocks"
verif_harness! {
    name: rc5_64_24_9_rt,
    bytes: 416,
    unwind: 180,
    prop: |inp| { i64_24_9::rt(inp) }
}

// ------------------------------------------------------------------ RC5-128/28/17

//@ harness name=rc5_128_28_17_ks prop=C10,C20 tier=quick bits=136 est=60 desc="W(leaf ops shared): RC5<u128,U28,U17>: key schedule steps 1-3 == Rivest (b = 17), all 2^136 keys"
verif_harness! {
    name: rc5_128_28_17_ks,
    bytes: 17,
    unwind: 180,
    prop: |inp| { i128_28_17::ks(inp) }
}
//@ harness name=rc5_128_28_17_rounds prop=C10,C20 tier=quick bits=7680 est=60 desc="W(leaf ops shared): RC5<u128,U28,U17>: encrypt_block and decrypt_block == oracle on an arbitrary 58-word key table, all blocks"
verif_harness! {
    name: rc5_128_28_17_rounds,
    bytes: 960,
    unwind: 180,
    prop: |inp| { i128_28_17::rounds(inp) }
}
//@ harness name=rc5_128_28_17_rt prop=C01,C20 tier=quick bits=7680 est=60 desc="W(leaf ops shared): RC5<u128,U28,U17>: both round trips on an arbitrary key table, all blocks"
verif_harness! {
    name: rc5_128_28_17_rt,
    bytes: 960,
    unwind: 180,
    prop: |inp| { i128_28_17::rt(inp) }
}

// ------------------------------------------------------------------ RC5-32/255/7 (maximal round count)

//@ harness name=rc5_32_255_7_ks prop=C10,C20 tier=thorough bits=56 est=600 desc="W(leaf ops shared): RC5<u32,U255,U7>: key schedule steps 1-3 == Rivest (t = 512 words, 1536 mixing steps), all 2^56 keys"
verif_harness! {
    name: rc5_32_255_7_ks,
    bytes: 7,
    unwind: 1540,
    prop: |inp| { i32_255_7::ks(inp) }
}
//@ harness name=rc5_32_255_7_rounds prop=C10,C20 tier=thorough bits=16448 est=600 desc="W(leaf ops shared): RC5<u32,U255,U7>: encrypt_block and decrypt_block == oracle on an arbitrary 512-word key table, all blocks"
verif_harness! {
    name: rc5_32_255_7_rounds,
    bytes: 2056,
    unwind: 1540,
    prop: |inp| { i32_255_7::rounds(inp) }
}
//@ harness name=rc5_32_255_7_rt prop=C01,C20 tier=thorough bits=16448 est=600 desc="W(leaf ops shared): RC5<u32,U255,U7>: both round trips on an arbitrary key table, all blocks"
verif_harness! {
    name: rc5_32_255_7_rt,
    bytes: 2056,
    unwind: 1540,
    prop: |inp| { i32_255_7::rt(inp) }
}

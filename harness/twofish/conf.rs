// Twofish: conformance to the Twofish paper for 128/192/256-bit keys (C08), round trip (C01), panic freedom (C20).
// L: sbox (q0/q1), gf_mult, mds_column_mult / mds_mult, rs_mult, h (k = 2, 3, 4), Twofish::g_func -- each on its
//    full input space against the oracle's textbook version.
// W: key_schedule with h uninterpreted (one harness per key length), the 16 rounds of encrypt_block /
//    decrypt_block on an arbitrary (s, k, start) state with g_func uninterpreted; round trips with g_func
//    uninterpreted (Feistel: any function works).
//
// Within one harness execution the key (for h) resp. the cipher state (for g_func) is fixed, so the leaf is an
// uninterpreted function of the remaining arguments only ((offset, x) resp. x); the stub *checks* that the
// implementation passes exactly that key / k / state (obligations VERIF_H_ARGS / VERIF_G_ARGS).  The context is
// kept in a static so that the native replay can evaluate the concrete leaf.
use super::prelude::*;
use crate::consts::{MDS_POLY, RS_POLY};
use crate::Twofish;
use cipher::{BlockCipherDecrypt, BlockCipherEncrypt, KeyInit};
use refmodels::twofish as r;

// ---- h(., key, k, .) as uninterpreted function of (offset, x)
pub mod hk {
    pub static mut KEY: [u8; 32] = [0; 32];
    pub static mut K: usize = 0;
}
fn h_native(off: u8, x: u32) -> u32 {
    let (key, k) = unsafe { (hk::KEY, hk::K) };
    r::h_key(x, &key[..8 * k], k, off as usize)
}
uf2!(uf_h, u8, u32, u32, [B0 B1], h_native);
pub fn stub_h(x: u32, m: &[u8], k: usize, offset: usize) -> u32 {
    #[cfg(kani)]
    unsafe {
        let mut ok = k == hk::K && m.len() == 8 * k && offset < 2;
        let mut i = 0;
        while i < 32 {
            if i < m.len() {
                ok &= m[i] == hk::KEY[i];
            }
            i += 1;
        }
        kani::assert(ok, "VERIF_H_ARGS");
    }
    uf_h::call(offset as u8, x)
}

// ---- g_func(state, .) as uninterpreted function of x
pub mod gk {
    pub static mut S: [u8; 16] = [0; 16];
    pub static mut START: usize = 0;
}
fn s_words(s: &[u8; 16]) -> [u32; 4] {
    [
        u32::from_le_bytes([s[0], s[1], s[2], s[3]]),
        u32::from_le_bytes([s[4], s[5], s[6], s[7]]),
        u32::from_le_bytes([s[8], s[9], s[10], s[11]]),
        u32::from_le_bytes([s[12], s[13], s[14], s[15]]),
    ]
}
fn g_native(x: u32) -> u32 {
    let (s, start) = unsafe { (gk::S, gk::START) };
    r::g(x, &s_words(&s), 4 - start)
}
uf1!(uf_g, u32, u32, [B0 B1], g_native);
pub fn stub_g(c: &Twofish, x: u32) -> u32 {
    #[cfg(kani)]
    unsafe {
        let mut ok = c.start == gk::START;
        let mut i = 0;
        while i < 16 {
            ok &= c.s[i] == gk::S[i];
            i += 1;
        }
        kani::assert(ok, "VERIF_G_ARGS");
    }
    uf_g::call(x)
}

//@ harness name=tf_leaf_q prop=C08,C20 tier=quick bits=9 est=5 desc="L: sbox(i, x) == q_i(x) of the paper (t0..t3 tables, 4-bit rotations) for i in {0,1} and all 256 x"
verif_harness! {
    name: tf_leaf_q,
    bytes: 2,
    prop: |inp| {
        let i = inp[0] as usize;
        vassume!(i < 2);
        Some(crate::sbox(i, inp[1]) == r::q(i, inp[1]))
    }
}

//@ harness name=tf_leaf_gf prop=C08,C20 tier=quick bits=24 est=15 desc="L: gf_mult(a, b, p) never panics for all (a, b, p); gf_mult(a, b, 0x69) / gf_mult(a, b, 0x4d) == carry-less product reduced modulo 0x169 / 0x14D for all a, b"
verif_harness! {
    name: tf_leaf_gf,
    bytes: 3,
    unwind: 10,
    prop: |inp| {
        let (a, b) = (inp[0], inp[1]);
        let _ = crate::gf_mult(a, b, inp[2]);
        vcheck!(crate::gf_mult(a, b, MDS_POLY) == r::gf_mul(a, b, r::MDS_POLY));
        Some(crate::gf_mult(a, b, RS_POLY) == r::gf_mul(a, b, r::RS_POLY))
    }
}

//@ harness name=tf_leaf_mds prop=C08,C20 tier=quick bits=42 est=15 desc="L: mds_mult(y) == MDS matrix times y over GF(2^8)/0x169 for all 2^32 y; mds_column_mult(x, c) == x times column c for all x, c < 4"
verif_harness! {
    name: tf_leaf_mds,
    bytes: 6,
    unwind: 10,
    prop: |inp| {
        let y: [u8; 4] = take(inp, 0);
        vcheck!(crate::mds_mult(y) == r::mds(y));
        let (x, c) = (inp[4], inp[5] as usize);
        vassume!(c < 4);
        let mut e = [0u8; 4];
        e[c] = x;
        Some(crate::mds_column_mult(x, c) == r::mds(e))
    }
}

//@ harness name=tf_leaf_rs prop=C08,C20 tier=quick bits=64 est=20 desc="L: rs_mult(m) == RS matrix times m over GF(2^8)/0x14D for all 2^64 m"
verif_harness! {
    name: tf_leaf_rs,
    bytes: 8,
    unwind: 10,
    prop: |inp| {
        let m: [u8; 8] = take(inp, 0);
        let mut out = [0u8; 4];
        crate::rs_mult(&m, &mut out);
        Some(out == r::rs(&m))
    }
}

//@ harness name=tf_leaf_h prop=C08,C20 tier=quick bits=291 est=25 desc="L: h(x, key[..8k], k, offset) == the paper's h(X, M_e) (offset 0) / h(X, M_o) (offset 1) for k in {2,3,4} (symbolic), every x, every key"
verif_harness! {
    name: tf_leaf_h,
    bytes: 38,
    unwind: 34,
    prop: |inp| {
        let x = take_u32(inp, 0);
        let key: [u8; 32] = take(inp, 4);
        let k = inp[36] as usize;
        let off = inp[37] as usize;
        vassume!(k >= 2 && k <= 4 && off < 2);
        let m = &key[..8 * k];
        Some(crate::h(x, m, k, off) == r::h_key(x, m, k, off))
    }
}

fn state(inp: &[u8; 193], start: usize) -> (Twofish, [u32; 40], [u8; 16]) {
    let s: [u8; 16] = take(inp, 0);
    let mut k = [0u32; 40];
    let mut i = 0;
    while i < 40 {
        k[i] = take_u32(inp, 16 + 4 * i);
        i += 1;
    }
    unsafe {
        gk::S = s;
        gk::START = start;
    }
    (Twofish { s, k, start }, k, take(inp, 177))
}
/// Arbitrary state under the representation invariant of new_from_slice: start = 4 - (key bytes / 8) in {0, 1, 2}.
fn arb_state(inp: &[u8; 193]) -> Option<(Twofish, [u32; 40], [u8; 16])> {
    let start = inp[176] as usize;
    if start > 2 {
        return None;
    }
    Some(state(inp, start))
}

fn g_prop(inp: &[u8; 20], start: usize) -> Option<bool> {
    let s: [u8; 16] = take(inp, 0);
    let x = take_u32(inp, 16);
    let c = Twofish { s, k: [0u32; 40], start };
    Some(c.g_func(x) == r::g(x, &s_words(&s), 4 - start))
}

//@ harness name=tf_leaf_g_k2 prop=C08,C20 tier=quick bits=160 est=20 desc="L: Twofish::g_func(x) with start = 2 (128-bit keys) == h(X, (S_1, S_0)) of the paper for every S-box key s and every x"
verif_harness! {
    name: tf_leaf_g_k2,
    bytes: 20,
    unwind: 45,
    prop: |inp| { g_prop(inp, 2) }
}

//@ harness name=tf_leaf_g_k3 prop=C08,C20 tier=quick bits=160 est=20 desc="L: Twofish::g_func(x) with start = 1 (192-bit keys) == h(X, (S_2, S_1, S_0)) for every s and every x"
verif_harness! {
    name: tf_leaf_g_k3,
    bytes: 20,
    unwind: 45,
    prop: |inp| { g_prop(inp, 1) }
}

//@ harness name=tf_leaf_g_k4 prop=C08,C20 tier=quick bits=160 est=25 desc="L: Twofish::g_func(x) with start = 0 (256-bit keys) == h(X, (S_3, S_2, S_1, S_0)) for every s and every x"
verif_harness! {
    name: tf_leaf_g_k4,
    bytes: 20,
    unwind: 45,
    prop: |inp| { g_prop(inp, 0) }
}

fn ks_prop<const KB: usize>(inp: &[u8; KB]) -> Option<bool> {
    let key: [u8; KB] = take(inp, 0);
    let kk = KB / 8;
    unsafe {
        let mut i = 0;
        while i < KB {
            hk::KEY[i] = key[i];
            i += 1;
        }
        hk::K = kk;
    }
    let c = match Twofish::new_from_slice(&key) {
        Ok(c) => c,
        Err(_) => return Some(false),
    };
    let e = r::key_schedule_with(&key, kk, stub_h);
    let mut i = 0;
    while i < 40 {
        vcheck!(c.k[i] == e[i]);
        i += 1;
    }
    let s = r::sbox_key(&key, kk);
    i = 0;
    while i < kk {
        vcheck!(s_words(&c.s)[i] == s[i]);
        i += 1;
    }
    Some(c.start == 4 - kk)
}

//@ harness name=tf_key_schedule_128 prop=C08,C20 tier=quick bits=128 stub=1 est=100 need=6 desc="W: Twofish::new_from_slice(16-byte key): 40 subkeys == A_i/B_i/PHT/rotations of the paper with rho = 0x01010101, S-box key == RS times key, start == 2; h uninterpreted (shared), every key"
verif_harness! {
    name: tf_key_schedule_128,
    bytes: 16,
    unwind: 70,
    stubs: [(crate::h, stub_h)],
    prop: |inp| { ks_prop::<16>(inp) }
}

//@ harness name=tf_key_schedule_192 prop=C08,C20 tier=quick bits=192 stub=1 est=170 need=6 desc="W: Twofish::new_from_slice(24-byte key): subkeys, S-box key, start == 1 vs the paper; h uninterpreted (shared), every key"
verif_harness! {
    name: tf_key_schedule_192,
    bytes: 24,
    unwind: 70,
    stubs: [(crate::h, stub_h)],
    prop: |inp| { ks_prop::<24>(inp) }
}

//@ harness name=tf_key_schedule_256 prop=C08,C20 tier=quick bits=256 stub=1 est=195 need=7 desc="W: Twofish::new_from_slice(32-byte key): subkeys, S-box key, start == 0 vs the paper; h uninterpreted (shared), every key"
verif_harness! {
    name: tf_key_schedule_256,
    bytes: 32,
    unwind: 70,
    stubs: [(crate::h, stub_h)],
    prop: |inp| { ks_prop::<32>(inp) }
}

//@ harness name=tf_wire_enc prop=C08,C20 tier=quick bits=1546 stub=1 est=125 desc="W: encrypt_block on an arbitrary (s, k[40], start<=2) state, every block == the paper's whitening + 16 rounds (F, PHT, 1-bit rotations, swap) + output whitening; g_func uninterpreted (shared)"
verif_harness! {
    name: tf_wire_enc,
    bytes: 193,
    unwind: 70,
    stubs: [(crate::Twofish::g_func, stub_g)],
    prop: |inp| {
        let (c, k, blk) = match arb_state(inp) { Some(v) => v, None => return None };
        let mut b = blk.into();
        c.encrypt_block(&mut b);
        Some(b.0 == r::encrypt_with(&k, &blk, |x| stub_g(&c, x)))
    }
}

//@ harness name=tf_wire_dec prop=C08,C20 tier=quick bits=1546 stub=1 est=130 desc="W: decrypt_block on an arbitrary (s, k[40], start<=2) state, every block == the paper's decryption; g_func uninterpreted (shared)"
verif_harness! {
    name: tf_wire_dec,
    bytes: 193,
    unwind: 70,
    stubs: [(crate::Twofish::g_func, stub_g)],
    prop: |inp| {
        let (c, k, blk) = match arb_state(inp) { Some(v) => v, None => return None };
        let mut b = blk.into();
        c.decrypt_block(&mut b);
        Some(b.0 == r::decrypt_with(&k, &blk, |x| stub_g(&c, x)))
    }
}

//@ harness name=tf_roundtrip_ed prop=C01 tier=quick bits=1546 stub=1 est=95 desc="W: decrypt(encrypt(b)) == b on an arbitrary (s, k[40], start<=2) state (superset of all keys of the three lengths), every block; g_func uninterpreted (any function works for a Feistel network)"
verif_harness! {
    name: tf_roundtrip_ed,
    bytes: 193,
    unwind: 70,
    stubs: [(crate::Twofish::g_func, stub_g)],
    prop: |inp| {
        let (c, _k, blk) = match arb_state(inp) { Some(v) => v, None => return None };
        let mut b = blk.into();
        c.encrypt_block(&mut b);
        c.decrypt_block(&mut b);
        Some(b.0 == blk)
    }
}

//@ harness name=tf_roundtrip_de prop=C01 tier=quick bits=1546 stub=1 est=95 desc="W: encrypt(decrypt(b)) == b on an arbitrary (s, k[40], start<=2) state, every block; g_func uninterpreted"
verif_harness! {
    name: tf_roundtrip_de,
    bytes: 193,
    unwind: 70,
    stubs: [(crate::Twofish::g_func, stub_g)],
    prop: |inp| {
        let (c, _k, blk) = match arb_state(inp) { Some(v) => v, None => return None };
        let mut b = blk.into();
        c.decrypt_block(&mut b);
        c.encrypt_block(&mut b);
        Some(b.0 == blk)
    }
}

// CAST5 / CAST-128: conformance to RFC 2144 (C09), round trip (C01), dev-profile obligations (C20).
//   D  cast5_conf_{enc,dec}{12,16}   real round code (f1/f2/f3 macros) on an ARBITRARY state vs RFC 2144 2.2 rounds
//   D  cast5_roundtrip_{ed,de}{12,16} on an arbitrary state
//   L  cast5_half_schedule    schedule::key_schedule (one half: 16 of the 32 K_i, macro-expanded) vs the RFC's formulas
//                             interpreted from index tables, all 2^128 running values x0..xF.  THOROUGH tier only (mem=30): the
//                             function is 24,741 straight-line GOTO instructions and goto-instrument's
//                             --ensure-one-backedge-per-target pass (dominator sets, quadratic in straight-line length)
//                             needs ~15 GB for it, whatever the harness does; 14 GB (quick tier) is not enough.
//   W  cast5_new_w            Cast5::new_from_slice for key length symbolic: acceptance 5..=16, zero padding, small_key,
//                             chaining of the two half schedules, masking = K1..K16, rotate = K17..K32 & 31; the half
//                             schedule is replaced per call index by pre-drawn arbitrary results shared with the oracle
use super::prelude::*;
use crate::Cast5;
use cipher::{BlockCipherDecrypt, BlockCipherEncrypt, KeyInit};
use refmodels::cast5 as r;

// The round count is a field of the state; the two values are decided by separate harnesses with `small_key` concrete:
// with a symbolic flag the 4 conditional rounds of decryption work on if-then-else merged halves and the solvers no longer
// recognise the Feistel cancellation (direct round trip: no answer in 30 min with CaDiCaL or Kissat), with a concrete
// flag the query is an ordinary 12- or 16-round Feistel miter.  MEASUREMENT STATUS: cast5_roundtrip_ed16 still had no answer
// after 1800 s (CaDiCaL); none of these eight harnesses has been run to completion -- they are thorough-tier candidates with
// the full 7200 s cap and have to be confirmed or dropped by a run on an idle machine.
fn arb_state(inp: &[u8; 88], small_key: bool) -> (Cast5, [u8; 8]) {
    let mut masking = [0u32; 16];
    let mut rotate = [0u8; 16];
    let mut i = 0;
    while i < 16 {
        masking[i] = take_u32(inp, 4 * i);
        rotate[i] = inp[64 + i];
        i += 1;
    }
    (Cast5 { masking, rotate, small_key }, take(inp, 80))
}
fn n_rounds(c: &Cast5) -> usize {
    if c.small_key {
        12
    } else {
        16
    }
}

macro_rules! conf_harness {
    ($name:ident, $small:expr, $method:ident, $dec:expr) => {
        verif_harness! {
            name: $name,
            bytes: 88,
            unwind: 20,
            prop: |inp| {
                let (c, blk) = arb_state(inp, $small);
                let mut b = blk.into();
                c.$method(&mut b);
                Some(b.0 == r::crypt(&c.masking, &c.rotate, n_rounds(&c), &blk, $dec))
            }
        }
    };
}
macro_rules! rt_harness {
    ($name:ident, $small:expr, $first:ident, $second:ident) => {
        verif_harness! {
            name: $name,
            bytes: 88,
            unwind: 20,
            prop: |inp| {
                let (c, blk) = arb_state(inp, $small);
                let mut b = blk.into();
                c.$first(&mut b);
                c.$second(&mut b);
                Some(b.0 == blk)
            }
        }
    };
}

//@ disabled-harness reason=never_finished:_no_answer_in_1800_s_(CaDiCaL)_/_37_min_for_the_half_schedule name=cast5_conf_enc16 prop=C09,C20 tier=thorough bits=704 est=3600 cap=7200 desc="D: encrypt_block on an arbitrary 16-round state (masking, rotate: any bytes; small_key = false) == RFC 2144 encryption with 16 rounds, f1/f2/f3 types per round, all blocks; S-box indices in range, no overflow"
conf_harness!(cast5_conf_enc16, false, encrypt_block, false);
//@ disabled-harness reason=never_finished:_no_answer_in_1800_s_(CaDiCaL)_/_37_min_for_the_half_schedule name=cast5_conf_enc12 prop=C09,C20 tier=thorough bits=704 est=3600 cap=7200 desc="D: encrypt_block on an arbitrary 12-round state (small_key = true: keys of up to 80 bits) == RFC 2144 encryption with 12 rounds, all blocks"
conf_harness!(cast5_conf_enc12, true, encrypt_block, false);
//@ disabled-harness reason=never_finished:_no_answer_in_1800_s_(CaDiCaL)_/_37_min_for_the_half_schedule name=cast5_conf_dec16 prop=C09,C20 tier=thorough bits=704 est=3600 cap=7200 desc="D: decrypt_block on an arbitrary 16-round state == RFC 2144 decryption (round keys in reverse order), all blocks"
conf_harness!(cast5_conf_dec16, false, decrypt_block, true);
//@ disabled-harness reason=never_finished:_no_answer_in_1800_s_(CaDiCaL)_/_37_min_for_the_half_schedule name=cast5_conf_dec12 prop=C09,C20 tier=thorough bits=704 est=3600 cap=7200 desc="D: decrypt_block on an arbitrary 12-round state == RFC 2144 decryption with 12 rounds, all blocks"
conf_harness!(cast5_conf_dec12, true, decrypt_block, true);

//@ disabled-harness reason=never_finished:_no_answer_in_1800_s_(CaDiCaL)_/_37_min_for_the_half_schedule name=cast5_roundtrip_ed16 prop=C01,C20 tier=thorough bits=704 est=3600 cap=7200 desc="D: decrypt_block(encrypt_block(b)) == b on an arbitrary 16-round state (superset of all keys of more than 80 bits), all blocks"
rt_harness!(cast5_roundtrip_ed16, false, encrypt_block, decrypt_block);
//@ disabled-harness reason=never_finished:_no_answer_in_1800_s_(CaDiCaL)_/_37_min_for_the_half_schedule name=cast5_roundtrip_ed12 prop=C01,C20 tier=thorough bits=704 est=3600 cap=7200 desc="D: decrypt_block(encrypt_block(b)) == b on an arbitrary 12-round state (superset of all keys of 40..=80 bits), all blocks"
rt_harness!(cast5_roundtrip_ed12, true, encrypt_block, decrypt_block);
//@ disabled-harness reason=never_finished:_no_answer_in_1800_s_(CaDiCaL)_/_37_min_for_the_half_schedule name=cast5_roundtrip_de16 prop=C01,C20 tier=thorough bits=704 est=3600 cap=7200 desc="D: encrypt_block(decrypt_block(b)) == b on an arbitrary 16-round state, all blocks"
rt_harness!(cast5_roundtrip_de16, false, decrypt_block, encrypt_block);
//@ disabled-harness reason=never_finished:_no_answer_in_1800_s_(CaDiCaL)_/_37_min_for_the_half_schedule name=cast5_roundtrip_de12 prop=C01,C20 tier=thorough bits=704 est=3600 cap=7200 desc="D: encrypt_block(decrypt_block(b)) == b on an arbitrary 12-round state, all blocks"
rt_harness!(cast5_roundtrip_de12, true, decrypt_block, encrypt_block);

//@ disabled-harness reason=never_finished:_no_answer_in_1800_s_(CaDiCaL)_/_37_min_for_the_half_schedule name=cast5_half_schedule prop=C09,C20 tier=thorough bits=256 est=900 mem=30 desc="L: schedule::key_schedule(x, z, k) == the sixteen K_i and the updated x0..xF of RFC 2144 2.4 (formulas interpreted from index tables), for all 2^128 x and arbitrary incoming z (outputs do not depend on it); get_i! indices in range"
verif_harness! {
    name: cast5_half_schedule,
    bytes: 32,
    unwind: 34,
    prop: |inp| {
        let xb: [u8; 16] = take(inp, 0);
        let mut x = [0u32; 4];
        let mut z = [0u32; 4];
        let mut i = 0;
        while i < 4 {
            x[i] = u32::from_be_bytes(take(&xb, 4 * i));
            z[i] = take_u32(inp, 16 + 4 * i);
            i += 1;
        }
        let mut k = [0u32; 16];
        crate::schedule::key_schedule(&mut x, &mut z, &mut k);
        let mut xz = [0u8; 32];
        i = 0;
        while i < 16 {
            xz[i] = xb[i];
            i += 1;
        }
        let e = r::half_schedule(&mut xz);
        let mut ok = true;
        i = 0;
        while i < 16 {
            ok &= k[i] == e[i];
            i += 1;
        }
        i = 0;
        while i < 4 {
            ok &= x[i] == u32::from_be_bytes(take(&xz, 4 * i));
            i += 1;
        }
        Some(ok)
    }
}

// ---- wiring of new_from_slice with the half schedule replaced, per call index, by pre-drawn results -----------------
// Call j (j = 0, 1) of schedule::key_schedule returns (x', z', k) := (NX[j], NZ[j], NK[j]) -- arbitrary values drawn from the
// harness input -- and records its argument x.  The oracle's half-schedule parameter does the same on its side and the
// recorded arguments are compared, so "same j-th argument => same j-th result" is all that is assumed about the leaf
// (cast5_half_schedule ties the real leaf to the RFC's).
pub mod seq {
    pub static mut N: usize = 0;
    pub static mut ARG: [[u32; 4]; 2] = [[0; 4]; 2];
    pub static mut NX: [[u32; 4]; 2] = [[0; 4]; 2];
    pub static mut NZ: [[u32; 4]; 2] = [[0; 4]; 2];
    pub static mut NK: [[u32; 16]; 2] = [[0; 16]; 2];
    pub static mut OK: bool = true;
}
pub fn stub_half(x: &mut [u32], z: &mut [u32], k: &mut [u32]) {
    unsafe {
        let j = seq::N;
        if j >= 2 || x.len() != 4 || z.len() != 4 || k.len() != 16 {
            seq::OK = false;
            return;
        }
        let mut i = 0;
        while i < 4 {
            seq::ARG[j][i] = x[i];
            x[i] = seq::NX[j][i];
            z[i] = seq::NZ[j][i];
            i += 1;
        }
        i = 0;
        while i < 16 {
            k[i] = seq::NK[j][i];
            i += 1;
        }
        seq::N = j + 1;
    }
}

//@ harness name=cast5_new_w prop=C09,C20 tier=quick bits=1288 stub=1 est=20 desc="W: Cast5::new_from_slice(key[..len]), len symbolic 0..=17: Err exactly outside 5..=16; otherwise small_key == (len <= 10) [12 rounds up to 80 bits], key right-padded with zero bytes, the two half schedules chained on the running x, masking = K1..K16, rotate = K17..K32 & 31; half schedule uninterpreted per call index (shared with the oracle)"
verif_harness! {
    name: cast5_new_w,
    bytes: 210,
    unwind: 20,
    stubs: [(crate::schedule::key_schedule, stub_half)],
    prop: |inp| {
        let buf: [u8; 17] = take(inp, 0);
        let len = inp[17] as usize;
        vassume!(len <= 17);
        let key: [u8; 16] = take(&buf, 0);
        #[cfg(kani)]
        {
            unsafe {
                seq::N = 0;
                seq::OK = true;
                let mut j = 0;
                while j < 2 {
                    let mut i = 0;
                    while i < 4 {
                        seq::NX[j][i] = take_u32(inp, 18 + 96 * j + 4 * i);
                        seq::NZ[j][i] = take_u32(inp, 18 + 96 * j + 16 + 4 * i);
                        i += 1;
                    }
                    i = 0;
                    while i < 16 {
                        seq::NK[j][i] = take_u32(inp, 18 + 96 * j + 32 + 4 * i);
                        i += 1;
                    }
                    j += 1;
                }
            }
            // the stubbed constructor must be run after the tables are filled
            let res = Cast5::new_from_slice(&buf[..len]);
            let c = match res {
                Err(_) => return Some(len < 5 || len > 16),
                Ok(c) => c,
            };
            vcheck!(5 <= len && len <= 16);
            let mut calls = 0usize;
            let mut args_ok = true;
            let (km, kr) = r::key_schedule_with(&r::pad(&key, len), |xz: &mut [u8; 32]| unsafe {
                let j = calls;
                calls += 1;
                if j >= 2 {
                    args_ok = false;
                    return [0u32; 16];
                }
                let mut i = 0;
                while i < 4 {
                    args_ok &= seq::ARG[j][i] == u32::from_be_bytes([xz[4 * i], xz[4 * i + 1], xz[4 * i + 2], xz[4 * i + 3]]);
                    let b = seq::NX[j][i].to_be_bytes();
                    xz[4 * i] = b[0];
                    xz[4 * i + 1] = b[1];
                    xz[4 * i + 2] = b[2];
                    xz[4 * i + 3] = b[3];
                    i += 1;
                }
                seq::NK[j]
            });
            let mut ok = unsafe { seq::OK && seq::N == 2 } && args_ok && calls == 2;
            let mut i = 0;
            while i < 16 {
                ok &= c.masking[i] == km[i] && c.rotate[i] == kr[i];
                i += 1;
            }
            ok &= c.small_key == (r::rounds(len) == 12);
            return Some(ok);
        }
        #[cfg(not(kani))]
        {
            let c = match Cast5::new_from_slice(&buf[..len]) {
                Err(_) => return Some(len < 5 || len > 16),
                Ok(c) => c,
            };
            vcheck!(5 <= len && len <= 16);
            let (km, kr) = r::key_schedule(&r::pad(&key, len));
            return Some(c.masking == km && c.rotate == kr && c.small_key == (r::rounds(len) == 12));
        }
    }
}

// CAST5 / CAST-128 decided compositionally (variant cast5:route, lib/bcv/plans/cast5_route.py): conformance to RFC 2144 (C09),
// round trip (C01), dev-profile obligations (C20).  The direct queries of conf.rs (16 rounds of four 256-entry look-ups against
// the oracle's, 160 look-ups of the half key schedule) never answered, and even one round function against the oracle's (four
// look-ups per side) takes 140-700 s.  Here the shadow copy gives the leaves a function boundary without touching their text
// (f1!/f2!/f3! -> vf1/vf2/vf3 whose bodies are the real macros; every `S1[(i >> 24) as usize]` of the macros and every
// `S5[get_i!(x, 13)]` of schedule.rs -> `crate::vs1((i >> 24) as usize)` / `crate::vs5(get_i!(x, 13))`, one look-up in the
// crate's table) and the work is split:
//   L  c5_leaf_s1 .. s8          the crate's S1..S8 == the RFC's, every index
//   W  c5_leaf_f1 / f2 / f3      real macro body == RFC 2144 2.2 type 1 / 2 / 3, all data, masking keys and rotation bytes
//                                (incl. rotation bytes >= 32, which an arbitrary state can hold); S1..S4 uninterpreted on both
//                                sides, index expressions real, every index < 256, wrapping arithmetic only
//   W  c5_route_{enc,dec}{12,16} real encrypt_block / decrypt_block on an ARBITRARY state == RFC 2144 rounds (type per round,
//                                key order, final swap), f uninterpreted on both sides
//   W  c5_route_rt_{ed,de}{12,16} round trips on an arbitrary state, f uninterpreted (a Feistel network inverts for any f)
//   W  c5_half_schedule_w        real schedule::key_schedule == the RFC's formulas (index tables of the oracle), S5..S8
//                                uninterpreted on both sides; get_i! word / shift arithmetic and every index < 256 checked
// Together with cast5_new_w (conf.rs: constructor around the half schedule) this is CAST5 for every key and block.
use super::prelude::*;
use crate::Cast5;
use cipher::{BlockCipherDecrypt, BlockCipherEncrypt};
use refmodels::cast5 as r;

// ---- leaf lemmas ------------------------------------------------------------------------------------------------------
macro_rules! leaf_s {
    ($name:ident, $vs:ident, $tab:ident) => {
        verif_harness! {
            name: $name,
            bytes: 1,
            unwind: 4,
            prop: |inp| {
                let i = inp[0] as usize;
                Some(crate::$vs(i) == r::$tab[i])
            }
        }
    };
}
//@ harness name=c5_leaf_s1 prop=C09,C20 tier=quick bits=8 est=5 desc="L: crate::consts::S1[i] == S1 of RFC 2144 appendix A for every i"
leaf_s!(c5_leaf_s1, vs1, S1);
//@ harness name=c5_leaf_s2 prop=C09,C20 tier=quick bits=8 est=5 desc="L: crate::consts::S2[i] == S2 of RFC 2144 appendix A for every i"
leaf_s!(c5_leaf_s2, vs2, S2);
//@ harness name=c5_leaf_s3 prop=C09,C20 tier=quick bits=8 est=5 desc="L: crate::consts::S3[i] == S3 of RFC 2144 appendix A for every i"
leaf_s!(c5_leaf_s3, vs3, S3);
//@ harness name=c5_leaf_s4 prop=C09,C20 tier=quick bits=8 est=5 desc="L: crate::consts::S4[i] == S4 of RFC 2144 appendix A for every i"
leaf_s!(c5_leaf_s4, vs4, S4);
//@ harness name=c5_leaf_s5 prop=C09,C20 tier=quick bits=8 est=5 desc="L: crate::consts::S5[i] == S5 of RFC 2144 appendix A for every i"
leaf_s!(c5_leaf_s5, vs5, S5);
//@ harness name=c5_leaf_s6 prop=C09,C20 tier=quick bits=8 est=5 desc="L: crate::consts::S6[i] == S6 of RFC 2144 appendix A for every i"
leaf_s!(c5_leaf_s6, vs6, S6);
//@ harness name=c5_leaf_s7 prop=C09,C20 tier=quick bits=8 est=10 desc="L: crate::consts::S7[i] == S7 of RFC 2144 appendix A for every i"
leaf_s!(c5_leaf_s7, vs7, S7);
//@ harness name=c5_leaf_s8 prop=C09,C20 tier=quick bits=8 est=5 desc="L: crate::consts::S8[i] == S8 of RFC 2144 appendix A for every i"
leaf_s!(c5_leaf_s8, vs8, S8);

macro_rules! leaf_f {
    ($name:ident, $vf:ident, $ty:expr) => {
        verif_harness! {
            name: $name,
            bytes: 9,
            unwind: 6,
            stubs: [(crate::vs1, stub_s1), (crate::vs2, stub_s2), (crate::vs3, stub_s3), (crate::vs4, stub_s4)],
            prop: |inp| {
                unsafe { IDX_OK = true };
                let d = take_u32(inp, 0);
                let m = take_u32(inp, 4);
                let rot = inp[8];
                let got = crate::$vf(d, m, rot);
                Some(got == r::f_with($ty, d, m, rot, uf_s) && unsafe { IDX_OK })
            }
        }
    };
}
//@ harness name=c5_leaf_f1 prop=C09,C20 tier=quick bits=72 stub=1 est=10 desc="W: body of the real f1! macro == RFC 2144 2.2 type 1: I = ((Km + D) <<< Kr), f = ((S1[Ia] ^ S2[Ib]) - S3[Ic]) + S4[Id], for all D, Km (2^64) and every rotation byte 0..=255; S1..S4 uninterpreted on both sides (c5_leaf_s1..s4), indices < 256, wrapping arithmetic only"
leaf_f!(c5_leaf_f1, vf1, 1);
//@ harness name=c5_leaf_f2 prop=C09,C20 tier=quick bits=72 stub=1 est=10 desc="W: body of the real f2! macro == RFC 2144 2.2 type 2: I = ((Km ^ D) <<< Kr), f = ((S1[Ia] - S2[Ib]) + S3[Ic]) ^ S4[Id], all arguments; S1..S4 uninterpreted on both sides"
leaf_f!(c5_leaf_f2, vf2, 2);
//@ harness name=c5_leaf_f3 prop=C09,C20 tier=quick bits=72 stub=1 est=10 desc="W: body of the real f3! macro == RFC 2144 2.2 type 3: I = ((Km - D) <<< Kr), f = ((S1[Ia] + S2[Ib]) ^ S3[Ic]) - S4[Id], all arguments; S1..S4 uninterpreted on both sides"
leaf_f!(c5_leaf_f3, vf3, 3);

// ---- uninterpreted leaves ---------------------------------------------------------------------------------------------
fn conc_f1(d: u32, mr: u64) -> u32 {
    r::f(1, d, (mr >> 8) as u32, mr as u8)
}
fn conc_f2(d: u32, mr: u64) -> u32 {
    r::f(2, d, (mr >> 8) as u32, mr as u8)
}
fn conc_f3(d: u32, mr: u64) -> u32 {
    r::f(3, d, (mr >> 8) as u32, mr as u8)
}
cuf2!(uf_f1, vuf_cast5_rt_f1, u32, u64, u32, conc_f1);
cuf2!(uf_f2, vuf_cast5_rt_f2, u32, u64, u32, conc_f2);
cuf2!(uf_f3, vuf_cast5_rt_f3, u32, u64, u32, conc_f3);
pub fn stub_f1(d: u32, m: u32, rot: u8) -> u32 {
    uf_f1::call(d, ((m as u64) << 8) | rot as u64)
}
pub fn stub_f2(d: u32, m: u32, rot: u8) -> u32 {
    uf_f2::call(d, ((m as u64) << 8) | rot as u64)
}
pub fn stub_f3(d: u32, m: u32, rot: u8) -> u32 {
    uf_f3::call(d, ((m as u64) << 8) | rot as u64)
}
fn uf_f(ty: usize, d: u32, m: u32, rot: u8) -> u32 {
    match ty {
        1 => stub_f1(d, m, rot),
        2 => stub_f2(d, m, rot),
        _ => stub_f3(d, m, rot),
    }
}

fn arb_state(inp: &[u8; 88], small_key: bool) -> (Cast5, [u8; 8]) {
    let mut masking = [0u32; 16];
    let mut rotate = [0u8; 16];
    let mut i = 0;
    while i < 16 {
        masking[i] = take_u32(inp, 4 * i);
        rotate[i] = inp[64 + i];
        i += 1;
    }
    (Cast5 { masking, rotate, small_key }, take(inp, 80))
}

macro_rules! route_conf {
    ($name:ident, $small:expr, $n:expr, $method:ident, $dec:expr) => {
        verif_harness! {
            name: $name,
            bytes: 88,
            unwind: 20,
            stubs: [(crate::vf1, stub_f1), (crate::vf2, stub_f2), (crate::vf3, stub_f3)],
            prop: |inp| {
                let (c, blk) = arb_state(inp, $small);
                let mut b = blk.into();
                c.$method(&mut b);
                Some(b.0 == r::crypt_with(&c.masking, &c.rotate, $n, &blk, $dec, uf_f))
            }
        }
    };
}
macro_rules! route_rt {
    ($name:ident, $small:expr, $first:ident, $second:ident) => {
        verif_harness! {
            name: $name,
            bytes: 88,
            unwind: 20,
            stubs: [(crate::vf1, stub_f1), (crate::vf2, stub_f2), (crate::vf3, stub_f3)],
            prop: |inp| {
                let (c, blk) = arb_state(inp, $small);
                let mut b = blk.into();
                c.$first(&mut b);
                c.$second(&mut b);
                Some(b.0 == blk)
            }
        }
    };
}

//@ harness name=c5_route_enc16 prop=C09,C20 tier=quick bits=704 stub=1 est=10 desc="W: encrypt_block on an arbitrary 16-round state (masking, rotate: any bytes; small_key = false) == RFC 2144 encryption: Li = Ri-1, Ri = Li-1 ^ f_type(i)(Ri-1, Kmi, Kri), types 1,2,3 cyclically, output (R16, L16); round functions uninterpreted on both sides (leaf lemmas c5_leaf_f1/2/3), all blocks"
route_conf!(c5_route_enc16, false, 16, encrypt_block, false);
//@ harness name=c5_route_enc12 prop=C09,C20 tier=quick bits=704 stub=1 est=10 desc="W: encrypt_block on an arbitrary 12-round state (small_key = true: keys of up to 80 bits) == RFC 2144 encryption with 12 rounds; round functions uninterpreted on both sides"
route_conf!(c5_route_enc12, true, 12, encrypt_block, false);
//@ harness name=c5_route_dec16 prop=C09,C20 tier=quick bits=704 stub=1 est=15 desc="W: decrypt_block on an arbitrary 16-round state == RFC 2144 decryption (the same network with the round keys in reverse order, the type following the key); round functions uninterpreted on both sides"
route_conf!(c5_route_dec16, false, 16, decrypt_block, true);
//@ harness name=c5_route_dec12 prop=C09,C20 tier=quick bits=704 stub=1 est=10 desc="W: decrypt_block on an arbitrary 12-round state == RFC 2144 decryption with 12 rounds; round functions uninterpreted on both sides"
route_conf!(c5_route_dec12, true, 12, decrypt_block, true);

//@ harness name=c5_route_rt_ed16 prop=C01,C20 tier=quick bits=704 stub=1 est=15 desc="W: decrypt_block(encrypt_block(b)) == b on an arbitrary 16-round state (superset of all keys of more than 80 bits), all blocks, for ANY round functions (uninterpreted)"
route_rt!(c5_route_rt_ed16, false, encrypt_block, decrypt_block);
//@ harness name=c5_route_rt_de16 prop=C01,C20 tier=quick bits=704 stub=1 est=15 desc="W: encrypt_block(decrypt_block(b)) == b on an arbitrary 16-round state, all blocks, for any round functions"
route_rt!(c5_route_rt_de16, false, decrypt_block, encrypt_block);
//@ harness name=c5_route_rt_ed12 prop=C01,C20 tier=quick bits=704 stub=1 est=15 desc="W: decrypt_block(encrypt_block(b)) == b on an arbitrary 12-round state (superset of all keys of 40..=80 bits), all blocks, for any round functions"
route_rt!(c5_route_rt_ed12, true, encrypt_block, decrypt_block);
//@ harness name=c5_route_rt_de12 prop=C01,C20 tier=quick bits=704 stub=1 est=10 desc="W: encrypt_block(decrypt_block(b)) == b on an arbitrary 12-round state, all blocks, for any round functions"
route_rt!(c5_route_rt_de12, true, decrypt_block, encrypt_block);

// ---- half key schedule with S5..S8 uninterpreted ------------------------------------------------------------------------
macro_rules! sbox_uf {
    ($conc:ident, $uf:ident, $c:ident, $stub:ident, $tab:ident) => {
        fn $conc(i: u8) -> u32 {
            r::$tab[i as usize]
        }
        pub fn $stub(i: usize) -> u32 {
            $uf::call(idx(i))
        }
    };
}
sbox_uf!(conc_s1, uf_s1, vuf_cast5_rt_s1, stub_s1, S1);
sbox_uf!(conc_s2, uf_s2, vuf_cast5_rt_s2, stub_s2, S2);
sbox_uf!(conc_s3, uf_s3, vuf_cast5_rt_s3, stub_s3, S3);
sbox_uf!(conc_s4, uf_s4, vuf_cast5_rt_s4, stub_s4, S4);
sbox_uf!(conc_s5, uf_s5, vuf_cast5_rt_s5, stub_s5, S5);
sbox_uf!(conc_s6, uf_s6, vuf_cast5_rt_s6, stub_s6, S6);
sbox_uf!(conc_s7, uf_s7, vuf_cast5_rt_s7, stub_s7, S7);
sbox_uf!(conc_s8, uf_s8, vuf_cast5_rt_s8, stub_s8, S8);
// (literal invocations: lib/bcv/shadow.py generates the C wrappers from them)
cuf1!(uf_s1, vuf_cast5_rt_s1, u8, u32, conc_s1);
cuf1!(uf_s2, vuf_cast5_rt_s2, u8, u32, conc_s2);
cuf1!(uf_s3, vuf_cast5_rt_s3, u8, u32, conc_s3);
cuf1!(uf_s4, vuf_cast5_rt_s4, u8, u32, conc_s4);
cuf1!(uf_s5, vuf_cast5_rt_s5, u8, u32, conc_s5);
cuf1!(uf_s6, vuf_cast5_rt_s6, u8, u32, conc_s6);
cuf1!(uf_s7, vuf_cast5_rt_s7, u8, u32, conc_s7);
cuf1!(uf_s8, vuf_cast5_rt_s8, u8, u32, conc_s8);
pub static mut IDX_OK: bool = true;
fn idx(i: usize) -> u8 {
    if i >= 256 {
        unsafe { IDX_OK = false };
    }
    i as u8
}
fn uf_s(n: u8, i: u8) -> u32 {
    match n {
        1 => uf_s1::call(i),
        2 => uf_s2::call(i),
        3 => uf_s3::call(i),
        4 => uf_s4::call(i),
        5 => uf_s5::call(i),
        6 => uf_s6::call(i),
        7 => uf_s7::call(i),
        _ => uf_s8::call(i),
    }
}

//@ harness name=c5_half_schedule_w prop=C09,C20 tier=quick bits=256 stub=1 mem=30 est=100 need=15 desc="W: schedule::key_schedule(x, z, k) == the sixteen K_i and the updated x0..xF of RFC 2144 2.4 (formulas interpreted from the oracle's index tables) for all 2^128 running values x and arbitrary incoming z; S5..S8 uninterpreted on both sides (leaf lemmas c5_leaf_s5..s8); get_i! word index / shift arithmetic is the real text, every S-box index < 256"
verif_harness! {
    name: c5_half_schedule_w,
    bytes: 32,
    unwind: 34,
    stubs: [(crate::vs5, stub_s5), (crate::vs6, stub_s6), (crate::vs7, stub_s7), (crate::vs8, stub_s8)],
    prop: |inp| {
        unsafe { IDX_OK = true };
        let xb: [u8; 16] = take(inp, 0);
        let mut x = [0u32; 4];
        let mut z = [0u32; 4];
        let mut i = 0;
        while i < 4 {
            x[i] = u32::from_be_bytes(take(&xb, 4 * i));
            z[i] = take_u32(inp, 16 + 4 * i);
            i += 1;
        }
        let mut k = [0u32; 16];
        crate::schedule::key_schedule(&mut x, &mut z, &mut k);
        let mut xz = [0u8; 32];
        i = 0;
        while i < 16 {
            xz[i] = xb[i];
            i += 1;
        }
        let e = r::half_schedule_with(&mut xz, uf_s);
        let mut ok = unsafe { IDX_OK };
        i = 0;
        while i < 16 {
            ok &= k[i] == e[i];
            i += 1;
        }
        i = 0;
        while i < 4 {
            ok &= x[i] == u32::from_be_bytes(take(&xz, 4 * i));
            i += 1;
        }
        Some(ok)
    }
}

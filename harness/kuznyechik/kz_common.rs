// Kuznyechik: what all back ends share -- the uninterpreted leaves, the back-end independent harness bodies (they use the
// public API only: KeyInit::new, From / Clone, encrypt_block / decrypt_block) and the lemmas on the oracle alone.
// The back-end files (sse2.rs, soft.rs, compact.rs) hold the leaf lemmas of their back end, the stubs that map its leaf
// functions to the uninterpreted leaves below, and one thin `verif_harness!` per (route, direction).
//
// Abstraction used by the W harnesses.  S (octet substitution layer) and L (linear map) are two pairs of mutually
// inverse uninterpreted permutations of {0,1}^128, shared by the real code (through the stubs) and the oracle:
//     L S := ul(us(.)),  S^-1 L^-1 := usi(uli(.)).
// What ties them to the standard:
//   * S / S^-1: leaf lemmas of the back end (sub_bytes, table rows) + pi^-1(pi(x)) = x (kuz_leaf_consts);
//   * L^-1(L(x)) = x = L(L^-1(x)) for the oracle's L: kuz_l_inverse_fb / kuz_l_inverse_bf (solver, stepwise over the 16 R steps);
//   * the table back ends pre-transform the decryption keys with L^-1, which is correct because L^-1 is GF(2)-linear.
//     A SAT solver cannot decide L^-1(a ^ k) = L^-1(a) ^ L^-1(k) over 256 bits as one query (XOR re-association: CaDiCaL
//     and kissat both exceeded 900 s even for one R step), so the lemma is proved in three levels with the level below
//     uninterpreted (kuz_lin_mul, kuz_lin_lfunc, kuz_lin_l / kuz_lin_linv, see below).  The W harnesses then ASSUME exactly
//     the instances of that lemma they need (`lin_instances`, eight per decryption) on the uninterpreted L^-1.
// The key schedule is a separate W query (w_keys: the real expansion == the oracle's, all 2^256 keys, L S one uninterpreted
// function); the encryption / decryption queries run over ARBITRARY round keys (a superset of the key schedule's outputs), so
// conformance for all keys is (key schedule lemma) + (arbitrary-round-key lemma).  Doing both in one query does not fit:
// measured out of memory at 30 GB (the oracle computing C_1..C_32 at run time alone is ~0.8 M program steps).
use super::prelude::*;
use crate::{Kuznyechik, KuznyechikDec, KuznyechikEnc};
use cipher::{BlockCipherDecrypt, BlockCipherEncrypt, KeyInit};
use refmodels::kuznyechik as r;

pub type B16 = [u8; 16];

pub fn pack(b: &B16) -> u128 {
    u128::from_le_bytes(*b)
}
pub fn unpack(v: u128) -> B16 {
    v.to_le_bytes()
}
fn conc_s(x: u128) -> u128 {
    pack(&r::s(&unpack(x)))
}
fn conc_s_inv(x: u128) -> u128 {
    pack(&r::s_inv(&unpack(x)))
}
fn conc_l(x: u128) -> u128 {
    pack(&r::l(&unpack(x)))
}
fn conc_l_inv(x: u128) -> u128 {
    pack(&r::l_inv(&unpack(x)))
}
cuf_bij!(uf_s, vuf_kuznyechik_kz_s, vuf_kuznyechik_kz_si, u128, conc_s, conc_s_inv);
cuf_bij!(uf_l, vuf_kuznyechik_kz_l, vuf_kuznyechik_kz_li, u128, conc_l, conc_l_inv);

pub fn us(a: &B16) -> B16 {
    unpack(uf_s::fwd(pack(a)))
}
pub fn usi(a: &B16) -> B16 {
    unpack(uf_s::inv(pack(a)))
}
pub fn ul(a: &B16) -> B16 {
    unpack(uf_l::fwd(pack(a)))
}
pub fn uli(a: &B16) -> B16 {
    unpack(uf_l::inv(pack(a)))
}
fn conc_ls(x: u128) -> u128 {
    pack(&r::ls(&unpack(x)))
}
// key schedule queries: the composite L S as ONE uninterpreted function (no inverse needed there)
cuf1!(uf_ls, vuf_kuznyechik_kz_ls, u128, u128, conc_ls);
pub fn uls1(a: &B16) -> B16 {
    unpack(uf_ls::call(pack(a)))
}
/// C_1 .. C_32 of the oracle evaluated at compile time (rustc's constant evaluation of refmodels::kuznyechik::c); the
/// solver ties it to the run-time function (kuz_oracle_consts).  Replaces `c` inside the oracle's key schedule in the key
/// schedule queries, where evaluating c(1..32) by symbolic execution costs ~0.8 M program steps (~6 GB).
#[allow(long_running_const_eval)]
pub const CS: [B16; 32] = {
    let mut t = [[0u8; 16]; 32];
    let mut i = 0;
    while i < 32 {
        t[i] = r::c(i + 1);
        i += 1;
    }
    t
};
/// replaces refmodels::kuznyechik::c (argument 1..=32)
pub fn stub_c(i: usize) -> B16 {
    CS[i - 1]
}
/// L S
pub fn uls(a: &B16) -> B16 {
    ul(&us(a))
}
/// S^-1 L^-1
pub fn usili(a: &B16) -> B16 {
    usi(&uli(a))
}
pub fn xor16(a: &B16, b: &B16) -> B16 {
    let mut o = [0u8; 16];
    let mut i = 0;
    while i < 16 {
        o[i] = a[i] ^ b[i];
        i += 1;
    }
    o
}

/// The instances of the linearity of L^-1 (lemma kuz_lin_linv: PASS, all 2^256 pairs) that decrypting `c` with pre-transformed keys relies on:
/// L^-1(a_i ^ K_i) == L^-1(a_i) ^ L^-1(K_i) for the eight intermediate values a_i = S^-1 L^-1 (...) of the standard's
/// decryption and K_9 .. K_2.  False: the (uninterpreted) L^-1 chosen by the solver is not linear there -- outside the
/// assumption.
pub fn lin_instances(rk: &[B16; 10], c: &B16) -> bool {
    let mut ok = true;
    let mut o = xor16(&rk[9], c);
    let mut i = 8;
    while i >= 1 {
        let a = usili(&o);
        ok &= uli(&xor16(&a, &rk[i])) == xor16(&uli(&a), &uli(&rk[i]));
        o = xor16(&a, &rk[i]);
        i -= 1;
    }
    ok
}

/// An encryption-only instance over ARBITRARY round keys K1..K10 (a superset of the states KeyInit::new produces).
/// All back ends keep the ten round keys as 160 octets in API octet order (little-endian hosts), whatever the element type.
pub fn enc_of_rk(inp: &[u8], off: usize) -> (KuznyechikEnc, [B16; 10]) {
    let mut rk = [[0u8; 16]; 10];
    let mut i = 0;
    while i < 10 {
        rk[i] = take(inp, off + 16 * i);
        i += 1;
    }
    #[repr(C, align(16))]
    struct A([B16; 10]);
    (unsafe { core::mem::transmute::<A, KuznyechikEnc>(A(rk)) }, rk)
}

/// Ways of getting an instance from an encrypt-only one / from a key.
#[derive(Clone, Copy)]
pub enum Route {
    /// the encrypt-only instance itself
    Enc,
    /// clone of the encrypt-only instance
    EncClone,
    /// KuznyechikDec::from(enc) / Kuznyechik::from(enc)
    Val,
    /// KuznyechikDec::from(&enc) / Kuznyechik::from(&enc)
    Ref,
    /// clone of the by-value conversion
    ValClone,
    /// clone of the by-reference conversion
    RefClone,
}

fn dec_via(c: KuznyechikEnc, route: Route, combined: bool, b: &mut cipher::Block<Kuznyechik>) {
    if combined {
        match route {
            Route::Val | Route::Enc | Route::EncClone => Kuznyechik::from(c).decrypt_block(b),
            Route::Ref => Kuznyechik::from(&c).decrypt_block(b),
            Route::ValClone => Kuznyechik::from(c).clone().decrypt_block(b),
            Route::RefClone => Kuznyechik::from(&c).clone().decrypt_block(b),
        }
    } else {
        match route {
            Route::Val | Route::Enc | Route::EncClone => KuznyechikDec::from(c).decrypt_block(b),
            Route::Ref => KuznyechikDec::from(&c).decrypt_block(b),
            Route::ValClone => KuznyechikDec::from(c).clone().decrypt_block(b),
            Route::RefClone => KuznyechikDec::from(&c).clone().decrypt_block(b),
        }
    }
}
fn enc_via(c: KuznyechikEnc, route: Route, b: &mut cipher::Block<Kuznyechik>) {
    match route {
        Route::Enc => c.encrypt_block(b),
        Route::EncClone => c.clone().encrypt_block(b),
        Route::Val => Kuznyechik::from(c).encrypt_block(b),
        Route::Ref => Kuznyechik::from(&c).encrypt_block(b),
        Route::ValClone => Kuznyechik::from(c).clone().encrypt_block(b),
        Route::RefClone => Kuznyechik::from(&c).clone().encrypt_block(b),
    }
}

/// inp = K1..K10 (160) | block (16).  Route instance decrypts as the oracle D over the same round keys.
pub fn w_dec_rk(inp: &[u8], route: Route, combined: bool, need_lin: bool) -> Option<bool> {
    let (c, rk) = enc_of_rk(inp, 0);
    let blk: B16 = take(inp, 160);
    if need_lin {
        vassume!(lin_instances(&rk, &blk));
    }
    let mut b = blk.into();
    dec_via(c, route, combined, &mut b);
    Some(b.0 == r::decrypt_with(&rk, &blk, usi, uli))
}
/// inp = K1..K10 (160) | block (16).  Route instance encrypts as the oracle E over the same round keys.
pub fn w_enc_rk(inp: &[u8], route: Route) -> Option<bool> {
    let (c, rk) = enc_of_rk(inp, 0);
    let blk: B16 = take(inp, 160);
    let mut b = blk.into();
    enc_via(c, route, &mut b);
    Some(b.0 == r::encrypt_with(&rk, &blk, uls))
}
/// inp = key (32).  Round keys of KuznyechikEnc::new(key) (the real key expansion of the back end) == oracle key schedule, with
/// L S the single uninterpreted function `uls1` on both sides (the harness stubs the back end's leaf with it) and the oracle's
/// constants C_i taken from the compile-time table CS (the harness stubs refmodels::kuznyechik::c with stub_c).
pub fn w_keys(inp: &[u8]) -> Option<bool> {
    let key: [u8; 32] = take(inp, 0);
    let c = KuznyechikEnc::new(&key.into());
    #[repr(C, align(16))]
    struct A([B16; 10]);
    let m = unsafe { core::mem::transmute::<KuznyechikEnc, A>(c) };
    let rk = r::key_schedule_with(&key, uls1);
    let mut i = 0;
    while i < 10 {
        vcheck!(m.0[i] == rk[i]);
        i += 1;
    }
    Some(true)
}
/// inp = K1..K10 (160) | NB blocks (16 NB).  KuznyechikEnc::encrypt_blocks on NB blocks (the back end's encrypt_par_blocks on
/// every full batch, encrypt_block on the tail) == NB single encrypt_block calls on the same instance.
pub fn w_par_enc<const NB: usize>(inp: &[u8]) -> Option<bool> {
    let (c, _rk) = enc_of_rk(inp, 0);
    let mut bl = [crate::Block::from([0u8; 16]); NB];
    let mut i = 0;
    while i < NB {
        bl[i] = take::<16>(inp, 160 + 16 * i).into();
        i += 1;
    }
    let single = bl;
    c.encrypt_blocks(&mut bl[..]);
    i = 0;
    while i < NB {
        let mut b = single[i];
        c.encrypt_block(&mut b);
        vcheck!(b.0 == bl[i].0);
        i += 1;
    }
    Some(true)
}
/// inp = K1..K10 (160) | block (16).  Round trips through the real conversions:
/// order 0: KuznyechikEnc encrypts, KuznyechikDec::from(&enc) decrypts; 1: Kuznyechik::from(&enc) dec(enc(b)); 2: enc(dec(b)).
pub fn w_roundtrip_rk(inp: &[u8], order: u8, need_lin: bool) -> Option<bool> {
    let (c, rk) = enc_of_rk(inp, 0);
    let blk: B16 = take(inp, 160);
    let mut b = blk.into();
    match order {
        0 => {
            c.encrypt_block(&mut b);
            if need_lin {
                vassume!(lin_instances(&rk, &b.0));
            }
            KuznyechikDec::from(&c).decrypt_block(&mut b);
        }
        1 => {
            let k = Kuznyechik::from(&c);
            k.encrypt_block(&mut b);
            if need_lin {
                vassume!(lin_instances(&rk, &b.0));
            }
            k.decrypt_block(&mut b);
        }
        _ => {
            let k = Kuznyechik::from(&c);
            if need_lin {
                vassume!(lin_instances(&rk, &blk));
            }
            k.decrypt_block(&mut b);
            k.encrypt_block(&mut b);
        }
    }
    Some(b.0 == blk)
}

// ------------------------------------------------------------------------------------------------ lemmas on the oracle alone
//
// GF(2)-linearity of the oracle's L = R^16 and L^-1 = (R^-1)^16, in three levels; every level is about the oracle functions
// that all other harnesses use (refmodels::kuznyechik::{mul_lc, l_func, r, r_inv, l, l_inv}); the level below is replaced
// IN THE ORACLE (kani::stub) by an uninterpreted function, and the instances of the lower lemma at the applied points are
// assumed:
//   kuz_lin_mul    c_j * (a ^ b) == c_j * a ^ c_j * b for the sixteen coefficients (mul_lc; all j, a, b), mul_lc == gf_mul
//   kuz_lin_lfunc  l(u ^ v) == l(u) ^ l(v) for all 2^256 (u, v); mul_lc uninterpreted + its 16 additivity instances
//   kuz_lin_l / kuz_lin_linv   L(u ^ v) == L(u) ^ L(v), L^-1 likewise, all 2^256 (u, v); l_func uninterpreted + the 16
//                  instances l(u_s ^ v_s) == l(u_s) ^ l(v_s) along the two runs (pure wiring + functional consistency)
fn conc_lfunc(x: u128) -> u8 {
    r::l_func(&unpack(x))
}
cuf2!(uf_mul, vuf_kuznyechik_kz_mul, usize, u8, u8, r::mul_lc);
cuf1!(uf_lf, vuf_kuznyechik_kz_lf, u128, u8, conc_lfunc);
/// replaces refmodels::kuznyechik::mul_lc (c_j * v)
pub fn stub_mul_lc(j: usize, v: u8) -> u8 {
    uf_mul::call(j, v)
}
/// replaces refmodels::kuznyechik::l_func (the linear form l)
pub fn stub_l_func(a: &B16) -> u8 {
    uf_lf::call(pack(a))
}

/// R^-1 feeds l with (a14, ..., a0, a15)
fn rot_in(a: &B16) -> B16 {
    let mut t = [0u8; 16];
    let mut i = 0;
    while i < 15 {
        t[i] = a[i + 1];
        i += 1;
    }
    t[15] = a[0];
    t
}

//@ harness name=kuz_lin_mul prop=C07 tier=quick bits=20 variants=kuznyechik est=20 desc="L (oracle only, direct): for the sixteen coefficients c_j of l and all octets a, b: mul_lc(j, a) == gf_mul(c_j, a) (schoolbook field multiplication mod x^8+x^7+x^6+x+1) and mul_lc(j, a ^ b) == mul_lc(j, a) ^ mul_lc(j, b); j symbolic"
verif_harness! {
    name: kuz_lin_mul,
    bytes: 3,
    unwind: 20,
    prop: |inp| {
        let j = (inp[0] & 15) as usize;
        let (a, b) = (inp[1], inp[2]);
        vcheck!(r::mul_lc(j, a) == r::gf_mul(r::LC[j], a));
        Some(r::mul_lc(j, a ^ b) == r::mul_lc(j, a) ^ r::mul_lc(j, b))
    }
}

//@ harness name=kuz_lin_lfunc prop=C07 tier=quick bits=256 stub=1 variants=kuznyechik est=25 desc="W (oracle only): l_func(u ^ v) == l_func(u) ^ l_func(v) for all 2^256 (u, v); the oracle's mul_lc is an uninterpreted function, its sixteen additivity instances at (u_j, v_j) assumed (lemma kuz_lin_mul)"
verif_harness! {
    name: kuz_lin_lfunc,
    bytes: 32,
    unwind: 20,
    stubs: [(refmodels::kuznyechik::mul_lc, stub_mul_lc)],
    prop: |inp| {
        let u: B16 = take(inp, 0);
        let v: B16 = take(inp, 16);
        let mut j = 0;
        while j < 16 {
            vassume!(r::mul_lc(j, u[j] ^ v[j]) == r::mul_lc(j, u[j]) ^ r::mul_lc(j, v[j]));
            j += 1;
        }
        Some(r::l_func(&xor16(&u, &v)) == r::l_func(&u) ^ r::l_func(&v))
    }
}

/// F(u ^ v) == F(u) ^ F(v) for F = L (inv = false) / L^-1 (inv = true) of the oracle, l_func uninterpreted.  Along the runs
/// u_{s+1} = R(u_s), v_{s+1} = R(v_s) the instance l(u_s ^ v_s) == l(u_s) ^ l(v_s) of kuz_lin_lfunc is assumed (for R^-1 at
/// the rotated words; the rotation is an octet permutation, so rot(u ^ v) = rot(u) ^ rot(v)).  l(u_s) is taken from the
/// run itself: octet 0 of R(u_s) resp. octet 15 of R^-1(u_s).
fn lin_l(inp: &[u8], inv: bool) -> Option<bool> {
    let u0: B16 = take(inp, 0);
    let v0: B16 = take(inp, 16);
    let (mut u, mut v) = (u0, v0);
    let mut s = 0;
    while s < 16 {
        let w = xor16(&u, &v);
        if inv {
            let (nu, nv) = (r::r_inv(&u), r::r_inv(&v));
            vassume!(r::l_func(&rot_in(&w)) == nu[15] ^ nv[15]);
            u = nu;
            v = nv;
        } else {
            let (nu, nv) = (r::r(&u), r::r(&v));
            vassume!(r::l_func(&w) == nu[0] ^ nv[0]);
            u = nu;
            v = nv;
        }
        s += 1;
    }
    let z0 = xor16(&u0, &v0);
    if inv {
        Some(r::l_inv(&z0) == xor16(&r::l_inv(&u0), &r::l_inv(&v0)))
    } else {
        Some(r::l(&z0) == xor16(&r::l(&u0), &r::l(&v0)))
    }
}

//@ harness name=kuz_lin_l prop=C07 tier=quick bits=256 stub=1 variants=kuznyechik est=120 need=7 desc="W (oracle only): L(u ^ v) == L(u) ^ L(v) for all 2^256 (u, v), L = R^16 of the oracle; the oracle's l_func is an uninterpreted function {0,1}^128 -> {0,1}^8 and its additivity at the 16 points (u_s, v_s) of the two runs is assumed (lemma kuz_lin_lfunc); the rest is shift wiring and functional consistency"
verif_harness! {
    name: kuz_lin_l,
    bytes: 32,
    unwind: 20,
    stubs: [(refmodels::kuznyechik::l_func, stub_l_func)],
    prop: |inp| { lin_l(inp, false) }
}
//@ harness name=kuz_lin_linv prop=C07 tier=quick bits=256 stub=1 variants=kuznyechik est=120 need=7 desc="W (oracle only): L^-1(u ^ v) == L^-1(u) ^ L^-1(v) for all 2^256 (u, v), L^-1 = (R^-1)^16 of the oracle, same shape as kuz_lin_l -- the lemma whose instances (lin_instances) the decryption harnesses of the table back ends assume"
verif_harness! {
    name: kuz_lin_linv,
    bytes: 32,
    unwind: 20,
    stubs: [(refmodels::kuznyechik::l_func, stub_l_func)],
    prop: |inp| { lin_l(inp, true) }
}

//@ harness name=kuz_oracle_consts prop=C07 tier=quick bits=5 variants=kuznyechik est=30 desc="L (oracle only): the compile-time table CS[i] == c(i + 1) = L(Vec128(i + 1)) evaluated by the solver, i symbolic in 0..32 (CS replaces c in the key schedule queries)"
verif_harness! {
    name: kuz_oracle_consts,
    bytes: 1,
    unwind: 20,
    prop: |inp| {
        let i = (inp[0] & 31) as usize;
        Some(CS[i] == r::c(i + 1))
    }
}

//@ harness name=kuz_l_inverse_fb prop=C07,C01 tier=quick bits=128 variants=kuznyechik est=145 need=4 desc="L (oracle only, stepwise, direct): R^-1(R(a)) == a along the 16 steps of L, hence L^-1(L(x)) == x for all 2^128 x (with kuz_l_inverse_bf: justifies L / L^-1 as an uninterpreted inverse pair)"
verif_harness! {
    name: kuz_l_inverse_fb,
    bytes: 16,
    unwind: 20,
    prop: |inp| {
        let x: B16 = take(inp, 0);
        let mut a = [[0u8; 16]; 17];
        a[0] = x;
        let mut i = 0;
        while i < 16 {
            a[i + 1] = r::r(&a[i]);
            vcheck!(r::r_inv(&a[i + 1]) == a[i]);
            i += 1;
        }
        vcheck!(r::l(&x) == a[16]);
        let mut b = a[16];
        i = 16;
        while i >= 1 {
            b = r::r_inv(&b);
            vcheck!(b == a[i - 1]);
            b = a[i - 1];
            i -= 1;
        }
        Some(r::l_inv(&r::l(&x)) == x)
    }
}
//@ harness name=kuz_l_inverse_bf prop=C07,C01 tier=quick bits=128 variants=kuznyechik est=125 need=4 desc="L (oracle only, stepwise, direct): R(R^-1(a)) == a along the 16 steps of L^-1, hence L(L^-1(x)) == x for all 2^128 x"
verif_harness! {
    name: kuz_l_inverse_bf,
    bytes: 16,
    unwind: 20,
    prop: |inp| {
        let x: B16 = take(inp, 0);
        let mut c = [[0u8; 16]; 17];
        c[0] = x;
        let mut i = 0;
        while i < 16 {
            c[i + 1] = r::r_inv(&c[i]);
            vcheck!(r::r(&c[i + 1]) == c[i]);
            i += 1;
        }
        vcheck!(r::l_inv(&x) == c[16]);
        let mut d = c[16];
        i = 16;
        while i >= 1 {
            d = r::r(&d);
            vcheck!(d == c[i - 1]);
            d = c[i - 1];
            i -= 1;
        }
        Some(r::l(&r::l_inv(&x)) == x)
    }
}

//@ harness name=kuz_oracle_roundtrip prop=C01 tier=quick bits=1408 variants=kuznyechik est=135 desc="W (oracle only): D(E(b)) == b and E(D(b)) == b for arbitrary round keys and all blocks, S and L uninterpreted inverse pairs (with C07: enc == E and dec == D on every back end, this is the round trip of every back end)"
verif_harness! {
    name: kuz_oracle_roundtrip,
    bytes: 160 + 16,
    unwind: 70,
    prop: |inp| {
        let mut rk = [[0u8; 16]; 10];
        let mut i = 0;
        while i < 10 {
            rk[i] = take(inp, 16 * i);
            i += 1;
        }
        let blk: B16 = take(inp, 160);
        vcheck!(r::decrypt_with(&rk, &r::encrypt_with(&rk, &blk, uls), usi, uli) == blk);
        Some(r::encrypt_with(&rk, &r::decrypt_with(&rk, &blk, usi, uli), uls) == blk)
    }
}

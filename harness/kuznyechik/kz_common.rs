// Kuznyechik: what all back ends share -- the uninterpreted leaves, the back-end independent harness bodies (they use the
// public API only: KeyInit::new, From / Clone, encrypt_block / decrypt_block) and the lemmas on the oracle alone.
// The back-end files (sse2.rs, soft.rs, compact.rs) hold the leaf lemmas of their back end, the stubs that map its leaf
// functions to the uninterpreted leaves below, and one thin `verif_harness!` per (route, direction).
//
// Abstraction used by the W harnesses.  S (octet substitution layer) and L (linear map) are two pairs of mutually
// inverse uninterpreted permutations of {0,1}^128, shared by the real code (through the stubs) and the oracle:
//     L S := ul(us(.)),  S^-1 L^-1 := usi(uli(.)).
// What ties them to the standard:
//   * S / S^-1: leaf lemmas of the back end (sub_bytes, table rows) + pi^-1(pi(x)) = x (kuz_leaf_consts);
//   * L^-1(L(x)) = x = L(L^-1(x)) for the oracle's L: kuz_l_inverse (solver, stepwise over the 16 R steps);
//   * the table back ends pre-transform the decryption keys with L^-1, which is correct because L^-1 is GF(2)-linear.
//     A SAT solver cannot decide L^-1(a ^ k) = L^-1(a) ^ L^-1(k) over 256 bits as one query (XOR re-association: CaDiCaL
//     and kissat both exceeded 900 s even for one R step), so the lemma is proved by a proof script, kuz_lin_l /
//     kuz_lin_linv: every R step is split into its sixteen partial sums, each check being a small re-association, earlier
//     checks available as hypotheses.  The W harnesses then ASSUME exactly the instances of that lemma they need
//     (`lin_instances`, eight per decryption) on the uninterpreted L^-1.
use super::prelude::*;
use crate::{Kuznyechik, KuznyechikDec, KuznyechikEnc};
use cipher::{BlockCipherDecrypt, BlockCipherEncrypt, KeyInit};
use refmodels::kuznyechik as r;

pub type B16 = [u8; 16];

pub fn pack(b: &B16) -> u128 {
    u128::from_le_bytes(*b)
}
pub fn unpack(v: u128) -> B16 {
    v.to_le_bytes()
}
fn conc_s(x: u128) -> u128 {
    pack(&r::s(&unpack(x)))
}
fn conc_s_inv(x: u128) -> u128 {
    pack(&r::s_inv(&unpack(x)))
}
fn conc_l(x: u128) -> u128 {
    pack(&r::l(&unpack(x)))
}
fn conc_l_inv(x: u128) -> u128 {
    pack(&r::l_inv(&unpack(x)))
}
cuf_bij!(uf_s, vuf_kuznyechik_kz_s, vuf_kuznyechik_kz_si, u128, conc_s, conc_s_inv);
cuf_bij!(uf_l, vuf_kuznyechik_kz_l, vuf_kuznyechik_kz_li, u128, conc_l, conc_l_inv);

pub fn us(a: &B16) -> B16 {
    unpack(uf_s::fwd(pack(a)))
}
pub fn usi(a: &B16) -> B16 {
    unpack(uf_s::inv(pack(a)))
}
pub fn ul(a: &B16) -> B16 {
    unpack(uf_l::fwd(pack(a)))
}
pub fn uli(a: &B16) -> B16 {
    unpack(uf_l::inv(pack(a)))
}
/// L S
pub fn uls(a: &B16) -> B16 {
    ul(&us(a))
}
/// S^-1 L^-1
pub fn usili(a: &B16) -> B16 {
    usi(&uli(a))
}
pub fn xor16(a: &B16, b: &B16) -> B16 {
    let mut o = [0u8; 16];
    let mut i = 0;
    while i < 16 {
        o[i] = a[i] ^ b[i];
        i += 1;
    }
    o
}

/// The instances of the linearity of L^-1 (lemma kuz_lin_linv) that decrypting `c` with pre-transformed keys relies on:
/// L^-1(a_i ^ K_i) == L^-1(a_i) ^ L^-1(K_i) for the eight intermediate values a_i = S^-1 L^-1 (...) of the standard's
/// decryption and K_9 .. K_2.  False: the (uninterpreted) L^-1 chosen by the solver is not linear there -- outside the
/// assumption.
pub fn lin_instances(rk: &[B16; 10], c: &B16) -> bool {
    let mut ok = true;
    let mut o = xor16(&rk[9], c);
    let mut i = 8;
    while i >= 1 {
        let a = usili(&o);
        ok &= uli(&xor16(&a, &rk[i])) == xor16(&uli(&a), &uli(&rk[i]));
        o = xor16(&a, &rk[i]);
        i -= 1;
    }
    ok
}

/// An encryption-only instance over ARBITRARY round keys K1..K10 (a superset of the states KeyInit::new produces).
/// All back ends keep the ten round keys as 160 octets in API octet order (little-endian hosts), whatever the element type.
pub fn enc_of_rk(inp: &[u8], off: usize) -> (KuznyechikEnc, [B16; 10]) {
    let mut rk = [[0u8; 16]; 10];
    let mut i = 0;
    while i < 10 {
        rk[i] = take(inp, off + 16 * i);
        i += 1;
    }
    #[repr(C, align(16))]
    struct A([B16; 10]);
    (unsafe { core::mem::transmute::<A, KuznyechikEnc>(A(rk)) }, rk)
}

/// Ways of getting an instance from an encrypt-only one / from a key.
#[derive(Clone, Copy)]
pub enum Route {
    /// the encrypt-only instance itself
    Enc,
    /// clone of the encrypt-only instance
    EncClone,
    /// KuznyechikDec::from(enc) / Kuznyechik::from(enc)
    Val,
    /// KuznyechikDec::from(&enc) / Kuznyechik::from(&enc)
    Ref,
    /// clone of the by-value conversion
    ValClone,
    /// clone of the by-reference conversion
    RefClone,
}

fn dec_via(c: KuznyechikEnc, route: Route, combined: bool, b: &mut cipher::Block<Kuznyechik>) {
    if combined {
        match route {
            Route::Val | Route::Enc | Route::EncClone => Kuznyechik::from(c).decrypt_block(b),
            Route::Ref => Kuznyechik::from(&c).decrypt_block(b),
            Route::ValClone => Kuznyechik::from(c).clone().decrypt_block(b),
            Route::RefClone => Kuznyechik::from(&c).clone().decrypt_block(b),
        }
    } else {
        match route {
            Route::Val | Route::Enc | Route::EncClone => KuznyechikDec::from(c).decrypt_block(b),
            Route::Ref => KuznyechikDec::from(&c).decrypt_block(b),
            Route::ValClone => KuznyechikDec::from(c).clone().decrypt_block(b),
            Route::RefClone => KuznyechikDec::from(&c).clone().decrypt_block(b),
        }
    }
}
fn enc_via(c: KuznyechikEnc, route: Route, b: &mut cipher::Block<Kuznyechik>) {
    match route {
        Route::Enc => c.encrypt_block(b),
        Route::EncClone => c.clone().encrypt_block(b),
        Route::Val => Kuznyechik::from(c).encrypt_block(b),
        Route::Ref => Kuznyechik::from(&c).encrypt_block(b),
        Route::ValClone => Kuznyechik::from(c).clone().encrypt_block(b),
        Route::RefClone => Kuznyechik::from(&c).clone().encrypt_block(b),
    }
}

/// inp = K1..K10 (160) | block (16).  Route instance decrypts as the oracle D over the same round keys.
pub fn w_dec_rk(inp: &[u8], route: Route, combined: bool, need_lin: bool) -> Option<bool> {
    let (c, rk) = enc_of_rk(inp, 0);
    let blk: B16 = take(inp, 160);
    if need_lin {
        vassume!(lin_instances(&rk, &blk));
    }
    let mut b = blk.into();
    dec_via(c, route, combined, &mut b);
    Some(b.0 == r::decrypt_with(&rk, &blk, usi, uli))
}
/// inp = K1..K10 (160) | block (16).  Route instance encrypts as the oracle E over the same round keys.
pub fn w_enc_rk(inp: &[u8], route: Route) -> Option<bool> {
    let (c, rk) = enc_of_rk(inp, 0);
    let blk: B16 = take(inp, 160);
    let mut b = blk.into();
    enc_via(c, route, &mut b);
    Some(b.0 == r::encrypt_with(&rk, &blk, uls))
}
/// inp = key (32).  Round keys of KuznyechikEnc::new(key) == oracle key schedule.
pub fn w_keys(inp: &[u8]) -> Option<bool> {
    let key: [u8; 32] = take(inp, 0);
    let c = KuznyechikEnc::new(&key.into());
    #[repr(C, align(16))]
    struct A([B16; 10]);
    let m = unsafe { core::mem::transmute::<KuznyechikEnc, A>(c) };
    let rk = r::key_schedule_with(&key, uls);
    let mut i = 0;
    while i < 10 {
        vcheck!(m.0[i] == rk[i]);
        i += 1;
    }
    Some(true)
}
/// inp = key (32) | block (16).  which: 0 KuznyechikEnc::new, 1 Kuznyechik::new -- encrypt_block == oracle E(key schedule(key)).
pub fn w_enc_key(inp: &[u8], which: u8) -> Option<bool> {
    let key: [u8; 32] = take(inp, 0);
    let blk: B16 = take(inp, 32);
    let mut b = blk.into();
    if which == 0 {
        KuznyechikEnc::new(&key.into()).encrypt_block(&mut b);
    } else {
        Kuznyechik::new(&key.into()).encrypt_block(&mut b);
    }
    let rk = r::key_schedule_with(&key, uls);
    Some(b.0 == r::encrypt_with(&rk, &blk, uls))
}
/// inp = key (32) | block (16).  which: 0 KuznyechikDec::new, 1 Kuznyechik::new -- decrypt_block == oracle D(key schedule(key)).
pub fn w_dec_key(inp: &[u8], which: u8, need_lin: bool) -> Option<bool> {
    let key: [u8; 32] = take(inp, 0);
    let blk: B16 = take(inp, 32);
    let rk = r::key_schedule_with(&key, uls);
    if need_lin {
        vassume!(lin_instances(&rk, &blk));
    }
    let mut b = blk.into();
    if which == 0 {
        KuznyechikDec::new(&key.into()).decrypt_block(&mut b);
    } else {
        Kuznyechik::new(&key.into()).decrypt_block(&mut b);
    }
    Some(b.0 == r::decrypt_with(&rk, &blk, usi, uli))
}
/// inp = K1..K10 (160) | block (16).  Round trips through the real conversions:
/// order 0: KuznyechikEnc encrypts, KuznyechikDec::from(&enc) decrypts; 1: Kuznyechik::from(&enc) dec(enc(b)); 2: enc(dec(b)).
pub fn w_roundtrip_rk(inp: &[u8], order: u8, need_lin: bool) -> Option<bool> {
    let (c, rk) = enc_of_rk(inp, 0);
    let blk: B16 = take(inp, 160);
    let mut b = blk.into();
    match order {
        0 => {
            c.encrypt_block(&mut b);
            if need_lin {
                vassume!(lin_instances(&rk, &b.0));
            }
            KuznyechikDec::from(&c).decrypt_block(&mut b);
        }
        1 => {
            let k = Kuznyechik::from(&c);
            k.encrypt_block(&mut b);
            if need_lin {
                vassume!(lin_instances(&rk, &b.0));
            }
            k.decrypt_block(&mut b);
        }
        _ => {
            let k = Kuznyechik::from(&c);
            if need_lin {
                vassume!(lin_instances(&rk, &blk));
            }
            k.decrypt_block(&mut b);
            k.encrypt_block(&mut b);
        }
    }
    Some(b.0 == blk)
}

// ------------------------------------------------------------------------------------------------ lemmas on the oracle alone

/// `a` with the octets of index >= j cleared: l_func of it is the j-th partial sum c_0 a_0 + ... + c_{j-1} a_{j-1}
/// (the cleared terms fold to the constant 0 during symbolic execution).
fn trunc(a: &B16, j: usize) -> B16 {
    let mut o = [0u8; 16];
    let mut i = 0;
    while i < 16 {
        if i < j {
            o[i] = a[i];
        }
        i += 1;
    }
    o
}
/// R^-1 feeds l with (a14, ..., a0, a15)
fn rot_in(a: &B16) -> B16 {
    let mut t = [0u8; 16];
    let mut i = 0;
    while i < 15 {
        t[i] = a[i + 1];
        i += 1;
    }
    t[15] = a[0];
    t
}

/// Proof script for F(u ^ v) == F(u) ^ F(v), F = L = R^16 (inv = false) or F = L^-1 = (R^-1)^16 (inv = true).
/// Invariant before step s: w = u ^ v (as a value: the XOR of the two running states), z = R^s(u0 ^ v0) computed straight.
/// A step only creates one new octet, l(.) of the (rotated) state; its linearity is checked partial sum by partial sum.
fn lin_script(inp: &[u8], inv: bool) -> Option<bool> {
    let u0: B16 = take(inp, 0);
    let v0: B16 = take(inp, 16);
    let (mut u, mut v) = (u0, v0);
    let mut z = xor16(&u0, &v0);
    let mut s = 0;
    while s < 16 {
        let w = xor16(&u, &v);
        vcheck!(z == w);
        let (tu, tv, tw) = if inv { (rot_in(&u), rot_in(&v), rot_in(&w)) } else { (u, v, w) };
        let mut j = 1;
        while j <= 16 {
            vcheck!(r::l_func(&trunc(&tw, j)) == r::l_func(&trunc(&tu, j)) ^ r::l_func(&trunc(&tv, j)));
            j += 1;
        }
        let (nu, nv, nw) = if inv { (r::r_inv(&u), r::r_inv(&v), r::r_inv(&w)) } else { (r::r(&u), r::r(&v), r::r(&w)) };
        vcheck!(nw == xor16(&nu, &nv));
        z = if inv { r::r_inv(&z) } else { r::r(&z) };
        u = nu;
        v = nv;
        s += 1;
    }
    vcheck!(z == xor16(&u, &v));
    let (fu, fv, fz) = if inv {
        (r::l_inv(&u0), r::l_inv(&v0), r::l_inv(&xor16(&u0, &v0)))
    } else {
        (r::l(&u0), r::l(&v0), r::l(&xor16(&u0, &v0)))
    };
    vcheck!(fu == u && fv == v && fz == z);
    Some(fz == xor16(&fu, &fv))
}

//@ harness name=kuz_lin_l prop=C07 tier=thorough bits=256 est=300 variants=kuznyechik desc="L (oracle only, proof script): L(u ^ v) == L(u) ^ L(v) for all 2^256 (u, v): 16 R steps x 16 partial sums of l, each check a small XOR re-association with the earlier checks as hypotheses"
verif_harness! {
    name: kuz_lin_l,
    bytes: 32,
    unwind: 20,
    prop: |inp| { lin_script(inp, false) }
}
//@ harness name=kuz_lin_linv prop=C07 tier=thorough bits=256 est=300 variants=kuznyechik desc="L (oracle only, proof script): L^-1(u ^ v) == L^-1(u) ^ L^-1(v) for all 2^256 (u, v) -- the lemma whose instances the decryption harnesses of the table back ends assume"
verif_harness! {
    name: kuz_lin_linv,
    bytes: 32,
    unwind: 20,
    prop: |inp| { lin_script(inp, true) }
}

//@ harness name=kuz_l_inverse prop=C07,C01 tier=thorough bits=128 est=200 variants=kuznyechik desc="L (oracle only, stepwise): R^-1(R(a)) == a and R(R^-1(a)) == a along the 16 steps, hence L^-1(L(x)) == x and L(L^-1(x)) == x for all 2^128 x (justifies L / L^-1 as an uninterpreted inverse pair)"
verif_harness! {
    name: kuz_l_inverse,
    bytes: 16,
    unwind: 20,
    prop: |inp| {
        let x: B16 = take(inp, 0);
        // forwards then backwards
        let mut a = [[0u8; 16]; 17];
        a[0] = x;
        let mut i = 0;
        while i < 16 {
            a[i + 1] = r::r(&a[i]);
            vcheck!(r::r_inv(&a[i + 1]) == a[i]);
            i += 1;
        }
        vcheck!(r::l(&x) == a[16]);
        let mut b = a[16];
        i = 16;
        while i >= 1 {
            b = r::r_inv(&b);
            vcheck!(b == a[i - 1]);
            b = a[i - 1];
            i -= 1;
        }
        vcheck!(r::l_inv(&r::l(&x)) == x);
        // backwards then forwards
        let mut c = [[0u8; 16]; 17];
        c[0] = x;
        i = 0;
        while i < 16 {
            c[i + 1] = r::r_inv(&c[i]);
            vcheck!(r::r(&c[i + 1]) == c[i]);
            i += 1;
        }
        vcheck!(r::l_inv(&x) == c[16]);
        let mut d = c[16];
        i = 16;
        while i >= 1 {
            d = r::r(&d);
            vcheck!(d == c[i - 1]);
            d = c[i - 1];
            i -= 1;
        }
        Some(r::l(&r::l_inv(&x)) == x)
    }
}

//@ harness name=kuz_oracle_roundtrip prop=C01 tier=thorough bits=1408 est=60 variants=kuznyechik desc="W (oracle only): D(E(b)) == b and E(D(b)) == b for arbitrary round keys and all blocks, S and L uninterpreted inverse pairs (with C07: enc == E and dec == D on every back end, this is the round trip of every back end)"
verif_harness! {
    name: kuz_oracle_roundtrip,
    bytes: 160 + 16,
    unwind: 70,
    prop: |inp| {
        let mut rk = [[0u8; 16]; 10];
        let mut i = 0;
        while i < 10 {
            rk[i] = take(inp, 16 * i);
            i += 1;
        }
        let blk: B16 = take(inp, 160);
        vcheck!(r::decrypt_with(&rk, &r::encrypt_with(&rk, &blk, uls), usi, uli) == blk);
        Some(r::encrypt_with(&rk, &r::decrypt_with(&rk, &blk, usi, uli), uls) == blk)
    }
}

// Kuznyechik, kuznyechik_backend="compact_soft" (no fused tables: X, S through P / P_INV, L as sixteen in-place `l_step`s with
// the GF(2^8) multiplication tables GFT_*): conformance to GOST R 34.12-2015 (C07), conversion routes and clones (C12),
// back-end independence via the common oracle (C03), round trips (C01), no panic / overflow (C20).
//
// Leaves: `lsx(block, key)` (= L S X[key]) and `lsx_inv(block, key)` (= S^-1 L^-1 X[key]).  This back end decrypts with the
// standard's own structure (no pre-transformed keys), so no linearity of L is needed.
// L: (step) kuz_compact_leaf_lstep: ONE l_step on an arbitrary state and step index == one R (resp. R^-1) of the oracle under
//    the rotating-index correspondence, helped by checked hint lemmas (`l_hints`); (composition) kuz_compact_leaf_lsx /
//    kuz_compact_leaf_lsx_inv: the real lsx / lsx_inv with l_step uninterpreted and the sixteen instances of the step lemma
//    assumed == oracle L S X / S^-1 L^-1 X.  (All sixteen steps with the real l_step in one query: > 900 s, not finished.)
// W: lsx := L S X with S, L uninterpreted inverse pairs (kz_common), same for lsx_inv.
use super::kz_common::{self as k, Route};
use super::prelude::*;
use crate::compact_soft::backends::{lsx, lsx_inv};
use crate::consts::{P, P_INV};
use crate::gft::{GFT_133, GFT_148, GFT_16, GFT_192, GFT_194, GFT_251, GFT_32};
use crate::utils::{l_step, KEYGEN};
use crate::Block;
use refmodels::kuznyechik as r;

pub fn stub_lsx(block: &mut Block, key: &Block) {
    let x = k::xor16(&block.0, &key.0);
    block.0 = k::ul(&k::us(&x));
}
pub fn stub_lsx_inv(block: &mut Block, key: &Block) {
    let x = k::xor16(&block.0, &key.0);
    block.0 = k::usi(&k::uli(&x));
}
/// key schedule harness: lsx(b, k) := LS(b ^ k) with LS the single uninterpreted function of kz_common
pub fn stub_lsx_ls(block: &mut Block, key: &Block) {
    let x = k::xor16(&block.0, &key.0);
    block.0 = k::uls1(&x);
}

// ---------------------------------------------------------------------------------------------------------- leaves

//@ harness name=kuz_compact_leaf_consts prop=C07,C20 tier=quick bits=16 est=15 desc="L: P[x] == pi(x), P_INV[x] == pi^-1(x) for all octets x; KEYGEN[i] == C_{i+1} = L(Vec128(i+1)) for symbolic i in 0..32"
verif_harness! {
    name: kuz_compact_leaf_consts,
    bytes: 2,
    unwind: 20,
    prop: |inp| {
        let x = inp[0] as usize;
        vcheck!(P[x] == r::PI[x] && P_INV[x] == r::PI_INV[x]);
        let i = (inp[1] & 31) as usize;
        Some(KEYGEN[i].0 == r::c(i + 1))
    }
}

/// Logical view after `s` forward steps of the in-place LFSR: the standard's a[t] lives at physical index (t - s) mod 16.
fn logical(m: &[u8; 16], s: usize) -> [u8; 16] {
    let mut a = [0u8; 16];
    let mut t = 0;
    while t < 16 {
        a[t] = m[(t + 16 - (s & 15)) & 15];
        t += 1;
    }
    a
}
/// (a1, ..., a15, a0): the word R^-1 feeds to l
fn rot1(a: &[u8; 16]) -> [u8; 16] {
    let mut t = [0u8; 16];
    let mut i = 0;
    while i < 15 {
        t[i] = a[i + 1];
        i += 1;
    }
    t[15] = a[0];
    t
}

/// Hint lemmas for ONE l on the logical word t (standard's order: t[0] = a15 ... t[15] = a0).  A SAT solver does not find
/// "XOR of sixteen table look-ups, accumulated from position 15 down" == "XOR of sixteen shift-and-add products, accumulated
/// from position 0 up" by itself (measured: > 900 s per leaf), so the proof is handed over in small facts, each checked:
///  (1) every product of l_step's tables equals the oracle's product: GFT_c[t_j] == mul_lc(j, t_j), j = 0..15 (c = 1: t_j);
///  (2) with m_j = mul_lc(j, t_j), R_k = m_15 ^ .. ^ m_k (l_step's order) and F_k = m_0 ^ .. ^ m_k (l_func's order):
///      R_k ^ F_{k-1} == F_15 for k = 15 .. 1 (each follows from the previous one by a 4-term XOR identity), R_0 == F_15;
///  (3) F_15 == l_func(t) (same order, same terms).
/// Returns R_0, the value l in l_step's accumulation order; Err if a hint does not hold (the harness then FAILS).
fn l_hints(t: &[u8; 16]) -> Result<u8, ()> {
    let mut j = 0;
    while j < 16 {
        let v = t[j] as usize;
        let g = match j {
            0 | 14 => GFT_148[v],
            1 | 13 => GFT_32[v],
            2 | 12 => GFT_133[v],
            3 | 11 => GFT_16[v],
            4 | 10 => GFT_194[v],
            5 | 9 => GFT_192[v],
            7 => GFT_251[v],
            _ => t[j],
        };
        if g != r::mul_lc(j, t[j]) {
            return Err(());
        }
        j += 1;
    }
    let mut f = [0u8; 16];
    let mut acc = 0u8;
    j = 0;
    while j < 16 {
        acc ^= r::mul_lc(j, t[j]);
        f[j] = acc;
        j += 1;
    }
    let total = f[15];
    let mut rv = 0u8;
    let mut k = 16;
    while k > 0 {
        k -= 1;
        rv ^= r::mul_lc(k, t[k]);
        if k >= 1 && (rv ^ f[k - 1]) != total {
            return Err(());
        }
    }
    if rv != total || total != r::l_func(t) {
        return Err(());
    }
    Ok(rv)
}

fn conc_lstep(x: u128, i: usize) -> u128 {
    k::pack(&l_step(k::unpack(x), i))
}
// composition harnesses: l_step as ONE uninterpreted function of (state, step index)
cuf2!(uf_lstep, vuf_kuznyechik_cp_lstep, u128, usize, u128, conc_lstep);
/// replaces crate::utils::l_step in the composition harnesses
pub fn stub_l_step(msg: [u8; 16], i: usize) -> [u8; 16] {
    k::unpack(uf_lstep::call(k::pack(&msg), i))
}

//@ harness name=kuz_compact_leaf_lstep prop=C07,C20 tier=quick bits=133 quick=C20 est=65 desc="L (one step, all states): for every state m in {0,1}^128 and every step index i in 0..16 (symbolic): l_step(m, i) read through the rotating-index correspondence == R of the oracle applied to the logical word, and l_step(m, 15 - i) == R^-1 of the oracle (the in-place LFSR of the crate vs the shifting array of the standard; GFT_* tables vs the oracle's field multiplication); helped by checked hint lemmas (table product == oracle product per octet, partial-sum re-association)"
verif_harness! {
    name: kuz_compact_leaf_lstep,
    bytes: 18,
    unwind: 20,
    prop: |inp| {
        let m: [u8; 16] = take(inp, 0);
        let i = (inp[16] & 15) as usize;
        if inp[17] & 1 == 0 {
            // forward: before the step, i steps have been done
            let a = logical(&m, i);
            let lv = match l_hints(&a) {
                Ok(v) => v,
                Err(()) => return Some(false),
            };
            let m2 = l_step(m, i);
            // l_step writes the new octet at physical index get_idx(15, i)
            vcheck!(m2[(15 + 16 - i) & 15] == lv);
            Some(logical(&m2, i + 1) == r::r(&a))
        } else {
            // backward: before the inverse step number i, the forward step count is 16 - i
            let a = logical(&m, 16 - i);
            let lv = match l_hints(&rot1(&a)) {
                Ok(v) => v,
                Err(()) => return Some(false),
            };
            let m2 = l_step(m, 15 - i);
            // l_step(., 15 - i) writes the new octet at physical index get_idx(15, 15 - i) = i
            vcheck!(m2[i] == lv);
            Some(logical(&m2, 16 - (i + 1)) == r::r_inv(&a))
        }
    }
}

//@ harness name=kuz_compact_leaf_lsx prop=C07,C20 tier=quick bits=256 stub=1 quick=C20 est=80 desc="W (composition): lsx(b, k) == oracle L(S(b ^ k)) for all 2^256 (b, k): the real lsx (X, S through P, sixteen l_step(., i) in its order) with l_step an uninterpreted function of (state, index) and the oracle's linear form l_func an uninterpreted function; assumed: the sixteen instances of the one-step lemma kuz_compact_leaf_lstep at the states passed through"
verif_harness! {
    name: kuz_compact_leaf_lsx,
    bytes: 32,
    unwind: 20,
    stubs: [(crate::utils::l_step, stub_l_step), (refmodels::kuznyechik::l_func, k::stub_l_func)],
    prop: |inp| {
        let b: [u8; 16] = take(inp, 0);
        let key: [u8; 16] = take(inp, 16);
        let x0 = k::xor16(&b, &key);
        let mut m = [0u8; 16];
        let mut i = 0;
        while i < 16 {
            m[i] = P[x0[i] as usize];
            i += 1;
        }
        let mut a = r::s(&x0);
        vcheck!(m == a);
        i = 0;
        while i < 16 {
            // invariant (checked above / assumed in the previous iteration): logical(&m, i) == a
            let m2 = l_step(m, i);
            let na = r::r(&a);
            // instance of the one-step lemma at (m, i): logical(l_step(m, i), i + 1) == R(logical(m, i)) = R(a)
            vassume!(logical(&m2, i + 1) == na);
            m = m2;
            a = na;
            i += 1;
        }
        vcheck!(m == a);
        vcheck!(a == r::ls(&x0));
        let mut blk: Block = b.into();
        lsx(&mut blk, &key.into());
        Some(blk.0 == m)
    }
}

//@ harness name=kuz_compact_leaf_lsx_inv prop=C07,C20 tier=quick bits=256 stub=1 quick=C20 est=70 desc="W (composition): lsx_inv(b, k) == oracle S^-1(L^-1(b ^ k)) for all 2^256 (b, k): the real lsx_inv (X, sixteen l_step(., 15 - i), S^-1 through P_INV) with l_step an uninterpreted function of (state, index) and the oracle's l_func an uninterpreted function; assumed: the sixteen instances of the one-step lemma kuz_compact_leaf_lstep (R^-1 half) at the states passed through"
verif_harness! {
    name: kuz_compact_leaf_lsx_inv,
    bytes: 32,
    unwind: 20,
    stubs: [(crate::utils::l_step, stub_l_step), (refmodels::kuznyechik::l_func, k::stub_l_func)],
    prop: |inp| {
        let b: [u8; 16] = take(inp, 0);
        let key: [u8; 16] = take(inp, 16);
        let x0 = k::xor16(&b, &key);
        let mut m = x0;
        let mut a = x0;
        let mut i = 0;
        while i < 16 {
            // invariant: logical(&m, 16 - i) == a
            let m2 = l_step(m, 15 - i);
            let na = r::r_inv(&a);
            // instance of the one-step lemma (R^-1 half) at (m, i)
            vassume!(logical(&m2, 16 - (i + 1)) == na);
            m = m2;
            a = na;
            i += 1;
        }
        vcheck!(m == a);
        let li = r::l_inv(&x0);
        vcheck!(a == li);
        i = 0;
        while i < 16 {
            m[i] = P_INV[m[i] as usize];
            i += 1;
        }
        vcheck!(m == r::s_inv(&li));
        let mut blk: Block = b.into();
        lsx_inv(&mut blk, &key.into());
        Some(blk.0 == m)
    }
}

// ---------------------------------------------------------------------------------------------------------- key schedule

//@ harness name=kuz_compact_keys prop=C07,C20 tier=quick bits=256 stub=1 quick=C20 est=100 need=4 desc="W: round keys of KuznyechikEnc::new(key) (compact_soft expand) == oracle K1..K10 (Feistel key schedule with the computed C_1..C_32) for all 2^256 keys; lsx(b, k) := LS(b ^ k) where LS is ONE uninterpreted function shared with the oracle's L S (32 applications per side)"
verif_harness! {
    name: kuz_compact_keys,
    bytes: 32,
    unwind: 70,
    stubs: [(crate::compact_soft::backends::lsx, stub_lsx_ls), (refmodels::kuznyechik::c, k::stub_c)],
    prop: |inp| { k::w_keys(inp) }
}

// ---------------------------------------------------------------------------------------------------------- wiring: encryption
// lsx := L S X, lsx_inv := S^-1 L^-1 X with S, L uninterpreted inverse pairs (kz_common); arbitrary round keys (a superset of
// the key schedule's outputs): with kuz_compact_keys this is conformance for all keys.

//@ harness name=kuz_compact_enc_rk prop=C07,C03,C12,C20 tier=quick bits=1408 stub=1 quick=C03 est=25 desc="W: KuznyechikEnc over arbitrary round keys: encrypt_block == oracle E (9 LSX rounds + X), all round keys, all blocks"
verif_harness! {
    name: kuz_compact_enc_rk,
    bytes: 160 + 16,
    unwind: 70,
    stubs: [(crate::compact_soft::backends::lsx, stub_lsx), (crate::compact_soft::backends::lsx_inv, stub_lsx_inv)],
    prop: |inp| { k::w_enc_rk(inp, Route::Enc) }
}
//@ harness name=kuz_compact_enc_rk_clone prop=C12,C20 tier=thorough bits=1408 stub=1 est=39 desc="W: clone of a KuznyechikEnc: encrypt_block == oracle E, all round keys, all blocks"
verif_harness! {
    name: kuz_compact_enc_rk_clone,
    bytes: 160 + 16,
    unwind: 70,
    stubs: [(crate::compact_soft::backends::lsx, stub_lsx), (crate::compact_soft::backends::lsx_inv, stub_lsx_inv)],
    prop: |inp| { k::w_enc_rk(inp, Route::EncClone) }
}
//@ harness name=kuz_compact_enc_rk_val prop=C12,C03,C20 tier=thorough bits=1408 stub=1 est=41 desc="W: Kuznyechik::from(enc) (by value): encrypt_block == oracle E, all round keys, all blocks"
verif_harness! {
    name: kuz_compact_enc_rk_val,
    bytes: 160 + 16,
    unwind: 70,
    stubs: [(crate::compact_soft::backends::lsx, stub_lsx), (crate::compact_soft::backends::lsx_inv, stub_lsx_inv)],
    prop: |inp| { k::w_enc_rk(inp, Route::Val) }
}
//@ harness name=kuz_compact_enc_rk_ref prop=C12,C03,C20 tier=quick bits=1408 stub=1 est=35 desc="W: Kuznyechik::from(&enc) (by reference): encrypt_block == oracle E, all round keys, all blocks"
verif_harness! {
    name: kuz_compact_enc_rk_ref,
    bytes: 160 + 16,
    unwind: 70,
    stubs: [(crate::compact_soft::backends::lsx, stub_lsx), (crate::compact_soft::backends::lsx_inv, stub_lsx_inv)],
    prop: |inp| { k::w_enc_rk(inp, Route::Ref) }
}
//@ harness name=kuz_compact_enc_rk_refclone prop=C12,C20 tier=thorough bits=1408 stub=1 est=47 desc="W: Kuznyechik::from(&enc).clone(): encrypt_block == oracle E, all round keys, all blocks"
verif_harness! {
    name: kuz_compact_enc_rk_refclone,
    bytes: 160 + 16,
    unwind: 70,
    stubs: [(crate::compact_soft::backends::lsx, stub_lsx), (crate::compact_soft::backends::lsx_inv, stub_lsx_inv)],
    prop: |inp| { k::w_enc_rk(inp, Route::RefClone) }
}

// ---------------------------------------------------------------------------------------------------------- wiring: decryption
// This back end decrypts with the standard's own structure over the encryption round keys (no pre-transformed keys, no
// linearity assumption).

//@ harness name=kuz_compact_dec_rk_val prop=C07,C03,C12,C20 tier=quick bits=1408 stub=1 quick=C03 est=50 desc="W: KuznyechikDec::from(enc) (by value) over arbitrary encryption round keys: decrypt_block == oracle D = X[K1] S^-1 L^-1 X[K2] ... S^-1 L^-1 X[K10], all round keys, all blocks"
verif_harness! {
    name: kuz_compact_dec_rk_val,
    bytes: 160 + 16,
    unwind: 70,
    stubs: [(crate::compact_soft::backends::lsx, stub_lsx), (crate::compact_soft::backends::lsx_inv, stub_lsx_inv)],
    prop: |inp| { k::w_dec_rk(inp, Route::Val, false, false) }
}
//@ harness name=kuz_compact_dec_rk_ref prop=C12,C07,C03,C20 tier=quick bits=1408 stub=1 est=35 desc="W: KuznyechikDec::from(&enc) (by reference): decrypt_block == oracle D, all round keys, all blocks"
verif_harness! {
    name: kuz_compact_dec_rk_ref,
    bytes: 160 + 16,
    unwind: 70,
    stubs: [(crate::compact_soft::backends::lsx, stub_lsx), (crate::compact_soft::backends::lsx_inv, stub_lsx_inv)],
    prop: |inp| { k::w_dec_rk(inp, Route::Ref, false, false) }
}
//@ harness name=kuz_compact_dec_rk_refclone prop=C12,C20 tier=thorough bits=1408 stub=1 est=78 desc="W: KuznyechikDec::from(&enc).clone(): decrypt_block == oracle D, all round keys, all blocks"
verif_harness! {
    name: kuz_compact_dec_rk_refclone,
    bytes: 160 + 16,
    unwind: 70,
    stubs: [(crate::compact_soft::backends::lsx, stub_lsx), (crate::compact_soft::backends::lsx_inv, stub_lsx_inv)],
    prop: |inp| { k::w_dec_rk(inp, Route::RefClone, false, false) }
}
//@ harness name=kuz_compact_both_dec_rk_val prop=C07,C03,C12,C20 tier=thorough bits=1408 stub=1 est=52 desc="W: Kuznyechik::from(enc) (by value): decrypt_block == oracle D, all round keys, all blocks"
verif_harness! {
    name: kuz_compact_both_dec_rk_val,
    bytes: 160 + 16,
    unwind: 70,
    stubs: [(crate::compact_soft::backends::lsx, stub_lsx), (crate::compact_soft::backends::lsx_inv, stub_lsx_inv)],
    prop: |inp| { k::w_dec_rk(inp, Route::Val, true, false) }
}
//@ harness name=kuz_compact_both_dec_rk_ref prop=C12,C07,C03,C20 tier=quick bits=1408 stub=1 est=35 desc="W: Kuznyechik::from(&enc) (by reference): decrypt_block == oracle D, all round keys, all blocks"
verif_harness! {
    name: kuz_compact_both_dec_rk_ref,
    bytes: 160 + 16,
    unwind: 70,
    stubs: [(crate::compact_soft::backends::lsx, stub_lsx), (crate::compact_soft::backends::lsx_inv, stub_lsx_inv)],
    prop: |inp| { k::w_dec_rk(inp, Route::Ref, true, false) }
}
//@ harness name=kuz_compact_both_dec_rk_refclone prop=C12,C20 tier=thorough bits=1408 stub=1 est=63 desc="W: Kuznyechik::from(&enc).clone(): decrypt_block == oracle D, all round keys, all blocks"
verif_harness! {
    name: kuz_compact_both_dec_rk_refclone,
    bytes: 160 + 16,
    unwind: 70,
    stubs: [(crate::compact_soft::backends::lsx, stub_lsx), (crate::compact_soft::backends::lsx_inv, stub_lsx_inv)],
    prop: |inp| { k::w_dec_rk(inp, Route::RefClone, true, false) }
}

// ---------------------------------------------------------------------------------------------------------- round trips

//@ harness name=kuz_compact_rt_enc_dec prop=C01,C20 tier=thorough bits=1408 stub=1 est=45 desc="W: KuznyechikEnc encrypts, KuznyechikDec::from(&enc) decrypts: result == b, arbitrary round keys, all blocks (S, L uninterpreted inverse pairs)"
verif_harness! {
    name: kuz_compact_rt_enc_dec,
    bytes: 160 + 16,
    unwind: 70,
    stubs: [(crate::compact_soft::backends::lsx, stub_lsx), (crate::compact_soft::backends::lsx_inv, stub_lsx_inv)],
    prop: |inp| { k::w_roundtrip_rk(inp, 0, false) }
}
//@ harness name=kuz_compact_rt_ed prop=C01,C20 tier=quick bits=1408 stub=1 est=50 desc="W: Kuznyechik::from(&enc): dec(enc(b)) == b, arbitrary round keys, all blocks (S, L uninterpreted inverse pairs)"
verif_harness! {
    name: kuz_compact_rt_ed,
    bytes: 160 + 16,
    unwind: 70,
    stubs: [(crate::compact_soft::backends::lsx, stub_lsx), (crate::compact_soft::backends::lsx_inv, stub_lsx_inv)],
    prop: |inp| { k::w_roundtrip_rk(inp, 1, false) }
}
//@ harness name=kuz_compact_rt_de prop=C01,C20 tier=thorough bits=1408 stub=1 est=43 desc="W: Kuznyechik::from(&enc): enc(dec(b)) == b, arbitrary round keys, all blocks (S, L uninterpreted inverse pairs)"
verif_harness! {
    name: kuz_compact_rt_de,
    bytes: 160 + 16,
    unwind: 70,
    stubs: [(crate::compact_soft::backends::lsx, stub_lsx), (crate::compact_soft::backends::lsx_inv, stub_lsx_inv)],
    prop: |inp| { k::w_roundtrip_rk(inp, 2, false) }
}

// Kuznyechik, kuznyechik_backend="compact_soft" (no fused tables: X, S through P / P_INV, L as sixteen in-place `l_step`s with
// the GF(2^8) multiplication tables GFT_*): conformance to GOST R 34.12-2015 (C07), conversion routes and clones (C12),
// back-end independence via the common oracle (C03), round trips (C01), no panic / overflow (C20).
//
// Leaves: `lsx(block, key)` (= L S X[key]) and `lsx_inv(block, key)` (= S^-1 L^-1 X[key]).  This back end decrypts with the
// standard's own structure (no pre-transformed keys), so no linearity of L is needed.
// L: proof scripts that replay lsx / lsx_inv step by step with the crate's own `l_step` against the oracle's R / R^-1
//    (the in-place rotating index of l_step vs the shifting array of the standard), then compare with the leaf itself.
// W: lsx := L S X with S, L uninterpreted inverse pairs (kz_common), same for lsx_inv.
use super::kz_common::{self as k, Route};
use super::prelude::*;
use crate::compact_soft::backends::{lsx, lsx_inv};
use crate::consts::{P, P_INV};
use crate::utils::{l_step, KEYGEN};
use crate::Block;
use refmodels::kuznyechik as r;

pub fn stub_lsx(block: &mut Block, key: &Block) {
    let x = k::xor16(&block.0, &key.0);
    block.0 = k::ul(&k::us(&x));
}
pub fn stub_lsx_inv(block: &mut Block, key: &Block) {
    let x = k::xor16(&block.0, &key.0);
    block.0 = k::usi(&k::uli(&x));
}
/// key schedule harness: lsx(b, k) := LS(b ^ k) with LS the single uninterpreted function of kz_common
pub fn stub_lsx_ls(block: &mut Block, key: &Block) {
    let x = k::xor16(&block.0, &key.0);
    block.0 = k::uls1(&x);
}

// ---------------------------------------------------------------------------------------------------------- leaves

//@ harness name=kuz_compact_leaf_consts prop=C07,C20 tier=quick bits=16 est=45 desc="L: P[x] == pi(x), P_INV[x] == pi^-1(x) for all octets x; KEYGEN[i] == C_{i+1} = L(Vec128(i+1)) for symbolic i in 0..32"
verif_harness! {
    name: kuz_compact_leaf_consts,
    bytes: 2,
    unwind: 20,
    prop: |inp| {
        let x = inp[0] as usize;
        vcheck!(P[x] == r::PI[x] && P_INV[x] == r::PI_INV[x]);
        let i = (inp[1] & 31) as usize;
        Some(KEYGEN[i].0 == r::c(i + 1))
    }
}

/// Logical view after `s` forward steps of the in-place LFSR: the standard's a[t] lives at physical index (t - s) mod 16.
fn logical(m: &[u8; 16], s: usize) -> [u8; 16] {
    let mut a = [0u8; 16];
    let mut t = 0;
    while t < 16 {
        a[t] = m[(t + 16 - (s & 15)) & 15];
        t += 1;
    }
    a
}

//@ harness name=kuz_compact_leaf_lsx prop=C07,C20 tier=thorough bits=256 est=300 cap=900 desc="L (proof script): lsx(b, k) == oracle L(S(b ^ k)) for all 2^256 (b, k): X and S directly, then each of the sixteen l_step(., i) against one R of the oracle under the rotating-index correspondence, finally the leaf itself against the replayed value"
verif_harness! {
    name: kuz_compact_leaf_lsx,
    bytes: 32,
    unwind: 20,
    prop: |inp| {
        let b: [u8; 16] = take(inp, 0);
        let key: [u8; 16] = take(inp, 16);
        let x0 = k::xor16(&b, &key);
        let mut m = [0u8; 16];
        let mut i = 0;
        while i < 16 {
            m[i] = P[x0[i] as usize];
            i += 1;
        }
        let mut a = r::s(&x0);
        vcheck!(m == a);
        i = 0;
        while i < 16 {
            m = l_step(m, i);
            let na = r::r(&a);
            vcheck!(logical(&m, i + 1) == na);
            a = logical(&m, i + 1);
            i += 1;
        }
        vcheck!(a == m);
        vcheck!(r::ls(&x0) == a);
        let mut blk: Block = b.into();
        lsx(&mut blk, &key.into());
        Some(blk.0 == m)
    }
}

//@ harness name=kuz_compact_leaf_lsx_inv prop=C07,C20 tier=thorough bits=256 est=300 cap=900 desc="L (proof script): lsx_inv(b, k) == oracle S^-1(L^-1(b ^ k)) for all 2^256 (b, k): each l_step(., 15 - i) against one R^-1 of the oracle, then S^-1 through P_INV, finally the leaf itself"
verif_harness! {
    name: kuz_compact_leaf_lsx_inv,
    bytes: 32,
    unwind: 20,
    prop: |inp| {
        let b: [u8; 16] = take(inp, 0);
        let key: [u8; 16] = take(inp, 16);
        let x0 = k::xor16(&b, &key);
        let mut m = x0;
        let mut a = x0;
        let mut i = 0;
        while i < 16 {
            m = l_step(m, 15 - i);
            let na = r::r_inv(&a);
            // after j = i + 1 inverse steps the forward step count is 16 - j
            vcheck!(logical(&m, 16 - (i + 1)) == na);
            a = logical(&m, 16 - (i + 1));
            i += 1;
        }
        vcheck!(a == m);
        vcheck!(r::l_inv(&x0) == a);
        i = 0;
        while i < 16 {
            m[i] = P_INV[m[i] as usize];
            i += 1;
        }
        vcheck!(m == r::s_inv(&a));
        let mut blk: Block = b.into();
        lsx_inv(&mut blk, &key.into());
        Some(blk.0 == m)
    }
}

// ---------------------------------------------------------------------------------------------------------- key schedule

//@ harness name=kuz_compact_keys prop=C07,C20 tier=quick bits=256 stub=1 est=120 desc="W: round keys of KuznyechikEnc::new(key) (compact_soft expand) == oracle K1..K10 (Feistel key schedule with the computed C_1..C_32) for all 2^256 keys; lsx(b, k) := LS(b ^ k) where LS is ONE uninterpreted function shared with the oracle's L S (32 applications per side)"
verif_harness! {
    name: kuz_compact_keys,
    bytes: 32,
    unwind: 70,
    stubs: [(crate::compact_soft::backends::lsx, stub_lsx_ls), (refmodels::kuznyechik::c, k::stub_c)],
    prop: |inp| { k::w_keys(inp) }
}

// ---------------------------------------------------------------------------------------------------------- wiring: encryption
// lsx := L S X, lsx_inv := S^-1 L^-1 X with S, L uninterpreted inverse pairs (kz_common); arbitrary round keys (a superset of
// the key schedule's outputs): with kuz_compact_keys this is conformance for all keys.

//@ harness name=kuz_compact_enc_rk prop=C07,C03,C12,C20 tier=quick bits=1408 stub=1 est=60 desc="W: KuznyechikEnc over arbitrary round keys: encrypt_block == oracle E (9 LSX rounds + X), all round keys, all blocks"
verif_harness! {
    name: kuz_compact_enc_rk,
    bytes: 160 + 16,
    unwind: 70,
    stubs: [(crate::compact_soft::backends::lsx, stub_lsx), (crate::compact_soft::backends::lsx_inv, stub_lsx_inv)],
    prop: |inp| { k::w_enc_rk(inp, Route::Enc) }
}
//@ harness name=kuz_compact_enc_rk_clone prop=C12,C20 tier=thorough bits=1408 stub=1 est=60 desc="W: clone of a KuznyechikEnc: encrypt_block == oracle E, all round keys, all blocks"
verif_harness! {
    name: kuz_compact_enc_rk_clone,
    bytes: 160 + 16,
    unwind: 70,
    stubs: [(crate::compact_soft::backends::lsx, stub_lsx), (crate::compact_soft::backends::lsx_inv, stub_lsx_inv)],
    prop: |inp| { k::w_enc_rk(inp, Route::EncClone) }
}
//@ harness name=kuz_compact_enc_rk_val prop=C12,C03,C20 tier=thorough bits=1408 stub=1 est=60 desc="W: Kuznyechik::from(enc) (by value): encrypt_block == oracle E, all round keys, all blocks"
verif_harness! {
    name: kuz_compact_enc_rk_val,
    bytes: 160 + 16,
    unwind: 70,
    stubs: [(crate::compact_soft::backends::lsx, stub_lsx), (crate::compact_soft::backends::lsx_inv, stub_lsx_inv)],
    prop: |inp| { k::w_enc_rk(inp, Route::Val) }
}
//@ harness name=kuz_compact_enc_rk_ref prop=C12,C03,C20 tier=quick bits=1408 stub=1 est=60 desc="W: Kuznyechik::from(&enc) (by reference): encrypt_block == oracle E, all round keys, all blocks"
verif_harness! {
    name: kuz_compact_enc_rk_ref,
    bytes: 160 + 16,
    unwind: 70,
    stubs: [(crate::compact_soft::backends::lsx, stub_lsx), (crate::compact_soft::backends::lsx_inv, stub_lsx_inv)],
    prop: |inp| { k::w_enc_rk(inp, Route::Ref) }
}
//@ harness name=kuz_compact_enc_rk_refclone prop=C12,C20 tier=thorough bits=1408 stub=1 est=60 desc="W: Kuznyechik::from(&enc).clone(): encrypt_block == oracle E, all round keys, all blocks"
verif_harness! {
    name: kuz_compact_enc_rk_refclone,
    bytes: 160 + 16,
    unwind: 70,
    stubs: [(crate::compact_soft::backends::lsx, stub_lsx), (crate::compact_soft::backends::lsx_inv, stub_lsx_inv)],
    prop: |inp| { k::w_enc_rk(inp, Route::RefClone) }
}

// ---------------------------------------------------------------------------------------------------------- wiring: decryption
// This back end decrypts with the standard's own structure over the encryption round keys (no pre-transformed keys, no
// linearity assumption).

//@ harness name=kuz_compact_dec_rk_val prop=C07,C03,C12,C20 tier=quick bits=1408 stub=1 est=100 desc="W: KuznyechikDec::from(enc) (by value) over arbitrary encryption round keys: decrypt_block == oracle D = X[K1] S^-1 L^-1 X[K2] ... S^-1 L^-1 X[K10], all round keys, all blocks"
verif_harness! {
    name: kuz_compact_dec_rk_val,
    bytes: 160 + 16,
    unwind: 70,
    stubs: [(crate::compact_soft::backends::lsx, stub_lsx), (crate::compact_soft::backends::lsx_inv, stub_lsx_inv)],
    prop: |inp| { k::w_dec_rk(inp, Route::Val, false, false) }
}
//@ harness name=kuz_compact_dec_rk_ref prop=C07,C03,C12,C20 tier=quick bits=1408 stub=1 est=100 desc="W: KuznyechikDec::from(&enc) (by reference): decrypt_block == oracle D, all round keys, all blocks"
verif_harness! {
    name: kuz_compact_dec_rk_ref,
    bytes: 160 + 16,
    unwind: 70,
    stubs: [(crate::compact_soft::backends::lsx, stub_lsx), (crate::compact_soft::backends::lsx_inv, stub_lsx_inv)],
    prop: |inp| { k::w_dec_rk(inp, Route::Ref, false, false) }
}
//@ harness name=kuz_compact_dec_rk_refclone prop=C12,C20 tier=thorough bits=1408 stub=1 est=100 desc="W: KuznyechikDec::from(&enc).clone(): decrypt_block == oracle D, all round keys, all blocks"
verif_harness! {
    name: kuz_compact_dec_rk_refclone,
    bytes: 160 + 16,
    unwind: 70,
    stubs: [(crate::compact_soft::backends::lsx, stub_lsx), (crate::compact_soft::backends::lsx_inv, stub_lsx_inv)],
    prop: |inp| { k::w_dec_rk(inp, Route::RefClone, false, false) }
}
//@ harness name=kuz_compact_both_dec_rk_val prop=C07,C03,C12,C20 tier=thorough bits=1408 stub=1 est=100 desc="W: Kuznyechik::from(enc) (by value): decrypt_block == oracle D, all round keys, all blocks"
verif_harness! {
    name: kuz_compact_both_dec_rk_val,
    bytes: 160 + 16,
    unwind: 70,
    stubs: [(crate::compact_soft::backends::lsx, stub_lsx), (crate::compact_soft::backends::lsx_inv, stub_lsx_inv)],
    prop: |inp| { k::w_dec_rk(inp, Route::Val, true, false) }
}
//@ harness name=kuz_compact_both_dec_rk_ref prop=C07,C03,C12,C20 tier=quick bits=1408 stub=1 est=100 desc="W: Kuznyechik::from(&enc) (by reference): decrypt_block == oracle D, all round keys, all blocks"
verif_harness! {
    name: kuz_compact_both_dec_rk_ref,
    bytes: 160 + 16,
    unwind: 70,
    stubs: [(crate::compact_soft::backends::lsx, stub_lsx), (crate::compact_soft::backends::lsx_inv, stub_lsx_inv)],
    prop: |inp| { k::w_dec_rk(inp, Route::Ref, true, false) }
}
//@ harness name=kuz_compact_both_dec_rk_refclone prop=C12,C20 tier=thorough bits=1408 stub=1 est=100 desc="W: Kuznyechik::from(&enc).clone(): decrypt_block == oracle D, all round keys, all blocks"
verif_harness! {
    name: kuz_compact_both_dec_rk_refclone,
    bytes: 160 + 16,
    unwind: 70,
    stubs: [(crate::compact_soft::backends::lsx, stub_lsx), (crate::compact_soft::backends::lsx_inv, stub_lsx_inv)],
    prop: |inp| { k::w_dec_rk(inp, Route::RefClone, true, false) }
}

// ---------------------------------------------------------------------------------------------------------- round trips

//@ harness name=kuz_compact_rt_enc_dec prop=C01,C20 tier=thorough bits=1408 stub=1 est=100 desc="W: KuznyechikEnc encrypts, KuznyechikDec::from(&enc) decrypts: result == b, arbitrary round keys, all blocks (S, L uninterpreted inverse pairs)"
verif_harness! {
    name: kuz_compact_rt_enc_dec,
    bytes: 160 + 16,
    unwind: 70,
    stubs: [(crate::compact_soft::backends::lsx, stub_lsx), (crate::compact_soft::backends::lsx_inv, stub_lsx_inv)],
    prop: |inp| { k::w_roundtrip_rk(inp, 0, false) }
}
//@ harness name=kuz_compact_rt_ed prop=C01,C20 tier=quick bits=1408 stub=1 est=100 desc="W: Kuznyechik::from(&enc): dec(enc(b)) == b, arbitrary round keys, all blocks (S, L uninterpreted inverse pairs)"
verif_harness! {
    name: kuz_compact_rt_ed,
    bytes: 160 + 16,
    unwind: 70,
    stubs: [(crate::compact_soft::backends::lsx, stub_lsx), (crate::compact_soft::backends::lsx_inv, stub_lsx_inv)],
    prop: |inp| { k::w_roundtrip_rk(inp, 1, false) }
}
//@ harness name=kuz_compact_rt_de prop=C01,C20 tier=thorough bits=1408 stub=1 est=100 desc="W: Kuznyechik::from(&enc): enc(dec(b)) == b, arbitrary round keys, all blocks (S, L uninterpreted inverse pairs)"
verif_harness! {
    name: kuz_compact_rt_de,
    bytes: 160 + 16,
    unwind: 70,
    stubs: [(crate::compact_soft::backends::lsx, stub_lsx), (crate::compact_soft::backends::lsx_inv, stub_lsx_inv)],
    prop: |inp| { k::w_roundtrip_rk(inp, 2, false) }
}

// Kuznyechik, default x86-64 configuration (sse2 back end): conformance of Kuznyechik / KuznyechikEnc / KuznyechikDec to
// GOST R 34.12-2015 (C07), round trips incl. KuznyechikEnc -> KuznyechikDec through the real From conversion (C01),
// no panic / overflow / misaligned load (C20).
//
// Leaves of this back end: `transform(b, &ENC_TABLE)` (= L S), `transform(b, &DEC_TABLE)` (= L^-1 S^-1), `sub_bytes`.
// L: the leaves vs the oracle (GF(2^8) arithmetic computed, L = R^16, pi as data).
// W: the real key expansion, `inv_enc_keys`, the real round loops and the From conversions, with the byte substitution
//    layer S an uninterpreted bijection pair on 128-bit words shared with the oracle and the linear map L the oracle's
//    (concrete) one: transform(., ENC) := L(S(.)), transform(., DEC) := L^-1(S^-1(.)), sub_bytes := S / S^-1.
//    Everything above the `stubs:` lines uses the public API only; the stubs and leaf lemmas are sse2-specific.
use super::prelude::*;
use crate::consts::{P, P_INV};
use crate::fused_tables::{Table, DEC_TABLE, ENC_TABLE};
use crate::sse2::backends::{expand_enc_keys, inv_enc_keys, sub_bytes, transform, RoundKeys};
use crate::utils::KEYGEN;
use crate::{Kuznyechik, KuznyechikDec, KuznyechikEnc};
use cipher::{BlockCipherDecrypt, BlockCipherEncrypt, KeyInit};
use core::arch::x86_64::*;
use refmodels::kuznyechik as r;

fn to_m(b: &[u8; 16]) -> __m128i {
    unsafe { core::mem::transmute::<[u8; 16], __m128i>(*b) }
}
fn from_m(v: __m128i) -> [u8; 16] {
    unsafe { core::mem::transmute::<__m128i, [u8; 16]>(v) }
}
fn pack(b: &[u8; 16]) -> u128 {
    u128::from_le_bytes(*b)
}
fn unpack(v: u128) -> [u8; 16] {
    v.to_le_bytes()
}

// S layer as an uninterpreted bijection pair on 128-bit words; natively the oracle's S / S^-1.
fn conc_s(x: u128) -> u128 {
    pack(&r::s(&unpack(x)))
}
fn conc_s_inv(x: u128) -> u128 {
    pack(&r::s_inv(&unpack(x)))
}
uf_bij!(uf_s, u128, [B0 B1], conc_s, conc_s_inv);

fn us(a: &[u8; 16]) -> [u8; 16] {
    unpack(uf_s::fwd(pack(a)))
}
fn us_inv(a: &[u8; 16]) -> [u8; 16] {
    unpack(uf_s::inv(pack(a)))
}
/// L S with S uninterpreted
fn uls(a: &[u8; 16]) -> [u8; 16] {
    r::l(&us(a))
}

pub unsafe fn stub_transform(block: __m128i, table: &Table) -> __m128i {
    let x = from_m(block);
    if core::ptr::eq(table, &ENC_TABLE) {
        to_m(&r::l(&us(&x)))
    } else {
        #[cfg(kani)]
        kani::assert(core::ptr::eq(table, &DEC_TABLE), "VERIF_STUB_TABLE");
        to_m(&r::l_inv(&us_inv(&x)))
    }
}
pub unsafe fn stub_sub_bytes(block: __m128i, sbox: &[u8; 256]) -> __m128i {
    let x = from_m(block);
    // P and P_INV are consts (no stable address): told apart by their first entry (pi(0) = 0xFC, pi^-1(0) = 0xA5)
    if sbox[0] == 0xFC {
        to_m(&us(&x))
    } else {
        #[cfg(kani)]
        kani::assert(sbox[0] == 0xA5, "VERIF_STUB_TABLE");
        to_m(&us_inv(&x))
    }
}

// ---------------------------------------------------------------------------------------------------------- leaves

//@ harness name=kuz_leaf_consts prop=C07,C20 tier=quick bits=16 est=60 desc="L: P[x] == pi(x), P_INV[x] == pi^-1(x), pi^-1(pi(x)) == x == pi(pi^-1(x)) for all bytes x; KEYGEN[i] == C_{i+1} = L(Vec128(i+1)) for symbolic i in 0..32 (field arithmetic of the oracle computed)"
verif_harness! {
    name: kuz_leaf_consts,
    bytes: 2,
    unwind: 20,
    prop: |inp| {
        let x = inp[0] as usize;
        vcheck!(P[x] == r::PI[x] && P_INV[x] == r::PI_INV[x]);
        vcheck!(r::PI_INV[r::PI[x] as usize] as usize == x && r::PI[r::PI_INV[x] as usize] as usize == x);
        let i = (inp[1] & 31) as usize;
        Some(KEYGEN[i].0 == r::c(i + 1))
    }
}

//@ harness name=kuz_leaf_sub_bytes prop=C07,C20 tier=quick bits=128 est=60 desc="L: sub_bytes(b, &P) == oracle S(b) and sub_bytes(b, &P_INV) == oracle S^-1(b) for all 2^128 b"
verif_harness! {
    name: kuz_leaf_sub_bytes,
    bytes: 16,
    unwind: 20,
    prop: |inp| {
        let b: [u8; 16] = take(inp, 0);
        vcheck!(from_m(unsafe { sub_bytes(to_m(&b), &P) }) == r::s(&b));
        Some(from_m(unsafe { sub_bytes(to_m(&b), &P_INV) }) == r::s_inv(&b))
    }
}

/// Row (position p, byte v) of a fused table: the 16 octets at offset 4096 p + 16 v.
fn row(t: &Table, p: usize, v: usize) -> [u8; 16] {
    let mut o = [0u8; 16];
    let mut k = 0;
    while k < 16 {
        o[k] = t.0[4096 * p + 16 * v + k];
        k += 1;
    }
    o
}

//@ harness name=kuz_leaf_rows prop=C07,C20 tier=quick bits=12 est=120 desc="L: every row of the fused tables: ENC_TABLE[p][v] == L(pi(v) at octet p, 0 elsewhere) and DEC_TABLE[p][v] == L^-1(pi^-1(v) at octet p, 0 elsewhere), position p and byte v symbolic (all 2 x 4096 rows)"
verif_harness! {
    name: kuz_leaf_rows,
    bytes: 2,
    unwind: 20,
    prop: |inp| {
        let p = (inp[0] & 15) as usize;
        let v = inp[1] as usize;
        let mut e = [0u8; 16];
        e[p] = r::PI[v];
        vcheck!(row(&ENC_TABLE, p, v) == r::l(&e));
        let mut d = [0u8; 16];
        d[p] = r::PI_INV[v];
        Some(row(&DEC_TABLE, p, v) == r::l_inv(&d))
    }
}

//@ harness name=kuz_leaf_transform_enc prop=C07,C20 tier=thorough bits=128 est=1000 desc="L: transform(b, &ENC_TABLE) == oracle L(S(b)) for all 2^128 b (sixteen symbolic-offset 128-bit loads from the 64 KiB table; alignment debug_assert included)"
verif_harness! {
    name: kuz_leaf_transform_enc,
    bytes: 16,
    unwind: 20,
    prop: |inp| {
        let b: [u8; 16] = take(inp, 0);
        Some(from_m(unsafe { transform(to_m(&b), &ENC_TABLE) }) == r::ls(&b))
    }
}

//@ harness name=kuz_leaf_transform_dec prop=C07,C20 tier=thorough bits=128 est=1000 desc="L: transform(b, &DEC_TABLE) == oracle L^-1(S^-1(b)) for all 2^128 b"
verif_harness! {
    name: kuz_leaf_transform_dec,
    bytes: 16,
    unwind: 20,
    prop: |inp| {
        let b: [u8; 16] = take(inp, 0);
        Some(from_m(unsafe { transform(to_m(&b), &DEC_TABLE) }) == r::l_inv(&r::s_inv(&b)))
    }
}

// ---------------------------------------------------------------------------------------------------------- wiring

//@ harness name=kuz_wire_enc prop=C07,C20 tier=quick bits=384 stub=1 est=300 desc="W: KuznyechikEnc::new(key).encrypt_block(b) == oracle key schedule (32 Feistel steps with C_1..C_32) + 9 LSX rounds + X, all 2^256 keys, all 2^128 blocks; S uninterpreted bijection, L the oracle's"
verif_harness! {
    name: kuz_wire_enc,
    bytes: 48,
    unwind: 20,
    stubs: [(crate::sse2::backends::transform, stub_transform), (crate::sse2::backends::sub_bytes, stub_sub_bytes)],
    prop: |inp| {
        let key: [u8; 32] = take(inp, 0);
        let blk: [u8; 16] = take(inp, 32);
        let c = KuznyechikEnc::new(&key.into());
        let mut b = blk.into();
        c.encrypt_block(&mut b);
        let rk = r::key_schedule_with(&key, uls);
        Some(b.0 == r::encrypt_with(&rk, &blk, uls))
    }
}

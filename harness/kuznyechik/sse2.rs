// Kuznyechik, default x86-64 configuration (sse2 back end): conformance of Kuznyechik / KuznyechikEnc / KuznyechikDec to
// GOST R 34.12-2015 (C07), round trips incl. KuznyechikEnc -> KuznyechikDec through the real From conversion (C01),
// no panic / overflow / misaligned load (C20).
//
// Leaves of this back end: `transform(b, &ENC_TABLE)` (= L S), `transform(b, &DEC_TABLE)` (= L^-1 S^-1), `sub_bytes`.
// L: the leaves vs the oracle (GF(2^8) arithmetic computed, L = R^16, pi as data).
// W: the real key expansion, `inv_enc_keys`, the real round loops and the From conversions, with the byte substitution
//    layer S an uninterpreted bijection pair on 128-bit words shared with the oracle and the linear map L the oracle's
//    (concrete) one: transform(., ENC) := L(S(.)), transform(., DEC) := L^-1(S^-1(.)), sub_bytes := S / S^-1.
//    Everything above the `stubs:` lines uses the public API only; the stubs and leaf lemmas are sse2-specific.
use super::prelude::*;
use crate::consts::{P, P_INV};
use crate::fused_tables::{Table, DEC_TABLE, ENC_TABLE};
use crate::sse2::backends::{expand_enc_keys, inv_enc_keys, sub_bytes, transform, RoundKeys};
use crate::utils::KEYGEN;
use crate::{Kuznyechik, KuznyechikDec, KuznyechikEnc};
use cipher::{BlockCipherDecrypt, BlockCipherEncrypt, KeyInit};
use core::arch::x86_64::*;
use refmodels::kuznyechik as r;

fn to_m(b: &[u8; 16]) -> __m128i {
    unsafe { core::mem::transmute::<[u8; 16], __m128i>(*b) }
}
fn from_m(v: __m128i) -> [u8; 16] {
    unsafe { core::mem::transmute::<__m128i, [u8; 16]>(v) }
}
fn pack(b: &[u8; 16]) -> u128 {
    u128::from_le_bytes(*b)
}
fn unpack(v: u128) -> [u8; 16] {
    v.to_le_bytes()
}

// S layer as an uninterpreted bijection pair on 128-bit words; natively the oracle's S / S^-1.
fn conc_s(x: u128) -> u128 {
    pack(&r::s(&unpack(x)))
}
fn conc_s_inv(x: u128) -> u128 {
    pack(&r::s_inv(&unpack(x)))
}
uf_bij!(uf_s, u128, [B0 B1], conc_s, conc_s_inv);

fn us(a: &[u8; 16]) -> [u8; 16] {
    unpack(uf_s::fwd(pack(a)))
}
fn us_inv(a: &[u8; 16]) -> [u8; 16] {
    unpack(uf_s::inv(pack(a)))
}
/// L S with S uninterpreted
fn uls(a: &[u8; 16]) -> [u8; 16] {
    r::l(&us(a))
}

pub unsafe fn stub_transform(block: __m128i, table: &Table) -> __m128i {
    let x = from_m(block);
    if core::ptr::eq(table, &ENC_TABLE) {
        to_m(&r::l(&us(&x)))
    } else {
        #[cfg(kani)]
        kani::assert(core::ptr::eq(table, &DEC_TABLE), "VERIF_STUB_TABLE");
        to_m(&r::l_inv(&us_inv(&x)))
    }
}
pub unsafe fn stub_sub_bytes(block: __m128i, sbox: &[u8; 256]) -> __m128i {
    let x = from_m(block);
    // P and P_INV are consts (no stable address): told apart by their first entry (pi(0) = 0xFC, pi^-1(0) = 0xA5)
    if sbox[0] == 0xFC {
        to_m(&us(&x))
    } else {
        #[cfg(kani)]
        kani::assert(sbox[0] == 0xA5, "VERIF_STUB_TABLE");
        to_m(&us_inv(&x))
    }
}

// ---------------------------------------------------------------------------------------------------------- leaves

//@ harness name=kuz_leaf_consts prop=C07,C20 tier=quick bits=16 est=60 desc="L: P[x] == pi(x), P_INV[x] == pi^-1(x), pi^-1(pi(x)) == x == pi(pi^-1(x)) for all bytes x; KEYGEN[i] == C_{i+1} = L(Vec128(i+1)) for symbolic i in 0..32 (field arithmetic of the oracle computed)"
verif_harness! {
    name: kuz_leaf_consts,
    bytes: 2,
    unwind: 20,
    prop: |inp| {
        let x = inp[0] as usize;
        vcheck!(P[x] == r::PI[x] && P_INV[x] == r::PI_INV[x]);
        vcheck!(r::PI_INV[r::PI[x] as usize] as usize == x && r::PI[r::PI_INV[x] as usize] as usize == x);
        let i = (inp[1] & 31) as usize;
        Some(KEYGEN[i].0 == r::c(i + 1))
    }
}

//@ harness name=kuz_leaf_sub_bytes prop=C07,C20 tier=quick bits=128 est=60 desc="L: sub_bytes(b, &P) == oracle S(b) and sub_bytes(b, &P_INV) == oracle S^-1(b) for all 2^128 b"
verif_harness! {
    name: kuz_leaf_sub_bytes,
    bytes: 16,
    unwind: 20,
    prop: |inp| {
        let b: [u8; 16] = take(inp, 0);
        vcheck!(from_m(unsafe { sub_bytes(to_m(&b), &P) }) == r::s(&b));
        Some(from_m(unsafe { sub_bytes(to_m(&b), &P_INV) }) == r::s_inv(&b))
    }
}

/// Address of row (position p, byte v) of a fused table: the 16 octets at offset 4096 p + 16 v.
fn row_ptr(t: &Table, p: usize, v: usize) -> *const __m128i {
    unsafe { t.0.as_ptr().add(4096 * p + 16 * v) as *const __m128i }
}

// transform(b, &ENC_TABLE) == L(S(b)) as ONE query over 128 bits does not fit (sixteen 128-bit loads at symbolic
// offsets from a constant 64 KiB array: CBMC needed > 24 GB; with symbolic table contents > 14 GB).  It is obtained
// from three solver-checked lemmas:
//   (rows)   kuz_leaf_rows:           _mm_load_si128(&T[4096 p + 16 v]) == L(pi(v) e_p)  for all rows of the real tables,
//                                     read with the same load intrinsic that transform uses
//   (flow)   kuz_leaf_transform_flow: transform(b, &T) == XOR_p load(&T[4096 p + 16 b_p]) for all b, both tables, with the
//                                     load an uninterpreted function of the address (the sixteen loads happen at
//                                     exactly the row addresses selected by the sixteen octets, and are XORed)
//   (linear) kuz_oracle_linear:       L(s) == XOR_p L(s_p e_p)                           for all s (same for L^-1)
// hence transform(b, &ENC_TABLE) = XOR_p L(pi(b_p) e_p) = L(S(b)), and likewise for DEC_TABLE with L^-1, pi^-1.

//@ harness name=kuz_leaf_rows prop=C07,C20 tier=quick bits=12 est=200 desc="L: every row of the fused tables, read with _mm_load_si128 at &T[4096 p + 16 v]: ENC_TABLE row == L(pi(v) at octet p, 0 elsewhere) and DEC_TABLE row == L^-1(pi^-1(v) at octet p, 0 elsewhere), position p and byte v symbolic (all 2 x 4096 rows)"
verif_harness! {
    name: kuz_leaf_rows,
    bytes: 2,
    unwind: 20,
    prop: |inp| {
        let p = (inp[0] & 15) as usize;
        let v = inp[1] as usize;
        let mut e = [0u8; 16];
        e[p] = r::PI[v];
        vcheck!(from_m(unsafe { _mm_load_si128(row_ptr(&ENC_TABLE, p, v)) }) == r::l(&e));
        let mut d = [0u8; 16];
        d[p] = r::PI_INV[v];
        Some(from_m(unsafe { _mm_load_si128(row_ptr(&DEC_TABLE, p, v)) }) == r::l_inv(&d))
    }
}

/// Natively: the 16 octets at the address.
fn conc_load(a: usize) -> u128 {
    unsafe { core::ptr::read_unaligned(a as *const u128) }
}
uf1!(uf_load, usize, u128, [B0], conc_load);
pub unsafe fn stub_load(p: *const __m128i) -> __m128i {
    core::mem::transmute::<u128, __m128i>(uf_load::call(p as usize))
}

//@ harness name=kuz_leaf_transform_flow prop=C07,C20 tier=quick bits=129 stub=1 est=100 desc="L: data flow of transform for all 2^128 b and both tables: transform(b, &T) == XOR over octet positions p of load(&T[4096 p + 16 b_p]), the 128-bit load being an uninterpreted function of its address; includes the alignment debug_assert and the in-bounds pointer arithmetic of all sixteen loads"
verif_harness! {
    name: kuz_leaf_transform_flow,
    bytes: 17,
    unwind: 70,
    stubs: [(core::arch::x86_64::_mm_load_si128, stub_load)],
    prop: |inp| {
        let b: [u8; 16] = take(inp, 0);
        let tab: &Table = if inp[16] & 1 == 0 { &ENC_TABLE } else { &DEC_TABLE };
        let got = from_m(unsafe { transform(to_m(&b), tab) });
        let mut exp = 0u128;
        let mut p = 0;
        while p < 16 {
            exp ^= uf_load::call(row_ptr(tab, p, b[p] as usize) as usize);
            p += 1;
        }
        Some(got == from_m(unsafe { core::mem::transmute::<u128, __m128i>(exp) }))
    }
}

fn xor_into(acc: &mut [u8; 16], v: &[u8; 16]) {
    let mut k = 0;
    while k < 16 {
        acc[k] ^= v[k];
        k += 1;
    }
}

//@ harness name=kuz_oracle_linear prop=C07 tier=quick bits=128 est=300 desc="L (oracle only): L(s) == XOR_p L(s_p at octet p, 0 elsewhere) and the same for L^-1, for all 2^128 s: the octet-wise decomposition that fused tables rely on"
verif_harness! {
    name: kuz_oracle_linear,
    bytes: 16,
    unwind: 20,
    prop: |inp| {
        let s: [u8; 16] = take(inp, 0);
        let mut a = [0u8; 16];
        let mut d = [0u8; 16];
        let mut p = 0;
        while p < 16 {
            let mut e = [0u8; 16];
            e[p] = s[p];
            xor_into(&mut a, &r::l(&e));
            xor_into(&mut d, &r::l_inv(&e));
            p += 1;
        }
        vcheck!(a == r::l(&s));
        Some(d == r::l_inv(&s))
    }
}

// ---------------------------------------------------------------------------------------------------------- wiring

//@ harness name=kuz_wire_enc prop=C07,C20 tier=quick bits=384 stub=1 est=300 desc="W: KuznyechikEnc::new(key).encrypt_block(b) == oracle key schedule (32 Feistel steps with C_1..C_32) + 9 LSX rounds + X, all 2^256 keys, all 2^128 blocks; S uninterpreted bijection, L the oracle's"
verif_harness! {
    name: kuz_wire_enc,
    bytes: 48,
    unwind: 70,
    stubs: [(crate::sse2::backends::transform, stub_transform), (crate::sse2::backends::sub_bytes, stub_sub_bytes)],
    prop: |inp| {
        let key: [u8; 32] = take(inp, 0);
        let blk: [u8; 16] = take(inp, 32);
        let c = KuznyechikEnc::new(&key.into());
        let mut b = blk.into();
        c.encrypt_block(&mut b);
        let rk = r::key_schedule_with(&key, uls);
        Some(b.0 == r::encrypt_with(&rk, &blk, uls))
    }
}

/// An encryption-only instance over ARBITRARY round keys K1..K10 (superset of the states KeyInit::new produces).
fn enc_of_rk(inp: &[u8], off: usize) -> (KuznyechikEnc, [[u8; 16]; 10]) {
    let mut rk = [[0u8; 16]; 10];
    let mut m: RoundKeys = [to_m(&[0u8; 16]); 10];
    let mut i = 0;
    while i < 10 {
        rk[i] = take(inp, off + 16 * i);
        m[i] = to_m(&rk[i]);
        i += 1;
    }
    (unsafe { core::mem::transmute::<RoundKeys, KuznyechikEnc>(m) }, rk)
}

//@ harness name=kuz_wire_keys prop=C07,C20 tier=quick bits=256 stub=1 est=200 desc="W: round keys of KuznyechikEnc::new(key) (expand_enc_keys) == oracle K1..K10 (Feistel key schedule with C_1..C_32), all 2^256 keys"
verif_harness! {
    name: kuz_wire_keys,
    bytes: 32,
    unwind: 70,
    stubs: [(crate::sse2::backends::transform, stub_transform), (crate::sse2::backends::sub_bytes, stub_sub_bytes)],
    prop: |inp| {
        let key: [u8; 32] = take(inp, 0);
        let c = KuznyechikEnc::new(&key.into());
        let m = unsafe { core::mem::transmute::<KuznyechikEnc, RoundKeys>(c) };
        let rk = r::key_schedule_with(&key, uls);
        let mut i = 0;
        while i < 10 {
            vcheck!(from_m(m[i]) == rk[i]);
            i += 1;
        }
        Some(true)
    }
}

//@ harness name=kuz_wire_enc_rk prop=C07,C20 tier=quick bits=1408 stub=1 est=100 desc="W: KuznyechikEnc over arbitrary round keys: encrypt_block(b) == oracle E (9 LSX rounds + X), all round keys, all blocks"
verif_harness! {
    name: kuz_wire_enc_rk,
    bytes: 160 + 16,
    unwind: 70,
    stubs: [(crate::sse2::backends::transform, stub_transform), (crate::sse2::backends::sub_bytes, stub_sub_bytes)],
    prop: |inp| {
        let (c, rk) = enc_of_rk(inp, 0);
        let blk: [u8; 16] = take(inp, 160);
        let mut b = blk.into();
        c.encrypt_block(&mut b);
        Some(b.0 == r::encrypt_with(&rk, &blk, uls))
    }
}

//@ harness name=kuz_wire_dec_rk prop=C07,C20 tier=quick bits=1408 stub=1 est=600 desc="W: KuznyechikDec::from(enc) over arbitrary encryption round keys (real inv_enc_keys): decrypt_block(b) == oracle D = X[K1] S^-1 L^-1 X[K2] ... S^-1 L^-1 X[K10], all round keys, all blocks (the pre-transformed keys L^-1(K_i) need the linearity of L^-1, decided by the solver on the oracle's L^-1)"
verif_harness! {
    name: kuz_wire_dec_rk,
    bytes: 160 + 16,
    unwind: 70,
    stubs: [(crate::sse2::backends::transform, stub_transform), (crate::sse2::backends::sub_bytes, stub_sub_bytes)],
    prop: |inp| {
        let (c, rk) = enc_of_rk(inp, 0);
        let blk: [u8; 16] = take(inp, 160);
        let d = KuznyechikDec::from(c);
        let mut b = blk.into();
        d.decrypt_block(&mut b);
        Some(b.0 == r::decrypt_with(&rk, &blk, us_inv, r::l_inv))
    }
}

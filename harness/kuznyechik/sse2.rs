// Kuznyechik, default x86-64 configuration (sse2 back end): conformance of Kuznyechik / KuznyechikEnc / KuznyechikDec to
// GOST R 34.12-2015 (C07), agreement of every conversion route and clone (C12), back-end independence via the common
// oracle (C03), round trips incl. KuznyechikEnc -> KuznyechikDec through the real From conversions (C01), no panic /
// overflow / misaligned or out-of-bounds load (C20).
//
// Leaves of this back end: `transform(b, &ENC_TABLE)` (= L S), `transform(b, &DEC_TABLE)` (= L^-1 S^-1), `sub_bytes`.
// L: the leaves vs the oracle.  transform == L S as ONE query over 128 bits does not fit (sixteen 128-bit loads at
//    symbolic offsets from a constant 64 KiB array: CBMC needed > 24 GB; with symbolic table contents > 14 GB).  It is
//    obtained from solver-checked lemmas:
//      (rows)   kuz_leaf_rows:           _mm_load_si128(&T[4096 p + 16 v]) == L(pi(v) e_p)   all rows of the real tables, read
//                                        with the load intrinsic that transform uses (resp. L^-1(pi^-1(v) e_p) for DEC_TABLE)
//      (flow)   kuz_leaf_transform_flow: transform(b, &T) == XOR_p load(&T[4096 p + 16 b_p]) all b, both tables, the load an
//                                        uninterpreted function of the address
//      (linear) kz_common::kuz_lin_l / kuz_lin_linv: L and L^-1 are GF(2)-linear, hence L(s) = XOR_p L(s_p e_p)
//    so transform(b, &ENC_TABLE) = XOR_p L(pi(b_p) e_p) = L(S(b)), and likewise for DEC_TABLE.
// W: see kz_common.rs; here: the stubs and one harness per route.
use super::kz_common::{self as k, Route};
use super::prelude::*;
use crate::consts::{P, P_INV};
use crate::fused_tables::{Table, DEC_TABLE, ENC_TABLE};
use crate::sse2::backends::{sub_bytes, transform};
use crate::utils::KEYGEN;
use core::arch::x86_64::*;
use refmodels::kuznyechik as r;

fn to_m(b: &[u8; 16]) -> __m128i {
    unsafe { core::mem::transmute::<[u8; 16], __m128i>(*b) }
}
fn from_m(v: __m128i) -> [u8; 16] {
    unsafe { core::mem::transmute::<__m128i, [u8; 16]>(v) }
}

pub unsafe fn stub_transform(block: __m128i, table: &Table) -> __m128i {
    let x = from_m(block);
    if core::ptr::eq(table, &ENC_TABLE) {
        to_m(&k::ul(&k::us(&x)))
    } else {
        #[cfg(kani)]
        kani::assert(core::ptr::eq(table, &DEC_TABLE), "VERIF_STUB_TABLE");
        to_m(&k::uli(&k::usi(&x)))
    }
}
pub unsafe fn stub_sub_bytes(block: __m128i, sbox: &[u8; 256]) -> __m128i {
    let x = from_m(block);
    // P and P_INV are consts (no stable address): told apart by their first entry (pi(0) = 0xFC, pi^-1(0) = 0xA5)
    if sbox[0] == 0xFC {
        to_m(&k::us(&x))
    } else {
        #[cfg(kani)]
        kani::assert(sbox[0] == 0xA5, "VERIF_STUB_TABLE");
        to_m(&k::usi(&x))
    }
}

/// key schedule harness: transform(., &ENC_TABLE) := the single uninterpreted function LS (no other use of transform there)
pub unsafe fn stub_transform_ls(block: __m128i, table: &Table) -> __m128i {
    #[cfg(kani)]
    kani::assert(core::ptr::eq(table, &ENC_TABLE), "VERIF_STUB_TABLE");
    let _ = table;
    to_m(&k::uls1(&from_m(block)))
}

// ---------------------------------------------------------------------------------------------------------- leaves

//@ harness name=kuz_leaf_consts prop=C07,C20 tier=quick bits=16 est=30 desc="L: P[x] == pi(x), P_INV[x] == pi^-1(x), pi^-1(pi(x)) == x == pi(pi^-1(x)) for all octets x; KEYGEN[i] == C_{i+1} = L(Vec128(i+1)) for symbolic i in 0..32 (field arithmetic of the oracle computed)"
verif_harness! {
    name: kuz_leaf_consts,
    bytes: 2,
    unwind: 20,
    prop: |inp| {
        let x = inp[0] as usize;
        vcheck!(P[x] == r::PI[x] && P_INV[x] == r::PI_INV[x]);
        vcheck!(r::PI_INV[r::PI[x] as usize] as usize == x && r::PI[r::PI_INV[x] as usize] as usize == x);
        let i = (inp[1] & 31) as usize;
        Some(KEYGEN[i].0 == r::c(i + 1))
    }
}

//@ harness name=kuz_leaf_sub_bytes prop=C07,C20 tier=quick bits=128 quick=C20 est=25 desc="L: sub_bytes(b, &P) == oracle S(b) and sub_bytes(b, &P_INV) == oracle S^-1(b) for all 2^128 b"
verif_harness! {
    name: kuz_leaf_sub_bytes,
    bytes: 16,
    unwind: 20,
    prop: |inp| {
        let b: [u8; 16] = take(inp, 0);
        vcheck!(from_m(unsafe { sub_bytes(to_m(&b), &P) }) == r::s(&b));
        Some(from_m(unsafe { sub_bytes(to_m(&b), &P_INV) }) == r::s_inv(&b))
    }
}

/// Address of row (position p, octet v) of a fused table: the 16 octets at offset 4096 p + 16 v.
fn row_ptr(t: &Table, p: usize, v: usize) -> *const __m128i {
    unsafe { t.0.as_ptr().add(4096 * p + 16 * v) as *const __m128i }
}

//@ harness name=kuz_leaf_rows prop=C07,C20 tier=thorough bits=12 est=644 desc="L: every row of the fused tables, read with _mm_load_si128 at &T[4096 p + 16 v]: ENC_TABLE row == L(pi(v) at octet p, 0 elsewhere) and DEC_TABLE row == L^-1(pi^-1(v) at octet p, 0 elsewhere), position p and octet v symbolic (all 2 x 4096 rows)"
verif_harness! {
    name: kuz_leaf_rows,
    bytes: 2,
    unwind: 20,
    prop: |inp| {
        let p = (inp[0] & 15) as usize;
        let v = inp[1] as usize;
        let mut e = [0u8; 16];
        e[p] = r::PI[v];
        vcheck!(from_m(unsafe { _mm_load_si128(row_ptr(&ENC_TABLE, p, v)) }) == r::l(&e));
        let mut d = [0u8; 16];
        d[p] = r::PI_INV[v];
        Some(from_m(unsafe { _mm_load_si128(row_ptr(&DEC_TABLE, p, v)) }) == r::l_inv(&d))
    }
}

/// Natively: the 16 octets at the address.
fn conc_load(a: usize) -> u128 {
    unsafe { core::ptr::read_unaligned(a as *const u128) }
}
uf1!(uf_load, usize, u128, [B0], conc_load);
pub unsafe fn stub_load(p: *const __m128i) -> __m128i {
    core::mem::transmute::<u128, __m128i>(uf_load::call(p as usize))
}

//@ harness name=kuz_leaf_transform_flow prop=C07,C20 tier=quick bits=129 stub=1 quick=C20 est=50 desc="L: data flow of transform for all 2^128 b and both tables: transform(b, &T) == XOR over octet positions p of load(&T[4096 p + 16 b_p]), the 128-bit load being an uninterpreted function of its address; includes the alignment debug_assert and the in-bounds pointer arithmetic of all sixteen loads"
verif_harness! {
    name: kuz_leaf_transform_flow,
    bytes: 17,
    unwind: 70,
    stubs: [(core::arch::x86_64::_mm_load_si128, stub_load)],
    prop: |inp| {
        let b: [u8; 16] = take(inp, 0);
        let tab: &Table = if inp[16] & 1 == 0 { &ENC_TABLE } else { &DEC_TABLE };
        let got = from_m(unsafe { transform(to_m(&b), tab) });
        let mut exp = 0u128;
        let mut p = 0;
        while p < 16 {
            exp ^= uf_load::call(row_ptr(tab, p, b[p] as usize) as usize);
            p += 1;
        }
        Some(got == from_m(unsafe { core::mem::transmute::<u128, __m128i>(exp) }))
    }
}

// ---------------------------------------------------------------------------------------------------------- key schedule

//@ harness name=kuz_sse2_keys prop=C07,C20 tier=quick bits=256 stub=1 quick=C20 est=80 desc="W: round keys of KuznyechikEnc::new(key) (sse2 expand_enc_keys, incl. the aligned loads of KEYGEN) == oracle K1..K10 (Feistel key schedule with the computed C_1..C_32) for all 2^256 keys; transform(., &ENC_TABLE) and the oracle's L S are ONE uninterpreted function (32 applications per side); the oracle's C_i come from the compile-time table (lemma kuz_oracle_consts)"
verif_harness! {
    name: kuz_sse2_keys,
    bytes: 32,
    unwind: 70,
    stubs: [(crate::sse2::backends::transform, stub_transform_ls), (refmodels::kuznyechik::c, k::stub_c)],
    prop: |inp| { k::w_keys(inp) }
}

// ---------------------------------------------------------------------------------------------------------- wiring: encryption
// transform / sub_bytes := S, L uninterpreted inverse pairs (kz_common); arbitrary round keys (a superset of the key schedule's
// outputs): with kuz_sse2_keys this is conformance for all keys.

//@ harness name=kuz_sse2_enc_rk prop=C07,C03,C12,C20 tier=quick bits=1408 stub=1 quick=C03 est=40 desc="W: KuznyechikEnc over arbitrary round keys: encrypt_block == oracle E (9 LSX rounds + X), all round keys, all blocks"
verif_harness! {
    name: kuz_sse2_enc_rk,
    bytes: 160 + 16,
    unwind: 70,
    stubs: [(crate::sse2::backends::transform, stub_transform), (crate::sse2::backends::sub_bytes, stub_sub_bytes)],
    prop: |inp| { k::w_enc_rk(inp, Route::Enc) }
}
//@ harness name=kuz_sse2_enc_rk_clone prop=C12,C20 tier=thorough bits=1408 stub=1 est=27 desc="W: clone of a KuznyechikEnc: encrypt_block == oracle E, all round keys, all blocks"
verif_harness! {
    name: kuz_sse2_enc_rk_clone,
    bytes: 160 + 16,
    unwind: 70,
    stubs: [(crate::sse2::backends::transform, stub_transform), (crate::sse2::backends::sub_bytes, stub_sub_bytes)],
    prop: |inp| { k::w_enc_rk(inp, Route::EncClone) }
}
//@ harness name=kuz_sse2_enc_rk_val prop=C12,C03,C20 tier=thorough bits=1408 stub=1 est=50 desc="W: Kuznyechik::from(enc) (by value; runs the real inv_enc_keys too): encrypt_block == oracle E, all round keys, all blocks"
verif_harness! {
    name: kuz_sse2_enc_rk_val,
    bytes: 160 + 16,
    unwind: 70,
    stubs: [(crate::sse2::backends::transform, stub_transform), (crate::sse2::backends::sub_bytes, stub_sub_bytes)],
    prop: |inp| { k::w_enc_rk(inp, Route::Val) }
}
//@ harness name=kuz_sse2_enc_rk_ref prop=C12,C03,C20 tier=quick bits=1408 stub=1 est=55 desc="W: Kuznyechik::from(&enc) (by reference): encrypt_block == oracle E, all round keys, all blocks"
verif_harness! {
    name: kuz_sse2_enc_rk_ref,
    bytes: 160 + 16,
    unwind: 70,
    stubs: [(crate::sse2::backends::transform, stub_transform), (crate::sse2::backends::sub_bytes, stub_sub_bytes)],
    prop: |inp| { k::w_enc_rk(inp, Route::Ref) }
}
//@ harness name=kuz_sse2_enc_rk_refclone prop=C12,C20 tier=thorough bits=1408 stub=1 est=50 desc="W: Kuznyechik::from(&enc).clone(): encrypt_block == oracle E, all round keys, all blocks"
verif_harness! {
    name: kuz_sse2_enc_rk_refclone,
    bytes: 160 + 16,
    unwind: 70,
    stubs: [(crate::sse2::backends::transform, stub_transform), (crate::sse2::backends::sub_bytes, stub_sub_bytes)],
    prop: |inp| { k::w_enc_rk(inp, Route::RefClone) }
}
//@ harness name=kuz_sse2_par4 prop=C04,C20 tier=thorough bits=1792 stub=1 est=315 need=9 desc="W: KuznyechikEnc::encrypt_blocks on 4 blocks (exactly one 4-wide encrypt_par_blocks batch of the sse2 back end) == four encrypt_block calls on the same instance, all four output blocks; arbitrary round keys, all block contents"
verif_harness! {
    name: kuz_sse2_par4,
    bytes: 160 + 64,
    unwind: 70,
    stubs: [(crate::sse2::backends::transform, stub_transform), (crate::sse2::backends::sub_bytes, stub_sub_bytes)],
    prop: |inp| { k::w_par_enc::<4>(inp) }
}
//@ harness name=kuz_sse2_par5 prop=C04,C20 tier=thorough bits=1920 stub=1 est=469 need=10 desc="W: KuznyechikEnc::encrypt_blocks on 5 blocks (one 4-wide batch + a tail of one) == five encrypt_block calls; arbitrary round keys, all block contents"
verif_harness! {
    name: kuz_sse2_par5,
    bytes: 160 + 80,
    unwind: 70,
    stubs: [(crate::sse2::backends::transform, stub_transform), (crate::sse2::backends::sub_bytes, stub_sub_bytes)],
    prop: |inp| { k::w_par_enc::<5>(inp) }
}

// ---------------------------------------------------------------------------------------------------------- wiring: decryption
// Decryption keys come from the REAL inv_enc_keys applied to arbitrary encryption round keys (through the real From
// conversions); the result must be the standard's D over the encryption round keys.  Assumed: the eight instances of the
// linearity of L^-1 that the pre-transformed keys rely on (kz_common::lin_instances, lemma kuz_lin_linv).

//@ harness name=kuz_sse2_dec_rk_val prop=C07,C03,C12,C20 tier=quick bits=1408 stub=1 quick=C03 est=205 need=6 desc="W: KuznyechikDec::from(enc) (by value, real inv_enc_keys) over arbitrary encryption round keys: decrypt_block == oracle D = X[K1] S^-1 L^-1 X[K2] ... S^-1 L^-1 X[K10], all round keys, all blocks (linearity instances of L^-1 assumed, lemma kuz_lin_linv)"
verif_harness! {
    name: kuz_sse2_dec_rk_val,
    bytes: 160 + 16,
    unwind: 70,
    stubs: [(crate::sse2::backends::transform, stub_transform), (crate::sse2::backends::sub_bytes, stub_sub_bytes)],
    prop: |inp| { k::w_dec_rk(inp, Route::Val, false, true) }
}
//@ harness name=kuz_sse2_dec_rk_ref prop=C12,C07,C03,C20 tier=quick bits=1408 stub=1 est=165 need=6 desc="W: KuznyechikDec::from(&enc) (by reference): decrypt_block == oracle D, all round keys, all blocks (linearity instances of L^-1 assumed, lemma kuz_lin_linv)"
verif_harness! {
    name: kuz_sse2_dec_rk_ref,
    bytes: 160 + 16,
    unwind: 70,
    stubs: [(crate::sse2::backends::transform, stub_transform), (crate::sse2::backends::sub_bytes, stub_sub_bytes)],
    prop: |inp| { k::w_dec_rk(inp, Route::Ref, false, true) }
}
//@ harness name=kuz_sse2_dec_rk_refclone prop=C12,C20 tier=thorough bits=1408 stub=1 est=217 desc="W: KuznyechikDec::from(&enc).clone(): decrypt_block == oracle D, all round keys, all blocks (linearity instances of L^-1 assumed, lemma kuz_lin_linv)"
verif_harness! {
    name: kuz_sse2_dec_rk_refclone,
    bytes: 160 + 16,
    unwind: 70,
    stubs: [(crate::sse2::backends::transform, stub_transform), (crate::sse2::backends::sub_bytes, stub_sub_bytes)],
    prop: |inp| { k::w_dec_rk(inp, Route::RefClone, false, true) }
}
//@ harness name=kuz_sse2_both_dec_rk_val prop=C07,C03,C12,C20 tier=thorough bits=1408 stub=1 est=161 desc="W: Kuznyechik::from(enc) (by value): decrypt_block == oracle D, all round keys, all blocks (linearity instances of L^-1 assumed, lemma kuz_lin_linv)"
verif_harness! {
    name: kuz_sse2_both_dec_rk_val,
    bytes: 160 + 16,
    unwind: 70,
    stubs: [(crate::sse2::backends::transform, stub_transform), (crate::sse2::backends::sub_bytes, stub_sub_bytes)],
    prop: |inp| { k::w_dec_rk(inp, Route::Val, true, true) }
}
//@ harness name=kuz_sse2_both_dec_rk_ref prop=C12,C07,C03,C20 tier=quick bits=1408 stub=1 est=170 need=6 desc="W: Kuznyechik::from(&enc) (by reference): decrypt_block == oracle D, all round keys, all blocks (linearity instances of L^-1 assumed, lemma kuz_lin_linv)"
verif_harness! {
    name: kuz_sse2_both_dec_rk_ref,
    bytes: 160 + 16,
    unwind: 70,
    stubs: [(crate::sse2::backends::transform, stub_transform), (crate::sse2::backends::sub_bytes, stub_sub_bytes)],
    prop: |inp| { k::w_dec_rk(inp, Route::Ref, true, true) }
}
//@ harness name=kuz_sse2_both_dec_rk_refclone prop=C12,C20 tier=thorough bits=1408 stub=1 est=156 desc="W: Kuznyechik::from(&enc).clone(): decrypt_block == oracle D, all round keys, all blocks (linearity instances of L^-1 assumed, lemma kuz_lin_linv)"
verif_harness! {
    name: kuz_sse2_both_dec_rk_refclone,
    bytes: 160 + 16,
    unwind: 70,
    stubs: [(crate::sse2::backends::transform, stub_transform), (crate::sse2::backends::sub_bytes, stub_sub_bytes)],
    prop: |inp| { k::w_dec_rk(inp, Route::RefClone, true, true) }
}

// ---------------------------------------------------------------------------------------------------------- round trips

//@ harness name=kuz_sse2_rt_enc_dec prop=C01,C20 tier=thorough bits=1408 stub=1 est=179 desc="W: KuznyechikEnc encrypts, KuznyechikDec::from(&enc) decrypts: result == b, arbitrary round keys, all blocks (S, L uninterpreted inverse pairs) (linearity instances of L^-1 assumed, lemma kuz_lin_linv)"
verif_harness! {
    name: kuz_sse2_rt_enc_dec,
    bytes: 160 + 16,
    unwind: 70,
    stubs: [(crate::sse2::backends::transform, stub_transform), (crate::sse2::backends::sub_bytes, stub_sub_bytes)],
    prop: |inp| { k::w_roundtrip_rk(inp, 0, true) }
}
//@ harness name=kuz_sse2_rt_ed prop=C01,C20 tier=quick bits=1408 stub=1 est=230 need=5 desc="W: Kuznyechik::from(&enc): dec(enc(b)) == b, arbitrary round keys, all blocks (S, L uninterpreted inverse pairs) (linearity instances of L^-1 assumed, lemma kuz_lin_linv)"
verif_harness! {
    name: kuz_sse2_rt_ed,
    bytes: 160 + 16,
    unwind: 70,
    stubs: [(crate::sse2::backends::transform, stub_transform), (crate::sse2::backends::sub_bytes, stub_sub_bytes)],
    prop: |inp| { k::w_roundtrip_rk(inp, 1, true) }
}
//@ harness name=kuz_sse2_rt_de prop=C01,C20 tier=thorough bits=1408 stub=1 est=194 desc="W: Kuznyechik::from(&enc): enc(dec(b)) == b, arbitrary round keys, all blocks (S, L uninterpreted inverse pairs) (linearity instances of L^-1 assumed, lemma kuz_lin_linv)"
verif_harness! {
    name: kuz_sse2_rt_de,
    bytes: 160 + 16,
    unwind: 70,
    stubs: [(crate::sse2::backends::transform, stub_transform), (crate::sse2::backends::sub_bytes, stub_sub_bytes)],
    prop: |inp| { k::w_roundtrip_rk(inp, 2, true) }
}

// Kuznyechik, kuznyechik_backend="soft" (big_soft back end: 64 KiB fused tables read as [[u128; 256]; 16]): conformance to
// GOST R 34.12-2015 (C07), conversion routes and clones (C12), back-end independence via the common oracle (C03), round
// trips (C01), no panic / overflow / out-of-bounds table read (C20).  Mirrors sse2.rs; see kz_common.rs for the W shape.
//
// Leaves: `transform(b: u128, &ENC_TABLE)` (= L S), `transform(b, &DEC_TABLE)` (= L^-1 S^-1), `sub_bytes(b: u128, sbox)`.
// L: rows of the tables read exactly as transform reads them (pointer cast to [[u128; 256]; 16]) vs the oracle
//    (kuz_soft_leaf_rows); transform on every word with ONE arbitrary octet and fifteen zero octets vs L S of the oracle
//    (kuz_soft_leaf_transform_pos: which table, which row, which lane, XOR accumulation); the general 128-bit statement
//    then follows from the loop having no cross-octet data flow (one `res ^= table[i][block[i]]` per octet) and the
//    linearity of L (kz_common::kuz_lin_l).  The 128-bit query itself needs sixteen symbolic-index 128-bit reads of a
//    constant 64 KiB array and does not fit in memory (measured on the sse2 twin: > 24 GB).
use super::kz_common::{self as k, Route};
use super::prelude::*;
use crate::big_soft::backends::{sub_bytes, transform};
use crate::consts::{P, P_INV};
use crate::fused_tables::{Table, DEC_TABLE, ENC_TABLE};
use crate::utils::KEYGEN;
use refmodels::kuznyechik as r;

pub fn stub_transform(block: u128, table: &Table) -> u128 {
    let x = block.to_le_bytes();
    if core::ptr::eq(table, &ENC_TABLE) {
        u128::from_le_bytes(k::ul(&k::us(&x)))
    } else {
        #[cfg(kani)]
        kani::assert(core::ptr::eq(table, &DEC_TABLE), "VERIF_STUB_TABLE");
        u128::from_le_bytes(k::uli(&k::usi(&x)))
    }
}
pub fn stub_sub_bytes(block: u128, sbox: &[u8; 256]) -> u128 {
    let x = block.to_le_bytes();
    // P and P_INV are consts (no stable address): told apart by their first entry (pi(0) = 0xFC, pi^-1(0) = 0xA5)
    if sbox[0] == 0xFC {
        u128::from_le_bytes(k::us(&x))
    } else {
        #[cfg(kani)]
        kani::assert(sbox[0] == 0xA5, "VERIF_STUB_TABLE");
        u128::from_le_bytes(k::usi(&x))
    }
}

// ---------------------------------------------------------------------------------------------------------- leaves

//@ harness name=kuz_soft_leaf_consts prop=C07,C20 tier=thorough bits=16 est=60 desc="L: P[x] == pi(x), P_INV[x] == pi^-1(x) for all octets x; KEYGEN[i] == C_{i+1} = L(Vec128(i+1)) for symbolic i in 0..32"
verif_harness! {
    name: kuz_soft_leaf_consts,
    bytes: 2,
    unwind: 20,
    prop: |inp| {
        let x = inp[0] as usize;
        vcheck!(P[x] == r::PI[x] && P_INV[x] == r::PI_INV[x]);
        let i = (inp[1] & 31) as usize;
        Some(KEYGEN[i].0 == r::c(i + 1))
    }
}

//@ harness name=kuz_soft_leaf_sub_bytes prop=C07,C20 tier=thorough bits=128 est=30 desc="L: sub_bytes(b, &P) == oracle S(b) and sub_bytes(b, &P_INV) == oracle S^-1(b) for all 2^128 b (u128 little-endian view)"
verif_harness! {
    name: kuz_soft_leaf_sub_bytes,
    bytes: 16,
    unwind: 20,
    prop: |inp| {
        let b: [u8; 16] = take(inp, 0);
        vcheck!(sub_bytes(u128::from_le_bytes(b), &P).to_le_bytes() == r::s(&b));
        Some(sub_bytes(u128::from_le_bytes(b), &P_INV).to_le_bytes() == r::s_inv(&b))
    }
}

/// The table as transform views it.
fn view(t: &Table) -> &[[u128; 256]; 16] {
    unsafe { &*(t.0.as_ptr().cast()) }
}

//@ harness name=kuz_soft_leaf_rows prop=C07,C20 tier=thorough bits=12 est=250 desc="L: every row of the fused tables in the [[u128; 256]; 16] view: ENC_TABLE[p][v] == L(pi(v) at octet p, 0 elsewhere), DEC_TABLE[p][v] == L^-1(pi^-1(v) at octet p, 0 elsewhere), p and v symbolic (all 2 x 4096 rows)"
verif_harness! {
    name: kuz_soft_leaf_rows,
    bytes: 2,
    unwind: 20,
    prop: |inp| {
        let p = (inp[0] & 15) as usize;
        let v = inp[1] as usize;
        let mut e = [0u8; 16];
        e[p] = r::PI[v];
        vcheck!(view(&ENC_TABLE)[p][v].to_le_bytes() == r::l(&e));
        let mut d = [0u8; 16];
        d[p] = r::PI_INV[v];
        Some(view(&DEC_TABLE)[p][v].to_le_bytes() == r::l_inv(&d))
    }
}

//@ harness name=kuz_soft_leaf_transform_pos prop=C07,C20 tier=thorough bits=9 est=2000 cap=7200 desc="L: transform on every word with one arbitrary octet v at position p (p = 0..15 in turn) and zero elsewhere, both tables: == oracle L(S(.)) resp. L^-1(S^-1(.)) -- table, row, lane and XOR accumulation of every loop iteration"
verif_harness! {
    name: kuz_soft_leaf_transform_pos,
    bytes: 2,
    unwind: 20,
    prop: |inp| {
        let v = inp[0];
        let dec = inp[1] & 1 == 1;
        let mut p = 0;
        while p < 16 {
            let mut b = [0u8; 16];
            b[p] = v;
            if dec {
                vcheck!(transform(u128::from_le_bytes(b), &DEC_TABLE).to_le_bytes() == r::l_inv(&r::s_inv(&b)));
            } else {
                vcheck!(transform(u128::from_le_bytes(b), &ENC_TABLE).to_le_bytes() == r::ls(&b));
            }
            p += 1;
        }
        Some(true)
    }
}

// ---------------------------------------------------------------------------------------------------------- wiring: encryption

//@ harness name=kuz_soft_keys prop=C07,C20 tier=thorough bits=256 stub=1 est=120 mem=30 cap=3600 desc="W: round keys of KuznyechikEnc::new(key) (big_soft expand_enc_keys) == oracle K1..K10 (Feistel key schedule with C_1..C_32), all 2^256 keys"
verif_harness! {
    name: kuz_soft_keys,
    bytes: 32,
    unwind: 70,
    stubs: [(crate::big_soft::backends::transform, stub_transform), (crate::big_soft::backends::sub_bytes, stub_sub_bytes)],
    prop: |inp| { k::w_keys(inp) }
}
//@ harness name=kuz_soft_enc_key prop=C07,C03,C12,C20 tier=thorough bits=384 stub=1 est=200 mem=30 cap=3600 desc="W: KuznyechikEnc::new(key).encrypt_block(b) == oracle E(key schedule(key), b), all keys, all blocks"
verif_harness! {
    name: kuz_soft_enc_key,
    bytes: 48,
    unwind: 70,
    stubs: [(crate::big_soft::backends::transform, stub_transform), (crate::big_soft::backends::sub_bytes, stub_sub_bytes)],
    prop: |inp| { k::w_enc_key(inp, 0) }
}
//@ harness name=kuz_soft_enc_key_both prop=C07,C03,C12,C20 tier=thorough bits=384 stub=1 est=200 mem=30 cap=3600 desc="W: Kuznyechik::new(key).encrypt_block(b) == oracle E(key schedule(key), b), all keys, all blocks"
verif_harness! {
    name: kuz_soft_enc_key_both,
    bytes: 48,
    unwind: 70,
    stubs: [(crate::big_soft::backends::transform, stub_transform), (crate::big_soft::backends::sub_bytes, stub_sub_bytes)],
    prop: |inp| { k::w_enc_key(inp, 1) }
}
//@ harness name=kuz_soft_enc_rk prop=C07,C03,C12,C20 tier=thorough bits=1408 stub=1 est=60 desc="W: KuznyechikEnc over arbitrary round keys: encrypt_block == oracle E (9 LSX rounds + X), all round keys, all blocks"
verif_harness! {
    name: kuz_soft_enc_rk,
    bytes: 160 + 16,
    unwind: 70,
    stubs: [(crate::big_soft::backends::transform, stub_transform), (crate::big_soft::backends::sub_bytes, stub_sub_bytes)],
    prop: |inp| { k::w_enc_rk(inp, Route::Enc) }
}
//@ harness name=kuz_soft_enc_rk_clone prop=C12,C20 tier=thorough bits=1408 stub=1 est=60 desc="W: clone of a KuznyechikEnc: encrypt_block == oracle E, all round keys, all blocks"
verif_harness! {
    name: kuz_soft_enc_rk_clone,
    bytes: 160 + 16,
    unwind: 70,
    stubs: [(crate::big_soft::backends::transform, stub_transform), (crate::big_soft::backends::sub_bytes, stub_sub_bytes)],
    prop: |inp| { k::w_enc_rk(inp, Route::EncClone) }
}
//@ harness name=kuz_soft_enc_rk_val prop=C12,C03,C20 tier=thorough bits=1408 stub=1 est=60 desc="W: Kuznyechik::from(enc) (by value): encrypt_block == oracle E, all round keys, all blocks"
verif_harness! {
    name: kuz_soft_enc_rk_val,
    bytes: 160 + 16,
    unwind: 70,
    stubs: [(crate::big_soft::backends::transform, stub_transform), (crate::big_soft::backends::sub_bytes, stub_sub_bytes)],
    prop: |inp| { k::w_enc_rk(inp, Route::Val) }
}
//@ harness name=kuz_soft_enc_rk_ref prop=C12,C03,C20 tier=thorough bits=1408 stub=1 est=60 desc="W: Kuznyechik::from(&enc) (by reference): encrypt_block == oracle E, all round keys, all blocks"
verif_harness! {
    name: kuz_soft_enc_rk_ref,
    bytes: 160 + 16,
    unwind: 70,
    stubs: [(crate::big_soft::backends::transform, stub_transform), (crate::big_soft::backends::sub_bytes, stub_sub_bytes)],
    prop: |inp| { k::w_enc_rk(inp, Route::Ref) }
}
//@ harness name=kuz_soft_enc_rk_valclone prop=C12,C20 tier=thorough bits=1408 stub=1 est=60 desc="W: Kuznyechik::from(enc).clone(): encrypt_block == oracle E, all round keys, all blocks"
verif_harness! {
    name: kuz_soft_enc_rk_valclone,
    bytes: 160 + 16,
    unwind: 70,
    stubs: [(crate::big_soft::backends::transform, stub_transform), (crate::big_soft::backends::sub_bytes, stub_sub_bytes)],
    prop: |inp| { k::w_enc_rk(inp, Route::ValClone) }
}
//@ harness name=kuz_soft_enc_rk_refclone prop=C12,C20 tier=thorough bits=1408 stub=1 est=60 desc="W: Kuznyechik::from(&enc).clone(): encrypt_block == oracle E, all round keys, all blocks"
verif_harness! {
    name: kuz_soft_enc_rk_refclone,
    bytes: 160 + 16,
    unwind: 70,
    stubs: [(crate::big_soft::backends::transform, stub_transform), (crate::big_soft::backends::sub_bytes, stub_sub_bytes)],
    prop: |inp| { k::w_enc_rk(inp, Route::RefClone) }
}

// ---------------------------------------------------------------------------------------------------------- wiring: decryption

//@ harness name=kuz_soft_dec_rk_val prop=C07,C03,C12,C20 tier=thorough bits=1408 stub=1 est=200 desc="W: KuznyechikDec::from(enc) (by value, real inv_enc_keys) over arbitrary encryption round keys: decrypt_block == oracle D = X[K1] S^-1 L^-1 X[K2] ... S^-1 L^-1 X[K10], all round keys, all blocks (linearity instances of L^-1 assumed, lemma kuz_lin_linv)"
verif_harness! {
    name: kuz_soft_dec_rk_val,
    bytes: 160 + 16,
    unwind: 70,
    stubs: [(crate::big_soft::backends::transform, stub_transform), (crate::big_soft::backends::sub_bytes, stub_sub_bytes)],
    prop: |inp| { k::w_dec_rk(inp, Route::Val, false, true) }
}
//@ harness name=kuz_soft_dec_rk_ref prop=C07,C03,C12,C20 tier=thorough bits=1408 stub=1 est=200 desc="W: KuznyechikDec::from(&enc) (by reference): decrypt_block == oracle D, all round keys, all blocks"
verif_harness! {
    name: kuz_soft_dec_rk_ref,
    bytes: 160 + 16,
    unwind: 70,
    stubs: [(crate::big_soft::backends::transform, stub_transform), (crate::big_soft::backends::sub_bytes, stub_sub_bytes)],
    prop: |inp| { k::w_dec_rk(inp, Route::Ref, false, true) }
}
//@ harness name=kuz_soft_dec_rk_valclone prop=C12,C20 tier=thorough bits=1408 stub=1 est=200 desc="W: KuznyechikDec::from(enc).clone(): decrypt_block == oracle D, all round keys, all blocks"
verif_harness! {
    name: kuz_soft_dec_rk_valclone,
    bytes: 160 + 16,
    unwind: 70,
    stubs: [(crate::big_soft::backends::transform, stub_transform), (crate::big_soft::backends::sub_bytes, stub_sub_bytes)],
    prop: |inp| { k::w_dec_rk(inp, Route::ValClone, false, true) }
}
//@ harness name=kuz_soft_dec_rk_refclone prop=C12,C20 tier=thorough bits=1408 stub=1 est=200 desc="W: KuznyechikDec::from(&enc).clone(): decrypt_block == oracle D, all round keys, all blocks"
verif_harness! {
    name: kuz_soft_dec_rk_refclone,
    bytes: 160 + 16,
    unwind: 70,
    stubs: [(crate::big_soft::backends::transform, stub_transform), (crate::big_soft::backends::sub_bytes, stub_sub_bytes)],
    prop: |inp| { k::w_dec_rk(inp, Route::RefClone, false, true) }
}
//@ harness name=kuz_soft_both_dec_rk_val prop=C07,C03,C12,C20 tier=thorough bits=1408 stub=1 est=200 desc="W: Kuznyechik::from(enc) (by value): decrypt_block == oracle D, all round keys, all blocks"
verif_harness! {
    name: kuz_soft_both_dec_rk_val,
    bytes: 160 + 16,
    unwind: 70,
    stubs: [(crate::big_soft::backends::transform, stub_transform), (crate::big_soft::backends::sub_bytes, stub_sub_bytes)],
    prop: |inp| { k::w_dec_rk(inp, Route::Val, true, true) }
}
//@ harness name=kuz_soft_both_dec_rk_ref prop=C07,C03,C12,C20 tier=thorough bits=1408 stub=1 est=200 desc="W: Kuznyechik::from(&enc) (by reference): decrypt_block == oracle D, all round keys, all blocks"
verif_harness! {
    name: kuz_soft_both_dec_rk_ref,
    bytes: 160 + 16,
    unwind: 70,
    stubs: [(crate::big_soft::backends::transform, stub_transform), (crate::big_soft::backends::sub_bytes, stub_sub_bytes)],
    prop: |inp| { k::w_dec_rk(inp, Route::Ref, true, true) }
}
//@ harness name=kuz_soft_both_dec_rk_valclone prop=C12,C20 tier=thorough bits=1408 stub=1 est=200 desc="W: Kuznyechik::from(enc).clone(): decrypt_block == oracle D, all round keys, all blocks"
verif_harness! {
    name: kuz_soft_both_dec_rk_valclone,
    bytes: 160 + 16,
    unwind: 70,
    stubs: [(crate::big_soft::backends::transform, stub_transform), (crate::big_soft::backends::sub_bytes, stub_sub_bytes)],
    prop: |inp| { k::w_dec_rk(inp, Route::ValClone, true, true) }
}
//@ harness name=kuz_soft_both_dec_rk_refclone prop=C12,C20 tier=thorough bits=1408 stub=1 est=200 desc="W: Kuznyechik::from(&enc).clone(): decrypt_block == oracle D, all round keys, all blocks"
verif_harness! {
    name: kuz_soft_both_dec_rk_refclone,
    bytes: 160 + 16,
    unwind: 70,
    stubs: [(crate::big_soft::backends::transform, stub_transform), (crate::big_soft::backends::sub_bytes, stub_sub_bytes)],
    prop: |inp| { k::w_dec_rk(inp, Route::RefClone, true, true) }
}
//@ harness name=kuz_soft_dec_key prop=C07,C03,C12,C20 tier=thorough bits=384 stub=1 est=300 mem=30 cap=3600 desc="W: KuznyechikDec::new(key).decrypt_block(b) == oracle D(key schedule(key), b), all keys, all blocks"
verif_harness! {
    name: kuz_soft_dec_key,
    bytes: 48,
    unwind: 70,
    stubs: [(crate::big_soft::backends::transform, stub_transform), (crate::big_soft::backends::sub_bytes, stub_sub_bytes)],
    prop: |inp| { k::w_dec_key(inp, 0, true) }
}
//@ harness name=kuz_soft_dec_key_both prop=C07,C03,C12,C20 tier=thorough bits=384 stub=1 est=300 mem=30 cap=3600 desc="W: Kuznyechik::new(key).decrypt_block(b) == oracle D(key schedule(key), b), all keys, all blocks"
verif_harness! {
    name: kuz_soft_dec_key_both,
    bytes: 48,
    unwind: 70,
    stubs: [(crate::big_soft::backends::transform, stub_transform), (crate::big_soft::backends::sub_bytes, stub_sub_bytes)],
    prop: |inp| { k::w_dec_key(inp, 1, true) }
}

// ---------------------------------------------------------------------------------------------------------- round trips

//@ harness name=kuz_soft_rt_enc_dec prop=C01,C20 tier=thorough bits=1408 stub=1 est=200 desc="W: KuznyechikEnc encrypts, KuznyechikDec::from(&enc) decrypts: result == b, arbitrary round keys, all blocks (S, L uninterpreted inverse pairs)"
verif_harness! {
    name: kuz_soft_rt_enc_dec,
    bytes: 160 + 16,
    unwind: 70,
    stubs: [(crate::big_soft::backends::transform, stub_transform), (crate::big_soft::backends::sub_bytes, stub_sub_bytes)],
    prop: |inp| { k::w_roundtrip_rk(inp, 0, true) }
}
//@ harness name=kuz_soft_rt_ed prop=C01,C20 tier=thorough bits=1408 stub=1 est=200 desc="W: Kuznyechik::from(&enc): dec(enc(b)) == b, arbitrary round keys, all blocks"
verif_harness! {
    name: kuz_soft_rt_ed,
    bytes: 160 + 16,
    unwind: 70,
    stubs: [(crate::big_soft::backends::transform, stub_transform), (crate::big_soft::backends::sub_bytes, stub_sub_bytes)],
    prop: |inp| { k::w_roundtrip_rk(inp, 1, true) }
}
//@ harness name=kuz_soft_rt_de prop=C01,C20 tier=thorough bits=1408 stub=1 est=200 desc="W: Kuznyechik::from(&enc): enc(dec(b)) == b, arbitrary round keys, all blocks"
verif_harness! {
    name: kuz_soft_rt_de,
    bytes: 160 + 16,
    unwind: 70,
    stubs: [(crate::big_soft::backends::transform, stub_transform), (crate::big_soft::backends::sub_bytes, stub_sub_bytes)],
    prop: |inp| { k::w_roundtrip_rk(inp, 2, true) }
}

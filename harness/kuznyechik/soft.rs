// Kuznyechik, kuznyechik_backend="soft" (big_soft back end: 64 KiB fused tables read as [[u128; 256]; 16]): conformance to
// GOST R 34.12-2015 (C07), conversion routes and clones (C12), back-end independence via the common oracle (C03), round
// trips (C01), 3-wide encrypt_par_blocks (C04), no panic / overflow / out-of-bounds table read (C20).
// Mirrors sse2.rs; see kz_common.rs for the W shape and for what is abstracted.
//
// Leaves: `transform(b: u128, &ENC_TABLE)` (= L S), `transform(b, &DEC_TABLE)` (= L^-1 S^-1), `sub_bytes(b: u128, sbox)`.
// L: sub_bytes directly (kuz_soft_leaf_sub_bytes); rows of the tables read exactly as transform reads them (pointer cast to
//    [[u128; 256]; 16]) vs the oracle (kuz_soft_leaf_rows, all 2 x 4096 rows); transform on every word with ONE arbitrary
//    octet at a fixed position and fifteen zero octets vs L S / L^-1 S^-1 of the oracle (kuz_soft_leaf_tf_one: real table,
//    row, lane, XOR accumulation; position 9 for ENC_TABLE, 6 for DEC_TABLE; 16 GB per pair of calls, so not all positions);
//    the general 128-bit statement then follows from the loop having no cross-octet data flow (one
//    `res ^= table[i][block[i]]` per octet, by inspection) and the linearity of L / L^-1 (kz_common::kuz_lin_l / kuz_lin_linv).
//    NOT solver-checked for this back end: transform(b, &T) == XOR_p T[p][b_p] for all 2^128 b in one query -- with the real
//    constant tables it needs sixteen symbolic-index 128-bit reads of a 64 KiB array (measured on the sse2 twin: > 24 GB),
//    with an arbitrary (unconstrained) table CBMC ran out of memory at 23.7 GB during propositional reduction; the array
//    indexing cannot be stubbed (the sse2 back end's flow lemma stubs the load intrinsic instead).
use super::kz_common::{self as k, Route};
use super::prelude::*;
use crate::big_soft::backends::{sub_bytes, transform};
use crate::consts::{P, P_INV};
use crate::fused_tables::{Table, DEC_TABLE, ENC_TABLE};
use crate::utils::KEYGEN;
use refmodels::kuznyechik as r;

pub fn stub_transform(block: u128, table: &Table) -> u128 {
    let x = block.to_le_bytes();
    if core::ptr::eq(table, &ENC_TABLE) {
        u128::from_le_bytes(k::ul(&k::us(&x)))
    } else {
        #[cfg(kani)]
        kani::assert(core::ptr::eq(table, &DEC_TABLE), "VERIF_STUB_TABLE");
        u128::from_le_bytes(k::uli(&k::usi(&x)))
    }
}
pub fn stub_sub_bytes(block: u128, sbox: &[u8; 256]) -> u128 {
    let x = block.to_le_bytes();
    // P and P_INV are consts (no stable address): told apart by their first entry (pi(0) = 0xFC, pi^-1(0) = 0xA5)
    if sbox[0] == 0xFC {
        u128::from_le_bytes(k::us(&x))
    } else {
        #[cfg(kani)]
        kani::assert(sbox[0] == 0xA5, "VERIF_STUB_TABLE");
        u128::from_le_bytes(k::usi(&x))
    }
}
/// key schedule harness: transform(., &ENC_TABLE) := the single uninterpreted function LS (no other use of transform there)
pub fn stub_transform_ls(block: u128, table: &Table) -> u128 {
    #[cfg(kani)]
    kani::assert(core::ptr::eq(table, &ENC_TABLE), "VERIF_STUB_TABLE");
    let _ = table;
    u128::from_le_bytes(k::uls1(&block.to_le_bytes()))
}

// ---------------------------------------------------------------------------------------------------------- leaves

//@ harness name=kuz_soft_leaf_consts prop=C07,C20 tier=quick bits=16 est=30 desc="L: P[x] == pi(x), P_INV[x] == pi^-1(x), pi^-1(pi(x)) == x == pi(pi^-1(x)) for all octets x; KEYGEN[i] == C_{i+1} = L(Vec128(i+1)) for symbolic i in 0..32 (field arithmetic of the oracle computed)"
verif_harness! {
    name: kuz_soft_leaf_consts,
    bytes: 2,
    unwind: 20,
    prop: |inp| {
        let x = inp[0] as usize;
        vcheck!(P[x] == r::PI[x] && P_INV[x] == r::PI_INV[x]);
        vcheck!(r::PI_INV[r::PI[x] as usize] as usize == x && r::PI[r::PI_INV[x] as usize] as usize == x);
        let i = (inp[1] & 31) as usize;
        Some(KEYGEN[i].0 == r::c(i + 1))
    }
}

//@ harness name=kuz_soft_leaf_sub_bytes prop=C07,C20 tier=quick bits=128 quick=C20 est=35 desc="L: sub_bytes(b, &P) == oracle S(b) and sub_bytes(b, &P_INV) == oracle S^-1(b) for all 2^128 b (u128 little-endian view)"
verif_harness! {
    name: kuz_soft_leaf_sub_bytes,
    bytes: 16,
    unwind: 20,
    prop: |inp| {
        let b: [u8; 16] = take(inp, 0);
        vcheck!(sub_bytes(u128::from_le_bytes(b), &P).to_le_bytes() == r::s(&b));
        Some(sub_bytes(u128::from_le_bytes(b), &P_INV).to_le_bytes() == r::s_inv(&b))
    }
}

/// The table as transform views it.
fn view(t: &Table) -> &[[u128; 256]; 16] {
    unsafe { &*(t.0.as_ptr().cast()) }
}

//@ harness name=kuz_soft_leaf_rows prop=C07,C20 tier=thorough bits=12 est=316 desc="L: every row of the fused tables in the [[u128; 256]; 16] view: ENC_TABLE[p][v] == L(pi(v) at octet p, 0 elsewhere), DEC_TABLE[p][v] == L^-1(pi^-1(v) at octet p, 0 elsewhere), p and v symbolic (all 2 x 4096 rows)"
verif_harness! {
    name: kuz_soft_leaf_rows,
    bytes: 2,
    unwind: 20,
    prop: |inp| {
        let p = (inp[0] & 15) as usize;
        let v = inp[1] as usize;
        let mut e = [0u8; 16];
        e[p] = r::PI[v];
        vcheck!(view(&ENC_TABLE)[p][v].to_le_bytes() == r::l(&e));
        let mut d = [0u8; 16];
        d[p] = r::PI_INV[v];
        Some(view(&DEC_TABLE)[p][v].to_le_bytes() == r::l_inv(&d))
    }
}

/// transform on the words with one arbitrary octet v at position p (p = lo .. hi in turn) and zero elsewhere, one table:
/// == oracle L(S(.)) resp. L^-1(S^-1(.)).  Fifteen of the sixteen reads of each call have a constant index (folded by the
/// symbolic execution), one is symbolic.
fn tf_pos(inp: &[u8], dec: bool, lo: usize, hi: usize) -> Option<bool> {
    let v = inp[0];
    let mut p = lo;
    while p < hi {
        let mut b = [0u8; 16];
        b[p] = v;
        if dec {
            vcheck!(transform(u128::from_le_bytes(b), &DEC_TABLE).to_le_bytes() == r::l_inv(&r::s_inv(&b)));
        } else {
            vcheck!(transform(u128::from_le_bytes(b), &ENC_TABLE).to_le_bytes() == r::ls(&b));
        }
        p += 1;
    }
    Some(true)
}

//@ harness name=kuz_soft_leaf_tf_one prop=C07,C20 tier=thorough bits=8 est=151 mem=30 need=18 desc="L: transform(b, &ENC_TABLE) == oracle L(S(b)) for b = arbitrary octet at position 9, zero elsewhere, and transform(b, &DEC_TABLE) == oracle L^-1(S^-1(b)) for b = arbitrary octet at position 6, zero elsewhere (real tables, row, lane, XOR accumulation of the real loop in one query; one position per table; measured 16 GB)"
verif_harness! {
    name: kuz_soft_leaf_tf_one,
    bytes: 1,
    unwind: 20,
    prop: |inp| {
        vcheck!(tf_pos(inp, false, 9, 10) == Some(true));
        tf_pos(inp, true, 6, 7)
    }
}

// ---------------------------------------------------------------------------------------------------------- key schedule

//@ harness name=kuz_soft_keys prop=C07,C20 tier=quick bits=256 stub=1 quick=C20 est=70 desc="W: round keys of KuznyechikEnc::new(key) (big_soft expand_enc_keys) == oracle K1..K10 (Feistel key schedule with the computed C_1..C_32) for all 2^256 keys; transform(., &ENC_TABLE) and the oracle's L S are ONE uninterpreted function (32 applications per side)"
verif_harness! {
    name: kuz_soft_keys,
    bytes: 32,
    unwind: 70,
    stubs: [(crate::big_soft::backends::transform, stub_transform_ls), (refmodels::kuznyechik::c, k::stub_c)],
    prop: |inp| { k::w_keys(inp) }
}

// ---------------------------------------------------------------------------------------------------------- wiring: encryption
// transform / sub_bytes := S, L uninterpreted inverse pairs (kz_common); arbitrary round keys (a superset of the key schedule's
// outputs): with kuz_soft_keys this is conformance for all keys.

//@ harness name=kuz_soft_enc_rk prop=C07,C03,C12,C20 tier=quick bits=1408 stub=1 quick=C03 est=35 desc="W: KuznyechikEnc over arbitrary round keys: encrypt_block == oracle E (9 LSX rounds + X), all round keys, all blocks"
verif_harness! {
    name: kuz_soft_enc_rk,
    bytes: 160 + 16,
    unwind: 70,
    stubs: [(crate::big_soft::backends::transform, stub_transform), (crate::big_soft::backends::sub_bytes, stub_sub_bytes)],
    prop: |inp| { k::w_enc_rk(inp, Route::Enc) }
}
//@ harness name=kuz_soft_enc_rk_clone prop=C12,C20 tier=thorough bits=1408 stub=1 est=25 desc="W: clone of a KuznyechikEnc: encrypt_block == oracle E, all round keys, all blocks"
verif_harness! {
    name: kuz_soft_enc_rk_clone,
    bytes: 160 + 16,
    unwind: 70,
    stubs: [(crate::big_soft::backends::transform, stub_transform), (crate::big_soft::backends::sub_bytes, stub_sub_bytes)],
    prop: |inp| { k::w_enc_rk(inp, Route::EncClone) }
}
//@ harness name=kuz_soft_enc_rk_val prop=C12,C03,C20 tier=thorough bits=1408 stub=1 est=52 desc="W: Kuznyechik::from(enc) (by value; runs the real inv_enc_keys too): encrypt_block == oracle E, all round keys, all blocks"
verif_harness! {
    name: kuz_soft_enc_rk_val,
    bytes: 160 + 16,
    unwind: 70,
    stubs: [(crate::big_soft::backends::transform, stub_transform), (crate::big_soft::backends::sub_bytes, stub_sub_bytes)],
    prop: |inp| { k::w_enc_rk(inp, Route::Val) }
}
//@ harness name=kuz_soft_enc_rk_ref prop=C12,C03,C20 tier=quick bits=1408 stub=1 est=50 desc="W: Kuznyechik::from(&enc) (by reference): encrypt_block == oracle E, all round keys, all blocks"
verif_harness! {
    name: kuz_soft_enc_rk_ref,
    bytes: 160 + 16,
    unwind: 70,
    stubs: [(crate::big_soft::backends::transform, stub_transform), (crate::big_soft::backends::sub_bytes, stub_sub_bytes)],
    prop: |inp| { k::w_enc_rk(inp, Route::Ref) }
}
//@ harness name=kuz_soft_enc_rk_refclone prop=C12,C20 tier=thorough bits=1408 stub=1 est=63 desc="W: Kuznyechik::from(&enc).clone(): encrypt_block == oracle E, all round keys, all blocks"
verif_harness! {
    name: kuz_soft_enc_rk_refclone,
    bytes: 160 + 16,
    unwind: 70,
    stubs: [(crate::big_soft::backends::transform, stub_transform), (crate::big_soft::backends::sub_bytes, stub_sub_bytes)],
    prop: |inp| { k::w_enc_rk(inp, Route::RefClone) }
}

//@ harness name=kuz_soft_par3 prop=C04,C20 tier=quick bits=1664 stub=1 est=235 need=5 desc="W: KuznyechikEnc::encrypt_blocks on 3 blocks (exactly one 3-wide encrypt_par_blocks batch of the big_soft back end) == three encrypt_block calls on the same instance, all three output blocks; arbitrary round keys, all block contents"
verif_harness! {
    name: kuz_soft_par3,
    bytes: 160 + 48,
    unwind: 70,
    stubs: [(crate::big_soft::backends::transform, stub_transform), (crate::big_soft::backends::sub_bytes, stub_sub_bytes)],
    prop: |inp| { k::w_par_enc::<3>(inp) }
}
//@ harness name=kuz_soft_par4 prop=C04,C20 tier=thorough bits=1792 stub=1 est=258 need=9 desc="W: KuznyechikEnc::encrypt_blocks on 4 blocks (one 3-wide batch + a tail of one) == four encrypt_block calls; arbitrary round keys, all block contents"
verif_harness! {
    name: kuz_soft_par4,
    bytes: 160 + 64,
    unwind: 70,
    stubs: [(crate::big_soft::backends::transform, stub_transform), (crate::big_soft::backends::sub_bytes, stub_sub_bytes)],
    prop: |inp| { k::w_par_enc::<4>(inp) }
}

// ---------------------------------------------------------------------------------------------------------- wiring: decryption
// Decryption keys come from the REAL inv_enc_keys applied to arbitrary encryption round keys (through the real From
// conversions); the result must be the standard's D over the encryption round keys.  Assumed: the eight instances of the
// linearity of L^-1 that the pre-transformed keys rely on (kz_common::lin_instances, lemma kuz_lin_linv).

//@ harness name=kuz_soft_dec_rk_val prop=C07,C03,C12,C20 tier=quick bits=1408 stub=1 quick=C03 est=190 need=6 desc="W: KuznyechikDec::from(enc) (by value, real inv_enc_keys) over arbitrary encryption round keys: decrypt_block == oracle D = X[K1] S^-1 L^-1 X[K2] ... S^-1 L^-1 X[K10], all round keys, all blocks (linearity instances of L^-1 assumed, lemma kuz_lin_linv)"
verif_harness! {
    name: kuz_soft_dec_rk_val,
    bytes: 160 + 16,
    unwind: 70,
    stubs: [(crate::big_soft::backends::transform, stub_transform), (crate::big_soft::backends::sub_bytes, stub_sub_bytes)],
    prop: |inp| { k::w_dec_rk(inp, Route::Val, false, true) }
}
//@ harness name=kuz_soft_dec_rk_ref prop=C12,C07,C03,C20 tier=quick bits=1408 stub=1 est=160 need=6 desc="W: KuznyechikDec::from(&enc) (by reference): decrypt_block == oracle D, all round keys, all blocks (linearity instances of L^-1 assumed)"
verif_harness! {
    name: kuz_soft_dec_rk_ref,
    bytes: 160 + 16,
    unwind: 70,
    stubs: [(crate::big_soft::backends::transform, stub_transform), (crate::big_soft::backends::sub_bytes, stub_sub_bytes)],
    prop: |inp| { k::w_dec_rk(inp, Route::Ref, false, true) }
}
//@ harness name=kuz_soft_dec_rk_refclone prop=C12,C20 tier=thorough bits=1408 stub=1 est=140 desc="W: KuznyechikDec::from(&enc).clone(): decrypt_block == oracle D, all round keys, all blocks (linearity instances of L^-1 assumed)"
verif_harness! {
    name: kuz_soft_dec_rk_refclone,
    bytes: 160 + 16,
    unwind: 70,
    stubs: [(crate::big_soft::backends::transform, stub_transform), (crate::big_soft::backends::sub_bytes, stub_sub_bytes)],
    prop: |inp| { k::w_dec_rk(inp, Route::RefClone, false, true) }
}
//@ harness name=kuz_soft_both_dec_rk_val prop=C07,C03,C12,C20 tier=thorough bits=1408 stub=1 est=136 desc="W: Kuznyechik::from(enc) (by value): decrypt_block == oracle D, all round keys, all blocks (linearity instances of L^-1 assumed)"
verif_harness! {
    name: kuz_soft_both_dec_rk_val,
    bytes: 160 + 16,
    unwind: 70,
    stubs: [(crate::big_soft::backends::transform, stub_transform), (crate::big_soft::backends::sub_bytes, stub_sub_bytes)],
    prop: |inp| { k::w_dec_rk(inp, Route::Val, true, true) }
}
//@ harness name=kuz_soft_both_dec_rk_ref prop=C12,C07,C03,C20 tier=quick bits=1408 stub=1 est=160 need=6 desc="W: Kuznyechik::from(&enc) (by reference): decrypt_block == oracle D, all round keys, all blocks (linearity instances of L^-1 assumed)"
verif_harness! {
    name: kuz_soft_both_dec_rk_ref,
    bytes: 160 + 16,
    unwind: 70,
    stubs: [(crate::big_soft::backends::transform, stub_transform), (crate::big_soft::backends::sub_bytes, stub_sub_bytes)],
    prop: |inp| { k::w_dec_rk(inp, Route::Ref, true, true) }
}
//@ harness name=kuz_soft_both_dec_rk_refclone prop=C12,C20 tier=thorough bits=1408 stub=1 est=134 desc="W: Kuznyechik::from(&enc).clone(): decrypt_block == oracle D, all round keys, all blocks (linearity instances of L^-1 assumed)"
verif_harness! {
    name: kuz_soft_both_dec_rk_refclone,
    bytes: 160 + 16,
    unwind: 70,
    stubs: [(crate::big_soft::backends::transform, stub_transform), (crate::big_soft::backends::sub_bytes, stub_sub_bytes)],
    prop: |inp| { k::w_dec_rk(inp, Route::RefClone, true, true) }
}

// ---------------------------------------------------------------------------------------------------------- round trips

//@ harness name=kuz_soft_rt_enc_dec prop=C01,C20 tier=thorough bits=1408 stub=1 est=139 desc="W: KuznyechikEnc encrypts, KuznyechikDec::from(&enc) decrypts: result == b, arbitrary round keys, all blocks (S, L uninterpreted inverse pairs, linearity instances of L^-1 assumed)"
verif_harness! {
    name: kuz_soft_rt_enc_dec,
    bytes: 160 + 16,
    unwind: 70,
    stubs: [(crate::big_soft::backends::transform, stub_transform), (crate::big_soft::backends::sub_bytes, stub_sub_bytes)],
    prop: |inp| { k::w_roundtrip_rk(inp, 0, true) }
}
//@ harness name=kuz_soft_rt_ed prop=C01,C20 tier=quick bits=1408 stub=1 est=265 need=6 desc="W: Kuznyechik::from(&enc): dec(enc(b)) == b, arbitrary round keys, all blocks (S, L uninterpreted inverse pairs, linearity instances of L^-1 assumed)"
verif_harness! {
    name: kuz_soft_rt_ed,
    bytes: 160 + 16,
    unwind: 70,
    stubs: [(crate::big_soft::backends::transform, stub_transform), (crate::big_soft::backends::sub_bytes, stub_sub_bytes)],
    prop: |inp| { k::w_roundtrip_rk(inp, 1, true) }
}
//@ harness name=kuz_soft_rt_de prop=C01,C20 tier=thorough bits=1408 stub=1 est=176 desc="W: Kuznyechik::from(&enc): enc(dec(b)) == b, arbitrary round keys, all blocks (S, L uninterpreted inverse pairs, linearity instances of L^-1 assumed)"
verif_harness! {
    name: kuz_soft_rt_de,
    bytes: 160 + 16,
    unwind: 70,
    stubs: [(crate::big_soft::backends::transform, stub_transform), (crate::big_soft::backends::sub_bytes, stub_sub_bytes)],
    prop: |inp| { k::w_roundtrip_rk(inp, 2, true) }
}

// BelT block cipher (crate `belt-block`): conformance of belt_block_raw / BeltBlock to STB 34.101.31 belt-block (C07),
// round trips (C01), no panic / overflow (C20).
//
// L: g5 / g13 / g21 (four 256-entry u32 tables each, pre-rotated) == oracle G_r(u) = RotHi^r(H(u1)||H(u2)||H(u3)||H(u4))
//    over all 2^32 words.
// W: the real key loading, key index schedule (key_idx), the eight rounds and the output permutation of belt_block_raw,
//    BeltBlock::encrypt_block and BeltBlock::decrypt_block, for all keys and all blocks, with g5 / g13 / g21
//    uninterpreted and shared with the oracle.  (The direct query ran out of memory in the probes, DESIGN.md section 3.)
//    The round trips need no leaf lemma: every step of a BelT round is invertible for arbitrary functions G.
use super::prelude::*;
use crate::{belt_block_raw, BeltBlock};
use cipher::{BlockCipherDecrypt, BlockCipherEncrypt, KeyInit};
use core::num::Wrapping;
use refmodels::belt as r;

uf1!(uf_g5, u32, u32, [B0], r::g5);
uf1!(uf_g13, u32, u32, [B0], r::g13);
uf1!(uf_g21, u32, u32, [B0], r::g21);
pub fn stub_g5(u: Wrapping<u32>) -> Wrapping<u32> {
    Wrapping(uf_g5::call(u.0))
}
pub fn stub_g13(u: Wrapping<u32>) -> Wrapping<u32> {
    Wrapping(uf_g13::call(u.0))
}
pub fn stub_g21(u: Wrapping<u32>) -> Wrapping<u32> {
    Wrapping(uf_g21::call(u.0))
}

//@ harness name=belt_leaf_g prop=C07,C20 tier=quick bits=32 est=20 desc="L: g5(u), g13(u), g21(u) == oracle G_5, G_13, G_21 (H on each octet, then rotate left by r) for all 2^32 u"
verif_harness! {
    name: belt_leaf_g,
    bytes: 4,
    prop: |inp| {
        let u = take_u32(inp, 0);
        vcheck!(crate::g5(Wrapping(u)).0 == r::g5(u));
        vcheck!(crate::g13(Wrapping(u)).0 == r::g13(u));
        vcheck!(crate::g21(Wrapping(u)).0 == r::g21(u));
        Some(true)
    }
}

fn words<const N: usize>(b: &[u8]) -> [u32; N] {
    let mut w = [0u32; N];
    let mut i = 0;
    while i < N {
        w[i] = u32::from_le_bytes([b[4 * i], b[4 * i + 1], b[4 * i + 2], b[4 * i + 3]]);
        i += 1;
    }
    w
}

//@ harness name=belt_wire_raw prop=C07,C20 tier=quick bits=384 stub=1 est=110 desc="W: belt_block_raw(x, key) (words little-endian) == oracle belt-block encryption of the same octets, all 2^256 keys, all 2^128 blocks, G5/G13/G21 uninterpreted and shared"
verif_harness! {
    name: belt_wire_raw,
    bytes: 48,
    unwind: 60,
    stubs: [(crate::g5, stub_g5), (crate::g13, stub_g13), (crate::g21, stub_g21)],
    prop: |inp| {
        let key: [u8; 32] = take(inp, 0);
        let blk: [u8; 16] = take(inp, 32);
        let y = belt_block_raw(words::<4>(&blk), &words::<8>(&key));
        let e = r::encrypt_with(&key, &blk, uf_g5::call, uf_g13::call, uf_g21::call);
        Some(y == words::<4>(&e))
    }
}

//@ harness name=belt_wire_enc prop=C07,C20 tier=quick bits=384 stub=1 est=145 desc="W: BeltBlock::new(key).encrypt_block(b) == oracle belt-block encryption, all keys, all blocks, G uninterpreted"
verif_harness! {
    name: belt_wire_enc,
    bytes: 48,
    unwind: 60,
    stubs: [(crate::g5, stub_g5), (crate::g13, stub_g13), (crate::g21, stub_g21)],
    prop: |inp| {
        let key: [u8; 32] = take(inp, 0);
        let blk: [u8; 16] = take(inp, 32);
        let c = BeltBlock::new(&key.into());
        let mut b = blk.into();
        c.encrypt_block(&mut b);
        let e = r::encrypt_with(&key, &blk, uf_g5::call, uf_g13::call, uf_g21::call);
        Some(b.0 == e)
    }
}

//@ harness name=belt_wire_dec prop=C07,C20 tier=quick bits=384 stub=1 est=115 desc="W: BeltBlock::new(key).decrypt_block(b) == oracle belt-block decryption (6.1.4), all keys, all blocks, G uninterpreted"
verif_harness! {
    name: belt_wire_dec,
    bytes: 48,
    unwind: 60,
    stubs: [(crate::g5, stub_g5), (crate::g13, stub_g13), (crate::g21, stub_g21)],
    prop: |inp| {
        let key: [u8; 32] = take(inp, 0);
        let blk: [u8; 16] = take(inp, 32);
        let c = BeltBlock::new(&key.into());
        let mut b = blk.into();
        c.decrypt_block(&mut b);
        let e = r::decrypt_with(&key, &blk, uf_g5::call, uf_g13::call, uf_g21::call);
        Some(b.0 == e)
    }
}

//@ harness name=belt_wire_dec_b2b prop=C07 tier=quick bits=512 stub=1 est=150 desc="W: BeltBlock::new(key).decrypt_block_b2b(b, out) with out pre-filled with arbitrary octets == oracle belt-block decryption of b, b unchanged: the block read is the INPUT side of the in/out pair (the in-place form cannot tell get_in() from get_out())"
verif_harness! {
    name: belt_wire_dec_b2b,
    bytes: 64,
    unwind: 60,
    stubs: [(crate::g5, stub_g5), (crate::g13, stub_g13), (crate::g21, stub_g21)],
    prop: |inp| {
        let key: [u8; 32] = take(inp, 0);
        let blk: [u8; 16] = take(inp, 32);
        let pre: [u8; 16] = take(inp, 48);
        let c = BeltBlock::new(&key.into());
        let ib = blk.into();
        let mut ob = pre.into();
        c.decrypt_block_b2b(&ib, &mut ob);
        let e = r::decrypt_with(&key, &blk, uf_g5::call, uf_g13::call, uf_g21::call);
        vcheck!(ib.0 == blk);
        Some(ob.0 == e)
    }
}

//@ harness name=belt_wire_enc_b2b prop=C07 tier=quick bits=512 stub=1 est=150 desc="W: BeltBlock::new(key).encrypt_block_b2b(b, out) with out pre-filled with arbitrary octets == oracle belt-block encryption of b, b unchanged"
verif_harness! {
    name: belt_wire_enc_b2b,
    bytes: 64,
    unwind: 60,
    stubs: [(crate::g5, stub_g5), (crate::g13, stub_g13), (crate::g21, stub_g21)],
    prop: |inp| {
        let key: [u8; 32] = take(inp, 0);
        let blk: [u8; 16] = take(inp, 32);
        let pre: [u8; 16] = take(inp, 48);
        let c = BeltBlock::new(&key.into());
        let ib = blk.into();
        let mut ob = pre.into();
        c.encrypt_block_b2b(&ib, &mut ob);
        let e = r::encrypt_with(&key, &blk, uf_g5::call, uf_g13::call, uf_g21::call);
        vcheck!(ib.0 == blk);
        Some(ob.0 == e)
    }
}

//@ harness name=belt_rt_ed prop=C01,C20 tier=quick bits=384 stub=1 est=165 need=4 desc="W: BeltBlock dec(enc(b)) == b incl. key loading, all keys, all blocks, G5/G13/G21 arbitrary functions"
verif_harness! {
    name: belt_rt_ed,
    bytes: 48,
    unwind: 60,
    stubs: [(crate::g5, stub_g5), (crate::g13, stub_g13), (crate::g21, stub_g21)],
    prop: |inp| {
        let key: [u8; 32] = take(inp, 0);
        let blk: [u8; 16] = take(inp, 32);
        let c = BeltBlock::new(&key.into());
        let mut b = blk.into();
        c.encrypt_block(&mut b);
        c.decrypt_block(&mut b);
        Some(b.0 == blk)
    }
}

//@ harness name=belt_rt_de prop=C01,C20 tier=quick bits=384 stub=1 est=150 need=4 desc="W: BeltBlock enc(dec(b)) == b incl. key loading, all keys, all blocks, G5/G13/G21 arbitrary functions"
verif_harness! {
    name: belt_rt_de,
    bytes: 48,
    unwind: 60,
    stubs: [(crate::g5, stub_g5), (crate::g13, stub_g13), (crate::g21, stub_g21)],
    prop: |inp| {
        let key: [u8; 32] = take(inp, 0);
        let blk: [u8; 16] = take(inp, 32);
        let c = BeltBlock::new(&key.into());
        let mut b = blk.into();
        c.decrypt_block(&mut b);
        c.encrypt_block(&mut b);
        Some(b.0 == blk)
    }
}

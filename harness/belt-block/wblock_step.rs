// BelT wide block at LONG lengths (C18, C01, C20): one inductive step instead of the whole loop.
//
// belt_wblock_enc / belt_wblock_dec are `for i in <range> { ROUND(i) }` over 2n rounds, n = ceil(len / 16): at len = 2033
// (the first length whose round counter reaches 256 and no longer fits one octet) that is 256 rounds over a 2 kB buffer,
// beyond any whole-function query.  The shadow variant `belt-block:step` replaces, by two counted textual substitutions,
// the two range expressions by `wbstep::range(lo, hi)`, which is `lo..hi` until a harness selects a round and `i0..i0+1`
// afterwards (checked to lie inside lo..hi); NOTHING in the round body is touched.  A harness then runs the REAL function
// on an arbitrary buffer with an arbitrary selected round i0 in 1..=2n:
//     body_enc(i0)(buf) == oracle round i0 (STB 34.101.31 6.2.3 steps 1-4),   body_dec(i0)(buf) == oracle round i0 (6.2.4),
//     body_dec(i0)(body_enc(i0)(buf)) == buf  and  body_enc(i0)(body_dec(i0)(buf)) == buf.
// The whole functions are the compositions of these rounds for i = 1..2n (enc) and i = 2n..1 (dec): equality per round for
// every buffer and every i gives equality of the compositions for every input (induction over the rounds), and the
// per-round inverses give the inverse of the composition.  What the step does NOT cover is the range expression itself
// (that the loop runs i = 1..=2n in that order): it is exercised by the whole-function harnesses of wblock.rs at lengths
// 32..=48, where the same expression runs unmodified.  belt-block under the run's key is uninterpreted (as in wblock.rs).
use super::prelude::*;
use crate::{belt_wblock_dec, belt_wblock_enc};
use refmodels::belt as r;

pub mod wbstep {
    /// selected round (meaningful while ACTIVE)
    pub static mut START: usize = 0;
    /// set when the selected round is outside the real range of the loop it was offered to
    pub static mut OUTSIDE: bool = false;
    /// concrete flag: a round is selected (kept apart from the possibly symbolic round number, so that the choice between
    /// the real range and the single round is decided during symbolic execution)
    pub static mut ACTIVE: bool = false;
    pub fn select(i: usize) {
        unsafe {
            ACTIVE = true;
            START = i;
            OUTSIDE = false;
        }
    }
    pub fn clear() {
        unsafe {
            ACTIVE = false;
        }
    }
    pub fn outside() -> bool {
        unsafe { OUTSIDE }
    }
    /// Either the real range or exactly one selected value; "exactly one" is structural (a concrete flag), so that
    /// symbolic execution runs the loop body once instead of unwinding a range with symbolic bounds.
    pub struct Rounds {
        real: core::ops::Range<usize>,
        single: bool,
        pending: bool,
        value: usize,
    }
    impl Iterator for Rounds {
        type Item = usize;
        fn next(&mut self) -> Option<usize> {
            if self.single {
                if self.pending {
                    self.pending = false;
                    Some(self.value)
                } else {
                    None
                }
            } else {
                self.real.next()
            }
        }
    }
    impl DoubleEndedIterator for Rounds {
        fn next_back(&mut self) -> Option<usize> {
            if self.single {
                self.next()
            } else {
                self.real.next_back()
            }
        }
    }
    pub fn range(lo: usize, hi: usize) -> Rounds {
        let s = unsafe { START };
        if !unsafe { ACTIVE } {
            Rounds { real: lo..hi, single: false, pending: false, value: 0 }
        } else {
            if !(lo <= s && s < hi) {
                unsafe { OUTSIDE = true };
            }
            Rounds { real: 0..0, single: true, pending: true, value: s }
        }
    }
}

pub static mut WKEY: [u32; 8] = [0; 8];
fn key_octets(k: &[u32; 8]) -> [u8; 32] {
    let mut o = [0u8; 32];
    let mut i = 0;
    while i < 8 {
        let b = k[i].to_le_bytes();
        o[4 * i] = b[0];
        o[4 * i + 1] = b[1];
        o[4 * i + 2] = b[2];
        o[4 * i + 3] = b[3];
        i += 1;
    }
    o
}
fn conc_e(x: u128) -> u128 {
    let k = unsafe { WKEY };
    u128::from_le_bytes(r::encrypt(&key_octets(&k), &x.to_le_bytes()))
}
cuf1!(uf_e, vuf_belt_step_e, u128, u128, conc_e);
pub fn stub_raw(x: [u32; 4], key: &[u32; 8]) -> [u32; 4] {
    #[cfg(kani)]
    {
        let k = unsafe { WKEY };
        kani::assert(*key == k, "VERIF_SAME_KEY");
    }
    let v = uf_e::call((x[0] as u128) | ((x[1] as u128) << 32) | ((x[2] as u128) << 64) | ((x[3] as u128) << 96));
    [v as u32, (v >> 32) as u32, (v >> 64) as u32, (v >> 96) as u32]
}
fn oe(b: &[u8; 16]) -> [u8; 16] {
    uf_e::call(u128::from_le_bytes(*b)).to_le_bytes()
}
fn key_of(inp: &[u8]) -> [u32; 8] {
    let mut k = [0u32; 8];
    let mut i = 0;
    while i < 8 {
        k[i] = take_u32(inp, 4 * i);
        i += 1;
    }
    unsafe {
        WKEY = k;
    }
    k
}
fn eq<const M: usize>(a: &[u8; M], b: &[u8; M]) -> bool {
    // branch-free comparison (one conjunction instead of M early exits)
    let mut d = 0u8;
    let mut i = 0;
    while i < M {
        d |= a[i] ^ b[i];
        i += 1;
    }
    d == 0
}

/// inp = key (32) | selected round (2, little-endian) | buffer (M)
fn step_conf<const M: usize>(inp: &[u8], dec: bool) -> Option<bool> {
    let key = key_of(inp);
    let i0 = take_u16(inp, 32) as usize;
    vassume!(i0 >= 1 && i0 <= 2 * r::nblocks(M));
    let data: [u8; M] = take(inp, 34);
    let mut buf = data;
    wbstep::select(i0);
    let res = if dec { belt_wblock_dec(&mut buf[..], &key) } else { belt_wblock_enc(&mut buf[..], &key) };
    wbstep::clear();
    vcheck!(res.is_ok());
    vcheck!(!wbstep::outside());
    let e = if dec { r::wblock_dec_round(&data, M, i0, oe) } else { r::wblock_enc_round(&data, M, i0, oe) };
    Some(eq(&buf, &e))
}
fn step_inverse<const M: usize>(inp: &[u8], enc_first: bool) -> Option<bool> {
    let key = key_of(inp);
    let i0 = take_u16(inp, 32) as usize;
    vassume!(i0 >= 1 && i0 <= 2 * r::nblocks(M));
    let data: [u8; M] = take(inp, 34);
    let mut buf = data;
    wbstep::select(i0);
    let r1 = if enc_first { belt_wblock_enc(&mut buf[..], &key) } else { belt_wblock_dec(&mut buf[..], &key) };
    let r2 = if enc_first { belt_wblock_dec(&mut buf[..], &key) } else { belt_wblock_enc(&mut buf[..], &key) };
    wbstep::clear();
    vcheck!(r1.is_ok() && r2.is_ok());
    vcheck!(!wbstep::outside());
    Some(eq(&buf, &data))
}

macro_rules! step_set {
    ($enc:ident, $dec:ident, $ed:ident, $de:ident, $m:expr, $u:expr) => {
        verif_harness! { name: $enc, bytes: 34 + $m, unwind: $u, stubs: [(crate::belt_block_raw, stub_raw)], prop: |inp| { step_conf::<$m>(&inp[..], false) } }
        verif_harness! { name: $dec, bytes: 34 + $m, unwind: $u, stubs: [(crate::belt_block_raw, stub_raw)], prop: |inp| { step_conf::<$m>(&inp[..], true) } }
        verif_harness! { name: $ed, bytes: 34 + $m, unwind: $u, stubs: [(crate::belt_block_raw, stub_raw)], prop: |inp| { step_inverse::<$m>(&inp[..], true) } }
        verif_harness! { name: $de, bytes: 34 + $m, unwind: $u, stubs: [(crate::belt_block_raw, stub_raw)], prop: |inp| { step_inverse::<$m>(&inp[..], false) } }
    };
}

// ---- long, block-aligned length: 2048 octets = 128 blocks (n = 128, counter up to 256, the same as for 2033..=2047).
// Two helpers of the crate, `xor` and `xor_set` (sixteen-octet XORs written as iterator chains: ~2 k of them per round at this
// length, 2.9 M program steps), are replaced by index-loop / u128 transcriptions; `wbstep_leaf_xor` proves the transcriptions
// equal to the real helpers for all contents and all operand lengths 0..=16.  The oracle is the whole-block form on 128-bit
// numbers (validated natively against the octet form).
fn lean_xor(block: [u8; 16], val: &[u8]) -> [u8; 16] {
    if val.len() >= 16 {
        let mut v = [0u8; 16];
        v.copy_from_slice(&val[..16]);
        (u128::from_le_bytes(block) ^ u128::from_le_bytes(v)).to_le_bytes()
    } else {
        let mut b = block;
        let mut k = 0;
        while k < val.len() {
            b[k] ^= val[k];
            k += 1;
        }
        b
    }
}
fn lean_xor_set(block: &mut [u8], val: &[u8]) {
    let n = if block.len() < val.len() { block.len() } else { val.len() };
    let mut k = 0;
    while k < n {
        block[k] ^= val[k];
        k += 1;
    }
}
//@ harness name=wbstep_leaf_xor prop=C18,C20 tier=quick bits=400 variants=belt-block:step est=65 desc="leaf lemma for the long-length step harnesses: the crate's private helpers xor(block, val) and xor_set(block, val) equal their index-loop / u128 transcriptions for all contents and every operand length 0..=16 (zip semantics: the shorter operand decides)"
verif_harness! {
    name: wbstep_leaf_xor,
    bytes: 50,
    unwind: 40,
    prop: |inp| {
        let a: [u8; 16] = take(inp, 0);
        let v: [u8; 16] = take(inp, 16);
        let la = (inp[48] % 17) as usize;
        let lv = (inp[49] % 17) as usize;
        vcheck!(crate::xor(a, &v[..lv]) == lean_xor(a, &v[..lv]));
        let mut x = a;
        let mut y = a;
        crate::xor_set(&mut x[..la], &v[..lv]);
        lean_xor_set(&mut y[..la], &v[..lv]);
        Some(x == y)
    }
}
fn words<const M: usize, const N: usize>(b: &[u8; M]) -> [u128; N] {
    let mut w = [0u128; N];
    let mut j = 0;
    while j < N {
        let mut t = [0u8; 16];
        t.copy_from_slice(&b[16 * j..16 * j + 16]);
        w[j] = u128::from_le_bytes(t);
        j += 1;
    }
    w
}
fn eqw<const N: usize>(a: &[u128; N], b: &[u128; N]) -> bool {
    let mut d = 0u128;
    let mut i = 0;
    while i < N {
        d |= a[i] ^ b[i];
        i += 1;
    }
    d == 0
}
fn ue(x: u128) -> u128 {
    uf_e::call(x)
}
/// inp = key (32) | selected round (2) | buffer (M = 16 N)
fn bstep_conf<const M: usize, const N: usize>(inp: &[u8], dec: bool) -> Option<bool> {
    let key = key_of(inp);
    let i0 = take_u16(inp, 32) as usize;
    vassume!(i0 >= 1 && i0 <= 2 * N);
    let data: [u8; M] = take(inp, 34);
    let mut buf = data;
    wbstep::select(i0);
    let res = if dec { belt_wblock_dec(&mut buf[..], &key) } else { belt_wblock_enc(&mut buf[..], &key) };
    wbstep::clear();
    vcheck!(res.is_ok());
    vcheck!(!wbstep::outside());
    let w: [u128; N] = words(&data);
    let e = if dec { r::wblock_dec_round_words(&w, i0, ue) } else { r::wblock_enc_round_words(&w, i0, ue) };
    Some(eqw(&words::<M, N>(&buf), &e))
}
fn bstep_inverse<const M: usize, const N: usize>(inp: &[u8], enc_first: bool) -> Option<bool> {
    let key = key_of(inp);
    let i0 = take_u16(inp, 32) as usize;
    vassume!(i0 >= 1 && i0 <= 2 * N);
    let data: [u8; M] = take(inp, 34);
    let mut buf = data;
    wbstep::select(i0);
    let r1 = if enc_first { belt_wblock_enc(&mut buf[..], &key) } else { belt_wblock_dec(&mut buf[..], &key) };
    let r2 = if enc_first { belt_wblock_dec(&mut buf[..], &key) } else { belt_wblock_enc(&mut buf[..], &key) };
    wbstep::clear();
    vcheck!(r1.is_ok() && r2.is_ok());
    vcheck!(!wbstep::outside());
    Some(eqw(&words::<M, N>(&buf), &words::<M, N>(&data)))
}
macro_rules! bstep_set {
    ($enc:ident, $dec:ident, $ed:ident, $de:ident, $m:expr, $n:expr, $u:expr) => {
        verif_harness! { name: $enc, bytes: 34 + $m, unwind: $u, stubs: [(crate::belt_block_raw, stub_raw), (crate::xor, lean_xor), (crate::xor_set, lean_xor_set)], prop: |inp| { bstep_conf::<$m, $n>(&inp[..], false) } }
        verif_harness! { name: $dec, bytes: 34 + $m, unwind: $u, stubs: [(crate::belt_block_raw, stub_raw), (crate::xor, lean_xor), (crate::xor_set, lean_xor_set)], prop: |inp| { bstep_conf::<$m, $n>(&inp[..], true) } }
        verif_harness! { name: $ed, bytes: 34 + $m, unwind: $u, stubs: [(crate::belt_block_raw, stub_raw), (crate::xor, lean_xor), (crate::xor_set, lean_xor_set)], prop: |inp| { bstep_inverse::<$m, $n>(&inp[..], true) } }
        verif_harness! { name: $de, bytes: 34 + $m, unwind: $u, stubs: [(crate::belt_block_raw, stub_raw), (crate::xor, lean_xor), (crate::xor_set, lean_xor_set)], prop: |inp| { bstep_inverse::<$m, $n>(&inp[..], false) } }
    };
}
//@ harness name=wbstep_enc_l2048 prop=C18,C20 tier=quick bits=16656 stub=1 quick=C20 variants=belt-block:step est=155 need=7 desc="inductive step, len = 2048 (n = 128: the round counter runs to 256 and no longer fits one octet; same n as 2033..=2047): ONE round of the real belt_wblock_enc with an arbitrary selected counter i0 in 1..=256 on an arbitrary 2048-octet buffer == oracle round i0 (6.2.3 steps 1-4 on 128-bit numbers, counter as the number i0); all keys; belt-block under the key uninterpreted; xor / xor_set through their proved transcriptions; no panic / overflow on the way"
//@ harness name=wbstep_dec_l2048 prop=C18,C20 tier=quick bits=16656 stub=1 variants=belt-block:step est=130 need=7 desc="inductive step, len = 2048: one round of the real belt_wblock_dec, arbitrary counter i0 in 1..=256, arbitrary buffer == oracle round (6.2.4)"
//@ harness name=wbstep_inv_ed_l2048 prop=C18,C01,C20 tier=quick bits=16656 stub=1 quick=C01 variants=belt-block:step est=330 need=11 desc="inductive step, len = 2048: dec round i0 after enc round i0 restores the buffer, arbitrary i0 in 1..=256, arbitrary buffer and key (the compositions are then inverse in this order)"
//@ harness name=wbstep_inv_de_l2048 prop=C18,C01,C20 tier=quick bits=16656 stub=1 variants=belt-block:step est=255 need=11 desc="inductive step, len = 2048: enc round i0 after dec round i0 restores the buffer"
bstep_set!(wbstep_enc_l2048, wbstep_dec_l2048, wbstep_inv_ed_l2048, wbstep_inv_de_l2048, 2048, 128, 2100);
//@ harness name=wbstep_enc_l4096 prop=C18,C20 tier=thorough bits=33040 stub=1 est=900 mem=30 variants=belt-block:step desc="inductive step, len = 4096 (n = 256, counter up to 512): one enc round, arbitrary counter, == oracle round"
//@ harness name=wbstep_dec_l4096 prop=C18,C20 tier=thorough bits=33040 stub=1 est=900 mem=30 variants=belt-block:step desc="inductive step, len = 4096: one dec round == oracle round"
//@ harness name=wbstep_inv_ed_l4096 prop=C18,C01,C20 tier=thorough bits=33040 stub=1 est=900 mem=30 variants=belt-block:step desc="inductive step, len = 4096: dec round after enc round restores the buffer"
//@ harness name=wbstep_inv_de_l4096 prop=C18,C01,C20 tier=thorough bits=33040 stub=1 est=900 mem=30 variants=belt-block:step desc="inductive step, len = 4096: enc round after dec round restores the buffer"
bstep_set!(wbstep_enc_l4096, wbstep_dec_l4096, wbstep_inv_ed_l4096, wbstep_inv_de_l4096, 4096, 256, 4200);
// not block aligned, octet oracle, nothing but belt-block abstracted (thorough: 2.9 M program steps at this length)
//@ harness name=wbstep_enc_l2033 prop=C18,C20 tier=thorough bits=16536 stub=1 est=1500 mem=30 variants=belt-block:step desc="inductive step, len = 2033 (not a multiple of 16, n = 128): one round of the real belt_wblock_enc, arbitrary counter i0 in 1..=256, arbitrary buffer == octet-level oracle round; only belt-block abstracted"
//@ harness name=wbstep_dec_l2033 prop=C18,C20 tier=thorough bits=16536 stub=1 est=1500 mem=30 variants=belt-block:step desc="inductive step, len = 2033: one round of the real belt_wblock_dec == octet-level oracle round"
//@ harness name=wbstep_inv_ed_l2033 prop=C18,C01,C20 tier=thorough bits=16536 stub=1 est=1500 mem=30 variants=belt-block:step desc="inductive step, len = 2033: dec round after enc round restores the buffer"
//@ harness name=wbstep_inv_de_l2033 prop=C18,C01,C20 tier=thorough bits=16536 stub=1 est=1500 mem=30 variants=belt-block:step desc="inductive step, len = 2033: enc round after dec round restores the buffer"
step_set!(wbstep_enc_l2033, wbstep_dec_l2033, wbstep_inv_ed_l2033, wbstep_inv_de_l2033, 2033, 2080);
//@ harness name=wbstep_enc_l100 prop=C18,C20 tier=quick bits=1072 stub=1 variants=belt-block:step est=35 desc="inductive step, len = 100 (not a multiple of 16, n = 7): one enc round, arbitrary counter in 1..=14, == oracle round"
//@ harness name=wbstep_dec_l100 prop=C18,C20 tier=quick bits=1072 stub=1 variants=belt-block:step est=30 desc="inductive step, len = 100: one dec round == oracle round"
//@ harness name=wbstep_inv_ed_l100 prop=C18,C01,C20 tier=quick bits=1072 stub=1 variants=belt-block:step est=50 need=4 desc="inductive step, len = 100: dec round after enc round restores the buffer"
//@ harness name=wbstep_inv_de_l100 prop=C18,C01,C20 tier=quick bits=1072 stub=1 variants=belt-block:step est=45 need=4 desc="inductive step, len = 100: enc round after dec round restores the buffer"
step_set!(wbstep_enc_l100, wbstep_dec_l100, wbstep_inv_ed_l100, wbstep_inv_de_l100, 100, 150);

// BelT wide block at LONG lengths (C18, C01, C20): one inductive step instead of the whole loop.
//
// belt_wblock_enc / belt_wblock_dec are `for i in <range> { ROUND(i) }` over 2n rounds, n = ceil(len / 16): at len = 2033
// (the first length whose round counter reaches 256 and no longer fits one octet) that is 256 rounds over a 2 kB buffer,
// beyond any whole-function query.  The shadow variant `belt-block:step` replaces, by two counted textual substitutions,
// the two range expressions by `wbstep::range(lo, hi)`, which is `lo..hi` until a harness selects a round and `i0..i0+1`
// afterwards (checked to lie inside lo..hi); NOTHING in the round body is touched.  A harness then runs the REAL function
// on an arbitrary buffer with an arbitrary selected round i0 in 1..=2n:
//     body_enc(i0)(buf) == oracle round i0 (STB 34.101.31 6.2.3 steps 1-4),   body_dec(i0)(buf) == oracle round i0 (6.2.4),
//     body_dec(i0)(body_enc(i0)(buf)) == buf  and  body_enc(i0)(body_dec(i0)(buf)) == buf.
// The whole functions are the compositions of these rounds for i = 1..2n (enc) and i = 2n..1 (dec): equality per round for
// every buffer and every i gives equality of the compositions for every input (induction over the rounds), and the
// per-round inverses give the inverse of the composition.  What the step does NOT cover is the range expression itself
// (that the loop runs i = 1..=2n in that order): it is exercised by the whole-function harnesses of wblock.rs at lengths
// 32..=48, where the same expression runs unmodified.  belt-block under the run's key is uninterpreted (as in wblock.rs).
use super::prelude::*;
use crate::{belt_wblock_dec, belt_wblock_enc};
use refmodels::belt as r;

pub mod wbstep {
    /// selected round (0 = none: the ranges are the real ones)
    pub static mut START: usize = 0;
    /// set when the selected round is outside the real range of the loop it was offered to
    pub static mut OUTSIDE: bool = false;
    pub fn select(i: usize) {
        unsafe {
            START = i;
            OUTSIDE = false;
        }
    }
    pub fn outside() -> bool {
        unsafe { OUTSIDE }
    }
    pub fn range(lo: usize, hi: usize) -> core::ops::Range<usize> {
        let s = unsafe { START };
        if s == 0 {
            lo..hi
        } else {
            if !(lo <= s && s < hi) {
                unsafe { OUTSIDE = true };
            }
            s..s + 1
        }
    }
}

pub static mut WKEY: [u32; 8] = [0; 8];
fn key_octets(k: &[u32; 8]) -> [u8; 32] {
    let mut o = [0u8; 32];
    let mut i = 0;
    while i < 8 {
        let b = k[i].to_le_bytes();
        o[4 * i] = b[0];
        o[4 * i + 1] = b[1];
        o[4 * i + 2] = b[2];
        o[4 * i + 3] = b[3];
        i += 1;
    }
    o
}
fn conc_e(x: u128) -> u128 {
    let k = unsafe { WKEY };
    u128::from_le_bytes(r::encrypt(&key_octets(&k), &x.to_le_bytes()))
}
cuf1!(uf_e, vuf_belt_step_e, u128, u128, conc_e);
pub fn stub_raw(x: [u32; 4], key: &[u32; 8]) -> [u32; 4] {
    #[cfg(kani)]
    {
        let k = unsafe { WKEY };
        kani::assert(*key == k, "VERIF_SAME_KEY");
    }
    let v = uf_e::call((x[0] as u128) | ((x[1] as u128) << 32) | ((x[2] as u128) << 64) | ((x[3] as u128) << 96));
    [v as u32, (v >> 32) as u32, (v >> 64) as u32, (v >> 96) as u32]
}
fn oe(b: &[u8; 16]) -> [u8; 16] {
    uf_e::call(u128::from_le_bytes(*b)).to_le_bytes()
}
fn key_of(inp: &[u8]) -> [u32; 8] {
    let mut k = [0u32; 8];
    let mut i = 0;
    while i < 8 {
        k[i] = take_u32(inp, 4 * i);
        i += 1;
    }
    unsafe {
        WKEY = k;
    }
    k
}
fn eq<const M: usize>(a: &[u8; M], b: &[u8; M]) -> bool {
    // branch-free comparison (one conjunction instead of M early exits)
    let mut d = 0u8;
    let mut i = 0;
    while i < M {
        d |= a[i] ^ b[i];
        i += 1;
    }
    d == 0
}

/// inp = key (32) | selected round (2, little-endian) | buffer (M)
fn step_conf<const M: usize>(inp: &[u8], dec: bool) -> Option<bool> {
    let key = key_of(inp);
    let i0 = take_u16(inp, 32) as usize;
    vassume!(i0 >= 1 && i0 <= 2 * r::nblocks(M));
    let data: [u8; M] = take(inp, 34);
    let mut buf = data;
    wbstep::select(i0);
    let res = if dec { belt_wblock_dec(&mut buf[..], &key) } else { belt_wblock_enc(&mut buf[..], &key) };
    wbstep::select(0);
    vcheck!(res.is_ok());
    vcheck!(!wbstep::outside());
    let e = if dec { r::wblock_dec_round(&data, M, i0, oe) } else { r::wblock_enc_round(&data, M, i0, oe) };
    Some(eq(&buf, &e))
}
fn step_inverse<const M: usize>(inp: &[u8], enc_first: bool) -> Option<bool> {
    let key = key_of(inp);
    let i0 = take_u16(inp, 32) as usize;
    vassume!(i0 >= 1 && i0 <= 2 * r::nblocks(M));
    let data: [u8; M] = take(inp, 34);
    let mut buf = data;
    wbstep::select(i0);
    let r1 = if enc_first { belt_wblock_enc(&mut buf[..], &key) } else { belt_wblock_dec(&mut buf[..], &key) };
    let r2 = if enc_first { belt_wblock_dec(&mut buf[..], &key) } else { belt_wblock_enc(&mut buf[..], &key) };
    wbstep::select(0);
    vcheck!(r1.is_ok() && r2.is_ok());
    vcheck!(!wbstep::outside());
    Some(eq(&buf, &data))
}

macro_rules! step_set {
    ($enc:ident, $dec:ident, $ed:ident, $de:ident, $m:expr, $u:expr) => {
        verif_harness! { name: $enc, bytes: 34 + $m, unwind: $u, stubs: [(crate::belt_block_raw, stub_raw)], prop: |inp| { step_conf::<$m>(&inp[..], false) } }
        verif_harness! { name: $dec, bytes: 34 + $m, unwind: $u, stubs: [(crate::belt_block_raw, stub_raw)], prop: |inp| { step_conf::<$m>(&inp[..], true) } }
        verif_harness! { name: $ed, bytes: 34 + $m, unwind: $u, stubs: [(crate::belt_block_raw, stub_raw)], prop: |inp| { step_inverse::<$m>(&inp[..], true) } }
        verif_harness! { name: $de, bytes: 34 + $m, unwind: $u, stubs: [(crate::belt_block_raw, stub_raw)], prop: |inp| { step_inverse::<$m>(&inp[..], false) } }
    };
}

//@ harness name=wbstep_enc_l2033 prop=C18,C20 tier=quick bits=16536 stub=1 est=300 variants=belt-block:step desc="inductive step, len = 2033 (n = 128, round counter up to 256): ONE round of the real belt_wblock_enc with an arbitrary selected counter i0 in 1..=256 on an arbitrary 2033-octet buffer == oracle round i0 (6.2.3 steps 1-4: block sum, shift, belt-block of the sum, counter as a 128-bit little-endian number); all keys; belt-block under the key uninterpreted; no panic / overflow on the way"
//@ harness name=wbstep_dec_l2033 prop=C18,C20 tier=quick bits=16536 stub=1 est=300 variants=belt-block:step desc="inductive step, len = 2033: one round of the real belt_wblock_dec, arbitrary counter i0 in 1..=256, arbitrary buffer == oracle round (6.2.4)"
//@ harness name=wbstep_inv_ed_l2033 prop=C18,C01,C20 tier=quick bits=16536 stub=1 est=300 variants=belt-block:step desc="inductive step, len = 2033: dec round i0 after enc round i0 restores the buffer, arbitrary i0 in 1..=256, arbitrary buffer and key (the compositions are then inverse in this order)"
//@ harness name=wbstep_inv_de_l2033 prop=C18,C01,C20 tier=quick bits=16536 stub=1 est=300 variants=belt-block:step desc="inductive step, len = 2033: enc round i0 after dec round i0 restores the buffer"
step_set!(wbstep_enc_l2033, wbstep_dec_l2033, wbstep_inv_ed_l2033, wbstep_inv_de_l2033, 2033, 2080);
//@ harness name=wbstep_enc_l2048 prop=C18,C20 tier=thorough bits=16656 stub=1 est=300 variants=belt-block:step desc="inductive step, len = 2048 (a multiple of 16): one enc round, arbitrary counter, == oracle round"
//@ harness name=wbstep_dec_l2048 prop=C18,C20 tier=thorough bits=16656 stub=1 est=300 variants=belt-block:step desc="inductive step, len = 2048: one dec round == oracle round"
//@ harness name=wbstep_inv_ed_l2048 prop=C18,C01,C20 tier=thorough bits=16656 stub=1 est=300 variants=belt-block:step desc="inductive step, len = 2048: dec round after enc round restores the buffer"
//@ harness name=wbstep_inv_de_l2048 prop=C18,C01,C20 tier=thorough bits=16656 stub=1 est=300 variants=belt-block:step desc="inductive step, len = 2048: enc round after dec round restores the buffer"
step_set!(wbstep_enc_l2048, wbstep_dec_l2048, wbstep_inv_ed_l2048, wbstep_inv_de_l2048, 2048, 2100);
//@ harness name=wbstep_enc_l100 prop=C18,C20 tier=quick bits=1072 stub=1 est=60 variants=belt-block:step desc="inductive step, len = 100 (not a multiple of 16, n = 7): one enc round, arbitrary counter in 1..=14, == oracle round"
//@ harness name=wbstep_dec_l100 prop=C18,C20 tier=quick bits=1072 stub=1 est=60 variants=belt-block:step desc="inductive step, len = 100: one dec round == oracle round"
//@ harness name=wbstep_inv_ed_l100 prop=C18,C01,C20 tier=quick bits=1072 stub=1 est=60 variants=belt-block:step desc="inductive step, len = 100: dec round after enc round restores the buffer"
//@ harness name=wbstep_inv_de_l100 prop=C18,C01,C20 tier=quick bits=1072 stub=1 est=60 variants=belt-block:step desc="inductive step, len = 100: enc round after dec round restores the buffer"
step_set!(wbstep_enc_l100, wbstep_dec_l100, wbstep_inv_ed_l100, wbstep_inv_de_l100, 100, 150);

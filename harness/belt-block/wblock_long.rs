// BelT wide block at lengths >= 2033 octets (round counter > 255): lockstep abstraction of belt-block, see below.
// NOT in the plan yet: written but not measured (the 272-octet twin in wblock.rs needed more than 900 s with the old
// table-based uninterpreted functions).  Uses the helpers of wblock.rs.
use super::prelude::*;
use super::wblock::*;
use crate::{belt_wblock_dec, belt_wblock_enc};
use refmodels::belt as r;

// ------------------------------------------------------------------------------------------- long lengths (round counter > 255)
//
// n = ceil(len / 16) >= 128 makes the round counter 2n reach 256, i.e. its second octet matters.  With 512 calls of the
// block cipher the quadratic Ackermann encoding is replaced by a LOCKSTEP abstraction (linear): the i-th call of the first
// run (the real code, through the stub) logs its argument X[i] and returns a fresh symbolic value Y[i] (drawn from the
// harness input); the matching call of the second run (the oracle, forwards; or the real inverse function, which meets
// the same arguments in reverse order) must be made on exactly X[i] -- an obligation, VERIF_LOCKSTEP_ARG -- and gets the
// same Y[i].  Y is not constrained to be functionally consistent, which only adds behaviours: if the property holds for
// every sequence Y it holds for Y[i] = E(X[i]) with the real block cipher E, where by induction over the calls both runs
// coincide with the real executions.  Natively (replay) the real belt_block_raw / the oracle's belt-block are used.

#[cfg(kani)]
pub mod ls {
    pub static mut NI: usize = 0; // calls of the first run
    pub static mut NO: usize = 0; // calls of the second run
    pub static mut SECOND: bool = false; // the stub plays the second run (inverse harness)
    pub static mut REV: bool = false; // the second run meets the arguments in reverse order
    pub static mut X0: [u128; 64] = [0; 64];
    pub static mut X1: [u128; 64] = [0; 64];
    pub static mut X2: [u128; 64] = [0; 64];
    pub static mut X3: [u128; 64] = [0; 64];
    pub static mut Y0: [u128; 64] = [0; 64];
    pub static mut Y1: [u128; 64] = [0; 64];
    pub static mut Y2: [u128; 64] = [0; 64];
    pub static mut Y3: [u128; 64] = [0; 64];
    pub unsafe fn xset(i: usize, v: u128) {
        match i / 64 {
            0 => X0[i % 64] = v,
            1 => X1[i % 64] = v,
            2 => X2[i % 64] = v,
            _ => X3[i % 64] = v,
        }
    }
    pub unsafe fn xget(i: usize) -> u128 {
        match i / 64 {
            0 => X0[i % 64],
            1 => X1[i % 64],
            2 => X2[i % 64],
            _ => X3[i % 64],
        }
    }
    pub unsafe fn yset(i: usize, v: u128) {
        match i / 64 {
            0 => Y0[i % 64] = v,
            1 => Y1[i % 64] = v,
            2 => Y2[i % 64] = v,
            _ => Y3[i % 64] = v,
        }
    }
    pub unsafe fn yget(i: usize) -> u128 {
        match i / 64 {
            0 => Y0[i % 64],
            1 => Y1[i % 64],
            2 => Y2[i % 64],
            _ => Y3[i % 64],
        }
    }
    pub fn first(x: u128) -> u128 {
        unsafe {
            let i = NI;
            kani::assert(i < 256, "VERIF_LOCKSTEP_CAPACITY");
            xset(i, x);
            NI = i + 1;
            yget(i)
        }
    }
    pub fn second(x: u128) -> u128 {
        unsafe {
            let j = NO;
            kani::assert(j < NI, "VERIF_LOCKSTEP_COUNT");
            let i = if REV { NI - 1 - j } else { j };
            kani::assert(x == xget(i), "VERIF_LOCKSTEP_ARG");
            NO = j + 1;
            yget(i)
        }
    }
}

/// Load the fresh results Y[0..cnt] from the harness input (16 octets each, from offset `off`).
fn ls_init(inp: &[u8], off: usize, cnt: usize) {
    #[cfg(kani)]
    unsafe {
        let mut i = 0;
        while i < cnt {
            ls::yset(i, take_u128(inp, off + 16 * i));
            i += 1;
        }
    }
}
fn ls_second(rev: bool, stub_is_second: bool) {
    #[cfg(kani)]
    unsafe {
        ls::REV = rev;
        ls::SECOND = stub_is_second;
    }
}
fn ls_balanced() -> bool {
    #[cfg(kani)]
    unsafe {
        return ls::NI == ls::NO;
    }
    #[cfg(not(kani))]
    true
}
pub fn stub_raw_ls(x: [u32; 4], key: &[u32; 8]) -> [u32; 4] {
    let xv = (x[0] as u128) | ((x[1] as u128) << 32) | ((x[2] as u128) << 64) | ((x[3] as u128) << 96);
    #[cfg(kani)]
    let v = {
        let k = unsafe { WKEY };
        kani::assert(*key == k, "VERIF_SAME_KEY");
        if unsafe { ls::SECOND } {
            ls::second(xv)
        } else {
            ls::first(xv)
        }
    };
    #[cfg(not(kani))]
    let v = conc_e(xv);
    [v as u32, (v >> 32) as u32, (v >> 64) as u32, (v >> 96) as u32]
}
/// E for the oracle: the second run, forwards.
fn oe_ls(b: &[u8; 16]) -> [u8; 16] {
    #[cfg(kani)]
    let v = ls::second(u128::from_le_bytes(*b));
    #[cfg(not(kani))]
    let v = conc_e(u128::from_le_bytes(*b));
    v.to_le_bytes()
}

/// inp = key (32) | data (L) | Y (16 * 2n); constant length L.
fn conf_long<const L: usize>(inp: &[u8], dec: bool) -> Option<bool> {
    let key = key_of(inp);
    let data: [u8; L] = take(inp, 32);
    ls_init(inp, 32 + L, 2 * ((L + 15) / 16));
    let mut buf = data;
    let res = if dec { belt_wblock_dec(&mut buf, &key) } else { belt_wblock_enc(&mut buf, &key) };
    vcheck!(res.is_ok());
    ls_second(false, false);
    let e = if dec { r::wblock_dec_with(&data, L, oe_ls) } else { r::wblock_enc_with(&data, L, oe_ls) };
    vcheck!(ls_balanced());
    match e {
        Some(e) => Some(buf == e),
        None => Some(false),
    }
}
fn inverse_long<const L: usize>(inp: &[u8]) -> Option<bool> {
    let key = key_of(inp);
    let data: [u8; L] = take(inp, 32);
    ls_init(inp, 32 + L, 2 * ((L + 15) / 16));
    let mut buf = data;
    vcheck!(belt_wblock_enc(&mut buf, &key).is_ok());
    ls_second(true, true);
    vcheck!(belt_wblock_dec(&mut buf, &key).is_ok());
    vcheck!(ls_balanced());
    Some(buf == data)
}

/// Whole number of blocks: the oracle on the explicit list r_1..r_N of 128-bit words (cheap to execute symbolically).
fn conf_long_words<const N: usize, const L: usize>(inp: &[u8], dec: bool) -> Option<bool> {
    let key = key_of(inp);
    let data: [u8; L] = take(inp, 32);
    ls_init(inp, 32 + L, 2 * N);
    let mut buf = data;
    let res = if dec { belt_wblock_dec(&mut buf, &key) } else { belt_wblock_enc(&mut buf, &key) };
    vcheck!(res.is_ok());
    ls_second(false, false);
    let mut w = [0u128; N];
    let mut i = 0;
    while i < N {
        w[i] = take_u128(&data, 16 * i);
        i += 1;
    }
    #[cfg(kani)]
    let f = |x: u128| ls::second(x);
    #[cfg(not(kani))]
    let f = |x: u128| conc_e(x);
    let e = if dec { r::wblock_dec_words(&w, f) } else { r::wblock_enc_words(&w, f) };
    vcheck!(ls_balanced());
    i = 0;
    while i < N {
        vcheck!(take_u128(&buf, 16 * i) == e[i]);
        i += 1;
    }
    Some(true)
}

//@ harness name=wblock_long_enc2048 prop=C18,C20 tier=thorough bits=49408 stub=1 est=1500 desc="W (lockstep): belt_wblock_enc == oracle at len = 2048 (128 blocks, 256 rounds: the round counter reaches 256 and needs its second octet), all keys, all contents; belt-block abstracted call by call (fresh result per call, equal arguments in both runs an obligation)"
verif_harness! {
    name: wblock_long_enc2048,
    bytes: 32 + 2048 + 4096,
    unwind: 2060,
    stubs: [(crate::belt_block_raw, stub_raw_ls)],
    prop: |inp| { conf_long_words::<128, 2048>(inp, false) }
}
//@ harness name=wblock_long_dec2048 prop=C18,C20 tier=thorough bits=49408 stub=1 est=1500 desc="W (lockstep): belt_wblock_dec == oracle at len = 2048 (256 rounds), all keys, all contents"
verif_harness! {
    name: wblock_long_dec2048,
    bytes: 32 + 2048 + 4096,
    unwind: 2060,
    stubs: [(crate::belt_block_raw, stub_raw_ls)],
    prop: |inp| { conf_long_words::<128, 2048>(inp, true) }
}
//@ harness name=wblock_long_inv2048 prop=C18,C01,C20 tier=thorough bits=49408 stub=1 est=1500 desc="W (lockstep, reverse order): belt_wblock_dec(belt_wblock_enc(x)) == x at len = 2048, all keys, all contents"
verif_harness! {
    name: wblock_long_inv2048,
    bytes: 32 + 2048 + 4096,
    unwind: 2060,
    stubs: [(crate::belt_block_raw, stub_raw_ls)],
    prop: |inp| { inverse_long::<2048>(inp) }
}
//@ harness name=wblock_long_enc2033 prop=C18,C20 tier=thorough bits=49288 stub=1 est=1500 desc="W (lockstep): belt_wblock_enc == oracle at len = 2033 (128 blocks, last one of a single octet; 256 rounds), all keys, all contents"
verif_harness! {
    name: wblock_long_enc2033,
    bytes: 32 + 2033 + 4096,
    unwind: 2060,
    stubs: [(crate::belt_block_raw, stub_raw_ls)],
    prop: |inp| { conf_long::<2033>(inp, false) }
}
//@ harness name=wblock_long_dec2033 prop=C18,C20 tier=thorough bits=49288 stub=1 est=1500 desc="W (lockstep): belt_wblock_dec == oracle at len = 2033 (256 rounds), all keys, all contents"
verif_harness! {
    name: wblock_long_dec2033,
    bytes: 32 + 2033 + 4096,
    unwind: 2060,
    stubs: [(crate::belt_block_raw, stub_raw_ls)],
    prop: |inp| { conf_long::<2033>(inp, true) }
}
//@ harness name=wblock_long_inv2033 prop=C18,C01,C20 tier=thorough bits=49288 stub=1 est=1500 desc="W (lockstep, reverse order): dec(enc(x)) == x at len = 2033, all keys, all contents"
verif_harness! {
    name: wblock_long_inv2033,
    bytes: 32 + 2033 + 4096,
    unwind: 2060,
    stubs: [(crate::belt_block_raw, stub_raw_ls)],
    prop: |inp| { inverse_long::<2033>(inp) }
}

// BelT wide block (belt_wblock_enc / belt_wblock_dec): conformance to STB 34.101.31 section 6.2 for every key and every
// input of 32..=M octets incl. lengths that are not multiples of 16 (C18), inverse in both orders (C18, C01), rejection
// of shorter input with the buffer untouched (C18), no panic / overflow for longer inputs (C20).
//
// W: `belt_block_raw` is uninterpreted (the direct query with the real block cipher ran out of memory, DESIGN.md 3):
//    one symbolic key per harness run; both directions of the wide block only ever call the block cipher forwards and
//    with that one key, so the block cipher under that key is an arbitrary function E: {0,1}^128 -> {0,1}^128 shared by
//    the real code (through the stub) and the oracle.  That every call uses that key is itself an obligation
//    (VERIF_SAME_KEY).  The real length arithmetic (div_ceil, len-1, len-32, len-16), chunks_exact / fold, copy_within,
//    split_at_mut, the round counter and its little-endian encoding all run unmodified.
//    The tie of belt_block_raw to the standard's belt-block is conf.rs (belt_leaf_g + belt_wire_raw).
use super::prelude::*;
use crate::{belt_wblock_dec, belt_wblock_enc};
use refmodels::belt as r;

/// The key of the current harness run (set by the harness before anything else happens).
pub static mut WKEY: [u32; 8] = [0; 8];

fn key_octets(k: &[u32; 8]) -> [u8; 32] {
    let mut o = [0u8; 32];
    let mut i = 0;
    while i < 8 {
        let b = k[i].to_le_bytes();
        o[4 * i] = b[0];
        o[4 * i + 1] = b[1];
        o[4 * i + 2] = b[2];
        o[4 * i + 3] = b[3];
        i += 1;
    }
    o
}
/// Concrete meaning of E for the native replay of counterexamples: belt-block under the run's key.
fn conc_e(x: u128) -> u128 {
    let k = unsafe { WKEY };
    u128::from_le_bytes(r::encrypt(&key_octets(&k), &x.to_le_bytes()))
}
cuf1!(uf_e, vuf_belt_block_wblock_e, u128, u128, conc_e);

pub fn stub_raw(x: [u32; 4], key: &[u32; 8]) -> [u32; 4] {
    #[cfg(kani)]
    {
        let k = unsafe { WKEY };
        kani::assert(*key == k, "VERIF_SAME_KEY");
    }
    let v = uf_e::call((x[0] as u128) | ((x[1] as u128) << 32) | ((x[2] as u128) << 64) | ((x[3] as u128) << 96));
    [v as u32, (v >> 32) as u32, (v >> 64) as u32, (v >> 96) as u32]
}
/// E on octet strings, for the oracle.
fn oe(b: &[u8; 16]) -> [u8; 16] {
    uf_e::call(u128::from_le_bytes(*b)).to_le_bytes()
}

fn key_of(inp: &[u8]) -> [u32; 8] {
    let mut k = [0u32; 8];
    let mut i = 0;
    while i < 8 {
        k[i] = take_u32(inp, 4 * i);
        i += 1;
    }
    unsafe {
        WKEY = k;
    }
    k
}

// The length is symbolic, but every call of the real functions is made on a path where it is pinned to one value
// (`if l == len { ... }` for every l of the range): the symbolic execution then unrolls exactly the loops of that length
// instead of every loop up to the unwinding bound under an infeasible guard (which exhausted 14 GB even for the rejection
// clause).  The solver query still quantifies over all lengths of the range at once.

/// inp = key (32) | len (1) | data (M).  Real function on data[..len] vs oracle; octets beyond len must be untouched.
fn conf<const M: usize>(inp: &[u8], dec: bool) -> Option<bool> {
    let key = key_of(inp);
    let len = inp[32] as usize;
    vassume!(len >= 32 && len <= M);
    let data: [u8; M] = take(inp, 33);
    let mut l = 32;
    while l <= M {
        if l == len {
            return conf_at::<M>(&key, &data, l, dec);
        }
        l += 1;
    }
    None
}
fn conf_at<const M: usize>(key: &[u32; 8], data: &[u8; M], len: usize, dec: bool) -> Option<bool> {
    let mut buf = *data;
    let res = if dec { belt_wblock_dec(&mut buf[..len], key) } else { belt_wblock_enc(&mut buf[..len], key) };
    vcheck!(res.is_ok());
    let e = if dec { r::wblock_dec_with(data, len, oe) } else { r::wblock_enc_with(data, len, oe) };
    let e = match e {
        Some(e) => e,
        None => return Some(false),
    };
    let mut i = 0;
    while i < M {
        if i < len {
            vcheck!(buf[i] == e[i]);
        } else {
            vcheck!(buf[i] == data[i]);
        }
        i += 1;
    }
    Some(true)
}

/// inverse: second(first(data[..len])) == data[..len]
fn inverse<const M: usize>(inp: &[u8], enc_first: bool) -> Option<bool> {
    let key = key_of(inp);
    let len = inp[32] as usize;
    vassume!(len >= 32 && len <= M);
    let data: [u8; M] = take(inp, 33);
    let mut l = 32;
    while l <= M {
        if l == len {
            return inverse_at::<M>(&key, &data, l, enc_first);
        }
        l += 1;
    }
    None
}
fn inverse_at<const M: usize>(key: &[u32; 8], data: &[u8; M], len: usize, enc_first: bool) -> Option<bool> {
    let mut buf = *data;
    if enc_first {
        vcheck!(belt_wblock_enc(&mut buf[..len], key).is_ok());
        vcheck!(belt_wblock_dec(&mut buf[..len], key).is_ok());
    } else {
        vcheck!(belt_wblock_dec(&mut buf[..len], key).is_ok());
        vcheck!(belt_wblock_enc(&mut buf[..len], key).is_ok());
    }
    Some(buf == *data)
}

// ------------------------------------------------------------------------------------------- conformance, 32..=48

//@ harness name=wblock_conf_enc48 prop=C18,C20 tier=thorough bits=648 stub=1 est=1500 mem=30 cap=3600 desc="W: belt_wblock_enc(data[..len], key) == oracle belt-wbl encryption (6.2.3), len symbolic in 32..=48 (incl. 33..47), all keys, all contents, octets beyond len untouched; belt-block under the key uninterpreted"
verif_harness! {
    name: wblock_conf_enc48,
    bytes: 33 + 48,
    unwind: 50,
    stubs: [(crate::belt_block_raw, stub_raw)],
    prop: |inp| { conf::<48>(inp, false) }
}
//@ harness name=wblock_conf_dec48 prop=C18,C20 tier=thorough bits=648 stub=1 est=1500 mem=30 cap=3600 desc="W: belt_wblock_dec(data[..len], key) == oracle belt-wbl decryption (6.2.4), len symbolic in 32..=48, all keys, all contents; belt-block uninterpreted"
verif_harness! {
    name: wblock_conf_dec48,
    bytes: 33 + 48,
    unwind: 50,
    stubs: [(crate::belt_block_raw, stub_raw)],
    prop: |inp| { conf::<48>(inp, true) }
}
//@ harness name=wblock_inv_ed48 prop=C18,C01,C20 tier=thorough bits=648 stub=1 est=1500 mem=30 cap=3600 desc="W: belt_wblock_dec(belt_wblock_enc(x)) == x, len symbolic in 32..=48, all keys, all contents; belt-block an arbitrary function"
verif_harness! {
    name: wblock_inv_ed48,
    bytes: 33 + 48,
    unwind: 50,
    stubs: [(crate::belt_block_raw, stub_raw)],
    prop: |inp| { inverse::<48>(inp, true) }
}
//@ harness name=wblock_inv_de48 prop=C18,C01,C20 tier=thorough bits=648 stub=1 est=1500 mem=30 cap=3600 desc="W: belt_wblock_enc(belt_wblock_dec(y)) == y, len symbolic in 32..=48, all keys, all contents; belt-block an arbitrary function"
verif_harness! {
    name: wblock_inv_de48,
    bytes: 33 + 48,
    unwind: 50,
    stubs: [(crate::belt_block_raw, stub_raw)],
    prop: |inp| { inverse::<48>(inp, false) }
}

// ------------------------------------------------------------------------------------------- conformance, 32..=80

//@ harness name=wblock_conf_enc80 prop=C18,C20 tier=thorough bits=904 stub=1 est=600 mem=30 cap=7200 desc="W: belt_wblock_enc == oracle, len symbolic in 32..=80 (n = 2..5 blocks, incl. all lengths that are not multiples of 16), all keys, all contents"
verif_harness! {
    name: wblock_conf_enc80,
    bytes: 33 + 80,
    unwind: 82,
    stubs: [(crate::belt_block_raw, stub_raw)],
    prop: |inp| { conf::<80>(inp, false) }
}
//@ harness name=wblock_conf_dec80 prop=C18,C20 tier=thorough bits=904 stub=1 est=600 mem=30 cap=7200 desc="W: belt_wblock_dec == oracle, len symbolic in 32..=80, all keys, all contents"
verif_harness! {
    name: wblock_conf_dec80,
    bytes: 33 + 80,
    unwind: 82,
    stubs: [(crate::belt_block_raw, stub_raw)],
    prop: |inp| { conf::<80>(inp, true) }
}
//@ harness name=wblock_inv_ed80 prop=C18,C01,C20 tier=thorough bits=904 stub=1 est=600 mem=30 cap=7200 desc="W: dec(enc(x)) == x, len symbolic in 32..=80, all keys, all contents"
verif_harness! {
    name: wblock_inv_ed80,
    bytes: 33 + 80,
    unwind: 82,
    stubs: [(crate::belt_block_raw, stub_raw)],
    prop: |inp| { inverse::<80>(inp, true) }
}
//@ harness name=wblock_inv_de80 prop=C18,C01,C20 tier=thorough bits=904 stub=1 est=600 mem=30 cap=7200 desc="W: enc(dec(y)) == y, len symbolic in 32..=80, all keys, all contents"
verif_harness! {
    name: wblock_inv_de80,
    bytes: 33 + 80,
    unwind: 82,
    stubs: [(crate::belt_block_raw, stub_raw)],
    prop: |inp| { inverse::<80>(inp, false) }
}

// ------------------------------------------------------------------------------------------- rejection

//@ harness name=wblock_reject prop=C18,C20 tier=quick bits=512 est=30 desc="D: len symbolic in 0..=31: belt_wblock_enc and belt_wblock_dec return Err(InvalidLengthError) and leave all octets of the buffer unmodified, all keys, all contents"
verif_harness! {
    name: wblock_reject,
    bytes: 33 + 31,
    unwind: 34,
    prop: |inp| {
        let key = key_of(inp);
        let len = inp[32] as usize;
        vassume!(len <= 31);
        let data: [u8; 31] = take(inp, 33);
        let mut l = 0;
        while l <= 31 {
            if l == len {
                let mut buf = data;
                vcheck!(belt_wblock_enc(&mut buf[..l], &key).is_err());
                vcheck!(buf == data);
                vcheck!(belt_wblock_dec(&mut buf[..l], &key).is_err());
                return Some(buf == data);
            }
            l += 1;
        }
        None
    }
}

// ------------------------------------------------------------------------------------------- no panic, longer inputs

/// Both functions on data[..len], len symbolic in 32..=M: Ok, nothing panics / overflows / indexes out of bounds, and
/// octets beyond len are untouched.
fn nopanic<const M: usize>(inp: &[u8]) -> Option<bool> {
    let key = key_of(inp);
    let len = take_u16(inp, 32) as usize;
    vassume!(len >= 32 && len <= M);
    let data: [u8; M] = take(inp, 34);
    let mut l = 32;
    while l <= M {
        if l == len {
            let mut a = data;
            let mut b = data;
            vcheck!(belt_wblock_enc(&mut a[..l], &key).is_ok());
            vcheck!(belt_wblock_dec(&mut b[..l], &key).is_ok());
            let mut i = l;
            while i < M {
                vcheck!(a[i] == data[i] && b[i] == data[i]);
                i += 1;
            }
            return Some(true);
        }
        l += 1;
    }
    None
}

//@ harness name=wblock_nopanic128 prop=C20 tier=thorough bits=1296 stub=1 est=900 mem=30 cap=7200 desc="W: belt_wblock_enc / belt_wblock_dec on len symbolic in 32..=128: return Ok, no panic, no arithmetic overflow, no out-of-bounds access, octets beyond len untouched; belt-block uninterpreted"
verif_harness! {
    name: wblock_nopanic128,
    bytes: 34 + 128,
    unwind: 130,
    stubs: [(crate::belt_block_raw, stub_raw2)],
    prop: |inp| { nopanic::<128>(inp) }
}

// ------------------------------------------------------------------------------------------- mid length, 272 octets

//@ disabled-harness (more than 14 GB / 900 s at 272 octets; not measured with more) name=wblock_conf_enc272 prop=C18,C20 tier=quick bits=2432 stub=1 est=200 desc="W: belt_wblock_enc == oracle at len = 272 (17 blocks, 34 rounds), all keys, all contents; belt-block uninterpreted"
verif_harness! {
    name: wblock_conf_enc272,
    bytes: 33 + 272,
    unwind: 275,
    stubs: [(crate::belt_block_raw, stub_raw2)],
    prop: |inp| { conf_fixed::<17, 272>(inp, false) }
}
//@ disabled-harness (more than 14 GB / 900 s at 272 octets; not measured with more) name=wblock_conf_dec272 prop=C18,C20 tier=quick bits=2432 stub=1 est=200 desc="W: belt_wblock_dec == oracle at len = 272 (17 blocks, 34 rounds), all keys, all contents; belt-block uninterpreted"
verif_harness! {
    name: wblock_conf_dec272,
    bytes: 33 + 272,
    unwind: 275,
    stubs: [(crate::belt_block_raw, stub_raw2)],
    prop: |inp| { conf_fixed::<17, 272>(inp, true) }
}
//@ disabled-harness (more than 14 GB / 900 s at 272 octets; not measured with more) name=wblock_inv_ed272 prop=C18,C01,C20 tier=quick bits=2432 stub=1 est=200 desc="W: dec(enc(x)) == x at len = 272, all keys, all contents; belt-block an arbitrary function"
verif_harness! {
    name: wblock_inv_ed272,
    bytes: 33 + 272,
    unwind: 275,
    stubs: [(crate::belt_block_raw, stub_raw2)],
    prop: |inp| { inverse_fixed::<272>(inp) }
}

cuf1!(uf_e2, vuf_belt_block_wblock_e2, u128, u128, conc_e);
pub fn stub_raw2(x: [u32; 4], key: &[u32; 8]) -> [u32; 4] {
    #[cfg(kani)]
    {
        let k = unsafe { WKEY };
        kani::assert(*key == k, "VERIF_SAME_KEY");
    }
    let v = uf_e2::call((x[0] as u128) | ((x[1] as u128) << 32) | ((x[2] as u128) << 64) | ((x[3] as u128) << 96));
    [v as u32, (v >> 32) as u32, (v >> 64) as u32, (v >> 96) as u32]
}
/// inp = key (32) | unused (1) | data (L = 16 N); the length is the constant L.  The oracle runs on the explicit list
/// r_1..r_N of 128-bit words (small arrays stay scalar in the symbolic execution).
fn conf_fixed<const N: usize, const L: usize>(inp: &[u8], dec: bool) -> Option<bool> {
    let key = key_of(inp);
    let data: [u8; L] = take(inp, 33);
    let mut buf = data;
    let res = if dec { belt_wblock_dec(&mut buf, &key) } else { belt_wblock_enc(&mut buf, &key) };
    vcheck!(res.is_ok());
    let mut w = [0u128; N];
    let mut i = 0;
    while i < N {
        w[i] = take_u128(&data, 16 * i);
        i += 1;
    }
    let e = if dec { r::wblock_dec_words(&w, uf_e2::call) } else { r::wblock_enc_words(&w, uf_e2::call) };
    i = 0;
    while i < N {
        vcheck!(take_u128(&buf, 16 * i) == e[i]);
        i += 1;
    }
    Some(true)
}
fn inverse_fixed<const L: usize>(inp: &[u8]) -> Option<bool> {
    let key = key_of(inp);
    let data: [u8; L] = take(inp, 33);
    let mut buf = data;
    vcheck!(belt_wblock_enc(&mut buf, &key).is_ok());
    vcheck!(belt_wblock_dec(&mut buf, &key).is_ok());
    Some(buf == data)
}

// ------------------------------------------------------------------------------------------- single lengths (quick tier)
// The harnesses over a symbolic length above need more than 14 GB; these pin the length to one value each: 32 (two blocks),
// 33 (shortest length with a partial last block), 47 and 48.

fn conf_len<const M: usize>(inp: &[u8], len: usize, dec: bool) -> Option<bool> {
    let key = key_of(inp);
    let data: [u8; M] = take(inp, 33);
    conf_at::<M>(&key, &data, len, dec)
}
fn inverse_len<const M: usize>(inp: &[u8], len: usize, enc_first: bool) -> Option<bool> {
    let key = key_of(inp);
    let data: [u8; M] = take(inp, 33);
    inverse_at::<M>(&key, &data, len, enc_first)
}
//@ harness name=wblock_enc_l32 prop=C18,C20 tier=quick bits=512 stub=1 est=55 need=5 desc="W: belt_wblock_enc(data[..32], key) == oracle belt-wbl at the fixed length 32, all keys, all contents, octets beyond the length untouched; belt-block under the key uninterpreted"
verif_harness! {
    name: wblock_enc_l32,
    bytes: 33 + 48,
    unwind: 50,
    stubs: [(crate::belt_block_raw, stub_raw)],
    prop: |inp| { conf_len::<48>(inp, 32, false) }
}
//@ harness name=wblock_dec_l32 prop=C18,C20 tier=quick bits=512 stub=1 est=45 need=4 desc="W: belt_wblock_dec(data[..32], key) == oracle belt-wbl at the fixed length 32, all keys, all contents, octets beyond the length untouched; belt-block under the key uninterpreted"
verif_harness! {
    name: wblock_dec_l32,
    bytes: 33 + 48,
    unwind: 50,
    stubs: [(crate::belt_block_raw, stub_raw)],
    prop: |inp| { conf_len::<48>(inp, 32, true) }
}
//@ harness name=wblock_enc_l33 prop=C18,C20 tier=quick bits=520 stub=1 est=260 need=9 desc="W: belt_wblock_enc(data[..33], key) == oracle belt-wbl at the fixed length 33, all keys, all contents, octets beyond the length untouched; belt-block under the key uninterpreted"
verif_harness! {
    name: wblock_enc_l33,
    bytes: 33 + 48,
    unwind: 50,
    stubs: [(crate::belt_block_raw, stub_raw)],
    prop: |inp| { conf_len::<48>(inp, 33, false) }
}
//@ harness name=wblock_dec_l33 prop=C18,C20 tier=quick bits=520 stub=1 est=100 need=8 desc="W: belt_wblock_dec(data[..33], key) == oracle belt-wbl at the fixed length 33, all keys, all contents, octets beyond the length untouched; belt-block under the key uninterpreted"
verif_harness! {
    name: wblock_dec_l33,
    bytes: 33 + 48,
    unwind: 50,
    stubs: [(crate::belt_block_raw, stub_raw)],
    prop: |inp| { conf_len::<48>(inp, 33, true) }
}
//@ harness name=wblock_enc_l47 prop=C18,C20 tier=quick bits=632 stub=1 est=155 need=9 desc="W: belt_wblock_enc(data[..47], key) == oracle belt-wbl at the fixed length 47, all keys, all contents, octets beyond the length untouched; belt-block under the key uninterpreted"
verif_harness! {
    name: wblock_enc_l47,
    bytes: 33 + 48,
    unwind: 50,
    stubs: [(crate::belt_block_raw, stub_raw)],
    prop: |inp| { conf_len::<48>(inp, 47, false) }
}
//@ harness name=wblock_dec_l47 prop=C18,C20 tier=quick bits=632 stub=1 est=90 need=8 desc="W: belt_wblock_dec(data[..47], key) == oracle belt-wbl at the fixed length 47, all keys, all contents, octets beyond the length untouched; belt-block under the key uninterpreted"
verif_harness! {
    name: wblock_dec_l47,
    bytes: 33 + 48,
    unwind: 50,
    stubs: [(crate::belt_block_raw, stub_raw)],
    prop: |inp| { conf_len::<48>(inp, 47, true) }
}
//@ harness name=wblock_enc_l48 prop=C18,C20 tier=quick bits=640 stub=1 est=110 need=9 desc="W: belt_wblock_enc(data[..48], key) == oracle belt-wbl at the fixed length 48, all keys, all contents, octets beyond the length untouched; belt-block under the key uninterpreted"
verif_harness! {
    name: wblock_enc_l48,
    bytes: 33 + 48,
    unwind: 50,
    stubs: [(crate::belt_block_raw, stub_raw)],
    prop: |inp| { conf_len::<48>(inp, 48, false) }
}
//@ harness name=wblock_dec_l48 prop=C18,C20 tier=quick bits=640 stub=1 est=95 need=8 desc="W: belt_wblock_dec(data[..48], key) == oracle belt-wbl at the fixed length 48, all keys, all contents, octets beyond the length untouched; belt-block under the key uninterpreted"
verif_harness! {
    name: wblock_dec_l48,
    bytes: 33 + 48,
    unwind: 50,
    stubs: [(crate::belt_block_raw, stub_raw)],
    prop: |inp| { conf_len::<48>(inp, 48, true) }
}
//@ harness name=wblock_inv_ed_l33 prop=C18,C01,C20 tier=quick bits=520 stub=1 est=150 need=11 desc="W: dec(enc(x)) == x at the fixed length 33, all keys, all contents; belt-block an arbitrary function"
verif_harness! {
    name: wblock_inv_ed_l33,
    bytes: 33 + 48,
    unwind: 50,
    stubs: [(crate::belt_block_raw, stub_raw)],
    prop: |inp| { inverse_len::<48>(inp, 33, true) }
}
//@ harness name=wblock_inv_de_l33 prop=C18,C01,C20 tier=quick bits=520 stub=1 est=170 need=11 desc="W: enc(dec(x)) == x at the fixed length 33, all keys, all contents; belt-block an arbitrary function"
verif_harness! {
    name: wblock_inv_de_l33,
    bytes: 33 + 48,
    unwind: 50,
    stubs: [(crate::belt_block_raw, stub_raw)],
    prop: |inp| { inverse_len::<48>(inp, 33, false) }
}
//@ harness name=wblock_inv_ed_l48 prop=C18,C01,C20 tier=quick bits=640 stub=1 est=240 need=11 desc="W: dec(enc(x)) == x at the fixed length 48, all keys, all contents; belt-block an arbitrary function"
verif_harness! {
    name: wblock_inv_ed_l48,
    bytes: 33 + 48,
    unwind: 50,
    stubs: [(crate::belt_block_raw, stub_raw)],
    prop: |inp| { inverse_len::<48>(inp, 48, true) }
}
//@ harness name=wblock_inv_de_l48 prop=C18,C01,C20 tier=quick bits=640 stub=1 est=230 need=11 desc="W: enc(dec(x)) == x at the fixed length 48, all keys, all contents; belt-block an arbitrary function"
verif_harness! {
    name: wblock_inv_de_l48,
    bytes: 33 + 48,
    unwind: 50,
    stubs: [(crate::belt_block_raw, stub_raw)],
    prop: |inp| { inverse_len::<48>(inp, 48, false) }
}

// BelT wide block (belt_wblock_enc / belt_wblock_dec): conformance to STB 34.101.31 section 6.2 for every key and every
// input of 32..=M octets incl. lengths that are not multiples of 16 (C18), inverse in both orders (C18, C01), rejection
// of shorter input with the buffer untouched (C18), no panic / overflow for longer inputs (C20).
//
// W: `belt_block_raw` is uninterpreted (the direct query with the real block cipher ran out of memory, DESIGN.md 3):
//    one symbolic key per harness run; both directions of the wide block only ever call the block cipher forwards and
//    with that one key, so the block cipher under that key is an arbitrary function E: {0,1}^128 -> {0,1}^128 shared by
//    the real code (through the stub) and the oracle.  That every call uses that key is itself an obligation
//    (VERIF_SAME_KEY).  The real length arithmetic (div_ceil, len-1, len-32, len-16), chunks_exact / fold, copy_within,
//    split_at_mut, the round counter and its little-endian encoding all run unmodified.
//    The tie of belt_block_raw to the standard's belt-block is conf.rs (belt_leaf_g + belt_wire_raw).
use super::prelude::*;
use crate::{belt_wblock_dec, belt_wblock_enc};
use refmodels::belt as r;

/// The key of the current harness run (set by the harness before anything else happens).
pub static mut WKEY: [u32; 8] = [0; 8];

fn key_octets(k: &[u32; 8]) -> [u8; 32] {
    let mut o = [0u8; 32];
    let mut i = 0;
    while i < 8 {
        let b = k[i].to_le_bytes();
        o[4 * i] = b[0];
        o[4 * i + 1] = b[1];
        o[4 * i + 2] = b[2];
        o[4 * i + 3] = b[3];
        i += 1;
    }
    o
}
/// Concrete meaning of E for the native replay of counterexamples: belt-block under the run's key.
fn conc_e(x: u128) -> u128 {
    let k = unsafe { WKEY };
    u128::from_le_bytes(r::encrypt(&key_octets(&k), &x.to_le_bytes()))
}
uf1!(uf_e, u128, u128, [B0], conc_e);

pub fn stub_raw(x: [u32; 4], key: &[u32; 8]) -> [u32; 4] {
    #[cfg(kani)]
    {
        let k = unsafe { WKEY };
        kani::assert(*key == k, "VERIF_SAME_KEY");
    }
    let v = uf_e::call((x[0] as u128) | ((x[1] as u128) << 32) | ((x[2] as u128) << 64) | ((x[3] as u128) << 96));
    [v as u32, (v >> 32) as u32, (v >> 64) as u32, (v >> 96) as u32]
}
/// E on octet strings, for the oracle.
fn oe(b: &[u8; 16]) -> [u8; 16] {
    uf_e::call(u128::from_le_bytes(*b)).to_le_bytes()
}

fn key_of(inp: &[u8]) -> [u32; 8] {
    let mut k = [0u32; 8];
    let mut i = 0;
    while i < 8 {
        k[i] = take_u32(inp, 4 * i);
        i += 1;
    }
    unsafe {
        WKEY = k;
    }
    k
}

/// inp = key (32) | len (1) | data (M).  Real function on data[..len] vs oracle; octets beyond len must be untouched.
fn conf<const M: usize>(inp: &[u8], dec: bool) -> Option<bool> {
    let key = key_of(inp);
    let len = inp[32] as usize;
    vassume!(len >= 32 && len <= M);
    let data: [u8; M] = take(inp, 33);
    let mut buf = data;
    let res = if dec { belt_wblock_dec(&mut buf[..len], &key) } else { belt_wblock_enc(&mut buf[..len], &key) };
    vcheck!(res.is_ok());
    let e = if dec { r::wblock_dec_with(&data, len, oe) } else { r::wblock_enc_with(&data, len, oe) };
    let e = match e {
        Some(e) => e,
        None => return Some(false),
    };
    let mut i = 0;
    while i < M {
        if i < len {
            vcheck!(buf[i] == e[i]);
        } else {
            vcheck!(buf[i] == data[i]);
        }
        i += 1;
    }
    Some(true)
}

/// inverse: second(first(data[..len])) == data[..len]
fn inverse<const M: usize>(inp: &[u8], enc_first: bool) -> Option<bool> {
    let key = key_of(inp);
    let len = inp[32] as usize;
    vassume!(len >= 32 && len <= M);
    let data: [u8; M] = take(inp, 33);
    let mut buf = data;
    if enc_first {
        vcheck!(belt_wblock_enc(&mut buf[..len], &key).is_ok());
        vcheck!(belt_wblock_dec(&mut buf[..len], &key).is_ok());
    } else {
        vcheck!(belt_wblock_dec(&mut buf[..len], &key).is_ok());
        vcheck!(belt_wblock_enc(&mut buf[..len], &key).is_ok());
    }
    let mut i = 0;
    while i < M {
        vcheck!(buf[i] == data[i]);
        i += 1;
    }
    Some(true)
}

// ------------------------------------------------------------------------------------------- conformance, 32..=48

//@ harness name=wblock_conf_enc48 prop=C18,C20 tier=quick bits=648 stub=1 est=120 desc="W: belt_wblock_enc(data[..len], key) == oracle belt-wbl encryption (6.2.3), len symbolic in 32..=48 (incl. 33..47), all keys, all contents, octets beyond len untouched; belt-block under the key uninterpreted"
verif_harness! {
    name: wblock_conf_enc48,
    bytes: 33 + 48,
    unwind: 50,
    stubs: [(crate::belt_block_raw, stub_raw)],
    prop: |inp| { conf::<48>(inp, false) }
}
//@ harness name=wblock_conf_dec48 prop=C18,C20 tier=quick bits=648 stub=1 est=120 desc="W: belt_wblock_dec(data[..len], key) == oracle belt-wbl decryption (6.2.4), len symbolic in 32..=48, all keys, all contents; belt-block uninterpreted"
verif_harness! {
    name: wblock_conf_dec48,
    bytes: 33 + 48,
    unwind: 50,
    stubs: [(crate::belt_block_raw, stub_raw)],
    prop: |inp| { conf::<48>(inp, true) }
}
//@ harness name=wblock_inv_ed48 prop=C18,C01,C20 tier=quick bits=648 stub=1 est=120 desc="W: belt_wblock_dec(belt_wblock_enc(x)) == x, len symbolic in 32..=48, all keys, all contents; belt-block an arbitrary function"
verif_harness! {
    name: wblock_inv_ed48,
    bytes: 33 + 48,
    unwind: 50,
    stubs: [(crate::belt_block_raw, stub_raw)],
    prop: |inp| { inverse::<48>(inp, true) }
}
//@ harness name=wblock_inv_de48 prop=C18,C01,C20 tier=quick bits=648 stub=1 est=120 desc="W: belt_wblock_enc(belt_wblock_dec(y)) == y, len symbolic in 32..=48, all keys, all contents; belt-block an arbitrary function"
verif_harness! {
    name: wblock_inv_de48,
    bytes: 33 + 48,
    unwind: 50,
    stubs: [(crate::belt_block_raw, stub_raw)],
    prop: |inp| { inverse::<48>(inp, false) }
}

// ------------------------------------------------------------------------------------------- conformance, 32..=80

//@ harness name=wblock_conf_enc80 prop=C18,C20 tier=thorough bits=904 stub=1 est=600 desc="W: belt_wblock_enc == oracle, len symbolic in 32..=80 (n = 2..5 blocks, incl. all lengths that are not multiples of 16), all keys, all contents"
verif_harness! {
    name: wblock_conf_enc80,
    bytes: 33 + 80,
    unwind: 82,
    stubs: [(crate::belt_block_raw, stub_raw)],
    prop: |inp| { conf::<80>(inp, false) }
}
//@ harness name=wblock_conf_dec80 prop=C18,C20 tier=thorough bits=904 stub=1 est=600 desc="W: belt_wblock_dec == oracle, len symbolic in 32..=80, all keys, all contents"
verif_harness! {
    name: wblock_conf_dec80,
    bytes: 33 + 80,
    unwind: 82,
    stubs: [(crate::belt_block_raw, stub_raw)],
    prop: |inp| { conf::<80>(inp, true) }
}
//@ harness name=wblock_inv_ed80 prop=C18,C01,C20 tier=thorough bits=904 stub=1 est=600 desc="W: dec(enc(x)) == x, len symbolic in 32..=80, all keys, all contents"
verif_harness! {
    name: wblock_inv_ed80,
    bytes: 33 + 80,
    unwind: 82,
    stubs: [(crate::belt_block_raw, stub_raw)],
    prop: |inp| { inverse::<80>(inp, true) }
}
//@ harness name=wblock_inv_de80 prop=C18,C01,C20 tier=thorough bits=904 stub=1 est=600 desc="W: enc(dec(y)) == y, len symbolic in 32..=80, all keys, all contents"
verif_harness! {
    name: wblock_inv_de80,
    bytes: 33 + 80,
    unwind: 82,
    stubs: [(crate::belt_block_raw, stub_raw)],
    prop: |inp| { inverse::<80>(inp, false) }
}

// ------------------------------------------------------------------------------------------- rejection

//@ harness name=wblock_reject prop=C18,C20 tier=quick bits=512 est=30 desc="D: len symbolic in 0..=31: belt_wblock_enc and belt_wblock_dec return Err(InvalidLengthError) and leave all octets of the buffer unmodified, all keys, all contents"
verif_harness! {
    name: wblock_reject,
    bytes: 33 + 31,
    unwind: 34,
    prop: |inp| {
        let key = key_of(inp);
        let len = inp[32] as usize;
        vassume!(len <= 31);
        let data: [u8; 31] = take(inp, 33);
        let mut buf = data;
        vcheck!(belt_wblock_enc(&mut buf[..len], &key).is_err());
        vcheck!(buf == data);
        vcheck!(belt_wblock_dec(&mut buf[..len], &key).is_err());
        Some(buf == data)
    }
}

// ------------------------------------------------------------------------------------------- no panic, longer inputs

/// Both functions on data[..len], len symbolic in 32..=M: Ok, nothing panics / overflows / indexes out of bounds, and
/// octets beyond len are untouched.
fn nopanic<const M: usize>(inp: &[u8]) -> Option<bool> {
    let key = key_of(inp);
    let len = take_u16(inp, 32) as usize;
    vassume!(len >= 32 && len <= M);
    let data: [u8; M] = take(inp, 34);
    let mut a = data;
    let mut b = data;
    vcheck!(belt_wblock_enc(&mut a[..len], &key).is_ok());
    vcheck!(belt_wblock_dec(&mut b[..len], &key).is_ok());
    let mut i = 0;
    while i < M {
        if i >= len {
            vcheck!(a[i] == data[i] && b[i] == data[i]);
        }
        i += 1;
    }
    Some(true)
}

//@ harness name=wblock_nopanic128 prop=C20 tier=thorough bits=1296 stub=1 est=900 desc="W: belt_wblock_enc / belt_wblock_dec on len symbolic in 32..=128: return Ok, no panic, no arithmetic overflow, no out-of-bounds access, octets beyond len untouched; belt-block uninterpreted"
verif_harness! {
    name: wblock_nopanic128,
    bytes: 34 + 128,
    unwind: 130,
    stubs: [(crate::belt_block_raw, stub_raw)],
    prop: |inp| { nopanic::<128>(inp) }
}

// ------------------------------------------------------------------------------------------- mid length, 272 octets

//@ harness name=wblock_conf_enc272 prop=C18,C20 tier=quick bits=2432 stub=1 est=200 desc="W: belt_wblock_enc == oracle at len = 272 (17 blocks, 34 rounds), all keys, all contents; belt-block uninterpreted"
verif_harness! {
    name: wblock_conf_enc272,
    bytes: 33 + 272,
    unwind: 275,
    stubs: [(crate::belt_block_raw, stub_raw2)],
    prop: |inp| { conf_fixed::<17, 272>(inp, false) }
}
//@ harness name=wblock_conf_dec272 prop=C18,C20 tier=quick bits=2432 stub=1 est=200 desc="W: belt_wblock_dec == oracle at len = 272 (17 blocks, 34 rounds), all keys, all contents; belt-block uninterpreted"
verif_harness! {
    name: wblock_conf_dec272,
    bytes: 33 + 272,
    unwind: 275,
    stubs: [(crate::belt_block_raw, stub_raw2)],
    prop: |inp| { conf_fixed::<17, 272>(inp, true) }
}
//@ harness name=wblock_inv_ed272 prop=C18,C01,C20 tier=quick bits=2432 stub=1 est=200 desc="W: dec(enc(x)) == x at len = 272, all keys, all contents; belt-block an arbitrary function"
verif_harness! {
    name: wblock_inv_ed272,
    bytes: 33 + 272,
    unwind: 275,
    stubs: [(crate::belt_block_raw, stub_raw2)],
    prop: |inp| { inverse_fixed::<272>(inp) }
}

uf1!(uf_e2, u128, u128, [B0 B1], conc_e);
pub fn stub_raw2(x: [u32; 4], key: &[u32; 8]) -> [u32; 4] {
    #[cfg(kani)]
    {
        let k = unsafe { WKEY };
        kani::assert(*key == k, "VERIF_SAME_KEY");
    }
    let v = uf_e2::call((x[0] as u128) | ((x[1] as u128) << 32) | ((x[2] as u128) << 64) | ((x[3] as u128) << 96));
    [v as u32, (v >> 32) as u32, (v >> 64) as u32, (v >> 96) as u32]
}
/// inp = key (32) | unused (1) | data (L = 16 N); the length is the constant L.  The oracle runs on the explicit list
/// r_1..r_N of 128-bit words (small arrays stay scalar in the symbolic execution).
fn conf_fixed<const N: usize, const L: usize>(inp: &[u8], dec: bool) -> Option<bool> {
    let key = key_of(inp);
    let data: [u8; L] = take(inp, 33);
    let mut buf = data;
    let res = if dec { belt_wblock_dec(&mut buf, &key) } else { belt_wblock_enc(&mut buf, &key) };
    vcheck!(res.is_ok());
    let mut w = [0u128; N];
    let mut i = 0;
    while i < N {
        w[i] = take_u128(&data, 16 * i);
        i += 1;
    }
    let e = if dec { r::wblock_dec_words(&w, uf_e2::call) } else { r::wblock_enc_words(&w, uf_e2::call) };
    i = 0;
    while i < N {
        vcheck!(take_u128(&buf, 16 * i) == e[i]);
        i += 1;
    }
    Some(true)
}
fn inverse_fixed<const L: usize>(inp: &[u8]) -> Option<bool> {
    let key = key_of(inp);
    let data: [u8; L] = take(inp, 33);
    let mut buf = data;
    vcheck!(belt_wblock_enc(&mut buf, &key).is_ok());
    vcheck!(belt_wblock_dec(&mut buf, &key).is_ok());
    Some(buf == data)
}

// ------------------------------------------------------------------------------------------- long lengths (round counter > 255)
//
// n = ceil(len / 16) >= 128 makes the round counter 2n reach 256, i.e. its second octet matters.  With 512 calls of the
// block cipher the quadratic Ackermann encoding is replaced by a LOCKSTEP abstraction (linear): the i-th call of the first
// run (the real code, through the stub) logs its argument X[i] and returns a fresh symbolic value Y[i] (drawn from the
// harness input); the matching call of the second run (the oracle, forwards; or the real inverse function, which meets
// the same arguments in reverse order) must be made on exactly X[i] -- an obligation, VERIF_LOCKSTEP_ARG -- and gets the
// same Y[i].  Y is not constrained to be functionally consistent, which only adds behaviours: if the property holds for
// every sequence Y it holds for Y[i] = E(X[i]) with the real block cipher E, where by induction over the calls both runs
// coincide with the real executions.  Natively (replay) the real belt_block_raw / the oracle's belt-block are used.

#[cfg(kani)]
pub mod ls {
    pub static mut NI: usize = 0; // calls of the first run
    pub static mut NO: usize = 0; // calls of the second run
    pub static mut SECOND: bool = false; // the stub plays the second run (inverse harness)
    pub static mut REV: bool = false; // the second run meets the arguments in reverse order
    pub static mut X0: [u128; 64] = [0; 64];
    pub static mut X1: [u128; 64] = [0; 64];
    pub static mut X2: [u128; 64] = [0; 64];
    pub static mut X3: [u128; 64] = [0; 64];
    pub static mut Y0: [u128; 64] = [0; 64];
    pub static mut Y1: [u128; 64] = [0; 64];
    pub static mut Y2: [u128; 64] = [0; 64];
    pub static mut Y3: [u128; 64] = [0; 64];
    pub unsafe fn xset(i: usize, v: u128) {
        match i / 64 {
            0 => X0[i % 64] = v,
            1 => X1[i % 64] = v,
            2 => X2[i % 64] = v,
            _ => X3[i % 64] = v,
        }
    }
    pub unsafe fn xget(i: usize) -> u128 {
        match i / 64 {
            0 => X0[i % 64],
            1 => X1[i % 64],
            2 => X2[i % 64],
            _ => X3[i % 64],
        }
    }
    pub unsafe fn yset(i: usize, v: u128) {
        match i / 64 {
            0 => Y0[i % 64] = v,
            1 => Y1[i % 64] = v,
            2 => Y2[i % 64] = v,
            _ => Y3[i % 64] = v,
        }
    }
    pub unsafe fn yget(i: usize) -> u128 {
        match i / 64 {
            0 => Y0[i % 64],
            1 => Y1[i % 64],
            2 => Y2[i % 64],
            _ => Y3[i % 64],
        }
    }
    pub fn first(x: u128) -> u128 {
        unsafe {
            let i = NI;
            kani::assert(i < 256, "VERIF_LOCKSTEP_CAPACITY");
            xset(i, x);
            NI = i + 1;
            yget(i)
        }
    }
    pub fn second(x: u128) -> u128 {
        unsafe {
            let j = NO;
            kani::assert(j < NI, "VERIF_LOCKSTEP_COUNT");
            let i = if REV { NI - 1 - j } else { j };
            kani::assert(x == xget(i), "VERIF_LOCKSTEP_ARG");
            NO = j + 1;
            yget(i)
        }
    }
}

/// Load the fresh results Y[0..cnt] from the harness input (16 octets each, from offset `off`).
fn ls_init(inp: &[u8], off: usize, cnt: usize) {
    #[cfg(kani)]
    unsafe {
        let mut i = 0;
        while i < cnt {
            ls::yset(i, take_u128(inp, off + 16 * i));
            i += 1;
        }
    }
}
fn ls_second(rev: bool, stub_is_second: bool) {
    #[cfg(kani)]
    unsafe {
        ls::REV = rev;
        ls::SECOND = stub_is_second;
    }
}
fn ls_balanced() -> bool {
    #[cfg(kani)]
    unsafe {
        return ls::NI == ls::NO;
    }
    #[cfg(not(kani))]
    true
}
pub fn stub_raw_ls(x: [u32; 4], key: &[u32; 8]) -> [u32; 4] {
    let xv = (x[0] as u128) | ((x[1] as u128) << 32) | ((x[2] as u128) << 64) | ((x[3] as u128) << 96);
    #[cfg(kani)]
    let v = {
        let k = unsafe { WKEY };
        kani::assert(*key == k, "VERIF_SAME_KEY");
        if unsafe { ls::SECOND } {
            ls::second(xv)
        } else {
            ls::first(xv)
        }
    };
    #[cfg(not(kani))]
    let v = conc_e(xv);
    [v as u32, (v >> 32) as u32, (v >> 64) as u32, (v >> 96) as u32]
}
/// E for the oracle: the second run, forwards.
fn oe_ls(b: &[u8; 16]) -> [u8; 16] {
    #[cfg(kani)]
    let v = ls::second(u128::from_le_bytes(*b));
    #[cfg(not(kani))]
    let v = conc_e(u128::from_le_bytes(*b));
    v.to_le_bytes()
}

/// inp = key (32) | data (L) | Y (16 * 2n); constant length L.
fn conf_long<const L: usize>(inp: &[u8], dec: bool) -> Option<bool> {
    let key = key_of(inp);
    let data: [u8; L] = take(inp, 32);
    ls_init(inp, 32 + L, 2 * ((L + 15) / 16));
    let mut buf = data;
    let res = if dec { belt_wblock_dec(&mut buf, &key) } else { belt_wblock_enc(&mut buf, &key) };
    vcheck!(res.is_ok());
    ls_second(false, false);
    let e = if dec { r::wblock_dec_with(&data, L, oe_ls) } else { r::wblock_enc_with(&data, L, oe_ls) };
    vcheck!(ls_balanced());
    match e {
        Some(e) => Some(buf == e),
        None => Some(false),
    }
}
fn inverse_long<const L: usize>(inp: &[u8]) -> Option<bool> {
    let key = key_of(inp);
    let data: [u8; L] = take(inp, 32);
    ls_init(inp, 32 + L, 2 * ((L + 15) / 16));
    let mut buf = data;
    vcheck!(belt_wblock_enc(&mut buf, &key).is_ok());
    ls_second(true, true);
    vcheck!(belt_wblock_dec(&mut buf, &key).is_ok());
    vcheck!(ls_balanced());
    Some(buf == data)
}

/// Whole number of blocks: the oracle on the explicit list r_1..r_N of 128-bit words (cheap to execute symbolically).
fn conf_long_words<const N: usize, const L: usize>(inp: &[u8], dec: bool) -> Option<bool> {
    let key = key_of(inp);
    let data: [u8; L] = take(inp, 32);
    ls_init(inp, 32 + L, 2 * N);
    let mut buf = data;
    let res = if dec { belt_wblock_dec(&mut buf, &key) } else { belt_wblock_enc(&mut buf, &key) };
    vcheck!(res.is_ok());
    ls_second(false, false);
    let mut w = [0u128; N];
    let mut i = 0;
    while i < N {
        w[i] = take_u128(&data, 16 * i);
        i += 1;
    }
    #[cfg(kani)]
    let f = |x: u128| ls::second(x);
    #[cfg(not(kani))]
    let f = |x: u128| conc_e(x);
    let e = if dec { r::wblock_dec_words(&w, f) } else { r::wblock_enc_words(&w, f) };
    vcheck!(ls_balanced());
    i = 0;
    while i < N {
        vcheck!(take_u128(&buf, 16 * i) == e[i]);
        i += 1;
    }
    Some(true)
}

//@ harness name=wblock_long_enc2048 prop=C18,C20 tier=thorough bits=49408 stub=1 est=1500 desc="W (lockstep): belt_wblock_enc == oracle at len = 2048 (128 blocks, 256 rounds: the round counter reaches 256 and needs its second octet), all keys, all contents; belt-block abstracted call by call (fresh result per call, equal arguments in both runs an obligation)"
verif_harness! {
    name: wblock_long_enc2048,
    bytes: 32 + 2048 + 4096,
    unwind: 2060,
    stubs: [(crate::belt_block_raw, stub_raw_ls)],
    prop: |inp| { conf_long_words::<128, 2048>(inp, false) }
}
//@ harness name=wblock_long_dec2048 prop=C18,C20 tier=thorough bits=49408 stub=1 est=1500 desc="W (lockstep): belt_wblock_dec == oracle at len = 2048 (256 rounds), all keys, all contents"
verif_harness! {
    name: wblock_long_dec2048,
    bytes: 32 + 2048 + 4096,
    unwind: 2060,
    stubs: [(crate::belt_block_raw, stub_raw_ls)],
    prop: |inp| { conf_long_words::<128, 2048>(inp, true) }
}
//@ harness name=wblock_long_inv2048 prop=C18,C01,C20 tier=thorough bits=49408 stub=1 est=1500 desc="W (lockstep, reverse order): belt_wblock_dec(belt_wblock_enc(x)) == x at len = 2048, all keys, all contents"
verif_harness! {
    name: wblock_long_inv2048,
    bytes: 32 + 2048 + 4096,
    unwind: 2060,
    stubs: [(crate::belt_block_raw, stub_raw_ls)],
    prop: |inp| { inverse_long::<2048>(inp) }
}
//@ harness name=wblock_long_enc2033 prop=C18,C20 tier=thorough bits=49288 stub=1 est=1500 desc="W (lockstep): belt_wblock_enc == oracle at len = 2033 (128 blocks, last one of a single octet; 256 rounds), all keys, all contents"
verif_harness! {
    name: wblock_long_enc2033,
    bytes: 32 + 2033 + 4096,
    unwind: 2060,
    stubs: [(crate::belt_block_raw, stub_raw_ls)],
    prop: |inp| { conf_long::<2033>(inp, false) }
}
//@ harness name=wblock_long_dec2033 prop=C18,C20 tier=thorough bits=49288 stub=1 est=1500 desc="W (lockstep): belt_wblock_dec == oracle at len = 2033 (256 rounds), all keys, all contents"
verif_harness! {
    name: wblock_long_dec2033,
    bytes: 32 + 2033 + 4096,
    unwind: 2060,
    stubs: [(crate::belt_block_raw, stub_raw_ls)],
    prop: |inp| { conf_long::<2033>(inp, true) }
}
//@ harness name=wblock_long_inv2033 prop=C18,C01,C20 tier=thorough bits=49288 stub=1 est=1500 desc="W (lockstep, reverse order): dec(enc(x)) == x at len = 2033, all keys, all contents"
verif_harness! {
    name: wblock_long_inv2033,
    bytes: 32 + 2033 + 4096,
    unwind: 2060,
    stubs: [(crate::belt_block_raw, stub_raw_ls)],
    prop: |inp| { inverse_long::<2033>(inp) }
}

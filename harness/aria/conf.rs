// ARIA-128/192/256: conformance to RFC 5794 (C06), round trip (C01), no panics / overflow (C20).
//
// L: the four leaves of aria/src/utils.rs (fo = A.SL1, fe = A.SL2, sl2 = SL2, a = A; all u128 -> u128) are proved
//    equal to the oracle's byte-wise versions over all 2^128 inputs.  These harnesses run the real
//    DIFFUSE_CONSTS[i] * byte multiplications on fully symbolic bytes, so the `attempt to multiply with overflow`
//    obligations of the carry-free-multiplication trick are discharged there (C20).
// W: KeyInit::new + encrypt_block / decrypt_block for every key and block against the oracle, with fo / fe / sl2
//    uninterpreted (the same uninterpreted functions on both sides) and `a` replaced by the oracle's XOR equations
//    (lemma aria_leaf_a).
// Round trip: SPN, so the S-box layers are abstracted by an uninterpreted *bijection pair* (SL1 = fwd, SL2 = inv;
//    lemma aria_leaf_sl_inv shows the oracle's SL1 / SL2 are mutually inverse, lemmas aria_leaf_fo/fe/sl2 tie the
//    real leaves to A.SL1, A.SL2, SL2); the diffusion A stays concrete (oracle form); consequences of the lemmas
//    aria_leaf_a_invol / aria_leaf_a_lin (A involutive, linear) are supplied as cut assumptions so that the solver
//    does not have to rediscover GF(2) linear algebra round by round (without them the queries did not finish in
//    15 minutes; the direct lemma A(A(s) ^ e) == s ^ A(e) alone takes CaDiCaL more than 6 minutes).
use super::prelude::*;
use crate::{Aria128, Aria192, Aria256};
use cipher::{BlockCipherDecrypt, BlockCipherEncrypt, KeyInit};
use refmodels::aria as r;

uf1!(uf_fo, u128, u128, [B0], r::fo);
uf1!(uf_fe, u128, u128, [B0], r::fe);
uf1!(uf_s2, u128, u128, [B0], r::sl2);
uf_bij!(bij_sl, u128, [B0], r::sl1, r::sl2);

pub fn stub_fo(x: u128) -> u128 {
    uf_fo::call(x)
}
pub fn stub_fe(x: u128) -> u128 {
    uf_fe::call(x)
}
pub fn stub_s2(x: u128) -> u128 {
    uf_s2::call(x)
}
/// `a` in oracle form (16 XOR equations), justified by aria_leaf_a.
pub fn stub_a(x: u128) -> u128 {
    r::a(x)
}
// Round-trip stubs.  fo = A.SL1, fe = A.SL2, sl2 = SL2 with (SL1, SL2) an arbitrary pair of mutually inverse
// permutations and A concrete (oracle form).  A SAT solver is poor at rediscovering GF(2)-linear algebra (parity
// cancellation) through 12..16 chained rounds, so the stubs additionally state consequences of two proved lemmas as
// assumptions (cut rule):
//     aria_leaf_a_invol:  A(A(x)) == x                for all 2^128 x
//     aria_leaf_a_lin:    A(x ^ y) == A(x) ^ A(y)     for all 2^256 (x, y)
// For a logged round-internal application y_i = A(s_i), a logged key-derivation pair (e, A(e), A(A(e))) and a later
// application A(z):
//     z == y_i ^ e     ==>  A(z) == s_i ^ A(e)       [A(z) = A(A(s_i) ^ e) = A(A(s_i)) ^ A(e) = s_i ^ A(e)]
//     z == y_i ^ A(e)  ==>  A(z) == s_i ^ A(A(e))    [same with e := A(e)]
// Both implications hold for every value of the variables (congruence + the two lemmas), so they never exclude an
// execution; *which* instances are stated (pairing by call order) is a heuristic that only affects completeness.
#[cfg(kani)]
pub mod klog {
    // key-derivation log (a called from KeyInit::new): e, A(e), A(A(e))
    pub static mut E: [u128; 16] = [0; 16];
    pub static mut AE: [u128; 16] = [0; 16];
    pub static mut AAE: [u128; 16] = [0; 16];
    pub static mut N: usize = 0;
    // round-internal applications of A during the first block operation: s, A(s)
    pub static mut S: [u128; 16] = [0; 16];
    pub static mut Y: [u128; 16] = [0; 16];
    pub static mut C: usize = 0;
}
/// `a` in oracle form, remembering (e, A(e), A(A(e))) (only the decryption-key derivation in `new` calls `a`).
pub fn log_a(e: u128) -> u128 {
    let y = r::a(e);
    #[cfg(kani)]
    unsafe {
        let yy = r::a(y);
        kani::assume(yy == e); // instance of aria_leaf_a_invol at e
        let n = klog::N;
        kani::assert(n < 16, "VERIF_UF_CAPACITY");
        if n < 16 {
            klog::E[n] = e;
            klog::AE[n] = y;
            klog::AAE[n] = yy;
            klog::N = n + 1;
            klog::C = 0; // applications of A inside the key schedule's fo / fe (before the keys exist) do not count
        }
    }
    y
}
fn a_hinted(z: u128) -> u128 {
    let y = r::a(z);
    #[cfg(kani)]
    unsafe {
        // N keys went through `a`; each block operation applies A N times inside fo / fe.  The c-th application
        // (c = 1..N) of the first operation is followed by the addition of ek_c = E[N-c] (encryption) resp.
        // dk_c = AE[c-1] (decryption); the (N+m)-th application (second operation) is expected to undo the
        // (N+1-m)-th one.
        let n = klog::N;
        let c = klog::C;
        klog::C = c + 1;
        if n <= 16 {
            if c < n {
                klog::S[c] = z;
                klog::Y[c] = y;
            } else if c < 2 * n {
                let i = 2 * n - 1 - c; // index of the application to be undone
                let k = c - n; // key added after application i: ek_{i+1} = E[N-1-i] = E[k] resp. dk_{i+1} = AE[i]
                let (si, yi) = (klog::S[i], klog::Y[i]);
                kani::assume(z != yi ^ klog::E[k] || y == si ^ klog::AE[k]);
                kani::assume(z != yi ^ klog::AE[i] || y == si ^ klog::AAE[i]);
            }
        }
    }
    y
}
pub fn bij_fo(x: u128) -> u128 {
    a_hinted(bij_sl::fwd(x))
}
pub fn bij_fe(x: u128) -> u128 {
    a_hinted(bij_sl::inv(x))
}
pub fn bij_s2(x: u128) -> u128 {
    bij_sl::inv(x)
}

// ------------------------------------------------------------------------------------------------ leaf lemmas

//@ harness name=aria_leaf_a prop=C06,C01,C20 tier=quick bits=128 est=135 desc="L: crate::utils::a(x) (sum of DIFFUSE_CONSTS[i] * byte_i, carry-free multiplication trick, overflow-checked) == RFC 5794 diffusion layer A (16 XOR equations) for all 2^128 x; also A(A(x)) == x on the real code"
verif_harness! {
    name: aria_leaf_a,
    bytes: 16,
    unwind: 20,
    prop: |inp| {
        let x = take_u128(inp, 0);
        let y = crate::utils::a(x);
        vcheck!(y == r::a(x));
        vcheck!(crate::utils::a(y) == x);
        Some(true)
    }
}

//@ harness name=aria_leaf_fo prop=C06,C01,C20 tier=quick bits=128 est=20 desc="L: crate::utils::fo(x) == A(SL1(x)) of RFC 5794 (S-boxes generated from the algebraic definition, A as XOR equations) for all 2^128 x; real multiplication-based diffusion on arbitrary S-box outputs"
verif_harness! {
    name: aria_leaf_fo,
    bytes: 16,
    unwind: 20,
    prop: |inp| {
        let x = take_u128(inp, 0);
        Some(crate::utils::fo(x) == r::fo(x))
    }
}

//@ harness name=aria_leaf_fe prop=C06,C01,C20 tier=quick bits=128 est=20 desc="L: crate::utils::fe(x) == A(SL2(x)) of RFC 5794 for all 2^128 x"
verif_harness! {
    name: aria_leaf_fe,
    bytes: 16,
    unwind: 20,
    prop: |inp| {
        let x = take_u128(inp, 0);
        Some(crate::utils::fe(x) == r::fe(x))
    }
}

//@ harness name=aria_leaf_sl2 prop=C06,C01,C20 tier=quick bits=128 est=10 desc="L: crate::utils::sl2(x) == SL2(x) of RFC 5794 for all 2^128 x"
verif_harness! {
    name: aria_leaf_sl2,
    bytes: 16,
    unwind: 20,
    prop: |inp| {
        let x = take_u128(inp, 0);
        Some(crate::utils::sl2(x) == r::sl2(x))
    }
}

//@ harness name=aria_leaf_sl_inv prop=C01 tier=quick bits=128 est=15 desc="L: the oracle's substitution layers are mutually inverse, SL2(SL1(x)) == x and SL1(SL2(x)) == x for all 2^128 x (licence for abstracting them by an uninterpreted bijection pair in the round-trip harnesses)"
verif_harness! {
    name: aria_leaf_sl_inv,
    bytes: 16,
    unwind: 20,
    prop: |inp| {
        let x = take_u128(inp, 0);
        vcheck!(r::sl2(r::sl1(x)) == x);
        vcheck!(r::sl1(r::sl2(x)) == x);
        Some(true)
    }
}

//@ harness name=aria_leaf_a_invol prop=C01 tier=quick bits=128 est=80 desc="L: the oracle's diffusion layer is an involution, A(A(x)) == x for all 2^128 x (cut lemma of the round-trip harnesses)"
verif_harness! {
    name: aria_leaf_a_invol,
    bytes: 16,
    unwind: 20,
    prop: |inp| {
        let x = take_u128(inp, 0);
        Some(r::a(r::a(x)) == x)
    }
}

//@ harness name=aria_leaf_a_lin prop=C01 tier=quick bits=256 est=15 desc="L: the oracle's diffusion layer is GF(2)-linear, A(x ^ y) == A(x) ^ A(y) for all 2^256 (x, y) (cut lemma of the round-trip harnesses)"
verif_harness! {
    name: aria_leaf_a_lin,
    bytes: 32,
    unwind: 20,
    prop: |inp| {
        let x = take_u128(inp, 0);
        let y = take_u128(inp, 16);
        Some(r::a(x ^ y) == r::a(x) ^ r::a(y))
    }
}

// ------------------------------------------------------------------------------------------------ wiring (C06)

macro_rules! aria_wire {
    ($enc:ident, $dec:ident, $ty:ty, $kb:expr) => {
        verif_harness! {
            name: $enc,
            bytes: $kb + 16,
            unwind: 50,
            stubs: [(crate::utils::fo, stub_fo), (crate::utils::fe, stub_fe), (crate::utils::sl2, stub_s2), (crate::utils::a, stub_a)],
            prop: |inp| {
                let key: [u8; $kb] = take(inp, 0);
                let blk: [u8; 16] = take(inp, $kb);
                let c = <$ty>::new(&key.into());
                let mut b = blk.into();
                c.encrypt_block(&mut b);
                let e = r::encrypt_with(&key, &blk, &uf_fo::call, &uf_fe::call, &uf_s2::call);
                Some(b.0 == e)
            }
        }
        verif_harness! {
            name: $dec,
            bytes: $kb + 16,
            unwind: 50,
            stubs: [(crate::utils::fo, stub_fo), (crate::utils::fe, stub_fe), (crate::utils::sl2, stub_s2), (crate::utils::a, stub_a)],
            prop: |inp| {
                let key: [u8; $kb] = take(inp, 0);
                let blk: [u8; 16] = take(inp, $kb);
                let c = <$ty>::new(&key.into());
                let mut b = blk.into();
                c.decrypt_block(&mut b);
                let e = r::decrypt_with(&key, &blk, &uf_fo::call, &uf_fe::call, &uf_s2::call, &r::a);
                Some(b.0 == e)
            }
        }
    };
}

//@ harness name=aria128_wire_enc prop=C06,C20 tier=quick bits=256 stub=1 est=50 desc="W: Aria128::new(key).encrypt_block(b) == RFC 5794 key schedule + 12 rounds, all 2^128 keys, all blocks; fo/fe/sl2 uninterpreted (shared with the oracle), a in oracle form"
//@ harness name=aria128_wire_dec prop=C06,C20 tier=quick bits=256 stub=1 est=55 desc="W: Aria128::new(key).decrypt_block(b) == RFC 5794 decryption (dk derived through A), all keys, all blocks; fo/fe/sl2 uninterpreted, a in oracle form"
aria_wire!(aria128_wire_enc, aria128_wire_dec, Aria128, 16);
//@ harness name=aria192_wire_enc prop=C06,C20 tier=quick bits=320 stub=1 est=60 desc="W: Aria192::new(key).encrypt_block(b) == RFC 5794 key schedule + 14 rounds, all 2^192 keys, all blocks; fo/fe/sl2 uninterpreted, a in oracle form"
//@ harness name=aria192_wire_dec prop=C06,C20 tier=quick bits=320 stub=1 est=65 desc="W: Aria192::new(key).decrypt_block(b) == RFC 5794 decryption, all keys, all blocks; fo/fe/sl2 uninterpreted, a in oracle form"
aria_wire!(aria192_wire_enc, aria192_wire_dec, Aria192, 24);
//@ harness name=aria256_wire_enc prop=C06,C20 tier=quick bits=384 stub=1 est=60 desc="W: Aria256::new(key).encrypt_block(b) == RFC 5794 key schedule + 16 rounds, all 2^256 keys, all blocks; fo/fe/sl2 uninterpreted, a in oracle form"
//@ harness name=aria256_wire_dec prop=C06,C20 tier=quick bits=384 stub=1 est=65 desc="W: Aria256::new(key).decrypt_block(b) == RFC 5794 decryption, all keys, all blocks; fo/fe/sl2 uninterpreted, a in oracle form"
aria_wire!(aria256_wire_enc, aria256_wire_dec, Aria256, 32);

// ------------------------------------------------------------------------------------------------ round trip (C01)

macro_rules! aria_rt {
    ($ed:ident, $de:ident, $ty:ty, $kb:expr) => {
        verif_harness! {
            name: $ed,
            bytes: $kb + 16,
            unwind: 50,
            stubs: [(crate::utils::fo, bij_fo), (crate::utils::fe, bij_fe), (crate::utils::sl2, bij_s2), (crate::utils::a, log_a)],
            prop: |inp| {
                let key: [u8; $kb] = take(inp, 0);
                let blk: [u8; 16] = take(inp, $kb);
                let c = <$ty>::new(&key.into());
                let mut b = blk.into();
                c.encrypt_block(&mut b);
                c.decrypt_block(&mut b);
                Some(b.0 == blk)
            }
        }
        verif_harness! {
            name: $de,
            bytes: $kb + 16,
            unwind: 50,
            stubs: [(crate::utils::fo, bij_fo), (crate::utils::fe, bij_fe), (crate::utils::sl2, bij_s2), (crate::utils::a, log_a)],
            prop: |inp| {
                let key: [u8; $kb] = take(inp, 0);
                let blk: [u8; 16] = take(inp, $kb);
                let c = <$ty>::new(&key.into());
                let mut b = blk.into();
                c.decrypt_block(&mut b);
                c.encrypt_block(&mut b);
                Some(b.0 == blk)
            }
        }
    };
}

//@ harness name=aria128_rt_ed prop=C01 tier=quick bits=256 stub=1 est=50 desc="W: Aria128::new(key): decrypt_block(encrypt_block(b)) == b for all 2^128 keys and all blocks; real key schedule (ek and dk) and round loops, SL1/SL2 an uninterpreted bijection pair, A in oracle form with consequences of aria_leaf_a_invol / aria_leaf_a_lin as cut assumptions"
//@ harness name=aria128_rt_de prop=C01 tier=quick bits=256 stub=1 est=60 desc="W: Aria128::new(key): encrypt_block(decrypt_block(b)) == b for all keys and blocks; SL1/SL2 an uninterpreted bijection pair, A in oracle form with consequences of aria_leaf_a_invol / aria_leaf_a_lin as cut assumptions"
aria_rt!(aria128_rt_ed, aria128_rt_de, Aria128, 16);
//@ harness name=aria192_rt_ed prop=C01 tier=quick bits=320 stub=1 est=60 desc="W: Aria192::new(key): decrypt_block(encrypt_block(b)) == b for all 2^192 keys and all blocks; SL1/SL2 an uninterpreted bijection pair, A in oracle form with consequences of aria_leaf_a_invol / aria_leaf_a_lin as cut assumptions"
//@ harness name=aria192_rt_de prop=C01 tier=quick bits=320 stub=1 est=70 desc="W: Aria192::new(key): encrypt_block(decrypt_block(b)) == b for all keys and blocks; SL1/SL2 an uninterpreted bijection pair, A in oracle form with consequences of aria_leaf_a_invol / aria_leaf_a_lin as cut assumptions"
aria_rt!(aria192_rt_ed, aria192_rt_de, Aria192, 24);
//@ harness name=aria256_rt_ed prop=C01 tier=quick bits=384 stub=1 est=65 desc="W: Aria256::new(key): decrypt_block(encrypt_block(b)) == b for all 2^256 keys and all blocks; SL1/SL2 an uninterpreted bijection pair, A in oracle form with consequences of aria_leaf_a_invol / aria_leaf_a_lin as cut assumptions"
//@ harness name=aria256_rt_de prop=C01 tier=quick bits=384 stub=1 est=70 desc="W: Aria256::new(key): encrypt_block(decrypt_block(b)) == b for all keys and blocks; SL1/SL2 an uninterpreted bijection pair, A in oracle form with consequences of aria_leaf_a_invol / aria_leaf_a_lin as cut assumptions"
aria_rt!(aria256_rt_ed, aria256_rt_de, Aria256, 32);

// XTEA: conformance to Needham-Wheeler XTEA over little-endian words (C09), round trip (C01), dev-profile
// obligations (C20).  All D: the cipher has no separable leaf (everything is inlined in encrypt_block/decrypt_block).
use super::prelude::*;
use crate::Xtea;
use cipher::{BlockCipherDecrypt, BlockCipherEncrypt, KeyInit};
use refmodels::xtea as r;

//@ harness name=xtea_conf_enc prop=C09,C20 tier=quick bits=192 est=60 desc="D: Xtea::new_from_slice(key).encrypt_block(b) == oracle 32-cycle XTEA encipher over LE words, all 2^128 keys, all 2^64 blocks; no panic/overflow"
verif_harness! {
    name: xtea_conf_enc,
    bytes: 24,
    unwind: 36,
    prop: |inp| {
        let key: [u8; 16] = take(inp, 0);
        let blk: [u8; 8] = take(inp, 16);
        let c = match Xtea::new_from_slice(&key[..]) {
            Ok(c) => c,
            Err(_) => return Some(false),
        };
        let mut b = blk.into();
        c.encrypt_block(&mut b);
        Some(b.0 == r::encrypt(&key, &blk))
    }
}

//@ harness name=xtea_conf_dec prop=C09,C20 tier=quick bits=192 est=115 desc="D: Xtea::new_from_slice(key).decrypt_block(b) == oracle XTEA decipher over LE words, all keys, all blocks; no panic/overflow"
verif_harness! {
    name: xtea_conf_dec,
    bytes: 24,
    unwind: 36,
    prop: |inp| {
        let key: [u8; 16] = take(inp, 0);
        let blk: [u8; 8] = take(inp, 16);
        let c = match Xtea::new_from_slice(&key[..]) {
            Ok(c) => c,
            Err(_) => return Some(false),
        };
        let mut b = blk.into();
        c.decrypt_block(&mut b);
        Some(b.0 == r::decrypt(&key, &blk))
    }
}

//@ harness name=xtea_keylen prop=C09 tier=quick bits=8 est=10 desc="D: Xtea::new_from_slice accepts exactly 16-byte keys (length symbolic 0..=20)"
verif_harness! {
    name: xtea_keylen,
    bytes: 21,
    unwind: 36,
    prop: |inp| {
        let buf: [u8; 20] = take(inp, 0);
        let len = inp[20] as usize;
        vassume!(len <= 20);
        Some(Xtea::new_from_slice(&buf[..len]).is_ok() == (len == 16))
    }
}

//@ harness name=xtea_roundtrip_ed prop=C01 tier=thorough bits=192 est=728 desc="D: decrypt_block(encrypt_block(b)) == b for all 2^128 keys and all 2^64 blocks"
verif_harness! {
    name: xtea_roundtrip_ed,
    bytes: 24,
    unwind: 36,
    prop: |inp| {
        let key: [u8; 16] = take(inp, 0);
        let blk: [u8; 8] = take(inp, 16);
        let c = Xtea::new(&key.into());
        let mut b = blk.into();
        c.encrypt_block(&mut b);
        c.decrypt_block(&mut b);
        Some(b.0 == blk)
    }
}

//@ harness name=xtea_roundtrip_de prop=C01 tier=thorough bits=192 est=728 desc="D: encrypt_block(decrypt_block(b)) == b for all 2^128 keys and all 2^64 blocks"
verif_harness! {
    name: xtea_roundtrip_de,
    bytes: 24,
    unwind: 36,
    prop: |inp| {
        let key: [u8; 16] = take(inp, 0);
        let blk: [u8; 8] = take(inp, 16);
        let c = Xtea::new(&key.into());
        let mut b = blk.into();
        c.decrypt_block(&mut b);
        c.encrypt_block(&mut b);
        Some(b.0 == blk)
    }
}

// Camellia-128/192/256: conformance to RFC 3713 (C06), round trip (C01), no panics / overflow (C20).
//
// L: leaf lemmas over the leaves' full input spaces: F (S-boxes + P via the carry-free multiplication trick,
//    overflow-checked) vs the RFC's byte-wise F; FL / FLINV vs byte-wise versions (and FLINV.FL = id);
//    the subkey extraction gen_subkeys26 / get_subkeys34 (rotations of (u64,u64) pairs with the >= 64 case
//    swapping rotate_left_high / rotate_left_low) vs genuine 128-bit rotations, RFC subkey names.
// W: KeyInit::new + encrypt_block / decrypt_block for every key and block against the oracle with F uninterpreted
//    on both sides (real set_ka / set_kb / subkey extraction / round loops / FL layers).
// Round trip: Feistel with F uninterpreted (any function works), real FL / FLINV.
use super::prelude::*;
use crate::{Camellia128, Camellia192, Camellia256};
use cipher::{BlockCipherDecrypt, BlockCipherEncrypt, KeyInit};
use refmodels::camellia as r;

uf2!(uf_f, u64, u64, u64, [B0 B1], r::f);
pub fn stub_f(x: u64, k: u64) -> u64 {
    uf_f::call(x, k)
}

// ------------------------------------------------------------------------------------------------ leaf lemmas

//@ harness name=cam_leaf_f prop=C06,C20 tier=quick bits=128 est=10 desc="L: crate::utils::f(x, k) (8 S-box lookups times 64-bit spreading constants, overflow-checked multiplications) == RFC 3713 F-function (SBOX2..4 derived from SBOX1 by rotation, P-function as XOR equations) for all 2^128 (x, k)"
verif_harness! {
    name: cam_leaf_f,
    bytes: 16,
    unwind: 20,
    prop: |inp| {
        let x = take_u64(inp, 0);
        let k = take_u64(inp, 8);
        Some(crate::utils::f(x, k) == r::f(x, k))
    }
}

//@ harness name=cam_leaf_fl prop=C06,C01,C20 tier=quick bits=128 est=10 desc="L: crate::utils::fl / flinv == RFC 3713 FL / FLINV (byte-wise oracle) and flinv(fl(x,k),k) == x, fl(flinv(x,k),k) == x for all 2^128 (x, k); u32::try_from never fails"
verif_harness! {
    name: cam_leaf_fl,
    bytes: 16,
    unwind: 20,
    prop: |inp| {
        let x = take_u64(inp, 0);
        let k = take_u64(inp, 8);
        let y = crate::utils::fl(x, k);
        let z = crate::utils::flinv(x, k);
        vcheck!(y == r::fl(x, k));
        vcheck!(z == r::flinv(x, k));
        vcheck!(crate::utils::flinv(y, k) == x);
        vcheck!(crate::utils::fl(z, k) == x);
        Some(true)
    }
}

fn same(a: &[u64], b: &[u64]) -> bool {
    let mut ok = a.len() == b.len();
    let mut i = 0;
    while i < a.len() && i < b.len() {
        ok &= a[i] == b[i];
        i += 1;
    }
    ok
}
fn pair(v: u128) -> (u64, u64) {
    ((v >> 64) as u64, v as u64)
}
/// RFC-named subkeys in the order of the repository's flat table k[0..RK]:
/// kw1 kw2 | k1..k6 | ke1 ke2 | k7..k12 | ke3 ke4 | k13..k18 | [ke5 ke6 | k19..k24] | kw3 kw4
fn flat(s: &r::Subkeys, out: &mut [u64]) {
    out[0] = s.kw[0];
    out[1] = s.kw[1];
    let mut pos = 2;
    let mut i = 0;
    while i < s.nk {
        out[pos] = s.k[i];
        pos += 1;
        i += 1;
        if i % 6 == 0 && i != s.nk {
            let j = i / 6 - 1;
            out[pos] = s.ke[2 * j];
            out[pos + 1] = s.ke[2 * j + 1];
            pos += 2;
        }
    }
    out[pos] = s.kw[2];
    out[pos + 1] = s.kw[3];
}

//@ harness name=cam_leaf_subkeys26 prop=C06,C20 tier=quick bits=256 est=10 desc="L: crate::utils::gen_subkeys26(KL, KA) == RFC 3713 128-bit-key subkey table (kw, k1..18, ke1..4 from 128-bit rotations by 0,15,30,45,60,77,94,111) for all 2^256 (KL, KA); shift amounts never overflow"
verif_harness! {
    name: cam_leaf_subkeys26,
    bytes: 32,
    unwind: 40,
    prop: |inp| {
        let kl = take_u128(inp, 0);
        let ka = take_u128(inp, 16);
        let k = crate::utils::gen_subkeys26(pair(kl), pair(ka));
        let mut e = [0u64; 26];
        flat(&r::subkeys128(kl, ka), &mut e);
        Some(same(&k, &e))
    }
}

//@ harness name=cam_leaf_subkeys34 prop=C06,C20 tier=quick bits=512 est=10 desc="L: crate::utils::get_subkeys34(KL, KR, KA, KB) == RFC 3713 192/256-bit-key subkey table (kw, k1..24, ke1..6) for all 2^512 (KL, KR, KA, KB)"
verif_harness! {
    name: cam_leaf_subkeys34,
    bytes: 64,
    unwind: 70,
    prop: |inp| {
        let kl = take_u128(inp, 0);
        let kr = take_u128(inp, 16);
        let ka = take_u128(inp, 32);
        let kb = take_u128(inp, 48);
        let k = crate::utils::get_subkeys34(pair(kl), pair(kr), pair(ka), pair(kb));
        let mut e = [0u64; 34];
        flat(&r::subkeys256(kl, kr, ka, kb), &mut e);
        Some(same(&k, &e))
    }
}

// ------------------------------------------------------------------------------------------------ wiring (C06)

macro_rules! cam_wire {
    ($enc:ident, $dec:ident, $ty:ty, $kb:expr) => {
        verif_harness! {
            name: $enc,
            bytes: $kb + 16,
            unwind: 70,
            stubs: [(crate::utils::f, stub_f)],
            prop: |inp| {
                let key: [u8; $kb] = take(inp, 0);
                let blk: [u8; 16] = take(inp, $kb);
                let c = <$ty>::new(&key.into());
                let mut b = blk.into();
                c.encrypt_block(&mut b);
                let e = r::encrypt_with(&key, &blk, &uf_f::call);
                Some(b.0 == e)
            }
        }
        verif_harness! {
            name: $dec,
            bytes: $kb + 16,
            unwind: 70,
            stubs: [(crate::utils::f, stub_f)],
            prop: |inp| {
                let key: [u8; $kb] = take(inp, 0);
                let blk: [u8; 16] = take(inp, $kb);
                let c = <$ty>::new(&key.into());
                let mut b = blk.into();
                c.decrypt_block(&mut b);
                let e = r::decrypt_with(&key, &blk, &uf_f::call);
                Some(b.0 == e)
            }
        }
    };
}

//@ harness name=cam128_wire_enc prop=C06,C20 tier=quick bits=256 stub=1 est=70 desc="W: Camellia128::new(key).encrypt_block(b) == RFC 3713 key schedule (KA, subkeys) + 18 rounds with FL/FLINV layers, all 2^128 keys, all blocks; F uninterpreted (shared with the oracle)"
//@ harness name=cam128_wire_dec prop=C06,C20 tier=quick bits=256 stub=1 est=70 desc="W: Camellia128::new(key).decrypt_block(b) == RFC 3713 decryption (subkeys swapped as in 2.3.3), all keys, all blocks; F uninterpreted"
cam_wire!(cam128_wire_enc, cam128_wire_dec, Camellia128, 16);
//@ harness name=cam192_wire_enc prop=C06,C20 tier=quick bits=320 stub=1 est=85 need=4 desc="W: Camellia192::new(key).encrypt_block(b) == RFC 3713 (KR = Kr || ~Kr, KA, KB, subkeys, 24 rounds), all 2^192 keys, all blocks; F uninterpreted"
//@ harness name=cam192_wire_dec prop=C06,C20 tier=quick bits=320 stub=1 est=85 need=4 desc="W: Camellia192::new(key).decrypt_block(b) == RFC 3713 decryption, all keys, all blocks; F uninterpreted"
cam_wire!(cam192_wire_enc, cam192_wire_dec, Camellia192, 24);
//@ harness name=cam256_wire_enc prop=C06,C20 tier=quick bits=384 stub=1 est=90 need=4 desc="W: Camellia256::new(key).encrypt_block(b) == RFC 3713 (KA, KB, subkeys, 24 rounds), all 2^256 keys, all blocks; F uninterpreted"
//@ harness name=cam256_wire_dec prop=C06,C20 tier=quick bits=384 stub=1 est=85 need=4 desc="W: Camellia256::new(key).decrypt_block(b) == RFC 3713 decryption, all keys, all blocks; F uninterpreted"
cam_wire!(cam256_wire_enc, cam256_wire_dec, Camellia256, 32);

// ------------------------------------------------------------------------------------------------ round trip (C01)

macro_rules! cam_rt {
    ($ed:ident, $de:ident, $ty:ty, $kb:expr) => {
        verif_harness! {
            name: $ed,
            bytes: $kb + 16,
            unwind: 70,
            stubs: [(crate::utils::f, stub_f)],
            prop: |inp| {
                let key: [u8; $kb] = take(inp, 0);
                let blk: [u8; 16] = take(inp, $kb);
                let c = <$ty>::new(&key.into());
                let mut b = blk.into();
                c.encrypt_block(&mut b);
                c.decrypt_block(&mut b);
                Some(b.0 == blk)
            }
        }
        verif_harness! {
            name: $de,
            bytes: $kb + 16,
            unwind: 70,
            stubs: [(crate::utils::f, stub_f)],
            prop: |inp| {
                let key: [u8; $kb] = take(inp, 0);
                let blk: [u8; 16] = take(inp, $kb);
                let c = <$ty>::new(&key.into());
                let mut b = blk.into();
                c.decrypt_block(&mut b);
                c.encrypt_block(&mut b);
                Some(b.0 == blk)
            }
        }
    };
}

//@ harness name=cam128_rt_ed prop=C01 tier=quick bits=256 stub=1 est=40 desc="W: Camellia128::new(key): decrypt_block(encrypt_block(b)) == b for all 2^128 keys and all blocks; real key schedule, round loops and FL/FLINV, F uninterpreted (any function works for a Feistel network)"
//@ harness name=cam128_rt_de prop=C01 tier=quick bits=256 stub=1 est=40 desc="W: Camellia128::new(key): encrypt_block(decrypt_block(b)) == b for all keys and blocks; F uninterpreted"
cam_rt!(cam128_rt_ed, cam128_rt_de, Camellia128, 16);
//@ harness name=cam192_rt_ed prop=C01 tier=quick bits=320 stub=1 est=70 desc="W: Camellia192::new(key): decrypt_block(encrypt_block(b)) == b for all 2^192 keys and all blocks; F uninterpreted"
//@ harness name=cam192_rt_de prop=C01 tier=quick bits=320 stub=1 est=60 desc="W: Camellia192::new(key): encrypt_block(decrypt_block(b)) == b for all keys and blocks; F uninterpreted"
cam_rt!(cam192_rt_ed, cam192_rt_de, Camellia192, 24);
//@ harness name=cam256_rt_ed prop=C01 tier=quick bits=384 stub=1 est=65 desc="W: Camellia256::new(key): decrypt_block(encrypt_block(b)) == b for all 2^256 keys and all blocks; F uninterpreted"
//@ harness name=cam256_rt_de prop=C01 tier=quick bits=384 stub=1 est=55 desc="W: Camellia256::new(key): encrypt_block(decrypt_block(b)) == b for all keys and blocks; F uninterpreted"
cam_rt!(cam256_rt_ed, cam256_rt_de, Camellia256, 32);

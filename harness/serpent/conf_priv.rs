// Serpent: the two harnesses that name the crate's PRIVATE helper `expand_key` (key padding).  Separate file and separate
// shadow variant (serpent:priv): if a change renames or removes the helper, only these two stop compiling (inconclusive), and
// the public-API harnesses -- serpent/conf.rs and the constructor pair serpent_short_eq_padded in serpent/xcut.rs, which decides
// the padding clause through new_from_slice alone -- still run and report.
use super::prelude;
use super::prelude::*;
#[allow(dead_code, unused)]
#[path = "/verif/harness/serpent/conf.rs"]
mod conf;
use conf::stub_s;
use crate::Serpent;
use cipher::KeyInit;
use refmodels::serpent as r;

//@ harness name=serpent_key_pad prop=C08,C20 tier=quick bits=261 est=10 desc="L: expand_key(key[..len], 8 len) == key || bit 1 || zeros for every byte length len in 16..=32 (symbolic) and every key"
verif_harness! {
    name: serpent_key_pad,
    bytes: 33,
    unwind: 40,
    prop: |inp| {
        let key: [u8; 32] = take(inp, 0);
        let len = inp[32] as usize;
        vassume!(len >= 16 && len <= 32);
        Some(crate::expand_key(&key[..len], len * 8) == r::pad_key(&key, len))
    }
}

// expand_key is a leaf of the key schedule: serpent_key_pad proves what it returns for every (key, len); here it is
// replaced by a recorder that logs its arguments and returns an arbitrary 256-bit value P (primary input), so that
// the (large) key-schedule query does not depend on the symbolic length.
#[cfg(kani)]
pub mod xk {
    pub static mut RET: [u8; 32] = [0; 32];
    pub static mut SRC: [u8; 32] = [0; 32];
    pub static mut LEN: usize = 0;
    pub static mut BITS: usize = 0;
    pub static mut CALLS: usize = 0;
}
#[cfg(kani)]
pub fn stub_expand_key(source: &[u8], len_bits: usize) -> [u8; 32] {
    unsafe {
        xk::CALLS += 1;
        xk::LEN = source.len();
        xk::BITS = len_bits;
        let mut i = 0;
        while i < 32 {
            if i < source.len() {
                xk::SRC[i] = source[i];
            }
            i += 1;
        }
        xk::RET
    }
}
#[cfg(not(kani))]
pub fn stub_expand_key(source: &[u8], len_bits: usize) -> [u8; 32] {
    crate::expand_key(source, len_bits)
}

//@ harness name=serpent_key_schedule prop=C08,C20 tier=quick bits=517 stub=1 est=265 need=10 desc="W: Serpent::new_from_slice(key[..len]) for symbolic len in 16..=32, every key: expand_key is called exactly once with (key[..len], 8 len) and, for every 256-bit value P it may return, round_keys == oracle(P): prekey recurrence w_i = (w_i-8 ^ w_i-5 ^ w_i-3 ^ w_i-1 ^ PHI ^ i) <<< 11, K_i = S_{(3-i) mod 8}(w_4i..w_4i+3), little-endian words; apply_s uninterpreted (shared); with serpent_key_pad: P = key || 1 || 0.."
verif_harness! {
    name: serpent_key_schedule,
    bytes: 65,
    unwind: 140,
    stubs: [(crate::bitslice::apply_s, stub_s), (crate::expand_key, stub_expand_key)],
    prop: |inp| {
        let key: [u8; 32] = take(inp, 0);
        let len = inp[32] as usize;
        vassume!(len >= 16 && len <= 32);
        #[cfg(kani)]
        let p: [u8; 32] = take(inp, 33);
        #[cfg(kani)]
        unsafe {
            xk::RET = p;
        }
        // native replay runs the real expand_key (stubs do not exist there)
        #[cfg(not(kani))]
        let p: [u8; 32] = crate::expand_key(&key[..len], len * 8);
        let c = match Serpent::new_from_slice(&key[..len]) {
            Ok(c) => c,
            Err(_) => return Some(false),
        };
        #[cfg(kani)]
        unsafe {
            vcheck!(xk::CALLS == 1 && xk::LEN == len && xk::BITS == 8 * len);
            let mut j = 0;
            while j < 32 {
                vcheck!(j >= len || xk::SRC[j] == key[j]);
                j += 1;
            }
        }
        let e = r::key_schedule_with(&p, stub_s);
        let mut i = 0;
        while i < 33 {
            vcheck!(c.round_keys[i] == e[i]);
            i += 1;
        }
        Some(true)
    }
}


// Serpent: conformance to the AES submission (C08), unrolled == looped rounds (C03: the same harnesses run on the
// `serpent` and `serpent:loop` shadows; conformance of both to one oracle implies they agree), round trip (C01),
// panic freedom (C20).
// L: apply_s / apply_s_inv (Osvik's boolean circuits) vs the paper's 4-bit tables on all 32 bit lanes, the linear
//    transformation and its inverse, key padding for every byte length 16..=32.
// W: real key schedule and real 32-round loops with the S-box layer uninterpreted (shared with the oracle);
//    round trips with the S-box layers as uninterpreted mutually inverse permutations (one pair per S-box index).
use super::prelude::*;
use crate::{bitslice, Serpent};
use cipher::{BlockCipherDecrypt, BlockCipherEncrypt, KeyInit};
use refmodels::serpent as r;

fn pack(w: [u32; 4]) -> u128 {
    (w[0] as u128) | ((w[1] as u128) << 32) | ((w[2] as u128) << 64) | ((w[3] as u128) << 96)
}
fn unpack(v: u128) -> [u32; 4] {
    [v as u32, (v >> 32) as u32, (v >> 64) as u32, (v >> 96) as u32]
}
fn words(inp: &[u8], off: usize) -> [u32; 4] {
    [take_u32(inp, off), take_u32(inp, off + 4), take_u32(inp, off + 8), take_u32(inp, off + 12)]
}

// ---- concrete S-box layers on packed states (native replay)
fn s_native(i: u8, x: u128) -> u128 {
    pack(r::apply_s(i as usize, unpack(x)))
}
fn si_native(i: u8, x: u128) -> u128 {
    pack(r::apply_s_inv(i as usize, unpack(x)))
}
// One uninterpreted function per S-box index (the index is a constant at every call site, so calls with
// different indices never have to be compared): us<i> for S_i, ui<i> for S_i^-1; and one uninterpreted bijection
// pair bij<i> = (S_i, S_i^-1) for the round trips.
macro_rules! sbij {
    ($m:ident, $us:ident, $ui:ident, $f:ident, $g:ident, $i:expr) => {
        uf1!($us, u128, u128, [B0], $f);
        uf1!($ui, u128, u128, [B0], $g);
        fn $f(x: u128) -> u128 {
            s_native($i, x)
        }
        fn $g(x: u128) -> u128 {
            si_native($i, x)
        }
        uf_bij!($m, u128, [B0], $f, $g);
    };
}
sbij!(bij0, us0, ui0, s0f, s0i, 0);
sbij!(bij1, us1, ui1, s1f, s1i, 1);
sbij!(bij2, us2, ui2, s2f, s2i, 2);
sbij!(bij3, us3, ui3, s3f, s3i, 3);
sbij!(bij4, us4, ui4, s4f, s4i, 4);
sbij!(bij5, us5, ui5, s5f, s5i, 5);
sbij!(bij6, us6, ui6, s6f, s6i, 6);
sbij!(bij7, us7, ui7, s7f, s7i, 7);
pub fn stub_s(index: usize, w: [u32; 4]) -> [u32; 4] {
    let x = pack(w);
    unpack(match index % 8 {
        0 => us0::call(x),
        1 => us1::call(x),
        2 => us2::call(x),
        3 => us3::call(x),
        4 => us4::call(x),
        5 => us5::call(x),
        6 => us6::call(x),
        _ => us7::call(x),
    })
}
pub fn stub_si(index: usize, w: [u32; 4]) -> [u32; 4] {
    let x = pack(w);
    unpack(match index % 8 {
        0 => ui0::call(x),
        1 => ui1::call(x),
        2 => ui2::call(x),
        3 => ui3::call(x),
        4 => ui4::call(x),
        5 => ui5::call(x),
        6 => ui6::call(x),
        _ => ui7::call(x),
    })
}
pub fn bij_s(index: usize, w: [u32; 4]) -> [u32; 4] {
    let x = pack(w);
    unpack(match index % 8 {
        0 => bij0::fwd(x),
        1 => bij1::fwd(x),
        2 => bij2::fwd(x),
        3 => bij3::fwd(x),
        4 => bij4::fwd(x),
        5 => bij5::fwd(x),
        6 => bij6::fwd(x),
        _ => bij7::fwd(x),
    })
}
pub fn bij_si(index: usize, w: [u32; 4]) -> [u32; 4] {
    let x = pack(w);
    unpack(match index % 8 {
        0 => bij0::inv(x),
        1 => bij1::inv(x),
        2 => bij2::inv(x),
        3 => bij3::inv(x),
        4 => bij4::inv(x),
        5 => bij5::inv(x),
        6 => bij6::inv(x),
        _ => bij7::inv(x),
    })
}

//@ harness name=serpent_leaf_sbox prop=C08,C03,C20 tier=quick bits=192 est=15 desc="L: bitslice::apply_s(index, x) (sbox_e0..e7 circuits) == the paper's table S_{index mod 8} applied to each of the 32 bit lanes, for every usize index and every 128-bit x"
verif_harness! {
    name: serpent_leaf_sbox,
    bytes: 24,
    unwind: 34,
    prop: |inp| {
        let idx = take_u64(inp, 0) as usize;
        let x = words(inp, 8);
        Some(bitslice::apply_s(idx, x) == r::apply_s(idx % 8, x))
    }
}

//@ harness name=serpent_leaf_sbox_inv prop=C08,C03,C20 tier=quick bits=192 est=15 desc="L: bitslice::apply_s_inv(index, x) (sbox_d0..d7 circuits) == the inverse table of S_{index mod 8} applied to each of the 32 bit lanes, every usize index, every 128-bit x"
verif_harness! {
    name: serpent_leaf_sbox_inv,
    bytes: 24,
    unwind: 34,
    prop: |inp| {
        let idx = take_u64(inp, 0) as usize;
        let x = words(inp, 8);
        Some(bitslice::apply_s_inv(idx, x) == r::apply_s_inv(idx % 8, x))
    }
}

//@ harness name=serpent_leaf_sbox_bij prop=C01,C03 tier=quick bits=192 est=20 desc="L: apply_s_inv(i, apply_s(i, x)) == x and apply_s(i, apply_s_inv(i, x)) == x for every index and every 128-bit x (justifies the uninterpreted bijections of the round-trip harnesses)"
verif_harness! {
    name: serpent_leaf_sbox_bij,
    bytes: 24,
    unwind: 20,
    prop: |inp| {
        let idx = take_u64(inp, 0) as usize;
        let x = words(inp, 8);
        vcheck!(bitslice::apply_s_inv(idx, bitslice::apply_s(idx, x)) == x);
        Some(bitslice::apply_s(idx, bitslice::apply_s_inv(idx, x)) == x)
    }
}

//@ harness name=serpent_leaf_lt prop=C08,C03,C20 tier=quick bits=128 est=10 desc="L: bitslice::linear_transform == the paper's LT and linear_transform_inv == its inverse, every 128-bit x; both are mutually inverse"
verif_harness! {
    name: serpent_leaf_lt,
    bytes: 16,
    unwind: 20,
    prop: |inp| {
        let x = words(inp, 0);
        vcheck!(bitslice::linear_transform(x) == r::lt(x));
        vcheck!(bitslice::linear_transform_inv(x) == r::lt_inv(x));
        vcheck!(bitslice::linear_transform_inv(bitslice::linear_transform(x)) == x);
        Some(bitslice::linear_transform(bitslice::linear_transform_inv(x)) == x)
    }
}

// serpent_key_pad and serpent_key_schedule name the private helper `expand_key`; they live in conf_priv.rs (own shadow variant
// serpent:priv), so that a refactoring of that helper cannot stop the harnesses of THIS file from compiling.

fn arb_state(inp: &[u8; 544]) -> (Serpent, [[u32; 4]; 33], [u8; 16]) {
    let mut rk = [[0u32; 4]; 33];
    let mut i = 0;
    while i < 33 {
        rk[i] = words(inp, 16 * i);
        i += 1;
    }
    (Serpent { round_keys: rk }, rk, take(inp, 528))
}

//@ harness name=serpent_wire_enc prop=C08,C03,C20 tier=quick bits=4352 stub=1 est=75 need=4 desc="W: encrypt_block on an arbitrary round-key state (superset of all keys), every block == oracle 32 rounds (key mixing, S_{i mod 8}, LT, last round without LT + K_32); apply_s uninterpreted (shared)"
verif_harness! {
    name: serpent_wire_enc,
    bytes: 544,
    unwind: 70,
    stubs: [(crate::bitslice::apply_s, stub_s)],
    prop: |inp| {
        let (c, rk, blk) = arb_state(inp);
        let mut b = blk.into();
        c.encrypt_block(&mut b);
        Some(b.0 == r::encrypt_with(&rk, &blk, stub_s))
    }
}

//@ harness name=serpent_wire_dec prop=C08,C03,C20 tier=quick bits=4352 stub=1 est=115 need=4 desc="W: decrypt_block on an arbitrary round-key state, every block == oracle inverse rounds; apply_s_inv uninterpreted (shared)"
verif_harness! {
    name: serpent_wire_dec,
    bytes: 544,
    unwind: 70,
    stubs: [(crate::bitslice::apply_s_inv, stub_si)],
    prop: |inp| {
        let (c, rk, blk) = arb_state(inp);
        let mut b = blk.into();
        c.decrypt_block(&mut b);
        Some(b.0 == r::decrypt_with(&rk, &blk, stub_si))
    }
}

//@ harness name=serpent_roundtrip_ed prop=C01,C03 tier=quick bits=4352 stub=1 est=145 need=6 desc="W: decrypt(encrypt(b)) == b on an arbitrary round-key state (superset of all keys of all lengths), every block; S-box layers are uninterpreted mutually inverse permutations (leaf lemma serpent_leaf_sbox_bij), real linear transformations"
verif_harness! {
    name: serpent_roundtrip_ed,
    bytes: 544,
    unwind: 40,
    stubs: [(crate::bitslice::apply_s, bij_s), (crate::bitslice::apply_s_inv, bij_si)],
    prop: |inp| {
        let (c, _rk, blk) = arb_state(inp);
        let mut b = blk.into();
        c.encrypt_block(&mut b);
        c.decrypt_block(&mut b);
        Some(b.0 == blk)
    }
}

//@ harness name=serpent_roundtrip_de prop=C01,C03 tier=quick bits=4352 stub=1 est=135 need=6 desc="W: encrypt(decrypt(b)) == b on an arbitrary round-key state, every block; S-box layers uninterpreted mutually inverse permutations"
verif_harness! {
    name: serpent_roundtrip_de,
    bytes: 544,
    unwind: 40,
    stubs: [(crate::bitslice::apply_s, bij_s), (crate::bitslice::apply_s_inv, bij_si)],
    prop: |inp| {
        let (c, _rk, blk) = arb_state(inp);
        let mut b = blk.into();
        c.decrypt_block(&mut b);
        c.encrypt_block(&mut b);
        Some(b.0 == blk)
    }
}

// Threefish-256/512/1024: conformance to Skein 1.3 section 3.3 (C10), round trip under any tweak (C01), no panic /
// overflow (C20).
//
//   threefish_leaf_mix   L: crate::mix / crate::inv_mix == MIX / MIX^-1 of the spec for every rotation count r: u8 and every
//                        128-bit input, and they are mutually inverse (what the W queries assume about them)
//   tfN_ks               D: new_with_tweak_u64 == key schedule of the spec; new_with_tweak (bytes) == new_with_tweak_u64
//                        of the little-endian words; KeyInit::new(key) == zero tweak.  All keys, all tweaks.
//   tfN_enc / tfN_dec    W: encrypt_block_u64 / decrypt_block_u64 == oracle on an ARBITRARY subkey table (superset of
//                        all keys and tweaks), all blocks; mix / inv_mix uninterpreted, shared with the oracle
//   tfN_bytes_enc/_dec   W: encrypt_block / decrypt_block (byte entry points of the cipher traits) == the u64 entry
//                        points under little-endian encoding
//   tfN_rt_ed / _rt_de   W: decrypt_block_u64(encrypt_block_u64(b)) == b and the converse, arbitrary subkey table
//   tfN_rt_bytes         W: decrypt_block(encrypt_block(b)) == b through the byte entry points
//
// Uninterpreted mix / inv_mix with match hints (module ufm).  Every W query runs two passes with the same number of
// MIX calls (pass 1: implementation; pass 2: oracle, or the inverse direction of the implementation).  Pass 1 logs
// triples (r, a, b) meaning mix(r, a) = b (for an inv_mix call: a := fresh result, b := argument; legitimate because
// of the leaf lemma: mix(r, .) and inv_mix(r, .) are mutually inverse bijections).  The k-th call of pass 2 is
// constrained against exactly ONE logged triple e(k) -- the call of pass 1 that the round structure pairs it with:
//     mix(r, x) -> y:      r == r_e && x == a_e  =>  y == b_e
//     inv_mix(r, x) -> y:  r == r_e && x == b_e  =>  y == a_e
// Each assumed implication holds for the real functions, whatever e(k) is, so a wrong pairing can only produce a
// spurious counterexample (caught by native replay), never a false proof.  No log scan => no quadratic blow-up.
use super::prelude::*;
use crate::{Threefish1024, Threefish256, Threefish512};
use cipher::{BlockCipherDecrypt, BlockCipherEncrypt, KeyInit};
use refmodels::threefish as r;

// One log per block size, as nested static arrays with every dimension <= 64 and constant indices (measured: cheapest
// representation -- one-dimensional banks and individual scalar statics both cost several times more SAT variables).
#[cfg(kani)]
macro_rules! ufm_log {
    ($m:ident, $cap:expr, $d0:expr, $d1:expr, $d2:expr) => {
        pub mod $m {
            pub static mut R: [[[u8; $d2]; $d1]; $d0] = [[[0; $d2]; $d1]; $d0];
            pub static mut A0: [[[u64; $d2]; $d1]; $d0] = [[[0; $d2]; $d1]; $d0];
            pub static mut A1: [[[u64; $d2]; $d1]; $d0] = [[[0; $d2]; $d1]; $d0];
            pub static mut B0: [[[u64; $d2]; $d1]; $d0] = [[[0; $d2]; $d1]; $d0];
            pub static mut B1: [[[u64; $d2]; $d1]; $d0] = [[[0; $d2]; $d1]; $d0];
            pub static mut N: usize = 0;
            pub static mut HALF: usize = 0;
            pub static mut NPAIR: usize = 1;
            pub static mut REV: bool = false;
            /// nr rounds, npair MIX per round; rev: pass 2 walks the rounds backwards (round trips)
            pub fn setup(nr: usize, npair: usize, rev: bool) {
                unsafe {
                    N = 0;
                    HALF = nr * npair;
                    NPAIR = npair;
                    REV = rev;
                }
            }
            pub fn call(fwd: bool, r: u8, x: (u64, u64)) -> (u64, u64) {
                unsafe {
                    let y: (u64, u64) = (kani::any(), kani::any());
                    let k = N;
                    kani::assert(HALF <= $cap && k < 2 * HALF, "VERIF_UF_CAPACITY");
                    if k < HALF {
                        let (i, j, l) = (k / ($d1 * $d2), (k / $d2) % $d1, k % $d2);
                        let (a, b) = if fwd { (x, y) } else { (y, x) };
                        R[i][j][l] = r;
                        A0[i][j][l] = a.0;
                        A1[i][j][l] = a.1;
                        B0[i][j][l] = b.0;
                        B1[i][j][l] = b.1;
                    } else {
                        let m = k - HALF;
                        let e = if REV { (HALF / NPAIR - 1 - m / NPAIR) * NPAIR + m % NPAIR } else { m };
                        let (i, j, l) = (e / ($d1 * $d2), (e / $d2) % $d1, e % $d2);
                        if R[i][j][l] == r {
                            let a = (A0[i][j][l], A1[i][j][l]);
                            let b = (B0[i][j][l], B1[i][j][l]);
                            if fwd {
                                kani::assume(!((a.0 == x.0) & (a.1 == x.1)) | ((b.0 == y.0) & (b.1 == y.1)));
                            } else {
                                kani::assume(!((b.0 == x.0) & (b.1 == x.1)) | ((a.0 == y.0) & (a.1 == y.1)));
                            }
                        }
                    }
                    N = k + 1;
                    y
                }
            }
        }
    };
}
// 144 = 72 x 2, 288 = 72 x 4, 640 = 80 x 8 MIX calls per pass
#[cfg(kani)]
ufm_log!(ufm256, 144, 3, 6, 8);
#[cfg(kani)]
ufm_log!(ufm512, 288, 6, 6, 8);
#[cfg(kani)]
ufm_log!(ufm1024, 640, 10, 8, 8);

//@ harness name=threefish_leaf_mix prop=C10,C01,C20 tier=quick bits=136 est=10 desc="L: crate::mix(r, x) == MIX and crate::inv_mix(r, y) == MIX^-1 of Skein 1.3 for every r: u8 and every 128-bit argument; inv_mix(r, mix(r, x)) == x and mix(r, inv_mix(r, y)) == y"
verif_harness! {
    name: threefish_leaf_mix,
    bytes: 17,
    unwind: 20,
    prop: |inp| {
        let rot = inp[0];
        let x = (take_u64(inp, 1), take_u64(inp, 9));
        vcheck!(crate::mix(rot, x) == r::mix(rot, x));
        vcheck!(crate::inv_mix(rot, x) == r::inv_mix(rot, x));
        vcheck!(crate::inv_mix(rot, crate::mix(rot, x)) == x);
        vcheck!(crate::mix(rot, crate::inv_mix(rot, x)) == x);
        Some(true)
    }
}

macro_rules! tf_inst {
    ($m:ident, $name:ident, nw = $nw:expr, ns = $ns:expr, log = $log:ident) => {
        pub mod $m {
            use super::*;
            pub const NW: usize = $nw;
            pub const NS: usize = $ns;

            #[cfg(kani)]
            fn uf_setup(nw: usize, rev: bool) {
                $log::setup(r::rounds(nw), nw / 2, rev)
            }
            #[cfg(not(kani))]
            fn uf_setup(_nw: usize, _rev: bool) {}
            #[cfg(kani)]
            pub fn stub_mix(r: u8, x: (u64, u64)) -> (u64, u64) {
                $log::call(true, r, x)
            }
            #[cfg(kani)]
            pub fn stub_inv_mix(r: u8, y: (u64, u64)) -> (u64, u64) {
                $log::call(false, r, y)
            }
            // native replay: the oracle's own leaves (the implementation keeps its real ones, #[kani::stub] is inert)
            #[cfg(not(kani))]
            pub fn stub_mix(rot: u8, x: (u64, u64)) -> (u64, u64) {
                r::mix(rot, x)
            }
            #[cfg(not(kani))]
            pub fn stub_inv_mix(rot: u8, y: (u64, u64)) -> (u64, u64) {
                r::inv_mix(rot, y)
            }

            fn same_sk(a: &[[u64; NW]; NS], b: &[[u64; NW]; NS]) -> bool {
                let mut ok = true;
                let mut s = 0;
                while s < NS {
                    let mut i = 0;
                    while i < NW {
                        ok &= a[s][i] == b[s][i];
                        i += 1;
                    }
                    s += 1;
                }
                ok
            }
            fn same_w(a: &[u64; NW], b: &[u64; NW]) -> bool {
                let mut ok = true;
                let mut i = 0;
                while i < NW {
                    ok &= a[i] == b[i];
                    i += 1;
                }
                ok
            }
            fn words(inp: &[u8], off: usize) -> [u64; NW] {
                let mut w = [0u64; NW];
                let mut i = 0;
                while i < NW {
                    w[i] = take_u64(inp, off + 8 * i);
                    i += 1;
                }
                w
            }

            /// inp = key (8 NW bytes) || tweak (16 bytes)
            pub fn ks(inp: &[u8]) -> Option<bool> {
                let key: [u8; 8 * NW] = take(inp, 0);
                let tw: [u8; 16] = take(inp, 8 * NW);
                let kw = r::words_from_le::<NW>(&key);
                let tww = r::words_from_le::<2>(&tw);
                let o = r::key_schedule::<NW, NS>(&kw, &tww);
                let a = $name::new_with_tweak_u64(&kw, &tww);
                vcheck!(same_sk(&a.sk, &o));
                let b = $name::new_with_tweak(&key, &tw);
                vcheck!(same_sk(&b.sk, &o));
                let c = <$name as KeyInit>::new(&key.into());
                let oz = r::key_schedule::<NW, NS>(&kw, &[0, 0]);
                vcheck!(same_sk(&c.sk, &oz));
                Some(true)
            }

            /// inp = subkey table (8 NW NS bytes) || block (8 NW bytes)
            pub fn arb(inp: &[u8]) -> ($name, [[u64; NW]; NS]) {
                let mut sk = [[0u64; NW]; NS];
                let mut s = 0;
                while s < NS {
                    sk[s] = words(inp, 8 * NW * s);
                    s += 1;
                }
                ($name { sk }, sk)
            }
            pub const BLK: usize = 8 * NW * NS;

            pub fn enc(inp: &[u8]) -> Option<bool> {
                uf_setup(NW, false);
                let (c, sk) = arb(inp);
                let p = words(inp, BLK);
                let mut b = p;
                c.encrypt_block_u64(&mut b);
                let e = r::encrypt_with::<NW, NS, _>(&sk, &p, stub_mix);
                Some(same_w(&b, &e))
            }
            pub fn dec(inp: &[u8]) -> Option<bool> {
                uf_setup(NW, false);
                let (c, sk) = arb(inp);
                let p = words(inp, BLK);
                let mut b = p;
                c.decrypt_block_u64(&mut b);
                let e = r::decrypt_with::<NW, NS, _>(&sk, &p, stub_inv_mix);
                Some(same_w(&b, &e))
            }
            /// D variants: the oracle runs on the crate's real mix / inv_mix (== MIX / MIX^-1 by threefish_leaf_mix), no stubs
            pub fn enc_d(inp: &[u8]) -> Option<bool> {
                let (c, sk) = arb(inp);
                let p = words(inp, BLK);
                let mut b = p;
                c.encrypt_block_u64(&mut b);
                let e = r::encrypt_with::<NW, NS, _>(&sk, &p, crate::mix);
                Some(same_w(&b, &e))
            }
            pub fn dec_d(inp: &[u8]) -> Option<bool> {
                let (c, sk) = arb(inp);
                let p = words(inp, BLK);
                let mut b = p;
                c.decrypt_block_u64(&mut b);
                let e = r::decrypt_with::<NW, NS, _>(&sk, &p, crate::inv_mix);
                Some(same_w(&b, &e))
            }
            fn same_bytes(a: &[u8], w: &[u64; NW]) -> bool {
                let mut e = [0u8; 8 * NW];
                r::words_to_le(w, &mut e);
                let mut ok = a.len() == 8 * NW;
                let mut i = 0;
                while i < 8 * NW {
                    ok &= a[i] == e[i];
                    i += 1;
                }
                ok
            }
            pub fn bytes_enc(inp: &[u8]) -> Option<bool> {
                uf_setup(NW, false);
                let (c, _sk) = arb(inp);
                let blk: [u8; 8 * NW] = take(inp, BLK);
                let mut b: cipher::Block<$name> = blk.into();
                c.encrypt_block(&mut b);
                let mut w = r::words_from_le::<NW>(&blk);
                c.encrypt_block_u64(&mut w);
                Some(same_bytes(&b, &w))
            }
            pub fn bytes_dec(inp: &[u8]) -> Option<bool> {
                uf_setup(NW, false);
                let (c, _sk) = arb(inp);
                let blk: [u8; 8 * NW] = take(inp, BLK);
                let mut b: cipher::Block<$name> = blk.into();
                c.decrypt_block(&mut b);
                let mut w = r::words_from_le::<NW>(&blk);
                c.decrypt_block_u64(&mut w);
                Some(same_bytes(&b, &w))
            }
            pub fn rt_ed(inp: &[u8]) -> Option<bool> {
                uf_setup(NW, true);
                let (c, _sk) = arb(inp);
                let p = words(inp, BLK);
                let mut b = p;
                c.encrypt_block_u64(&mut b);
                c.decrypt_block_u64(&mut b);
                Some(same_w(&b, &p))
            }
            pub fn rt_de(inp: &[u8]) -> Option<bool> {
                uf_setup(NW, true);
                let (c, _sk) = arb(inp);
                let p = words(inp, BLK);
                let mut b = p;
                c.decrypt_block_u64(&mut b);
                c.encrypt_block_u64(&mut b);
                Some(same_w(&b, &p))
            }
            pub fn bytes(inp: &[u8]) -> Option<bool> {
                vcheck!(bytes_enc(inp) == Some(true));
                bytes_dec(inp)
            }
            pub fn rt(inp: &[u8]) -> Option<bool> {
                vcheck!(rt_ed(inp) == Some(true));
                rt_de(inp)
            }
            pub fn rt_bytes(inp: &[u8]) -> Option<bool> {
                uf_setup(NW, true);
                let (c, _sk) = arb(inp);
                let blk: [u8; 8 * NW] = take(inp, BLK);
                let mut b: cipher::Block<$name> = blk.into();
                c.encrypt_block(&mut b);
                c.decrypt_block(&mut b);
                let mut ok = true;
                let mut i = 0;
                while i < 8 * NW {
                    ok &= b[i] == blk[i];
                    i += 1;
                }
                Some(ok)
            }
        }
    };
}

tf_inst!(t256, Threefish256, nw = 4, ns = 19, log = ufm256);
tf_inst!(t512, Threefish512, nw = 8, ns = 19, log = ufm512);
tf_inst!(t1024, Threefish1024, nw = 16, ns = 21, log = ufm1024);

// ------------------------------------------------------------------ Threefish-256 (subkey table 608 bytes, block 32 bytes, 288 MIX calls per harness)

//@ harness name=tf256_ks prop=C10,C20 tier=quick bits=384 est=40 desc="D: Threefish256 new_with_tweak_u64 == Skein 1.3 key schedule (C240, t2 = t0^t1, 19 subkeys); new_with_tweak(bytes) == same on LE words; KeyInit::new == zero tweak; all keys and tweaks"
verif_harness! {
    name: tf256_ks,
    bytes: 48,
    unwind: 140,
    prop: |inp| { t256::ks(inp) }
}
//@ harness name=tf256_enc prop=C10,C20 tier=quick bits=5120 stub=1 est=90 need=5 desc="W: Threefish256::encrypt_block_u64 == oracle (72 rounds, subkey every 4 rounds, permutation pi, rotation table) on an ARBITRARY subkey table, all blocks; mix uninterpreted"
verif_harness! {
    name: tf256_enc,
    bytes: 640,
    unwind: 140,
    stubs: [(crate::mix, t256::stub_mix), (crate::inv_mix, t256::stub_inv_mix)],
    prop: |inp| { t256::enc(inp) }
}
//@ harness name=tf256_dec prop=C10,C20 tier=quick bits=5120 stub=1 est=85 need=5 desc="W: Threefish256::decrypt_block_u64 == oracle decryption on an ARBITRARY subkey table, all blocks; inv_mix uninterpreted"
verif_harness! {
    name: tf256_dec,
    bytes: 640,
    unwind: 140,
    stubs: [(crate::mix, t256::stub_mix), (crate::inv_mix, t256::stub_inv_mix)],
    prop: |inp| { t256::dec(inp) }
}
//@ harness name=tf256_bytes_enc prop=C10,C20 tier=quick bits=5120 stub=1 est=95 need=9 desc="W: Threefish256 encrypt_block (bytes) == LE(encrypt_block_u64(LE words)), ARBITRARY subkey table, all blocks"
verif_harness! {
    name: tf256_bytes_enc,
    bytes: 640,
    unwind: 140,
    stubs: [(crate::mix, t256::stub_mix), (crate::inv_mix, t256::stub_inv_mix)],
    prop: |inp| { t256::bytes_enc(inp) }
}
//@ harness name=tf256_bytes_dec prop=C10,C20 tier=quick bits=5120 stub=1 est=95 need=9 desc="W: Threefish256 decrypt_block (bytes) == LE(decrypt_block_u64(LE words)), ARBITRARY subkey table, all blocks"
verif_harness! {
    name: tf256_bytes_dec,
    bytes: 640,
    unwind: 140,
    stubs: [(crate::mix, t256::stub_mix), (crate::inv_mix, t256::stub_inv_mix)],
    prop: |inp| { t256::bytes_dec(inp) }
}
//@ harness name=tf256_rt_ed prop=C01,C20 tier=quick bits=5120 stub=1 est=100 need=5 desc="W: Threefish256 decrypt_block_u64(encrypt_block_u64(b)) == b on an ARBITRARY subkey table (any key, any tweak), all blocks; mix / inv_mix uninterpreted mutual inverses (leaf lemma)"
verif_harness! {
    name: tf256_rt_ed,
    bytes: 640,
    unwind: 140,
    stubs: [(crate::mix, t256::stub_mix), (crate::inv_mix, t256::stub_inv_mix)],
    prop: |inp| { t256::rt_ed(inp) }
}
//@ harness name=tf256_rt_de prop=C01,C20 tier=quick bits=5120 stub=1 est=105 need=5 desc="W: Threefish256 encrypt_block_u64(decrypt_block_u64(b)) == b on an ARBITRARY subkey table, all blocks"
verif_harness! {
    name: tf256_rt_de,
    bytes: 640,
    unwind: 140,
    stubs: [(crate::mix, t256::stub_mix), (crate::inv_mix, t256::stub_inv_mix)],
    prop: |inp| { t256::rt_de(inp) }
}
//@ harness name=tf256_rt_bytes prop=C01,C20 tier=thorough bits=5120 stub=1 est=130 need=6 desc="W: Threefish256 decrypt_block(encrypt_block(b)) == b through the byte entry points, ARBITRARY subkey table, all blocks"
verif_harness! {
    name: tf256_rt_bytes,
    bytes: 640,
    unwind: 140,
    stubs: [(crate::mix, t256::stub_mix), (crate::inv_mix, t256::stub_inv_mix)],
    prop: |inp| { t256::rt_bytes(inp) }
}

// ------------------------------------------------------------------ Threefish-512 (subkey table 1216 bytes, block 64 bytes, 576 MIX calls per harness)

//@ harness name=tf512_ks prop=C10,C20 tier=quick bits=640 est=50 desc="D: Threefish512 new_with_tweak_u64 == Skein 1.3 key schedule (C240, t2 = t0^t1, 19 subkeys); new_with_tweak(bytes) == same on LE words; KeyInit::new == zero tweak; all keys and tweaks"
verif_harness! {
    name: tf512_ks,
    bytes: 80,
    unwind: 140,
    prop: |inp| { t512::ks(inp) }
}
//@ harness name=tf512_enc prop=C10,C20 tier=quick bits=10240 stub=1 est=240 need=10 desc="W: Threefish512::encrypt_block_u64 == oracle (72 rounds, subkey every 4 rounds, permutation pi, rotation table) on an ARBITRARY subkey table, all blocks; mix uninterpreted"
verif_harness! {
    name: tf512_enc,
    bytes: 1280,
    unwind: 140,
    stubs: [(crate::mix, t512::stub_mix), (crate::inv_mix, t512::stub_inv_mix)],
    prop: |inp| { t512::enc(inp) }
}
//@ harness name=tf512_dec prop=C10,C20 tier=quick bits=10240 stub=1 est=210 need=10 desc="W: Threefish512::decrypt_block_u64 == oracle decryption on an ARBITRARY subkey table, all blocks; inv_mix uninterpreted"
verif_harness! {
    name: tf512_dec,
    bytes: 1280,
    unwind: 140,
    stubs: [(crate::mix, t512::stub_mix), (crate::inv_mix, t512::stub_inv_mix)],
    prop: |inp| { t512::dec(inp) }
}
//@ harness name=tf512_bytes_enc prop=C10,C20 tier=thorough bits=10240 stub=1 mem=26 est=270 need=17 desc="W: Threefish512 encrypt_block (bytes) == LE(encrypt_block_u64(LE words)), ARBITRARY subkey table, all blocks"
verif_harness! {
    name: tf512_bytes_enc,
    bytes: 1280,
    unwind: 140,
    stubs: [(crate::mix, t512::stub_mix), (crate::inv_mix, t512::stub_inv_mix)],
    prop: |inp| { t512::bytes_enc(inp) }
}
//@ harness name=tf512_bytes_dec prop=C10,C20 tier=thorough bits=10240 stub=1 mem=26 est=280 need=17 desc="W: Threefish512 decrypt_block (bytes) == LE(decrypt_block_u64(LE words)), ARBITRARY subkey table, all blocks"
verif_harness! {
    name: tf512_bytes_dec,
    bytes: 1280,
    unwind: 140,
    stubs: [(crate::mix, t512::stub_mix), (crate::inv_mix, t512::stub_inv_mix)],
    prop: |inp| { t512::bytes_dec(inp) }
}
//@ harness name=tf512_rt_ed prop=C01,C20 tier=thorough bits=10240 stub=1 est=348 need=10 desc="W: Threefish512 decrypt_block_u64(encrypt_block_u64(b)) == b on an ARBITRARY subkey table (any key, any tweak), all blocks; mix / inv_mix uninterpreted mutual inverses (leaf lemma)"
verif_harness! {
    name: tf512_rt_ed,
    bytes: 1280,
    unwind: 140,
    stubs: [(crate::mix, t512::stub_mix), (crate::inv_mix, t512::stub_inv_mix)],
    prop: |inp| { t512::rt_ed(inp) }
}
//@ harness name=tf512_rt_de prop=C01,C20 tier=thorough bits=10240 stub=1 est=230 need=11 desc="W: Threefish512 encrypt_block_u64(decrypt_block_u64(b)) == b on an ARBITRARY subkey table, all blocks"
verif_harness! {
    name: tf512_rt_de,
    bytes: 1280,
    unwind: 140,
    stubs: [(crate::mix, t512::stub_mix), (crate::inv_mix, t512::stub_inv_mix)],
    prop: |inp| { t512::rt_de(inp) }
}
//@ harness name=tf512_rt_bytes prop=C01,C20 tier=thorough bits=10240 stub=1 est=305 need=10 desc="W: Threefish512 decrypt_block(encrypt_block(b)) == b through the byte entry points, ARBITRARY subkey table, all blocks"
verif_harness! {
    name: tf512_rt_bytes,
    bytes: 1280,
    unwind: 140,
    stubs: [(crate::mix, t512::stub_mix), (crate::inv_mix, t512::stub_inv_mix)],
    prop: |inp| { t512::rt_bytes(inp) }
}

// ------------------------------------------------------------------ Threefish-1024 (subkey table 2688 bytes, block 128 bytes)

//@ harness name=tf1024_ks prop=C10,C20 tier=quick bits=1152 est=95 need=6 desc="D: Threefish1024 new_with_tweak_u64 == Skein 1.3 key schedule (C240, t2 = t0^t1, 21 subkeys); new_with_tweak(bytes) == same on LE words; KeyInit::new == zero tweak; all keys and tweaks"
verif_harness! {
    name: tf1024_ks,
    bytes: 144,
    unwind: 140,
    prop: |inp| { t1024::ks(inp) }
}
// Not planned: the W queries of Threefish-1024 (tf1024_enc, _dec, _bytes_enc, _bytes_dec, _rt_ed, _rt_de, _rt_bytes with the
// 640-entry log ufm1024: 1280 uninterpreted MIX calls per query).  Measured with one job and a 30 GB address-space cap:
// tf1024_enc ran out of memory during symbolic execution (12.9 GB resident, no SAT instance produced); the 512-bit
// instances with 576 calls already need 8.4 - 14 GB.  What is covered for Threefish-1024: the key schedule (tf1024_ks),
// the MIX leaf for every rotation count (threefish_leaf_mix), and the same generic round code (macro impl_threefish!)
// as Threefish-256/512, whose W queries pass.  The module t1024 keeps the W functions for native replay / future use.
// Also tried and dropped: the D query t1024::enc_d (oracle on the crate's own mix, nothing stubbed): 4.8 GB, no verdict
// after 60 min of SAT solving.
